import EdVerif.Spec.Curve25519

/-! Refinement lemmas for the projective coordinate systems used by the Go code
(`Point` = extended/P3, `projP2`, `projP1xP1`, `projCached`, `affineCached`), purely over `F`.

For every coordinate system there is
* a relation `…Rep coords p` : "the coordinates represent the affine point `p : Ed25519`"
  (the work-horse: all operation lemmas are stated with it, no dependent proofs anywhere),
* a predicate `…Valid coords` (`↔ ∃ p, …Rep coords p`) and a total function `…ToEd coords`
  (the represented point; `0` on invalid input), with `…Rep coords p ↔ …Valid coords ∧ …ToEd coords = p`.
-/
namespace EdVerif.Spec

/-! ### generalities -/

theorem Ed25519.curve_eq (p : Ed25519) : -p.x ^ 2 + p.y ^ 2 = 1 + d * p.x ^ 2 * p.y ^ 2 := p.on

theorem Ed25519.den_plus (p q : Ed25519) : 1 + d * p.x * q.x * p.y * q.y ≠ 0 :=
  den_plus_ne_zero p.on q.on

theorem Ed25519.den_minus (p q : Ed25519) : 1 - d * p.x * q.x * p.y * q.y ≠ 0 :=
  den_minus_ne_zero p.on q.on

open Classical in
/-- the point satisfying `R` (if there is one; `0` otherwise) -/
noncomputable def thePoint (R : Ed25519 → Prop) : Ed25519 := if h : ∃ p, R p then h.choose else 0

theorem thePoint_eq {R : Ed25519 → Prop} (huniq : ∀ p q, R p → R q → p = q) {p : Ed25519}
    (h : R p) : thePoint R = p := by
  have hex : ∃ p, R p := ⟨p, h⟩
  unfold thePoint; rw [dif_pos hex]; exact huniq _ _ hex.choose_spec h

theorem rep_iff_thePoint {R : Ed25519 → Prop} (huniq : ∀ p q, R p → R q → p = q) {p : Ed25519} :
    R p ↔ (∃ q, R q) ∧ thePoint R = p := by
  constructor
  · intro h; exact ⟨⟨p, h⟩, thePoint_eq huniq h⟩
  · rintro ⟨⟨q, hq⟩, rfl⟩; rw [thePoint_eq huniq hq]; exact hq

/-! ### the representation relations -/

/-- `(X:Y:Z)` (Go `projP2`) represents `p`: `Z ≠ 0`, `p = (X/Z, Y/Z)` -/
structure P2Rep (X Y Z : F) (p : Ed25519) : Prop where
  z_ne : Z ≠ 0
  hx : X = p.x * Z
  hy : Y = p.y * Z

/-- `(X:Y:Z:T)` (Go `Point`, extended coordinates) represents `p` -/
structure ExtRep (X Y Z T : F) (p : Ed25519) : Prop where
  z_ne : Z ≠ 0
  hx : X = p.x * Z
  hy : Y = p.y * Z
  ht : T = p.x * p.y * Z

/-- `((X:Z),(Y:T))` (Go `projP1xP1`, completed point) represents `p = (X/Z, Y/T)` -/
structure P1xP1Rep (X Y Z T : F) (p : Ed25519) : Prop where
  z_ne : Z ≠ 0
  t_ne : T ≠ 0
  hx : X = p.x * Z
  hy : Y = p.y * T

/-- Go `projCached` `(Y+X, Y-X, Z, 2dT)` represents `p` -/
structure CachedRep (YpX YmX Z T2d : F) (p : Ed25519) : Prop where
  z_ne : Z ≠ 0
  hp : YpX = (p.y + p.x) * Z
  hm : YmX = (p.y - p.x) * Z
  ht : T2d = 2 * d * p.x * p.y * Z

/-- Go `affineCached` `(y+x, y-x, 2dxy)` represents `p` -/
structure AffCachedRep (YpX YmX T2d : F) (p : Ed25519) : Prop where
  hp : YpX = p.y + p.x
  hm : YmX = p.y - p.x
  ht : T2d = 2 * d * p.x * p.y

variable {X Y Z T X1 Y1 Z1 T1 X2 Y2 Z2 T2 X3 Y3 Z3 T3 YpX YmX T2d : F} {p q : Ed25519}

/-! ### uniqueness of the represented point -/

theorem P2Rep.unique (h1 : P2Rep X Y Z p) (h2 : P2Rep X Y Z q) : p = q := by
  obtain ⟨hz, hx, hy⟩ := h1
  obtain ⟨-, hx', hy'⟩ := h2
  ext
  · exact mul_right_cancel₀ hz (hx.symm.trans hx')
  · exact mul_right_cancel₀ hz (hy.symm.trans hy')

theorem ExtRep.toP2 (h : ExtRep X Y Z T p) : P2Rep X Y Z p := ⟨h.z_ne, h.hx, h.hy⟩

theorem ExtRep.unique (h1 : ExtRep X Y Z T p) (h2 : ExtRep X Y Z T q) : p = q :=
  h1.toP2.unique h2.toP2

theorem P1xP1Rep.unique (h1 : P1xP1Rep X Y Z T p) (h2 : P1xP1Rep X Y Z T q) : p = q := by
  obtain ⟨hz, ht, hx, hy⟩ := h1
  obtain ⟨-, -, hx', hy'⟩ := h2
  ext
  · exact mul_right_cancel₀ hz (hx.symm.trans hx')
  · exact mul_right_cancel₀ ht (hy.symm.trans hy')

theorem AffCachedRep.unique (h1 : AffCachedRep YpX YmX T2d p) (h2 : AffCachedRep YpX YmX T2d q) :
    p = q := by
  obtain ⟨hp, hm, -⟩ := h1
  obtain ⟨hp', hm', -⟩ := h2
  ext
  · apply mul_left_cancel₀ two_ne_zero; linear_combination hp' - hp - hm' + hm
  · apply mul_left_cancel₀ two_ne_zero; linear_combination hp' - hp + hm' - hm

theorem CachedRep.unique (h1 : CachedRep YpX YmX Z T2d p) (h2 : CachedRep YpX YmX Z T2d q) :
    p = q := by
  obtain ⟨hz, hp, hm, -⟩ := h1
  obtain ⟨-, hp', hm', -⟩ := h2
  have e1 : p.y + p.x = q.y + q.x := mul_right_cancel₀ hz (hp.symm.trans hp')
  have e2 : p.y - p.x = q.y - q.x := mul_right_cancel₀ hz (hm.symm.trans hm')
  ext
  · apply mul_left_cancel₀ two_ne_zero; linear_combination e1 - e2
  · apply mul_left_cancel₀ two_ne_zero; linear_combination e1 + e2

/-! ### validity predicates and total abstraction functions -/

/-- a valid extended point (Go `Point`): `Z ≠ 0`, on the projective curve, `T = XY/Z` -/
structure ExtValid (X Y Z T : F) : Prop where
  z_ne : Z ≠ 0
  curve : -X ^ 2 + Y ^ 2 = Z ^ 2 + d * T ^ 2
  segre : X * Y = Z * T

/-- a valid `projP2` point -/
structure P2Valid (X Y Z : F) : Prop where
  z_ne : Z ≠ 0
  on : onCurve (X / Z) (Y / Z)

/-- a valid `projP1xP1` point -/
structure P1xP1Valid (X Y Z T : F) : Prop where
  z_ne : Z ≠ 0
  t_ne : T ≠ 0
  on : onCurve (X / Z) (Y / T)

/-- a valid `projCached` point -/
def CachedValid (YpX YmX Z T2d : F) : Prop := ∃ p, CachedRep YpX YmX Z T2d p

/-- a valid `affineCached` point -/
def AffCachedValid (YpX YmX T2d : F) : Prop := ∃ p, AffCachedRep YpX YmX T2d p

/-- the affine point of a valid extended point lies on the curve -/
theorem ExtValid.onCurve (h : ExtValid X Y Z T) : onCurve (X / Z) (Y / Z) := by
  obtain ⟨hz, hc, hs⟩ := h
  have hX : X = X / Z * Z := by field_simp
  have hY : Y = Y / Z * Z := by field_simp
  generalize X / Z = x at *
  generalize Y / Z = y at *
  subst hX hY
  have hT : T = x * y * Z := mul_left_cancel₀ hz (by linear_combination -hs)
  subst hT
  unfold Spec.onCurve
  apply mul_left_cancel₀ (pow_ne_zero 2 hz)
  linear_combination hc

/-- the affine point represented by extended coordinates (`0` if invalid) -/
noncomputable def toEd (X Y Z T : F) : Ed25519 := thePoint (ExtRep X Y Z T)
/-- the affine point represented by `projP2` coordinates (`0` if invalid) -/
noncomputable def p2ToEd (X Y Z : F) : Ed25519 := thePoint (P2Rep X Y Z)
/-- the affine point represented by `projP1xP1` coordinates (`0` if invalid) -/
noncomputable def p1xp1ToEd (X Y Z T : F) : Ed25519 := thePoint (P1xP1Rep X Y Z T)
/-- the affine point represented by `projCached` coordinates (`0` if invalid) -/
noncomputable def cachedToEd (YpX YmX Z T2d : F) : Ed25519 := thePoint (CachedRep YpX YmX Z T2d)
/-- the affine point represented by `affineCached` coordinates (`0` if invalid) -/
noncomputable def affCachedToEd (YpX YmX T2d : F) : Ed25519 := thePoint (AffCachedRep YpX YmX T2d)

theorem ExtRep.valid (h : ExtRep X Y Z T p) : ExtValid X Y Z T := by
  obtain ⟨hz, rfl, rfl, rfl⟩ := h
  refine ⟨hz, ?_, by ring⟩
  linear_combination Z ^ 2 * p.curve_eq

theorem ExtValid.rep (h : ExtValid X Y Z T) : ExtRep X Y Z T (Ed25519.mk (X / Z) (Y / Z) h.onCurve) := by
  have hz := h.z_ne
  refine ⟨hz, ?_, ?_, ?_⟩
  · simp only [Ed25519.mk_x]; field_simp
  · simp only [Ed25519.mk_y]; field_simp
  · simp only [Ed25519.mk_x, Ed25519.mk_y]
    apply mul_left_cancel₀ hz
    rw [← h.segre]; field_simp

theorem extValid_iff : ExtValid X Y Z T ↔ ∃ p, ExtRep X Y Z T p :=
  ⟨fun h => ⟨_, h.rep⟩, fun ⟨_, h⟩ => h.valid⟩

theorem P2Rep.valid (h : P2Rep X Y Z p) : P2Valid X Y Z := by
  obtain ⟨hz, rfl, rfl⟩ := h
  refine ⟨hz, ?_⟩
  rw [mul_div_cancel_right₀ _ hz, mul_div_cancel_right₀ _ hz]; exact p.on

theorem P2Valid.rep (h : P2Valid X Y Z) : P2Rep X Y Z (Ed25519.mk (X / Z) (Y / Z) h.on) := by
  have hz := h.z_ne
  refine ⟨hz, ?_, ?_⟩
  · simp only [Ed25519.mk_x]; field_simp
  · simp only [Ed25519.mk_y]; field_simp

theorem p2Valid_iff : P2Valid X Y Z ↔ ∃ p, P2Rep X Y Z p :=
  ⟨fun h => ⟨_, h.rep⟩, fun ⟨_, h⟩ => h.valid⟩

theorem P1xP1Rep.valid (h : P1xP1Rep X Y Z T p) : P1xP1Valid X Y Z T := by
  obtain ⟨hz, ht, rfl, rfl⟩ := h
  refine ⟨hz, ht, ?_⟩
  rw [mul_div_cancel_right₀ _ hz, mul_div_cancel_right₀ _ ht]; exact p.on

theorem P1xP1Valid.rep (h : P1xP1Valid X Y Z T) :
    P1xP1Rep X Y Z T (Ed25519.mk (X / Z) (Y / T) h.on) := by
  have hz := h.z_ne
  have ht := h.t_ne
  refine ⟨hz, ht, ?_, ?_⟩
  · simp only [Ed25519.mk_x]; field_simp
  · simp only [Ed25519.mk_y]; field_simp

theorem p1xp1Valid_iff : P1xP1Valid X Y Z T ↔ ∃ p, P1xP1Rep X Y Z T p :=
  ⟨fun h => ⟨_, h.rep⟩, fun ⟨_, h⟩ => h.valid⟩

/-- `ExtRep` is "valid and `toEd` = p" -/
theorem extRep_iff : ExtRep X Y Z T p ↔ ExtValid X Y Z T ∧ toEd X Y Z T = p := by
  rw [extValid_iff]; exact rep_iff_thePoint (fun _ _ => ExtRep.unique)

theorem p2Rep_iff : P2Rep X Y Z p ↔ P2Valid X Y Z ∧ p2ToEd X Y Z = p := by
  rw [p2Valid_iff]; exact rep_iff_thePoint (fun _ _ => P2Rep.unique)

theorem p1xp1Rep_iff : P1xP1Rep X Y Z T p ↔ P1xP1Valid X Y Z T ∧ p1xp1ToEd X Y Z T = p := by
  rw [p1xp1Valid_iff]; exact rep_iff_thePoint (fun _ _ => P1xP1Rep.unique)

theorem cachedRep_iff :
    CachedRep YpX YmX Z T2d p ↔ CachedValid YpX YmX Z T2d ∧ cachedToEd YpX YmX Z T2d = p :=
  rep_iff_thePoint (fun _ _ => CachedRep.unique)

theorem affCachedRep_iff :
    AffCachedRep YpX YmX T2d p ↔ AffCachedValid YpX YmX T2d ∧ affCachedToEd YpX YmX T2d = p :=
  rep_iff_thePoint (fun _ _ => AffCachedRep.unique)

theorem ExtRep.toEd_eq (h : ExtRep X Y Z T p) : toEd X Y Z T = p := (extRep_iff.mp h).2
theorem P2Rep.toEd_eq (h : P2Rep X Y Z p) : p2ToEd X Y Z = p := (p2Rep_iff.mp h).2
theorem P1xP1Rep.toEd_eq (h : P1xP1Rep X Y Z T p) : p1xp1ToEd X Y Z T = p := (p1xp1Rep_iff.mp h).2
theorem CachedRep.toEd_eq (h : CachedRep YpX YmX Z T2d p) : cachedToEd YpX YmX Z T2d = p :=
  (cachedRep_iff.mp h).2
theorem AffCachedRep.toEd_eq (h : AffCachedRep YpX YmX T2d p) : affCachedToEd YpX YmX T2d = p :=
  (affCachedRep_iff.mp h).2

theorem ExtValid.toEd_rep (h : ExtValid X Y Z T) : ExtRep X Y Z T (toEd X Y Z T) :=
  extRep_iff.mpr ⟨h, rfl⟩
theorem P2Valid.toEd_rep (h : P2Valid X Y Z) : P2Rep X Y Z (p2ToEd X Y Z) :=
  p2Rep_iff.mpr ⟨h, rfl⟩
theorem P1xP1Valid.toEd_rep (h : P1xP1Valid X Y Z T) : P1xP1Rep X Y Z T (p1xp1ToEd X Y Z T) :=
  p1xp1Rep_iff.mpr ⟨h, rfl⟩
theorem CachedValid.toEd_rep (h : CachedValid YpX YmX Z T2d) :
    CachedRep YpX YmX Z T2d (cachedToEd YpX YmX Z T2d) := cachedRep_iff.mpr ⟨h, rfl⟩
theorem AffCachedValid.toEd_rep (h : AffCachedValid YpX YmX T2d) :
    AffCachedRep YpX YmX T2d (affCachedToEd YpX YmX T2d) := affCachedRep_iff.mpr ⟨h, rfl⟩

theorem ExtValid.toEd_eq_mk (h : ExtValid X Y Z T) :
    toEd X Y Z T = Ed25519.mk (X / Z) (Y / Z) h.onCurve := h.rep.toEd_eq

theorem ExtRep.x_eq (h : ExtRep X Y Z T p) : p.x = X / Z := by
  rw [h.hx, mul_div_cancel_right₀ _ h.z_ne]
theorem ExtRep.y_eq (h : ExtRep X Y Z T p) : p.y = Y / Z := by
  rw [h.hy, mul_div_cancel_right₀ _ h.z_ne]

/-- affine coordinates of `toEd` (as computed by the encoder: `x = X·Z⁻¹`, `y = Y·Z⁻¹`) -/
theorem ExtValid.toEd_x (h : ExtValid X Y Z T) : (toEd X Y Z T).x = X / Z := h.toEd_rep.x_eq
theorem ExtValid.toEd_y (h : ExtValid X Y Z T) : (toEd X Y Z T).y = Y / Z := h.toEd_rep.y_eq

/-! ### constants, decoding -/

theorem extRep_zero : ExtRep 0 1 1 0 (0 : Ed25519) := ⟨one_ne_zero, by simp, by simp, by simp⟩
theorem p2Rep_zero : P2Rep 0 1 1 (0 : Ed25519) := ⟨one_ne_zero, by simp, by simp⟩
theorem cachedRep_zero : CachedRep 1 1 1 0 (0 : Ed25519) :=
  ⟨one_ne_zero, by simp, by simp, by simp⟩
theorem affCachedRep_zero : AffCachedRep 1 1 0 (0 : Ed25519) := ⟨by simp, by simp, by simp⟩

theorem extValid_zero : ExtValid (0 : F) 1 1 0 := extRep_zero.valid
theorem toEd_zero : toEd (0 : F) 1 1 0 = 0 := extRep_zero.toEd_eq

/-- an affine curve point `(x, y)` as the extended point `(x, y, 1, xy)` (decoder output) -/
theorem extRep_affine {x y : F} (h : onCurve x y) : ExtRep x y 1 (x * y) (Ed25519.mk x y h) :=
  ⟨one_ne_zero, by simp, by simp, by simp⟩

/-- an extended point with `Z = 1` -/
theorem ExtRep.of_z_one {x y t : F} (h : onCurve x y) (ht : t = x * y) :
    ExtRep x y 1 t (Ed25519.mk x y h) := by subst ht; exact extRep_affine h

/-- decoding: the curve equation solved for `x²` : `x² (d y² + 1) = y² - 1` -/
theorem onCurve_iff_decode (x y : F) : onCurve x y ↔ (d * y ^ 2 + 1) * x ^ 2 = y ^ 2 - 1 := by
  unfold onCurve
  constructor <;> intro h <;> linear_combination -h

/-- the denominator `v = d y² + 1` of the decoding equation never vanishes -/
theorem decode_den_ne_zero (y : F) : d * y ^ 2 + 1 ≠ 0 := by
  intro h
  have hy : y ≠ 0 := by
    rintro rfl
    simp at h
  apply d_not_square
  refine ⟨sqrtM1 / y, ?_⟩
  rw [div_mul_div_comm, eq_div_iff (mul_ne_zero hy hy)]
  linear_combination h - sqrtM1_sq

/-! ### conversions between coordinate systems -/

/-- `projP2.FromP3` -/
theorem ExtRep.toP2' (h : ExtRep X Y Z T p) : P2Rep X Y Z p := h.toP2

/-- `projP2.FromP1xP1` -/
theorem P1xP1Rep.toP2 (h : P1xP1Rep X Y Z T p) : P2Rep (X * T) (Y * Z) (Z * T) p := by
  obtain ⟨hz, ht, rfl, rfl⟩ := h
  exact ⟨mul_ne_zero hz ht, by ring, by ring⟩

/-- `Point.fromP1xP1` -/
theorem P1xP1Rep.toExt (h : P1xP1Rep X Y Z T p) : ExtRep (X * T) (Y * Z) (Z * T) (X * Y) p := by
  obtain ⟨hz, ht, rfl, rfl⟩ := h
  exact ⟨mul_ne_zero hz ht, by ring, by ring, by ring⟩

/-- `Point.fromP2` -/
theorem P2Rep.toExt (h : P2Rep X Y Z p) : ExtRep (X * Z) (Y * Z) (Z ^ 2) (X * Y) p := by
  obtain ⟨hz, rfl, rfl⟩ := h
  exact ⟨pow_ne_zero 2 hz, by ring, by ring, by ring⟩

/-- `projCached.FromP3` -/
theorem ExtRep.toCached (h : ExtRep X Y Z T p) : CachedRep (Y + X) (Y - X) Z (2 * d * T) p := by
  obtain ⟨hz, rfl, rfl, rfl⟩ := h
  exact ⟨hz, by ring, by ring, by ring⟩

/-- `affineCached.FromP3` -/
theorem ExtRep.toAffCached (h : ExtRep X Y Z T p) :
    AffCachedRep ((Y + X) * Z⁻¹) ((Y - X) * Z⁻¹) (2 * d * T * Z⁻¹) p := by
  obtain ⟨hz, rfl, rfl, rfl⟩ := h
  refine ⟨?_, ?_, ?_⟩ <;> field_simp

/-- an `affineCached` point is a `projCached` point with `Z = 1` -/
theorem AffCachedRep.toCached (h : AffCachedRep YpX YmX T2d p) : CachedRep YpX YmX 1 T2d p := by
  obtain ⟨rfl, rfl, rfl⟩ := h
  exact ⟨one_ne_zero, by ring, by ring, by ring⟩

/-! ### negation -/

/-- `Point.Negate` -/
theorem ExtRep.neg (h : ExtRep X Y Z T p) : ExtRep (-X) Y Z (-T) (-p) := by
  obtain ⟨hz, rfl, rfl, rfl⟩ := h
  exact ⟨hz, by simp, by simp, by simp⟩

/-- `projCached.CondNeg` (taken branch): swap `Y+X`, `Y-X`, negate `2dT` -/
theorem CachedRep.neg (h : CachedRep YpX YmX Z T2d p) : CachedRep YmX YpX Z (-T2d) (-p) := by
  obtain ⟨hz, rfl, rfl, rfl⟩ := h
  refine ⟨hz, ?_, ?_, ?_⟩ <;> simp only [Ed25519.neg_x, Ed25519.neg_y] <;> ring

/-- `affineCached.CondNeg` (taken branch) -/
theorem AffCachedRep.neg (h : AffCachedRep YpX YmX T2d p) : AffCachedRep YmX YpX (-T2d) (-p) := by
  obtain ⟨rfl, rfl, rfl⟩ := h
  refine ⟨?_, ?_, ?_⟩ <;> simp only [Ed25519.neg_x, Ed25519.neg_y] <;> ring

/-! ### addition, subtraction, doubling (results in `projP1xP1`) -/

/-- a completed point given as a common multiple `k` of numerators/denominators -/
theorem p1xp1Rep_of_scaled {r : Ed25519} (k nx dx ny dy : F) (hk : k ≠ 0) (hdx : dx ≠ 0)
    (hdy : dy ≠ 0) (hX : X3 = k * nx) (hY : Y3 = k * ny) (hZ : Z3 = k * dx) (hT : T3 = k * dy)
    (hrx : r.x = nx / dx) (hry : r.y = ny / dy) : P1xP1Rep X3 Y3 Z3 T3 r := by
  subst hX hY hZ hT
  refine ⟨mul_ne_zero hk hdx, mul_ne_zero hk hdy, ?_, ?_⟩
  · rw [hrx]; field_simp
  · rw [hry]; field_simp

/-- `projP1xP1.Add` : HWCD unified addition of an extended and a cached point -/
theorem ExtRep.add_cached (h1 : ExtRep X1 Y1 Z1 T1 p) (h2 : CachedRep YpX YmX Z2 T2d q)
    (hX : X3 = (Y1 + X1) * YpX - (Y1 - X1) * YmX) (hY : Y3 = (Y1 + X1) * YpX + (Y1 - X1) * YmX)
    (hZ : Z3 = 2 * (Z1 * Z2) + T1 * T2d) (hT : T3 = 2 * (Z1 * Z2) - T1 * T2d) :
    P1xP1Rep X3 Y3 Z3 T3 (p + q) := by
  obtain ⟨hz1, rfl, rfl, rfl⟩ := h1
  obtain ⟨hz2, rfl, rfl, rfl⟩ := h2
  have hk : 2 * Z1 * Z2 ≠ 0 := mul_ne_zero (mul_ne_zero two_ne_zero hz1) hz2
  exact p1xp1Rep_of_scaled (2 * Z1 * Z2) _ _ _ _ hk (p.den_plus q) (p.den_minus q)
    (by rw [hX]; ring) (by rw [hY]; ring) (by rw [hZ]; ring) (by rw [hT]; ring)
    (Ed25519.add_x p q) (Ed25519.add_y p q)

/-- `projP1xP1.Sub` -/
theorem ExtRep.sub_cached (h1 : ExtRep X1 Y1 Z1 T1 p) (h2 : CachedRep YpX YmX Z2 T2d q)
    (hX : X3 = (Y1 + X1) * YmX - (Y1 - X1) * YpX) (hY : Y3 = (Y1 + X1) * YmX + (Y1 - X1) * YpX)
    (hZ : Z3 = 2 * (Z1 * Z2) - T1 * T2d) (hT : T3 = 2 * (Z1 * Z2) + T1 * T2d) :
    P1xP1Rep X3 Y3 Z3 T3 (p - q) := by
  obtain ⟨hz1, rfl, rfl, rfl⟩ := h1
  obtain ⟨hz2, rfl, rfl, rfl⟩ := h2
  have hk : 2 * Z1 * Z2 ≠ 0 := mul_ne_zero (mul_ne_zero two_ne_zero hz1) hz2
  exact p1xp1Rep_of_scaled (2 * Z1 * Z2) _ _ _ _ hk (p.den_minus q) (p.den_plus q)
    (by rw [hX]; ring) (by rw [hY]; ring) (by rw [hZ]; ring) (by rw [hT]; ring)
    (Ed25519.sub_x p q) (Ed25519.sub_y p q)

/-- `projP1xP1.AddAffine` -/
theorem ExtRep.add_affCached (h1 : ExtRep X1 Y1 Z1 T1 p) (h2 : AffCachedRep YpX YmX T2d q)
    (hX : X3 = (Y1 + X1) * YpX - (Y1 - X1) * YmX) (hY : Y3 = (Y1 + X1) * YpX + (Y1 - X1) * YmX)
    (hZ : Z3 = 2 * Z1 + T1 * T2d) (hT : T3 = 2 * Z1 - T1 * T2d) :
    P1xP1Rep X3 Y3 Z3 T3 (p + q) :=
  h1.add_cached h2.toCached hX hY (by rw [hZ]; ring) (by rw [hT]; ring)

/-- `projP1xP1.SubAffine` -/
theorem ExtRep.sub_affCached (h1 : ExtRep X1 Y1 Z1 T1 p) (h2 : AffCachedRep YpX YmX T2d q)
    (hX : X3 = (Y1 + X1) * YmX - (Y1 - X1) * YpX) (hY : Y3 = (Y1 + X1) * YmX + (Y1 - X1) * YpX)
    (hZ : Z3 = 2 * Z1 - T1 * T2d) (hT : T3 = 2 * Z1 + T1 * T2d) :
    P1xP1Rep X3 Y3 Z3 T3 (p - q) :=
  h1.sub_cached h2.toCached hX hY (by rw [hZ]; ring) (by rw [hT]; ring)

/-- `projP1xP1.Double` -/
theorem P2Rep.double (h : P2Rep X Y Z p)
    (hY : Y3 = Y ^ 2 + X ^ 2) (hZ : Z3 = Y ^ 2 - X ^ 2) (hX : X3 = (X + Y) ^ 2 - Y3)
    (hT : T3 = 2 * Z ^ 2 - Z3) : P1xP1Rep X3 Y3 Z3 T3 (2 • p) := by
  obtain ⟨hz, rfl, rfl⟩ := h
  have e1 : 1 + d * p.x * p.x * p.y * p.y = p.y ^ 2 - p.x ^ 2 := by
    linear_combination -p.curve_eq
  have e2 : 1 - d * p.x * p.x * p.y * p.y = 2 - (p.y ^ 2 - p.x ^ 2) := by
    linear_combination p.curve_eq
  have hdx : p.y ^ 2 - p.x ^ 2 ≠ 0 := by rw [← e1]; exact p.den_plus p
  have hdy : 2 - (p.y ^ 2 - p.x ^ 2) ≠ 0 := by rw [← e2]; exact p.den_minus p
  subst hY hZ
  refine p1xp1Rep_of_scaled (Z ^ 2) (2 * p.x * p.y) _ (p.y ^ 2 + p.x ^ 2) _ (pow_ne_zero 2 hz) hdx hdy
    (by rw [hX]; ring) (by ring) (by ring) (by rw [hT]; ring) ?_ ?_
  · rw [two_nsmul, Ed25519.add_x, e1]; congr 1; ring
  · rw [two_nsmul, Ed25519.add_y, e2]; congr 1; ring

/-! ### equality test, scaling -/

/-- `Point.Equal` : cross-multiplied comparison decides equality of the represented points -/
theorem P2Rep.eq_iff (h1 : P2Rep X1 Y1 Z1 p) (h2 : P2Rep X2 Y2 Z2 q) :
    (X1 * Z2 = X2 * Z1 ∧ Y1 * Z2 = Y2 * Z1) ↔ p = q := by
  obtain ⟨hz1, rfl, rfl⟩ := h1
  obtain ⟨hz2, rfl, rfl⟩ := h2
  have hk : Z1 * Z2 ≠ 0 := mul_ne_zero hz1 hz2
  constructor
  · rintro ⟨hx, hy⟩
    ext
    · apply mul_right_cancel₀ hk; linear_combination hx
    · apply mul_right_cancel₀ hk; linear_combination hy
  · rintro rfl; exact ⟨by ring, by ring⟩

theorem ExtRep.eq_iff (h1 : ExtRep X1 Y1 Z1 T1 p) (h2 : ExtRep X2 Y2 Z2 T2 q) :
    (X1 * Z2 = X2 * Z1 ∧ Y1 * Z2 = Y2 * Z1) ↔ p = q := h1.toP2.eq_iff h2.toP2

/-- rescaling all coordinates does not change the represented point -/
theorem ExtRep.scale (h : ExtRep X Y Z T p) {k : F} (hk : k ≠ 0) :
    ExtRep (k * X) (k * Y) (k * Z) (k * T) p := by
  obtain ⟨hz, rfl, rfl, rfl⟩ := h
  exact ⟨mul_ne_zero hk hz, by ring, by ring, by ring⟩

theorem P2Rep.scale (h : P2Rep X Y Z p) {k : F} (hk : k ≠ 0) : P2Rep (k * X) (k * Y) (k * Z) p := by
  obtain ⟨hz, rfl, rfl⟩ := h
  exact ⟨mul_ne_zero hk hz, by ring, by ring⟩

/-- two valid extended points represent the same point iff they are proportional -/
theorem ExtRep.proportional (h1 : ExtRep X1 Y1 Z1 T1 p) (h2 : ExtRep X2 Y2 Z2 T2 p) :
    ∃ k : F, k ≠ 0 ∧ X2 = k * X1 ∧ Y2 = k * Y1 ∧ Z2 = k * Z1 ∧ T2 = k * T1 := by
  obtain ⟨hz1, rfl, rfl, rfl⟩ := h1
  obtain ⟨hz2, rfl, rfl, rfl⟩ := h2
  refine ⟨Z2 / Z1, div_ne_zero hz2 hz1, ?_, ?_, ?_, ?_⟩ <;> field_simp

/-! ### the same statements phrased with `ExtValid` / `toEd` -/

theorem ExtValid.toP2 (h : ExtValid X Y Z T) : P2Valid X Y Z ∧ p2ToEd X Y Z = toEd X Y Z T :=
  p2Rep_iff.mp h.toEd_rep.toP2

theorem toEd_neg (h : ExtValid X Y Z T) :
    ExtValid (-X) Y Z (-T) ∧ toEd (-X) Y Z (-T) = -toEd X Y Z T :=
  extRep_iff.mp h.toEd_rep.neg

theorem toEd_scale (h : ExtValid X Y Z T) {k : F} (hk : k ≠ 0) :
    ExtValid (k * X) (k * Y) (k * Z) (k * T) ∧ toEd (k * X) (k * Y) (k * Z) (k * T) = toEd X Y Z T :=
  extRep_iff.mp (h.toEd_rep.scale hk)

theorem toEd_eq_iff (h1 : ExtValid X1 Y1 Z1 T1) (h2 : ExtValid X2 Y2 Z2 T2) :
    (X1 * Z2 = X2 * Z1 ∧ Y1 * Z2 = Y2 * Z1) ↔ toEd X1 Y1 Z1 T1 = toEd X2 Y2 Z2 T2 :=
  h1.toEd_rep.eq_iff h2.toEd_rep

theorem toEd_fromP1xP1 (h : P1xP1Valid X Y Z T) :
    ExtValid (X * T) (Y * Z) (Z * T) (X * Y) ∧
      toEd (X * T) (Y * Z) (Z * T) (X * Y) = p1xp1ToEd X Y Z T :=
  extRep_iff.mp h.toEd_rep.toExt

theorem p2ToEd_fromP1xP1 (h : P1xP1Valid X Y Z T) :
    P2Valid (X * T) (Y * Z) (Z * T) ∧ p2ToEd (X * T) (Y * Z) (Z * T) = p1xp1ToEd X Y Z T :=
  p2Rep_iff.mp h.toEd_rep.toP2

theorem toEd_fromP2 (h : P2Valid X Y Z) :
    ExtValid (X * Z) (Y * Z) (Z ^ 2) (X * Y) ∧ toEd (X * Z) (Y * Z) (Z ^ 2) (X * Y) = p2ToEd X Y Z :=
  extRep_iff.mp h.toEd_rep.toExt

theorem cachedToEd_fromP3 (h : ExtValid X Y Z T) :
    CachedValid (Y + X) (Y - X) Z (2 * d * T) ∧
      cachedToEd (Y + X) (Y - X) Z (2 * d * T) = toEd X Y Z T :=
  cachedRep_iff.mp h.toEd_rep.toCached

theorem affCachedToEd_fromP3 (h : ExtValid X Y Z T) :
    AffCachedValid ((Y + X) * Z⁻¹) ((Y - X) * Z⁻¹) (2 * d * T * Z⁻¹) ∧
      affCachedToEd ((Y + X) * Z⁻¹) ((Y - X) * Z⁻¹) (2 * d * T * Z⁻¹) = toEd X Y Z T :=
  affCachedRep_iff.mp h.toEd_rep.toAffCached

/-- `projP1xP1.Add` with `toEd` -/
theorem p1xp1ToEd_add_cached (h1 : ExtValid X1 Y1 Z1 T1) (h2 : CachedValid YpX YmX Z2 T2d)
    (hX : X3 = (Y1 + X1) * YpX - (Y1 - X1) * YmX) (hY : Y3 = (Y1 + X1) * YpX + (Y1 - X1) * YmX)
    (hZ : Z3 = 2 * (Z1 * Z2) + T1 * T2d) (hT : T3 = 2 * (Z1 * Z2) - T1 * T2d) :
    P1xP1Valid X3 Y3 Z3 T3 ∧
      p1xp1ToEd X3 Y3 Z3 T3 = toEd X1 Y1 Z1 T1 + cachedToEd YpX YmX Z2 T2d :=
  p1xp1Rep_iff.mp (h1.toEd_rep.add_cached h2.toEd_rep hX hY hZ hT)

/-- `projP1xP1.Sub` with `toEd` -/
theorem p1xp1ToEd_sub_cached (h1 : ExtValid X1 Y1 Z1 T1) (h2 : CachedValid YpX YmX Z2 T2d)
    (hX : X3 = (Y1 + X1) * YmX - (Y1 - X1) * YpX) (hY : Y3 = (Y1 + X1) * YmX + (Y1 - X1) * YpX)
    (hZ : Z3 = 2 * (Z1 * Z2) - T1 * T2d) (hT : T3 = 2 * (Z1 * Z2) + T1 * T2d) :
    P1xP1Valid X3 Y3 Z3 T3 ∧
      p1xp1ToEd X3 Y3 Z3 T3 = toEd X1 Y1 Z1 T1 - cachedToEd YpX YmX Z2 T2d :=
  p1xp1Rep_iff.mp (h1.toEd_rep.sub_cached h2.toEd_rep hX hY hZ hT)

/-- `projP1xP1.AddAffine` with `toEd` -/
theorem p1xp1ToEd_add_affCached (h1 : ExtValid X1 Y1 Z1 T1) (h2 : AffCachedValid YpX YmX T2d)
    (hX : X3 = (Y1 + X1) * YpX - (Y1 - X1) * YmX) (hY : Y3 = (Y1 + X1) * YpX + (Y1 - X1) * YmX)
    (hZ : Z3 = 2 * Z1 + T1 * T2d) (hT : T3 = 2 * Z1 - T1 * T2d) :
    P1xP1Valid X3 Y3 Z3 T3 ∧
      p1xp1ToEd X3 Y3 Z3 T3 = toEd X1 Y1 Z1 T1 + affCachedToEd YpX YmX T2d :=
  p1xp1Rep_iff.mp (h1.toEd_rep.add_affCached h2.toEd_rep hX hY hZ hT)

/-- `projP1xP1.SubAffine` with `toEd` -/
theorem p1xp1ToEd_sub_affCached (h1 : ExtValid X1 Y1 Z1 T1) (h2 : AffCachedValid YpX YmX T2d)
    (hX : X3 = (Y1 + X1) * YmX - (Y1 - X1) * YpX) (hY : Y3 = (Y1 + X1) * YmX + (Y1 - X1) * YpX)
    (hZ : Z3 = 2 * Z1 - T1 * T2d) (hT : T3 = 2 * Z1 + T1 * T2d) :
    P1xP1Valid X3 Y3 Z3 T3 ∧
      p1xp1ToEd X3 Y3 Z3 T3 = toEd X1 Y1 Z1 T1 - affCachedToEd YpX YmX T2d :=
  p1xp1Rep_iff.mp (h1.toEd_rep.sub_affCached h2.toEd_rep hX hY hZ hT)

/-- `projP1xP1.Double` with `toEd` -/
theorem p1xp1ToEd_double (h : P2Valid X Y Z)
    (hY : Y3 = Y ^ 2 + X ^ 2) (hZ : Z3 = Y ^ 2 - X ^ 2) (hX : X3 = (X + Y) ^ 2 - Y3)
    (hT : T3 = 2 * Z ^ 2 - Z3) :
    P1xP1Valid X3 Y3 Z3 T3 ∧ p1xp1ToEd X3 Y3 Z3 T3 = 2 • p2ToEd X Y Z :=
  p1xp1Rep_iff.mp (h.toEd_rep.double hY hZ hX hT)

/-- `Point.Add` : HWCD unified addition, extended + extended → extended (through the cached form
of the second operand and the completed point) -/
theorem toEd_add (h1 : ExtValid X1 Y1 Z1 T1) (h2 : ExtValid X2 Y2 Z2 T2)
    (hX : X3 = (Y1 + X1) * (Y2 + X2) - (Y1 - X1) * (Y2 - X2))
    (hY : Y3 = (Y1 + X1) * (Y2 + X2) + (Y1 - X1) * (Y2 - X2))
    (hZ : Z3 = 2 * (Z1 * Z2) + T1 * (2 * d * T2)) (hT : T3 = 2 * (Z1 * Z2) - T1 * (2 * d * T2)) :
    ExtValid (X3 * T3) (Y3 * Z3) (Z3 * T3) (X3 * Y3) ∧
      toEd (X3 * T3) (Y3 * Z3) (Z3 * T3) (X3 * Y3) = toEd X1 Y1 Z1 T1 + toEd X2 Y2 Z2 T2 :=
  extRep_iff.mp (h1.toEd_rep.add_cached h2.toEd_rep.toCached hX hY hZ hT).toExt

/-- `Point.Subtract` -/
theorem toEd_sub (h1 : ExtValid X1 Y1 Z1 T1) (h2 : ExtValid X2 Y2 Z2 T2)
    (hX : X3 = (Y1 + X1) * (Y2 - X2) - (Y1 - X1) * (Y2 + X2))
    (hY : Y3 = (Y1 + X1) * (Y2 - X2) + (Y1 - X1) * (Y2 + X2))
    (hZ : Z3 = 2 * (Z1 * Z2) - T1 * (2 * d * T2)) (hT : T3 = 2 * (Z1 * Z2) + T1 * (2 * d * T2)) :
    ExtValid (X3 * T3) (Y3 * Z3) (Z3 * T3) (X3 * Y3) ∧
      toEd (X3 * T3) (Y3 * Z3) (Z3 * T3) (X3 * Y3) = toEd X1 Y1 Z1 T1 - toEd X2 Y2 Z2 T2 :=
  extRep_iff.mp (h1.toEd_rep.sub_cached h2.toEd_rep.toCached hX hY hZ hT).toExt

/-- doubling, extended → extended (via `projP2`, `projP1xP1.Double`, `fromP1xP1`) -/
theorem toEd_double (h : ExtValid X Y Z T)
    (hY : Y3 = Y ^ 2 + X ^ 2) (hZ : Z3 = Y ^ 2 - X ^ 2) (hX : X3 = (X + Y) ^ 2 - Y3)
    (hT : T3 = 2 * Z ^ 2 - Z3) :
    ExtValid (X3 * T3) (Y3 * Z3) (Z3 * T3) (X3 * Y3) ∧
      toEd (X3 * T3) (Y3 * Z3) (Z3 * T3) (X3 * Y3) = 2 • toEd X Y Z T :=
  extRep_iff.mp (h.toEd_rep.toP2.double hY hZ hX hT).toExt

end EdVerif.Spec
