import EdVerif.Spec.Pratt

/-! GENERATED (tools: design_spikes/pratt_gen.py): full Pratt chains for `2^255-19` and `l`. -/

namespace EdVerif.Spec.PrattChains

set_option maxRecDepth 100000

theorem prime_2 : Nat.Prime 2 := by norm_num

theorem prime_3 : Nat.Prime 3 := by norm_num

theorem prime_17 : Nat.Prime 17 := by norm_num

theorem prime_479 : Nat.Prime 479 := by norm_num

theorem prime_32573 : Nat.Prime 32573 :=
  pratt 32573 2 [(2,2), (17,1), (479,1)] (by norm_num)
    (by intro f hf; simp only [List.mem_cons, List.not_mem_nil, or_false] at hf; rcases hf with rfl | rfl | rfl
        · exact prime_2
        · exact prime_17
        · exact prime_479)
    (by decide +kernel) (by decide +kernel)
    (by intro f hf; simp only [List.mem_cons, List.not_mem_nil, or_false] at hf; rcases hf with rfl | rfl | rfl <;> decide +kernel)

theorem prime_65147 : Nat.Prime 65147 :=
  pratt 65147 2 [(2,1), (32573,1)] (by norm_num)
    (by intro f hf; simp only [List.mem_cons, List.not_mem_nil, or_false] at hf; rcases hf with rfl | rfl
        · exact prime_2
        · exact prime_32573)
    (by decide +kernel) (by decide +kernel)
    (by intro f hf; simp only [List.mem_cons, List.not_mem_nil, or_false] at hf; rcases hf with rfl | rfl <;> decide +kernel)

theorem prime_353 : Nat.Prime 353 := by norm_num

theorem prime_59 : Nat.Prime 59 := by norm_num

theorem prime_487 : Nat.Prime 487 := by norm_num

theorem prime_57467 : Nat.Prime 57467 :=
  pratt 57467 2 [(2,1), (59,1), (487,1)] (by norm_num)
    (by intro f hf; simp only [List.mem_cons, List.not_mem_nil, or_false] at hf; rcases hf with rfl | rfl | rfl
        · exact prime_2
        · exact prime_59
        · exact prime_487)
    (by decide +kernel) (by decide +kernel)
    (by intro f hf; simp only [List.mem_cons, List.not_mem_nil, or_false] at hf; rcases hf with rfl | rfl | rfl <;> decide +kernel)

theorem prime_7 : Nat.Prime 7 := by norm_num

theorem prime_131 : Nat.Prime 131 := by norm_num

theorem prime_132049 : Nat.Prime 132049 :=
  pratt 132049 26 [(2,4), (3,2), (7,1), (131,1)] (by norm_num)
    (by intro f hf; simp only [List.mem_cons, List.not_mem_nil, or_false] at hf; rcases hf with rfl | rfl | rfl | rfl
        · exact prime_2
        · exact prime_3
        · exact prime_7
        · exact prime_131)
    (by decide +kernel) (by decide +kernel)
    (by intro f hf; simp only [List.mem_cons, List.not_mem_nil, or_false] at hf; rcases hf with rfl | rfl | rfl | rfl <;> decide +kernel)

theorem prime_43 : Nat.Prime 43 := by norm_num

theorem prime_23 : Nat.Prime 23 := by norm_num

theorem prime_3727 : Nat.Prime 3727 :=
  pratt 3727 3 [(2,1), (3,4), (23,1)] (by norm_num)
    (by intro f hf; simp only [List.mem_cons, List.not_mem_nil, or_false] at hf; rcases hf with rfl | rfl | rfl
        · exact prime_2
        · exact prime_3
        · exact prime_23)
    (by decide +kernel) (by decide +kernel)
    (by intro f hf; simp only [List.mem_cons, List.not_mem_nil, or_false] at hf; rcases hf with rfl | rfl | rfl <;> decide +kernel)

theorem prime_1923133 : Nat.Prime 1923133 :=
  pratt 1923133 2 [(2,2), (3,1), (43,1), (3727,1)] (by norm_num)
    (by intro f hf; simp only [List.mem_cons, List.not_mem_nil, or_false] at hf; rcases hf with rfl | rfl | rfl | rfl
        · exact prime_2
        · exact prime_3
        · exact prime_43
        · exact prime_3727)
    (by decide +kernel) (by decide +kernel)
    (by intro f hf; simp only [List.mem_cons, List.not_mem_nil, or_false] at hf; rcases hf with rfl | rfl | rfl | rfl <;> decide +kernel)

theorem prime_31 : Nat.Prime 31 := by norm_num

theorem prime_107 : Nat.Prime 107 := by norm_num

theorem prime_223 : Nat.Prime 223 := by norm_num

theorem prime_173 : Nat.Prime 173 := by norm_num

theorem prime_4153 : Nat.Prime 4153 :=
  pratt 4153 5 [(2,3), (3,1), (173,1)] (by norm_num)
    (by intro f hf; simp only [List.mem_cons, List.not_mem_nil, or_false] at hf; rcases hf with rfl | rfl | rfl
        · exact prime_2
        · exact prime_3
        · exact prime_173)
    (by decide +kernel) (by decide +kernel)
    (by intro f hf; simp only [List.mem_cons, List.not_mem_nil, or_false] at hf; rcases hf with rfl | rfl | rfl <;> decide +kernel)

theorem prime_5 : Nat.Prime 5 := by norm_num

theorem prime_41 : Nat.Prime 41 := by norm_num

theorem prime_1723 : Nat.Prime 1723 :=
  pratt 1723 3 [(2,1), (3,1), (7,1), (41,1)] (by norm_num)
    (by intro f hf; simp only [List.mem_cons, List.not_mem_nil, or_false] at hf; rcases hf with rfl | rfl | rfl | rfl
        · exact prime_2
        · exact prime_3
        · exact prime_7
        · exact prime_41)
    (by decide +kernel) (by decide +kernel)
    (by intro f hf; simp only [List.mem_cons, List.not_mem_nil, or_false] at hf; rcases hf with rfl | rfl | rfl | rfl <;> decide +kernel)

theorem prime_430751 : Nat.Prime 430751 :=
  pratt 430751 17 [(2,1), (5,3), (1723,1)] (by norm_num)
    (by intro f hf; simp only [List.mem_cons, List.not_mem_nil, or_false] at hf; rcases hf with rfl | rfl | rfl
        · exact prime_2
        · exact prime_5
        · exact prime_1723)
    (by decide +kernel) (by decide +kernel)
    (by intro f hf; simp only [List.mem_cons, List.not_mem_nil, or_false] at hf; rcases hf with rfl | rfl | rfl <;> decide +kernel)

theorem prime_31757755568855353 : Nat.Prime 31757755568855353 :=
  pratt 31757755568855353 10 [(2,3), (3,1), (31,1), (107,1), (223,1), (4153,1), (430751,1)] (by norm_num)
    (by intro f hf; simp only [List.mem_cons, List.not_mem_nil, or_false] at hf; rcases hf with rfl | rfl | rfl | rfl | rfl | rfl | rfl
        · exact prime_2
        · exact prime_3
        · exact prime_31
        · exact prime_107
        · exact prime_223
        · exact prime_4153
        · exact prime_430751)
    (by decide +kernel) (by decide +kernel)
    (by intro f hf; simp only [List.mem_cons, List.not_mem_nil, or_false] at hf; rcases hf with rfl | rfl | rfl | rfl | rfl | rfl | rfl <;> decide +kernel)

theorem prime_19 : Nat.Prime 19 := by norm_num

theorem prime_83 : Nat.Prime 83 := by norm_num

theorem prime_9463 : Nat.Prime 9463 :=
  pratt 9463 3 [(2,1), (3,1), (19,1), (83,1)] (by norm_num)
    (by intro f hf; simp only [List.mem_cons, List.not_mem_nil, or_false] at hf; rcases hf with rfl | rfl | rfl | rfl
        · exact prime_2
        · exact prime_3
        · exact prime_19
        · exact prime_83)
    (by decide +kernel) (by decide +kernel)
    (by intro f hf; simp only [List.mem_cons, List.not_mem_nil, or_false] at hf; rcases hf with rfl | rfl | rfl | rfl <;> decide +kernel)

theorem prime_37853 : Nat.Prime 37853 :=
  pratt 37853 2 [(2,2), (9463,1)] (by norm_num)
    (by intro f hf; simp only [List.mem_cons, List.not_mem_nil, or_false] at hf; rcases hf with rfl | rfl
        · exact prime_2
        · exact prime_9463)
    (by decide +kernel) (by decide +kernel)
    (by intro f hf; simp only [List.mem_cons, List.not_mem_nil, or_false] at hf; rcases hf with rfl | rfl <;> decide +kernel)

theorem prime_75707 : Nat.Prime 75707 :=
  pratt 75707 2 [(2,1), (37853,1)] (by norm_num)
    (by intro f hf; simp only [List.mem_cons, List.not_mem_nil, or_false] at hf; rcases hf with rfl | rfl
        · exact prime_2
        · exact prime_37853)
    (by decide +kernel) (by decide +kernel)
    (by intro f hf; simp only [List.mem_cons, List.not_mem_nil, or_false] at hf; rcases hf with rfl | rfl <;> decide +kernel)

theorem prime_47 : Nat.Prime 47 := by norm_num

theorem prime_127 : Nat.Prime 127 := by norm_num

theorem prime_103 : Nat.Prime 103 := by norm_num

theorem prime_991 : Nat.Prime 991 := by norm_num

theorem prime_8574133 : Nat.Prime 8574133 :=
  pratt 8574133 2 [(2,2), (3,1), (7,1), (103,1), (991,1)] (by norm_num)
    (by intro f hf; simp only [List.mem_cons, List.not_mem_nil, or_false] at hf; rcases hf with rfl | rfl | rfl | rfl | rfl
        · exact prime_2
        · exact prime_3
        · exact prime_7
        · exact prime_103
        · exact prime_991)
    (by decide +kernel) (by decide +kernel)
    (by intro f hf; simp only [List.mem_cons, List.not_mem_nil, or_false] at hf; rcases hf with rfl | rfl | rfl | rfl | rfl <;> decide +kernel)

theorem prime_1919519569386763 : Nat.Prime 1919519569386763 :=
  pratt 1919519569386763 2 [(2,1), (3,1), (7,1), (19,1), (47,2), (127,1), (8574133,1)] (by norm_num)
    (by intro f hf; simp only [List.mem_cons, List.not_mem_nil, or_false] at hf; rcases hf with rfl | rfl | rfl | rfl | rfl | rfl | rfl
        · exact prime_2
        · exact prime_3
        · exact prime_7
        · exact prime_19
        · exact prime_47
        · exact prime_127
        · exact prime_8574133)
    (by decide +kernel) (by decide +kernel)
    (by intro f hf; simp only [List.mem_cons, List.not_mem_nil, or_false] at hf; rcases hf with rfl | rfl | rfl | rfl | rfl | rfl | rfl <;> decide +kernel)

theorem prime_13 : Nat.Prime 13 := by norm_num

theorem prime_29 : Nat.Prime 29 := by norm_num

theorem prime_2437 : Nat.Prime 2437 :=
  pratt 2437 2 [(2,2), (3,1), (7,1), (29,1)] (by norm_num)
    (by intro f hf; simp only [List.mem_cons, List.not_mem_nil, or_false] at hf; rcases hf with rfl | rfl | rfl | rfl
        · exact prime_2
        · exact prime_3
        · exact prime_7
        · exact prime_29)
    (by decide +kernel) (by decide +kernel)
    (by intro f hf; simp only [List.mem_cons, List.not_mem_nil, or_false] at hf; rcases hf with rfl | rfl | rfl | rfl <;> decide +kernel)

theorem prime_97 : Nat.Prime 97 := by norm_num

theorem prime_419 : Nat.Prime 419 := by norm_num

theorem prime_569003 : Nat.Prime 569003 :=
  pratt 569003 2 [(2,1), (7,1), (97,1), (419,1)] (by norm_num)
    (by intro f hf; simp only [List.mem_cons, List.not_mem_nil, or_false] at hf; rcases hf with rfl | rfl | rfl | rfl
        · exact prime_2
        · exact prime_7
        · exact prime_97
        · exact prime_419)
    (by decide +kernel) (by decide +kernel)
    (by intro f hf; simp only [List.mem_cons, List.not_mem_nil, or_false] at hf; rcases hf with rfl | rfl | rfl | rfl <;> decide +kernel)

theorem prime_2773320623 : Nat.Prime 2773320623 :=
  pratt 2773320623 5 [(2,1), (2437,1), (569003,1)] (by norm_num)
    (by intro f hf; simp only [List.mem_cons, List.not_mem_nil, or_false] at hf; rcases hf with rfl | rfl | rfl
        · exact prime_2
        · exact prime_2437
        · exact prime_569003)
    (by decide +kernel) (by decide +kernel)
    (by intro f hf; simp only [List.mem_cons, List.not_mem_nil, or_false] at hf; rcases hf with rfl | rfl | rfl <;> decide +kernel)

theorem prime_72106336199 : Nat.Prime 72106336199 :=
  pratt 72106336199 7 [(2,1), (13,1), (2773320623,1)] (by norm_num)
    (by intro f hf; simp only [List.mem_cons, List.not_mem_nil, or_false] at hf; rcases hf with rfl | rfl | rfl
        · exact prime_2
        · exact prime_13
        · exact prime_2773320623)
    (by decide +kernel) (by decide +kernel)
    (by intro f hf; simp only [List.mem_cons, List.not_mem_nil, or_false] at hf; rcases hf with rfl | rfl | rfl <;> decide +kernel)

theorem prime_75445702479781427272750846543864801 : Nat.Prime 75445702479781427272750846543864801 :=
  pratt 75445702479781427272750846543864801 7 [(2,5), (3,2), (5,2), (75707,1), (72106336199,1), (1919519569386763,1)] (by norm_num)
    (by intro f hf; simp only [List.mem_cons, List.not_mem_nil, or_false] at hf; rcases hf with rfl | rfl | rfl | rfl | rfl | rfl
        · exact prime_2
        · exact prime_3
        · exact prime_5
        · exact prime_75707
        · exact prime_72106336199
        · exact prime_1919519569386763)
    (by decide +kernel) (by decide +kernel)
    (by intro f hf; simp only [List.mem_cons, List.not_mem_nil, or_false] at hf; rcases hf with rfl | rfl | rfl | rfl | rfl | rfl <;> decide +kernel)

theorem prime_74058212732561358302231226437062788676166966415465897661863160754340907 : Nat.Prime 74058212732561358302231226437062788676166966415465897661863160754340907 :=
  pratt 74058212732561358302231226437062788676166966415465897661863160754340907 2 [(2,1), (3,1), (353,1), (57467,1), (132049,1), (1923133,1), (31757755568855353,1), (75445702479781427272750846543864801,1)] (by norm_num)
    (by intro f hf; simp only [List.mem_cons, List.not_mem_nil, or_false] at hf; rcases hf with rfl | rfl | rfl | rfl | rfl | rfl | rfl | rfl
        · exact prime_2
        · exact prime_3
        · exact prime_353
        · exact prime_57467
        · exact prime_132049
        · exact prime_1923133
        · exact prime_31757755568855353
        · exact prime_75445702479781427272750846543864801)
    (by decide +kernel) (by decide +kernel)
    (by intro f hf; simp only [List.mem_cons, List.not_mem_nil, or_false] at hf; rcases hf with rfl | rfl | rfl | rfl | rfl | rfl | rfl | rfl <;> decide +kernel)

theorem prime_57896044618658097711785492504343953926634992332820282019728792003956564819949 : Nat.Prime 57896044618658097711785492504343953926634992332820282019728792003956564819949 :=
  pratt 57896044618658097711785492504343953926634992332820282019728792003956564819949 2 [(2,2), (3,1), (65147,1), (74058212732561358302231226437062788676166966415465897661863160754340907,1)] (by norm_num)
    (by intro f hf; simp only [List.mem_cons, List.not_mem_nil, or_false] at hf; rcases hf with rfl | rfl | rfl | rfl
        · exact prime_2
        · exact prime_3
        · exact prime_65147
        · exact prime_74058212732561358302231226437062788676166966415465897661863160754340907)
    (by decide +kernel) (by decide +kernel)
    (by intro f hf; simp only [List.mem_cons, List.not_mem_nil, or_false] at hf; rcases hf with rfl | rfl | rfl | rfl <;> decide +kernel)

theorem prime_11 : Nat.Prime 11 := by norm_num

theorem prime_34123 : Nat.Prime 34123 :=
  pratt 34123 2 [(2,1), (3,1), (11,2), (47,1)] (by norm_num)
    (by intro f hf; simp only [List.mem_cons, List.not_mem_nil, or_false] at hf; rcases hf with rfl | rfl | rfl | rfl
        · exact prime_2
        · exact prime_3
        · exact prime_11
        · exact prime_47)
    (by decide +kernel) (by decide +kernel)
    (by intro f hf; simp only [List.mem_cons, List.not_mem_nil, or_false] at hf; rcases hf with rfl | rfl | rfl | rfl <;> decide +kernel)

theorem prime_409477 : Nat.Prime 409477 :=
  pratt 409477 2 [(2,2), (3,1), (34123,1)] (by norm_num)
    (by intro f hf; simp only [List.mem_cons, List.not_mem_nil, or_false] at hf; rcases hf with rfl | rfl | rfl
        · exact prime_2
        · exact prime_3
        · exact prime_34123)
    (by decide +kernel) (by decide +kernel)
    (by intro f hf; simp only [List.mem_cons, List.not_mem_nil, or_false] at hf; rcases hf with rfl | rfl | rfl <;> decide +kernel)

theorem prime_14741173 : Nat.Prime 14741173 :=
  pratt 14741173 2 [(2,2), (3,2), (409477,1)] (by norm_num)
    (by intro f hf; simp only [List.mem_cons, List.not_mem_nil, or_false] at hf; rcases hf with rfl | rfl | rfl
        · exact prime_2
        · exact prime_3
        · exact prime_409477)
    (by decide +kernel) (by decide +kernel)
    (by intro f hf; simp only [List.mem_cons, List.not_mem_nil, or_false] at hf; rcases hf with rfl | rfl | rfl <;> decide +kernel)

theorem prime_58964693 : Nat.Prime 58964693 :=
  pratt 58964693 2 [(2,2), (14741173,1)] (by norm_num)
    (by intro f hf; simp only [List.mem_cons, List.not_mem_nil, or_false] at hf; rcases hf with rfl | rfl
        · exact prime_2
        · exact prime_14741173)
    (by decide +kernel) (by decide +kernel)
    (by intro f hf; simp only [List.mem_cons, List.not_mem_nil, or_false] at hf; rcases hf with rfl | rfl <;> decide +kernel)

theorem prime_30703 : Nat.Prime 30703 :=
  pratt 30703 3 [(2,1), (3,1), (7,1), (17,1), (43,1)] (by norm_num)
    (by intro f hf; simp only [List.mem_cons, List.not_mem_nil, or_false] at hf; rcases hf with rfl | rfl | rfl | rfl | rfl
        · exact prime_2
        · exact prime_3
        · exact prime_7
        · exact prime_17
        · exact prime_43)
    (by decide +kernel) (by decide +kernel)
    (by intro f hf; simp only [List.mem_cons, List.not_mem_nil, or_false] at hf; rcases hf with rfl | rfl | rfl | rfl | rfl <;> decide +kernel)

theorem prime_79 : Nat.Prime 79 := by norm_num

theorem prime_41081 : Nat.Prime 41081 :=
  pratt 41081 3 [(2,3), (5,1), (13,1), (79,1)] (by norm_num)
    (by intro f hf; simp only [List.mem_cons, List.not_mem_nil, or_false] at hf; rcases hf with rfl | rfl | rfl | rfl
        · exact prime_2
        · exact prime_5
        · exact prime_13
        · exact prime_79)
    (by decide +kernel) (by decide +kernel)
    (by intro f hf; simp only [List.mem_cons, List.not_mem_nil, or_false] at hf; rcases hf with rfl | rfl | rfl | rfl <;> decide +kernel)

theorem prime_82163 : Nat.Prime 82163 :=
  pratt 82163 2 [(2,1), (41081,1)] (by norm_num)
    (by intro f hf; simp only [List.mem_cons, List.not_mem_nil, or_false] at hf; rcases hf with rfl | rfl
        · exact prime_2
        · exact prime_41081)
    (by decide +kernel) (by decide +kernel)
    (by intro f hf; simp only [List.mem_cons, List.not_mem_nil, or_false] at hf; rcases hf with rfl | rfl <;> decide +kernel)

theorem prime_17231 : Nat.Prime 17231 :=
  pratt 17231 13 [(2,1), (5,1), (1723,1)] (by norm_num)
    (by intro f hf; simp only [List.mem_cons, List.not_mem_nil, or_false] at hf; rcases hf with rfl | rfl | rfl
        · exact prime_2
        · exact prime_5
        · exact prime_1723)
    (by decide +kernel) (by decide +kernel)
    (by intro f hf; simp only [List.mem_cons, List.not_mem_nil, or_false] at hf; rcases hf with rfl | rfl | rfl <;> decide +kernel)

theorem prime_137849 : Nat.Prime 137849 :=
  pratt 137849 3 [(2,3), (17231,1)] (by norm_num)
    (by intro f hf; simp only [List.mem_cons, List.not_mem_nil, or_false] at hf; rcases hf with rfl | rfl
        · exact prime_2
        · exact prime_17231)
    (by decide +kernel) (by decide +kernel)
    (by intro f hf; simp only [List.mem_cons, List.not_mem_nil, or_false] at hf; rcases hf with rfl | rfl <;> decide +kernel)

theorem prime_67 : Nat.Prime 67 := by norm_num

theorem prime_22111 : Nat.Prime 22111 :=
  pratt 22111 6 [(2,1), (3,1), (5,1), (11,1), (67,1)] (by norm_num)
    (by intro f hf; simp only [List.mem_cons, List.not_mem_nil, or_false] at hf; rcases hf with rfl | rfl | rfl | rfl | rfl
        · exact prime_2
        · exact prime_3
        · exact prime_5
        · exact prime_11
        · exact prime_67)
    (by decide +kernel) (by decide +kernel)
    (by intro f hf; simp only [List.mem_cons, List.not_mem_nil, or_false] at hf; rcases hf with rfl | rfl | rfl | rfl | rfl <;> decide +kernel)

theorem prime_132667 : Nat.Prime 132667 :=
  pratt 132667 5 [(2,1), (3,1), (22111,1)] (by norm_num)
    (by intro f hf; simp only [List.mem_cons, List.not_mem_nil, or_false] at hf; rcases hf with rfl | rfl | rfl
        · exact prime_2
        · exact prime_3
        · exact prime_22111)
    (by decide +kernel) (by decide +kernel)
    (by intro f hf; simp only [List.mem_cons, List.not_mem_nil, or_false] at hf; rcases hf with rfl | rfl | rfl <;> decide +kernel)

theorem prime_3044861653679985063343 : Nat.Prime 3044861653679985063343 :=
  pratt 3044861653679985063343 5 [(2,1), (3,1), (11,1), (30703,1), (82163,1), (132667,1), (137849,1)] (by norm_num)
    (by intro f hf; simp only [List.mem_cons, List.not_mem_nil, or_false] at hf; rcases hf with rfl | rfl | rfl | rfl | rfl | rfl | rfl
        · exact prime_2
        · exact prime_3
        · exact prime_11
        · exact prime_30703
        · exact prime_82163
        · exact prime_132667
        · exact prime_137849)
    (by decide +kernel) (by decide +kernel)
    (by intro f hf; simp only [List.mem_cons, List.not_mem_nil, or_false] at hf; rcases hf with rfl | rfl | rfl | rfl | rfl | rfl | rfl <;> decide +kernel)

theorem prime_198211423230930754013084525763697 : Nat.Prime 198211423230930754013084525763697 :=
  pratt 198211423230930754013084525763697 5 [(2,4), (3,1), (23,1), (58964693,1), (3044861653679985063343,1)] (by norm_num)
    (by intro f hf; simp only [List.mem_cons, List.not_mem_nil, or_false] at hf; rcases hf with rfl | rfl | rfl | rfl | rfl
        · exact prime_2
        · exact prime_3
        · exact prime_23
        · exact prime_58964693
        · exact prime_3044861653679985063343)
    (by decide +kernel) (by decide +kernel)
    (by intro f hf; simp only [List.mem_cons, List.not_mem_nil, or_false] at hf; rcases hf with rfl | rfl | rfl | rfl | rfl <;> decide +kernel)

theorem prime_269 : Nat.Prime 269 := by norm_num

theorem prime_73 : Nat.Prime 73 := by norm_num

theorem prime_307 : Nat.Prime 307 := by norm_num

theorem prime_113 : Nat.Prime 113 := by norm_num

theorem prime_2939 : Nat.Prime 2939 :=
  pratt 2939 2 [(2,1), (13,1), (113,1)] (by norm_num)
    (by intro f hf; simp only [List.mem_cons, List.not_mem_nil, or_false] at hf; rcases hf with rfl | rfl | rfl
        · exact prime_2
        · exact prime_13
        · exact prime_113)
    (by decide +kernel) (by decide +kernel)
    (by intro f hf; simp only [List.mem_cons, List.not_mem_nil, or_false] at hf; rcases hf with rfl | rfl | rfl <;> decide +kernel)

theorem prime_5879 : Nat.Prime 5879 :=
  pratt 5879 11 [(2,1), (2939,1)] (by norm_num)
    (by intro f hf; simp only [List.mem_cons, List.not_mem_nil, or_false] at hf; rcases hf with rfl | rfl
        · exact prime_2
        · exact prime_2939)
    (by decide +kernel) (by decide +kernel)
    (by intro f hf; simp only [List.mem_cons, List.not_mem_nil, or_false] at hf; rcases hf with rfl | rfl <;> decide +kernel)

theorem prime_292386187 : Nat.Prime 292386187 :=
  pratt 292386187 2 [(2,1), (3,4), (307,1), (5879,1)] (by norm_num)
    (by intro f hf; simp only [List.mem_cons, List.not_mem_nil, or_false] at hf; rcases hf with rfl | rfl | rfl | rfl
        · exact prime_2
        · exact prime_3
        · exact prime_307
        · exact prime_5879)
    (by decide +kernel) (by decide +kernel)
    (by intro f hf; simp only [List.mem_cons, List.not_mem_nil, or_false] at hf; rcases hf with rfl | rfl | rfl | rfl <;> decide +kernel)

theorem prime_213441916511 : Nat.Prime 213441916511 :=
  pratt 213441916511 13 [(2,1), (5,1), (73,1), (292386187,1)] (by norm_num)
    (by intro f hf; simp only [List.mem_cons, List.not_mem_nil, or_false] at hf; rcases hf with rfl | rfl | rfl | rfl
        · exact prime_2
        · exact prime_5
        · exact prime_73
        · exact prime_292386187)
    (by decide +kernel) (by decide +kernel)
    (by intro f hf; simp only [List.mem_cons, List.not_mem_nil, or_false] at hf; rcases hf with rfl | rfl | rfl | rfl <;> decide +kernel)

theorem prime_1361 : Nat.Prime 1361 :=
  pratt 1361 3 [(2,4), (5,1), (17,1)] (by norm_num)
    (by intro f hf; simp only [List.mem_cons, List.not_mem_nil, or_false] at hf; rcases hf with rfl | rfl | rfl
        · exact prime_2
        · exact prime_5
        · exact prime_17)
    (by decide +kernel) (by decide +kernel)
    (by intro f hf; simp only [List.mem_cons, List.not_mem_nil, or_false] at hf; rcases hf with rfl | rfl | rfl <;> decide +kernel)

theorem prime_2851 : Nat.Prime 2851 :=
  pratt 2851 2 [(2,1), (3,1), (5,2), (19,1)] (by norm_num)
    (by intro f hf; simp only [List.mem_cons, List.not_mem_nil, or_false] at hf; rcases hf with rfl | rfl | rfl | rfl
        · exact prime_2
        · exact prime_3
        · exact prime_5
        · exact prime_19)
    (by decide +kernel) (by decide +kernel)
    (by intro f hf; simp only [List.mem_cons, List.not_mem_nil, or_false] at hf; rcases hf with rfl | rfl | rfl | rfl <;> decide +kernel)

theorem prime_2551 : Nat.Prime 2551 :=
  pratt 2551 6 [(2,1), (3,1), (5,2), (17,1)] (by norm_num)
    (by intro f hf; simp only [List.mem_cons, List.not_mem_nil, or_false] at hf; rcases hf with rfl | rfl | rfl | rfl
        · exact prime_2
        · exact prime_3
        · exact prime_5
        · exact prime_17)
    (by decide +kernel) (by decide +kernel)
    (by intro f hf; simp only [List.mem_cons, List.not_mem_nil, or_false] at hf; rcases hf with rfl | rfl | rfl | rfl <;> decide +kernel)

theorem prime_1224481 : Nat.Prime 1224481 :=
  pratt 1224481 13 [(2,5), (3,1), (5,1), (2551,1)] (by norm_num)
    (by intro f hf; simp only [List.mem_cons, List.not_mem_nil, or_false] at hf; rcases hf with rfl | rfl | rfl | rfl
        · exact prime_2
        · exact prime_3
        · exact prime_5
        · exact prime_2551)
    (by decide +kernel) (by decide +kernel)
    (by intro f hf; simp only [List.mem_cons, List.not_mem_nil, or_false] at hf; rcases hf with rfl | rfl | rfl | rfl <;> decide +kernel)

theorem prime_3797 : Nat.Prime 3797 :=
  pratt 3797 2 [(2,2), (13,1), (73,1)] (by norm_num)
    (by intro f hf; simp only [List.mem_cons, List.not_mem_nil, or_false] at hf; rcases hf with rfl | rfl | rfl
        · exact prime_2
        · exact prime_13
        · exact prime_73)
    (by decide +kernel) (by decide +kernel)
    (by intro f hf; simp only [List.mem_cons, List.not_mem_nil, or_false] at hf; rcases hf with rfl | rfl | rfl <;> decide +kernel)

theorem prime_531581 : Nat.Prime 531581 :=
  pratt 531581 2 [(2,2), (5,1), (7,1), (3797,1)] (by norm_num)
    (by intro f hf; simp only [List.mem_cons, List.not_mem_nil, or_false] at hf; rcases hf with rfl | rfl | rfl | rfl
        · exact prime_2
        · exact prime_5
        · exact prime_7
        · exact prime_3797)
    (by decide +kernel) (by decide +kernel)
    (by intro f hf; simp only [List.mem_cons, List.not_mem_nil, or_false] at hf; rcases hf with rfl | rfl | rfl | rfl <;> decide +kernel)

theorem prime_1257559732178653 : Nat.Prime 1257559732178653 :=
  pratt 1257559732178653 2 [(2,2), (3,1), (7,1), (23,1), (531581,1), (1224481,1)] (by norm_num)
    (by intro f hf; simp only [List.mem_cons, List.not_mem_nil, or_false] at hf; rcases hf with rfl | rfl | rfl | rfl | rfl | rfl
        · exact prime_2
        · exact prime_3
        · exact prime_7
        · exact prime_23
        · exact prime_531581
        · exact prime_1224481)
    (by decide +kernel) (by decide +kernel)
    (by intro f hf; simp only [List.mem_cons, List.not_mem_nil, or_false] at hf; rcases hf with rfl | rfl | rfl | rfl | rfl | rfl <;> decide +kernel)

theorem prime_4434155615661930479 : Nat.Prime 4434155615661930479 :=
  pratt 4434155615661930479 17 [(2,1), (41,1), (43,1), (1257559732178653,1)] (by norm_num)
    (by intro f hf; simp only [List.mem_cons, List.not_mem_nil, or_false] at hf; rcases hf with rfl | rfl | rfl | rfl
        · exact prime_2
        · exact prime_41
        · exact prime_43
        · exact prime_1257559732178653)
    (by decide +kernel) (by decide +kernel)
    (by intro f hf; simp only [List.mem_cons, List.not_mem_nil, or_false] at hf; rcases hf with rfl | rfl | rfl | rfl <;> decide +kernel)

theorem prime_172054593956031949258510691 : Nat.Prime 172054593956031949258510691 :=
  pratt 172054593956031949258510691 2 [(2,1), (5,1), (1361,1), (2851,1), (4434155615661930479,1)] (by norm_num)
    (by intro f hf; simp only [List.mem_cons, List.not_mem_nil, or_false] at hf; rcases hf with rfl | rfl | rfl | rfl | rfl
        · exact prime_2
        · exact prime_5
        · exact prime_1361
        · exact prime_2851
        · exact prime_4434155615661930479)
    (by decide +kernel) (by decide +kernel)
    (by intro f hf; simp only [List.mem_cons, List.not_mem_nil, or_false] at hf; rcases hf with rfl | rfl | rfl | rfl | rfl <;> decide +kernel)

theorem prime_19757330305831588566944191468367130476339 : Nat.Prime 19757330305831588566944191468367130476339 :=
  pratt 19757330305831588566944191468367130476339 2 [(2,1), (269,1), (213441916511,1), (172054593956031949258510691,1)] (by norm_num)
    (by intro f hf; simp only [List.mem_cons, List.not_mem_nil, or_false] at hf; rcases hf with rfl | rfl | rfl | rfl
        · exact prime_2
        · exact prime_269
        · exact prime_213441916511
        · exact prime_172054593956031949258510691)
    (by decide +kernel) (by decide +kernel)
    (by intro f hf; simp only [List.mem_cons, List.not_mem_nil, or_false] at hf; rcases hf with rfl | rfl | rfl | rfl <;> decide +kernel)

theorem prime_276602624281642239937218680557139826668747 : Nat.Prime 276602624281642239937218680557139826668747 :=
  pratt 276602624281642239937218680557139826668747 2 [(2,1), (7,1), (19757330305831588566944191468367130476339,1)] (by norm_num)
    (by intro f hf; simp only [List.mem_cons, List.not_mem_nil, or_false] at hf; rcases hf with rfl | rfl | rfl
        · exact prime_2
        · exact prime_7
        · exact prime_19757330305831588566944191468367130476339)
    (by decide +kernel) (by decide +kernel)
    (by intro f hf; simp only [List.mem_cons, List.not_mem_nil, or_false] at hf; rcases hf with rfl | rfl | rfl <;> decide +kernel)

theorem prime_7237005577332262213973186563042994240857116359379907606001950938285454250989 : Nat.Prime 7237005577332262213973186563042994240857116359379907606001950938285454250989 :=
  pratt 7237005577332262213973186563042994240857116359379907606001950938285454250989 2 [(2,2), (3,1), (11,1), (198211423230930754013084525763697,1), (276602624281642239937218680557139826668747,1)] (by norm_num)
    (by intro f hf; simp only [List.mem_cons, List.not_mem_nil, or_false] at hf; rcases hf with rfl | rfl | rfl | rfl | rfl
        · exact prime_2
        · exact prime_3
        · exact prime_11
        · exact prime_198211423230930754013084525763697
        · exact prime_276602624281642239937218680557139826668747)
    (by decide +kernel) (by decide +kernel)
    (by intro f hf; simp only [List.mem_cons, List.not_mem_nil, or_false] at hf; rcases hf with rfl | rfl | rfl | rfl | rfl <;> decide +kernel)

theorem prime_p25519 : Nat.Prime (2^255 - 19) := by
  have h : 2^255 - 19 = 57896044618658097711785492504343953926634992332820282019728792003956564819949 := by norm_num
  rw [h]; exact prime_57896044618658097711785492504343953926634992332820282019728792003956564819949

theorem prime_l : Nat.Prime (2^252 + 27742317777372353535851937790883648493) := by
  have h : 2^252 + 27742317777372353535851937790883648493 = 7237005577332262213973186563042994240857116359379907606001950938285454250989 := by norm_num
  rw [h]; exact prime_7237005577332262213973186563042994240857116359379907606001950938285454250989

end EdVerif.Spec.PrattChains