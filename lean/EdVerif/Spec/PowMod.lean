import Mathlib.Tactic.Ring
import Mathlib.Tactic.NormNum
import Mathlib.Data.Nat.Log

/-! Kernel-evaluable modular exponentiation.

`powMod a n m` is structurally recursive (on a fuel argument), so `decide +kernel` evaluates it on
255-bit exponents in well under a second; `powMod_eq` ties it to `a ^ n % m`. -/
namespace EdVerif.Spec

/-- binary modular exponentiation, structural on fuel -/
def powModAux : Nat → Nat → Nat → Nat → Nat → Nat
  | 0, _, _, _, acc => acc
  | fuel+1, a, n, m, acc =>
    if n = 0 then acc else
    powModAux fuel (a * a % m) (n / 2) m (if n % 2 = 1 then acc * a % m else acc)

/-- `powMod a n m = a ^ n % m` (see `powMod_eq`), computed by square-and-multiply -/
def powMod (a n m : Nat) : Nat := powModAux (n.log2 + 1) (a % m) n m (1 % m)

theorem powModAux_eq (fuel a n m acc : Nat) (hf : n < 2 ^ fuel) :
    powModAux fuel a n m acc % m = (acc * a ^ n) % m := by
  induction fuel generalizing a n acc with
  | zero =>
    have : n = 0 := by simpa using hf
    subst this; simp [powModAux]
  | succ k ih =>
    unfold powModAux
    split
    · next h => subst h; simp
    · next h =>
      have hlt : n / 2 < 2 ^ k := by
        rw [Nat.div_lt_iff_lt_mul (by norm_num)]; rw [pow_succ] at hf; omega
      rw [ih _ _ _ hlt]
      have hn : n = 2 * (n / 2) + n % 2 := (Nat.div_add_mod n 2).symm
      have e : a ^ n = (a * a) ^ (n / 2) * a ^ (n % 2) := by
        conv_lhs => rw [hn, pow_add, pow_mul]
        rw [sq]
      split
      · next h1 =>
        rw [e, h1, pow_one]
        have : (acc * a % m * (a * a % m) ^ (n / 2)) % m = (acc * a * (a * a) ^ (n / 2)) % m := by
          rw [Nat.mul_mod, Nat.mod_mod, Nat.pow_mod, Nat.mod_mod, ← Nat.pow_mod, ← Nat.mul_mod]
        rw [this]; ring_nf
      · next h1 =>
        have h0 : n % 2 = 0 := by omega
        rw [e, h0, pow_zero, mul_one]
        rw [Nat.mul_mod, Nat.pow_mod, Nat.mod_mod, ← Nat.pow_mod, ← Nat.mul_mod]

/-- the accumulator stays reduced -/
theorem powModAux_mod (fuel a n m acc : Nat) (hacc : acc % m = acc) :
    powModAux fuel a n m acc % m = powModAux fuel a n m acc := by
  induction fuel generalizing a n acc with
  | zero => simpa [powModAux] using hacc
  | succ k ih =>
    unfold powModAux
    split
    · exact hacc
    · apply ih
      split
      · exact Nat.mod_mod _ _
      · exact hacc

theorem powMod_spec (a n m : Nat) : powMod a n m % m = a ^ n % m := by
  unfold powMod
  rw [powModAux_eq _ _ _ _ _ (Nat.lt_log2_self (n := n))]
  rw [Nat.mul_mod, Nat.mod_mod, Nat.pow_mod, Nat.mod_mod, ← Nat.pow_mod, ← Nat.mul_mod, Nat.one_mul]

theorem powMod_eq (a n m : Nat) : powMod a n m = a ^ n % m := by
  rw [← powMod_spec]
  exact (powModAux_mod _ _ _ _ _ (Nat.mod_mod _ _)).symm

end EdVerif.Spec
