import EdVerif.Asm.Sem
import EdVerif.Gen.Asm
/-!
The three assembly routines as partial functions on `Element` values (the instruction lists are the
generated `EdVerif.Gen.Asm.*_code`), and the static facts about the lists. Core Lean only.
-/
namespace EdVerif.Asm
open EdVerif.Prims EdVerif.Gen.Asm

/-- `feMul(out, a, b)` of `fe_amd64.s` called with the objects `i, j, k` of `mem` (not necessarily
distinct): the final memory -/
def feMulAsmMem (mem : Mem) (i j k : Nat) : Option Mem := runRoutine feMul_code [i, j, k] mem
/-- `feSquare(out, a)` of `fe_amd64.s` -/
def feSquareAsmMem (mem : Mem) (i j : Nat) : Option Mem := runRoutine feSquare_code [i, j] mem
/-- `carryPropagate(v)` of `fe_arm64.s` -/
def carryPropagateArm64Mem (mem : Mem) (i : Nat) : Option Mem := runRoutine carryPropagate_code [i] mem

/-- three separate objects: what `*out` holds afterwards, from an arbitrary prior `*out` -/
def feMulAsmFrom (out a b : Fe) : Option Fe := (feMulAsmMem (memOf [out, a, b]) 0 1 2).map (· 0)
def feSquareAsmFrom (out a : Fe) : Option Fe := (feSquareAsmMem (memOf [out, a]) 0 1).map (· 0)

def feMulAsm (a b : Fe) : Option Fe := feMulAsmFrom ⟨0, 0, 0, 0, 0⟩ a b
def feSquareAsm (a : Fe) : Option Fe := feSquareAsmFrom ⟨0, 0, 0, 0, 0⟩ a
/-- `carryPropagate(v)` of `fe_arm64.s` (in place) -/
def carryPropagateArm64 (v : Fe) : Option Fe := (carryPropagateArm64Mem (memOf [v]) 0).map (· 0)

/-- every `name+off(FP)` operand names the parameter at that offset of the Go declaration -/
def argsOk (code : List Instr) (params : List String) : Bool :=
  code.all fun i => i.args.all fun a =>
    match a with
    | .arg name off => off % 8 == 0 && params[off / 8]? == some name
    | _ => true

theorem feMul_ctOk : ctOk feMul_code = true := by decide +kernel
theorem feSquare_ctOk : ctOk feSquare_code = true := by decide +kernel
theorem carryPropagate_ctOk : ctOk carryPropagate_code = true := by decide +kernel

theorem feMul_readsBeforeWrites : readsBeforeWrites feMul_code = true := by decide +kernel
theorem feSquare_readsBeforeWrites : readsBeforeWrites feSquare_code = true := by decide +kernel
theorem carryPropagate_readsBeforeWrites : readsBeforeWrites carryPropagate_code = true := by decide +kernel

theorem feMul_argsOk : argsOk feMul_code feMul_params = true := by decide +kernel
theorem feSquare_argsOk : argsOk feSquare_code feSquare_params = true := by decide +kernel
theorem carryPropagate_argsOk : argsOk carryPropagate_code carryPropagate_params = true := by decide +kernel

/-- argument size of the TEXT directive = 8 bytes per pointer parameter; no stack frame -/
theorem frames_ok : feMul_frame = (0, 8 * feMul_params.length) ∧ feSquare_frame = (0, 8 * feSquare_params.length) ∧
    carryPropagate_frame = (0, 8 * carryPropagate_params.length) := by decide +kernel

end EdVerif.Asm
