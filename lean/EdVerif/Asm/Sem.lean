import EdVerif.Prims
/-!
Hand-written (trusted) semantics of the Plan-9 assembly subset that occurs in
`field/fe_amd64.s` (`feMul`, `feSquare`) and `field/fe_arm64.s` (`carryPropagate`).
Core Lean only, executable. The instruction *data* comes from `tools/go2lean asm` (T3,
`EdVerif/Gen/Asm.lean`); nothing about the meaning of an opcode is decided by the translator.

Conventions (Go assembler): sources first, destination last.

Machine model
* registers hold either a 64-bit number (`Val.num n`, `n < 2^64` is preserved by every opcode when the
  memory holds `uint64`s) or an abstract pointer `Val.ptr obj off`: "address of the `Element` object
  number `obj`, plus `off` bytes". A register that was never written cannot be read (error).
* `cf` is the carry flag: `some c` after `ADDQ`/`ADCQ`, `none` (unknown) after every other arithmetic
  opcode; `ADCQ` with unknown carry is an error. `MOVQ` does not touch flags.
* memory is a map from object numbers to `Element`s; an `Element` is five 8-byte limbs at byte offsets
  0, 8, 16, 24, 32 (distinct objects do not overlap; Go has no interior `*Element` arithmetic). The
  pointer arguments of the routine are given as a list of object numbers (`args[k]` = the argument at
  `8*k(FP)`), so the caller may pass the same object several times: aliasing is part of the model, and
  the theorems of C20 hold for every aliasing pattern. `readsBeforeWrites` (below) is the static reason.
* the arithmetic on numbers is the `uint64` arithmetic of `EdVerif.Prims` (`U.add 64`, `Bits.Mul64`, …).
-/
namespace EdVerif.Asm
open EdVerif.Prims

inductive Reg
  | AX | BX | CX | DX | SI | DI | BP | SP
  | R (n : Nat)            -- amd64 R8..R15, arm64 R0..R30
deriving DecidableEq, Repr, Inhabited

inductive Op
  -- amd64
  | MOVQ | MULQ | IMUL3Q | ADDQ | ADCQ | SHLQ | SHRQ | ANDQ
  -- arm64
  | MOVD | LDP | STP | AND | ADD | LSR | MADD
  -- both
  | RET
deriving DecidableEq, Repr, Inhabited

inductive Operand
  | reg (r : Reg)
  | imm (n : Nat)                      -- `$n`
  | mem (off : Nat) (base : Reg)       -- `off(base)`
  | arg (name : String) (off : Nat)    -- `name+off(FP)`
  | shr (r : Reg) (k : Nat)            -- arm64 shifted register operand `R>>k`
  | pair (r1 r2 : Reg)                 -- arm64 register pair `(R1, R2)`
deriving DecidableEq, Repr, Inhabited

structure Instr where
  op : Op
  args : List Operand
deriving DecidableEq, Repr, Inhabited

inductive Val
  | num (n : Nat)
  | ptr (obj : Nat) (off : Nat)
deriving DecidableEq, Repr, Inhabited

abbrev Mem := Nat → Fe

/-- memory update of one object -/
def upd (m : Mem) (i : Nat) (e : Fe) : Mem := fun x => if x = i then e else m x

abbrev RegFile := List (Reg × Val)

structure State where
  regs : RegFile
  cf : Option Nat
  /-- object numbers of the pointer arguments, in order -/
  args : List Nat
  mem : Mem

def getReg : RegFile → Reg → Option Val
  | [], _ => none
  | (r', v) :: rest, r => if r' = r then some v else getReg rest r

def setReg : RegFile → Reg → Val → RegFile
  | [], r, v => [(r, v)]
  | (r', v') :: rest, r, v => if r' = r then (r, v) :: rest else (r', v') :: setReg rest r v

def limbGet (e : Fe) (off : Nat) : Option Nat :=
  if off = 0 then some e.l0 else if off = 8 then some e.l1 else if off = 16 then some e.l2
  else if off = 24 then some e.l3 else if off = 32 then some e.l4 else none

def limbSet (e : Fe) (off : Nat) (v : Nat) : Option Fe :=
  if off = 0 then some { e with l0 := v } else if off = 8 then some { e with l1 := v }
  else if off = 16 then some { e with l2 := v } else if off = 24 then some { e with l3 := v }
  else if off = 32 then some { e with l4 := v } else none

def argGet : List Nat → Nat → Option Nat
  | [], _ => none
  | e :: _, 0 => some e
  | _ :: rest, k+1 => argGet rest k

namespace State

def num (s : State) (r : Reg) : Option Nat :=
  match getReg s.regs r with
  | some (.num n) => some n
  | _ => none

def setNum (s : State) (r : Reg) (n : Nat) : State := { s with regs := setReg s.regs r (.num n) }

/-- address denoted by `off(base)` -/
def addr (s : State) (off : Nat) (base : Reg) : Option (Nat × Nat) :=
  match getReg s.regs base with
  | some (.ptr obj o) => some (obj, o + off)
  | _ => none

def load (s : State) (off : Nat) (base : Reg) : Option Nat :=
  match s.addr off base with
  | some (obj, o) => limbGet (s.mem obj) o
  | none => none

def store (s : State) (off : Nat) (base : Reg) (v : Nat) : Option State :=
  match s.addr off base with
  | some (obj, o) =>
    match limbSet (s.mem obj) o v with
    | some e' => some { s with mem := upd s.mem obj e' }
    | none => none
  | none => none

/-- `name+off(FP)`: the pointer argument at frame offset `off` -/
def argPtr (s : State) (off : Nat) : Option Val :=
  if off % 8 = 0 then
    match argGet s.args (off / 8) with
    | some obj => some (.ptr obj 0)
    | none => none
  else none

/-- a numeric source operand: register, immediate, or memory -/
def src (s : State) : Operand → Option Nat
  | .reg r => s.num r
  | .imm n => some n
  | .mem off base => s.load off base
  | _ => none

end State

/-- One instruction. `none` = outside the modelled subset / ill-formed use (never a silent default). -/
def step (i : Instr) (s : State) : Option State :=
  match i.op, i.args with
  /- ---------------- amd64 ---------------- -/
  -- MOVQ name+off(FP), r : load a pointer argument
  | .MOVQ, [.arg _ off, .reg d] =>
    match s.argPtr off with
    | some p => some { s with regs := setReg s.regs d p }
    | none => none
  -- MOVQ r, off(base) : store
  | .MOVQ, [.reg r, .mem off base] =>
    match s.num r with
    | some v => s.store off base v
    | none => none
  -- MOVQ src, r  (src = register holding a number, immediate, memory)
  | .MOVQ, [a, .reg d] =>
    match s.src a with
    | some v => some (s.setNum d v)
    | none => none
  -- MULQ src : DX:AX := AX * src
  | .MULQ, [a] =>
    match s.num .AX, s.src a with
    | some x, some y =>
      let p := Bits.Mul64 x y
      some { (s.setNum .AX p.2).setNum .DX p.1 with cf := none }
    | _, _ => none
  -- IMUL3Q $imm, src, dst : dst := low 64 bits of src * imm
  | .IMUL3Q, [.imm c, a, .reg d] =>
    match s.src a with
    | some x => some { s.setNum d (U.mul 64 x c) with cf := none }
    | none => none
  -- ADDQ src, dst : dst := dst + src, CF := carry out
  | .ADDQ, [a, .reg d] =>
    match s.num d, s.src a with
    | some x, some y =>
      let r := Bits.Add64 x y 0
      some { s.setNum d r.1 with cf := some r.2 }
    | _, _ => none
  -- ADCQ src, dst : dst := dst + src + CF, CF := carry out
  | .ADCQ, [a, .reg d] =>
    match s.num d, s.src a, s.cf with
    | some x, some y, some c =>
      let r := Bits.Add64 x y c
      some { s.setNum d r.1 with cf := some r.2 }
    | _, _, _ => none
  -- SHLQ $k, lo, hi (SHLD): hi := hi << k | lo >> (64-k)
  | .SHLQ, [.imm k, .reg lo, .reg hi] =>
    if 0 < k ∧ k < 64 then
      match s.num lo, s.num hi with
      | some l, some h => some { s.setNum hi (U.or 64 (U.shl 64 h k) (U.shr 64 l (64 - k))) with cf := none }
      | _, _ => none
    else none
  -- SHLQ $k, r
  | .SHLQ, [.imm k, .reg d] =>
    if k < 64 then
      match s.num d with
      | some x => some { s.setNum d (U.shl 64 x k) with cf := none }
      | none => none
    else none
  -- SHRQ $k, r
  | .SHRQ, [.imm k, .reg d] =>
    if k < 64 then
      match s.num d with
      | some x => some { s.setNum d (U.shr 64 x k) with cf := none }
      | none => none
    else none
  -- ANDQ src, dst
  | .ANDQ, [a, .reg d] =>
    match s.num d, s.src a with
    | some x, some y => some { s.setNum d (U.and 64 x y) with cf := none }
    | _, _ => none
  /- ---------------- arm64 ---------------- -/
  | .MOVD, [.arg _ off, .reg d] =>
    match s.argPtr off with
    | some p => some { s with regs := setReg s.regs d p }
    | none => none
  | .MOVD, [.reg r, .mem off base] =>
    match s.num r with
    | some v => s.store off base v
    | none => none
  | .MOVD, [a, .reg d] =>
    match s.src a with
    | some v => some (s.setNum d v)
    | none => none
  -- LDP off(base), (r1, r2) : r1 := [base+off], r2 := [base+off+8]
  | .LDP, [.mem off base, .pair r1 r2] =>
    match s.load off base, s.load (off + 8) base with
    | some x, some y => if r1 = r2 then none else some ((s.setNum r1 x).setNum r2 y)
    | _, _ => none
  -- STP (r1, r2), off(base)
  | .STP, [.pair r1 r2, .mem off base] =>
    match s.num r1, s.num r2 with
    | some x, some y =>
      match s.store off base x with
      | some s' => s'.store (off + 8) base y
      | none => none
    | _, _ => none
  -- AND $imm, Rn, Rd
  | .AND, [.imm c, .reg n, .reg d] =>
    match s.num n with
    | some x => some (s.setNum d (U.and 64 x c))
    | none => none
  -- ADD Rm>>k, Rn, Rd : Rd := Rn + (Rm >> k)
  | .ADD, [.shr m k, .reg n, .reg d] =>
    if k < 64 then
      match s.num m, s.num n with
      | some y, some x => some (s.setNum d (U.add 64 x (U.shr 64 y k)))
      | _, _ => none
    else none
  -- LSR $k, Rn, Rd
  | .LSR, [.imm k, .reg n, .reg d] =>
    if k < 64 then
      match s.num n with
      | some x => some (s.setNum d (U.shr 64 x k))
      | none => none
    else none
  -- MADD Rm, Ra, Rn, Rd : Rd := Ra + Rn * Rm
  | .MADD, [.reg m, .reg a, .reg n, .reg d] =>
    match s.num m, s.num a, s.num n with
    | some xm, some xa, some xn => some (s.setNum d (U.add 64 xa (U.mul 64 xn xm)))
    | _, _, _ => none
  | _, _ => none

/-- Run a routine: straight-line execution up to the first `RET`; falling off the end is an error. -/
def run : List Instr → State → Option State
  | [], _ => none
  | i :: rest, s =>
    if i.op = .RET then (if i.args = [] then some s else none)
    else
      match step i s with
      | some s' => run rest s'
      | none => none

def init (args : List Nat) (mem : Mem) : State := { regs := [], cf := none, args := args, mem := mem }

/-- run a routine whose pointer arguments are the objects `args` of the memory `mem`; final memory -/
def runRoutine (code : List Instr) (args : List Nat) (mem : Mem) : Option Mem :=
  match run code (init args mem) with
  | some s => some s.mem
  | none => none

/-- memory with objects `0, 1, …` = the given list -/
def memOf : List Fe → Mem
  | [], _ => ⟨0, 0, 0, 0, 0⟩
  | e :: _, 0 => e
  | _ :: rest, k+1 => memOf rest k

/-! ### static checks (decided on the generated instruction lists) -/

/-- the instruction writes memory (only `MOVQ/MOVD r, off(base)` and `STP` do) -/
def isStore (i : Instr) : Bool :=
  match i.op, i.args with
  | .STP, _ => true
  | .MOVQ, [_, .mem _ _] => true
  | .MOVD, [_, .mem _ _] => true
  | _, _ => false

/-- the instruction reads memory: any memory operand of an instruction that is not a store -/
def isLoad (i : Instr) : Bool :=
  !isStore i && i.args.any fun a => match a with | .mem _ _ => true | _ => false

/-- no load is executed after a store (so aliasing of the pointer arguments cannot be observed) -/
def readsBeforeWrites : List Instr → Bool
  | [] => true
  | i :: rest => if isStore i then rest.all (fun j => !isLoad j) && readsBeforeWrites rest
                 else readsBeforeWrites rest

/-- destination register(s) written by an instruction (numbers or pointers) -/
def dests (i : Instr) : List Reg :=
  match i.op, i.args with
  | .MULQ, _ => [.AX, .DX]
  | .STP, _ => []
  | .RET, _ => []
  | _, args =>
    match args.getLast? with
    | some (.reg d) => [d]
    | some (.pair r1 r2) => [r1, r2]
    | _ => []

/-- the instruction loads a pointer argument into a register: `MOVQ/MOVD name+off(FP), r` -/
def loadsPtr (i : Instr) : Option Reg :=
  match i.args with
  | [.arg _ _, .reg d] => some d
  | _ => none

def memBases (i : Instr) : List Reg :=
  i.args.filterMap fun a => match a with | .mem _ b => some b | _ => none

def argWellFormed : Operand → Bool
  | .mem off _ => off % 8 == 0 && off < 40
  | .arg _ off => off % 8 == 0
  | .shr _ k => k < 64
  | .imm n => n < 2^64
  | _ => true

/-- shape of the operands per opcode; in particular every shift count is an immediate -/
def shapeOk (i : Instr) : Bool :=
  match i.op, i.args with
  | .MOVQ, [.arg _ _, .reg _] | .MOVQ, [.reg _, .mem _ _] | .MOVQ, [.mem _ _, .reg _]
  | .MOVQ, [.reg _, .reg _] | .MOVQ, [.imm _, .reg _] => true
  | .MULQ, [.reg _] | .MULQ, [.mem _ _] => true
  | .IMUL3Q, [.imm _, .reg _, .reg _] | .IMUL3Q, [.imm _, .mem _ _, .reg _] => true
  | .ADDQ, [.reg _, .reg _] | .ADDQ, [.imm _, .reg _] | .ADDQ, [.mem _ _, .reg _] => true
  | .ADCQ, [.reg _, .reg _] | .ADCQ, [.imm _, .reg _] | .ADCQ, [.mem _ _, .reg _] => true
  | .ANDQ, [.reg _, .reg _] | .ANDQ, [.imm _, .reg _] | .ANDQ, [.mem _ _, .reg _] => true
  | .SHLQ, [.imm k, .reg _, .reg _] => decide (0 < k ∧ k < 64)
  | .SHLQ, [.imm k, .reg _] | .SHRQ, [.imm k, .reg _] => decide (k < 64)
  | .MOVD, [.arg _ _, .reg _] | .MOVD, [.reg _, .mem _ _] | .MOVD, [.mem _ _, .reg _]
  | .MOVD, [.reg _, .reg _] | .MOVD, [.imm _, .reg _] => true
  | .LDP, [.mem _ _, .pair _ _] | .STP, [.pair _ _, .mem _ _] => true
  | .AND, [.imm _, .reg _, .reg _] => true
  | .ADD, [.shr _ _, .reg _, .reg _] => true
  | .LSR, [.imm k, .reg _, .reg _] => decide (k < 64)
  | .MADD, [.reg _, .reg _, .reg _, .reg _] => true
  | .RET, [] => true
  | _, _ => false

/-- forward scan: `ptrs` = registers that currently hold an (unmodified) pointer argument; every memory
operand must be based on one of them -/
def basesOk : List Instr → List Reg → Bool
  | [], _ => true
  | i :: rest, ptrs =>
    (memBases i).all (fun b => ptrs.contains b) &&
    basesOk rest (match loadsPtr i with
      | some d => d :: ptrs
      | none => ptrs.filter fun r => !(dests i).contains r)

/-- Constant-time shape of a routine:
* only opcodes of the modelled subset with the modelled operand shapes — the type `Op` has no branch,
  call, or data-dependent-latency division opcode, and `shapeOk` forces immediate shift counts;
* every memory operand is `const(base)` where `base` holds a pointer argument loaded by
  `MOV name+off(FP), base` and not written since (so every address is an argument pointer plus a
  constant `< 40`, independent of the data);
* exactly one `RET`, at the end. -/
def ctOk (code : List Instr) : Bool :=
  code.all (fun i => shapeOk i && i.args.all argWellFormed) &&
  basesOk code [] &&
  (match code.getLast? with | some i => i.op == .RET | none => false) &&
  (code.dropLast).all (fun i => i.op != .RET)

end EdVerif.Asm
