/-!
Hand-written vocabulary for the build facts printed by `tools/go2lean facts` (T4,
`EdVerif/Gen/Facts.lean`): build constraints as Boolean formulas over tags, the symbols a file
defines, and the (executable, `decide`d) questions asked about them. Core Lean only.
-/
namespace EdVerif.Asm.Facts

/-- a build constraint (`//go:build` expression) -/
inductive BExpr
  | tt
  | tag (t : String)
  | not (e : BExpr)
  | and (a b : BExpr)
  | or (a b : BExpr)
deriving DecidableEq, Repr, Inhabited

/-- what a top-level symbol of a file is -/
inductive Kind
  | func     -- function with a Go body
  | stub     -- body-less Go declaration (implemented in assembly)
  | asm      -- assembly `TEXT ·name(SB)`: the body of a stub
  | method   -- method with a Go body
  | type | var | const
deriving DecidableEq, Repr, Inhabited

structure Sym where
  recv : String      -- receiver base type for methods, `""` otherwise
  name : String
  kind : Kind
  /-- for Go-bodied functions/methods of build-constrained files: number of top-level statements -/
  stmts : Nat
  /-- … and the names of the functions (`f`) / methods (`.m`) called in the body, in source order -/
  calls : List String
deriving DecidableEq, Repr, Inhabited

structure FileFact where
  pkg : String
  file : String
  goBuild : BExpr            -- the `//go:build` line (`tt` if absent)
  fileName : BExpr           -- implicit `_GOOS/_GOARCH` file-name constraint
  plusBuild : Option BExpr   -- conjunction of the legacy `// +build` lines, if any
  syms : List Sym
deriving Repr, Inhabited

/-- a build configuration = the set of tags that are true -/
abbrev Config := List String

def BExpr.eval (c : Config) : BExpr → Bool
  | .tt => true
  | .tag t => c.contains t
  | .not e => !e.eval c
  | .and a b => a.eval c && b.eval c
  | .or a b => a.eval c || b.eval c

def BExpr.tags : BExpr → List String
  | .tt => []
  | .tag t => [t]
  | .not e => e.tags
  | .and a b => a.tags ++ b.tags
  | .or a b => a.tags ++ b.tags

/-- the file is part of the build under `c` -/
def FileFact.active (f : FileFact) (c : Config) : Bool := f.goBuild.eval c && f.fileName.eval c

def Sym.full (s : Sym) : String := if s.recv = "" then s.name else s.recv ++ "." ++ s.name

/-- all tags mentioned by any constraint -/
def allTags (fs : List FileFact) : List String :=
  (fs.flatMap fun f => f.goBuild.tags ++ f.fileName.tags ++ (match f.plusBuild with | some e => e.tags | none => [])).eraseDups

/-- all files (with the symbol entry) that define `pkg.full`, in any configuration; `asm = true` selects
the assembly bodies (`TEXT ·name`), `asm = false` the Go-level definitions -/
def definers (fs : List FileFact) (asm : Bool) (pkg full : String) : List (FileFact × Sym) :=
  fs.flatMap fun f =>
    if f.pkg = pkg then
      (f.syms.filter fun s => (s.kind == .asm) == asm && s.full = full).map fun s => (f, s)
    else []

def activeIn (c : Config) (ds : List (FileFact × Sym)) : List (FileFact × Sym) :=
  ds.filter fun d => d.1.active c

def defKinds (ds : List (FileFact × Sym)) : List (String × Kind) := ds.map fun d => (d.1.file, d.2.kind)

/-- the Go-level definitions (everything but assembly bodies) of `pkg.full` selected by `c`:
list of (file, kind) -/
def selected (fs : List FileFact) (c : Config) (pkg full : String) : List (String × Kind) :=
  defKinds (activeIn c (definers fs false pkg full))

/-- body shape (statement count, callees) of the Go-bodied definitions of `pkg.full` selected by `c` -/
def selectedBody (fs : List FileFact) (c : Config) (pkg full : String) : List (Nat × List String) :=
  ((activeIn c (definers fs false pkg full)).filter fun d => d.2.kind == .func || d.2.kind == .method).map
    fun d => (d.2.stmts, d.2.calls)

/-- the assembly bodies of `pkg.name` selected by `c` (file names) -/
def selectedAsm (fs : List FileFact) (c : Config) (pkg name : String) : List String :=
  (activeIn c (definers fs true pkg name)).map fun d => d.1.file

/-- all (pkg, full name) occurrences of Go-level symbol definitions (a name defined in several files
occurs several times; string comparison is slow in the kernel, so no de-duplication here) -/
def allSymbols (fs : List FileFact) : List (String × String) :=
  fs.flatMap fun f => (f.syms.filter fun s => s.kind != .asm).map fun s => (f.pkg, s.full)

/-- The twelve truth assignments of (amd64, arm64, gc, purego) with `¬(amd64 ∧ arm64)`. -/
def allConfigs : List Config :=
  [[], ["amd64"], ["arm64"]].flatMap fun arch =>
    [[], ["gc"]].flatMap fun gc => [[], ["purego"]].map fun pg => arch ++ gc ++ pg

def cfgAmd64 : Config := ["amd64", "gc"]
def cfgAmd64Purego : Config := ["amd64", "gc", "purego"]
def cfgArm64 : Config := ["arm64", "gc"]
def cfgOther : Config := ["gc"]
def namedConfigs : List Config := [cfgAmd64, cfgAmd64Purego, cfgArm64, cfgOther]

/-- every package-level Go symbol has at most one definition in every configuration; a body-less
declaration is selected iff exactly one assembly body of that name is, and no assembly body is selected
without its declaration -/
def wellFormed (fs : List FileFact) (cs : List Config) : Bool :=
  (allSymbols fs).all fun (p, n) =>
    let ds := definers fs false p n
    let as := definers fs true p n
    cs.all fun c =>
      let sel := activeIn c ds
      let asm := activeIn c as
      sel.length ≤ 1 &&
      (if sel.any (fun d => d.2.kind == .stub) then asm.length == 1 else asm.length == 0)

/-- every assembly symbol has a Go-level declaration somewhere in its package -/
def asmDeclared (fs : List FileFact) : Bool :=
  fs.all fun f => f.syms.all fun s => s.kind != .asm || !(definers fs false f.pkg s.full).isEmpty

/-- symbols whose selected definition (file and kind, or absence) is not the same in all of `cs` -/
def configDependentSymbols (fs : List FileFact) (cs : List Config) : List (String × String) :=
  ((allSymbols fs).filter fun (p, n) =>
    let ds := definers fs false p n
    match cs with
    | [] => false
    | c0 :: rest => rest.any fun c => defKinds (activeIn c ds) != defKinds (activeIn c0 ds)).eraseDups

/-- the `//go:build` line and the legacy `// +build` lines agree on every configuration -/
def plusBuildAgrees (fs : List FileFact) (cs : List Config) : Bool :=
  fs.all fun f =>
    match f.plusBuild with
    | some e => cs.all fun c => e.eval c == f.goBuild.eval c
    | none => true

/-- the explicit constraint of a file implies its implicit file-name constraint -/
def fileNameImplied (fs : List FileFact) (cs : List Config) : Bool :=
  fs.all fun f => cs.all fun c => !f.goBuild.eval c || f.fileName.eval c

end EdVerif.Asm.Facts
