import EdVerif.Asm.Routines
/-!
Symbolic execution of the assembly routines (core Lean only): the `simp` set that runs the interpreter
`EdVerif.Asm.run` on a generated instruction list, a symbolic memory and symbolic (possibly equal)
argument objects. The control of the interpreter never depends on a data value, so the state after every
instruction is a concrete register file whose entries are `Nat` expressions in the input limbs over the
`uint64` primitives of `EdVerif.Prims` (`Bits.Mul64`, `Bits.Add64`, `U.mul 64`, …).
-/
namespace EdVerif.Asm
open EdVerif.Prims EdVerif.Gen.Asm

theorem Add64_comm (x y c : Nat) : Bits.Add64 x y c = Bits.Add64 y x c := by
  simp only [Bits.Add64, Nat.add_comm x y]

theorem uadd_eq (x y : Nat) : U.add 64 x y = (Bits.Add64 x y 0).fst := by
  simp only [Bits.Add64, U.add, Nat.add_zero]

/-- `SHLQ $1, r` doubles -/
theorem shl1_eq (x : Nat) : U.shl 64 x 1 = U.mul 64 x 2 := by
  simp only [U.shl, U.mul, Nat.shiftLeft_eq, Nat.pow_one]

theorem upd_same (m : Mem) (i : Nat) (e : Fe) : upd m i e i = e := by
  simp only [upd, if_true]

theorem upd_other (m : Mem) {i x : Nat} (e : Fe) (h : x ≠ i) : upd m i e x = m x := by
  simp only [upd, h, if_false]

theorem upd_upd (m : Mem) (i : Nat) (e e' : Fe) : upd (upd m i e) i e' = upd m i e' := by
  funext x; simp only [upd]; split <;> rfl

/-- Symbolic execution of a routine on a symbolic memory and symbolic (possibly equal) argument objects. -/
macro "asm_exec" : tactic => `(tactic|
  simp only [feMulAsmMem, feSquareAsmMem, carryPropagateArm64Mem, runRoutine, feMul_code, feSquare_code,
    carryPropagate_code, run, step, init,
    State.num, State.setNum, State.load, State.store, State.addr, State.src, State.argPtr, getReg, setReg,
    argGet, limbGet, limbSet, upd_same, upd_upd, reduceCtorEq, reduceIte, Reg.R.injEq, Nat.reduceEqDiff,
    Nat.reduceMod, Nat.reduceDiv, Nat.reduceSub, Nat.reduceLT, Nat.reduceAdd, Nat.add_zero, Nat.zero_add,
    and_self, Option.some.injEq])

end EdVerif.Asm
