/-! Numeric constants shared by the executable model (core Lean) and the Mathlib side. Core only. -/
namespace EdVerif

/-- the field prime `2^255 - 19` -/
def P : Nat := 2^255 - 19
/-- the group order `l = 2^252 + 27742317777372353535851937790883648493` -/
def L : Nat := 2^252 + 27742317777372353535851937790883648493
/-- the curve constant `d = -121665/121666 mod p` (canonical representative) -/
def D : Nat := 37095705934669439343138083508754565189542113879843219016388785533085940283555
/-- `sqrt(-1) = 2^((p-1)/4) mod p` (canonical representative) -/
def SQRTM1 : Nat := 19681161376707505956807079304988542015446066515923890162744021073123829784752

end EdVerif
