import EdVerif.Proofs.PointLayer
import EdVerif.Proofs.Closing
/-!
C17 — `BytesMontgomery` is the RFC 7748 birational map (point-layer part).

For every valid point in any projective representation `BytesMontgomery` returns the canonical
32-byte little-endian encoding of `u = (1 + y) / (1 - y)` of the affine `y` (with `0⁻¹ = 0`):
32 zero bytes for the identity, equal outputs for `P` and `-P`.
(The link to X25519 public keys is the scalar-multiplication part of C17 and is not in this file.)
-/
namespace EdVerif.Props
open EdVerif.Impl EdVerif.Prims EdVerif.Proofs EdVerif.Spec

theorem C17_partial {P : P3} (hP : P.Valid) :
    Point.bytesMontgomery P = LEbytes ((1 + P.toEd.y) * (1 - P.toEd.y)⁻¹).val 32 :=
  Proofs.C17_partial fieldFacts hP

theorem C17_y_only {P Q : P3} (hP : P.Valid) (hQ : Q.Valid)
    (h : P.toEd.y = Q.toEd.y) : Point.bytesMontgomery P = Point.bytesMontgomery Q :=
  Proofs.C17_y_only fieldFacts hP hQ h

theorem C17_neg {P : P3} (hP : P.Valid) :
    Point.bytesMontgomery (Point.neg P) = Point.bytesMontgomery P := Proofs.C17_neg fieldFacts hP

theorem C17_identity {P : P3} (hP : P.Valid) (h0 : P.toEd = 0) :
    Point.bytesMontgomery P = LEbytes 0 32 := Proofs.C17_identity fieldFacts hP h0

/-- non-vacuity -/
example : ∃ P : P3, P.Valid ∧ P.toEd = 0 := Proofs.exists_valid

#print axioms C17_partial
#print axioms C17_y_only
#print axioms C17_neg
#print axioms C17_identity
end EdVerif.Props
