import EdVerif.Proofs.PointLayerDecode
import EdVerif.Proofs.Closing
/-!
C05 — point encoding is canonical, representation-independent and round-trips.

`Bytes` of a valid point is `Spec.encode` of the represented affine point (the 32 little-endian
bytes of the fully reduced `y` with bit 255 = parity of the fully reduced `x`), whatever the
projective representation / limb form; `Spec.encode` is injective; decoding the encoding gives a
valid point representing the same point; re-encoding any accepted input gives the canonical
encoding of the decoded point.
-/
namespace EdVerif.Props
open EdVerif.Impl EdVerif.Prims EdVerif.Proofs EdVerif.Spec

theorem C05_bytes {P : P3} (hP : P.Valid) :
    Point.bytes P = Spec.encode P.toEd := Proofs.C05_bytes fieldFacts hP

/-- `Spec.encode` written as "canonical `y`, sign of `x` OR-ed into bit 7 of byte 31" -/
theorem C05_encode_eq (q : Ed25519) :
    Spec.encode q =
      (LEbytes q.y.val 32).set! 31 ((LEbytes q.y.val 32)[31]! ||| (128 * (q.x.val % 2))) :=
  Proofs.encode_eq_setBit q

theorem C05_rep_indep {P Q : P3} (hP : P.Valid) (hQ : Q.Valid)
    (h : P.toEd = Q.toEd) : Point.bytes P = Point.bytes Q := Proofs.C05_rep_indep fieldFacts hP hQ h

theorem C05_encode_injective : Function.Injective Spec.encode := Spec.encode_injective

theorem C05_bytes_eq_iff {P Q : P3} (hP : P.Valid) (hQ : Q.Valid) :
    Point.bytes P = Point.bytes Q ↔ P.toEd = Q.toEd := Proofs.C05_bytes_eq_iff fieldFacts hP hQ

theorem C05_roundtrip {P : P3} (hP : P.Valid) :
    ∃ P', Point.setBytes (Point.bytes P) = some P' ∧ P'.Valid ∧ P'.toEd = P.toEd :=
  Proofs.C05_roundtrip fieldFacts sqrtFacts hP

theorem C05_canonical {x : Bytes} (hb : IsBytes x)
    {P : P3} (h : Point.setBytes x = some P) : Point.bytes P = Spec.encode P.toEd :=
  Proofs.C05_canonical fieldFacts sqrtFacts hb h

/-- known answers for the specification of the encoding (sanity of `Spec.encode`) -/
example : Spec.encode 0 = Point.identityBytes := Proofs.encode_zero
example : Spec.encode Proofs.basepoint = Point.generatorBytes := Proofs.encode_basepoint
/-- non-vacuity -/
example : ∃ P : P3, P.Valid ∧ P.toEd = 0 := Proofs.exists_valid

#print axioms C05_bytes
#print axioms C05_encode_eq
#print axioms C05_rep_indep
#print axioms C05_encode_injective
#print axioms C05_bytes_eq_iff
#print axioms C05_roundtrip
#print axioms C05_canonical
end EdVerif.Props
