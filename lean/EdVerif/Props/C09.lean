import EdVerif.Proofs.Closing
import EdVerif.Proofs.FeKernels1
/-!
C09 — field arithmetic is GF(2^255-19) on every reachable representation.

`Fe.Inv e` (every limb `≤ 2^52 - 38`) is the representation invariant: each public operation maps
`Inv` inputs to an `Inv` output whose value in `F = ZMod (2^255-19)` is the mathematically correct
one. The kernels are the ones regenerated from `/repo/field/*.go` on this run (faithful `uint64`
wrap-around model); the overflow obligations are discharged inside `Proofs/FeKernels*.lean`.
The invariant documented in the source (`< 2^52`) would NOT do: `C09_comment_bound_insufficient`.
Closure over arbitrary operation histories: `Props/C12.lean` (`C09_reachable`).
`Select`/`Swap` are stated for `cond ∈ {0,1}` (their documented domain) in `Props/C10.lean`.
-/
namespace EdVerif.Props
open EdVerif.Impl EdVerif.Prims EdVerif.Proofs EdVerif.Spec

theorem C09_zero : Fe.Inv Fe.zero ∧ toZ Fe.zero = 0 := fieldFacts.zero
theorem C09_one : Fe.Inv Fe.one ∧ toZ Fe.one = 1 := fieldFacts.one
/-- the zero value `Element{}` -/
theorem C09_zero_value : Fe.Inv Fe.rz ∧ toZ Fe.rz = 0 := fieldFacts.rz

theorem C09_add {a b : Fe} (ha : Fe.Inv a) (hb : Fe.Inv b) :
    Fe.Inv (Fe.add a b) ∧ toZ (Fe.add a b) = toZ a + toZ b := fieldFacts.add a b ha hb
theorem C09_sub {a b : Fe} (ha : Fe.Inv a) (hb : Fe.Inv b) :
    Fe.Inv (Fe.sub a b) ∧ toZ (Fe.sub a b) = toZ a - toZ b := fieldFacts.sub a b ha hb
theorem C09_neg {a : Fe} (ha : Fe.Inv a) :
    Fe.Inv (Fe.neg a) ∧ toZ (Fe.neg a) = - toZ a := fieldFacts.neg a ha
theorem C09_mul {a b : Fe} (ha : Fe.Inv a) (hb : Fe.Inv b) :
    Fe.Inv (Fe.mul a b) ∧ toZ (Fe.mul a b) = toZ a * toZ b := fieldFacts.mul a b ha hb
theorem C09_square {a : Fe} (ha : Fe.Inv a) :
    Fe.Inv (Fe.square a) ∧ toZ (Fe.square a) = toZ a ^ 2 := fieldFacts.square a ha
theorem C09_mult32 {a : Fe} {y : Nat} (ha : Fe.Inv a) (hy : y < 2^32) :
    Fe.Inv (Fe.mult32 a y) ∧ toZ (Fe.mult32 a y) = toZ a * (y : F) := fieldFacts.mult32 a y ha hy
/-- `Invert`: `0 ↦ 0` because `0⁻¹ = 0` in `F` -/
theorem C09_invert {a : Fe} (ha : Fe.Inv a) :
    Fe.Inv (Fe.invert a) ∧ toZ (Fe.invert a) = (toZ a)⁻¹ := fieldFacts.invert a ha
theorem C09_pow22523 {a : Fe} (ha : Fe.Inv a) :
    Fe.Inv (Fe.pow22523 a) ∧ toZ (Fe.pow22523 a) = toZ a ^ (2^252 - 3) := fieldFacts.pow22523 a ha
theorem C09_absolute {a : Fe} (ha : Fe.Inv a) :
    Fe.Inv (Fe.absolute a) ∧ toZ (Fe.absolute a) = if (toZ a).val % 2 = 1 then - toZ a else toZ a :=
  fieldFacts.absolute a ha
/-- decoded elements are inside the invariant -/
theorem C09_setBytes_inv {x : Bytes} (hs : x.size = 32) (hb : IsBytes x) :
    ∃ e, Fe.setBytes x = some e ∧ Fe.Inv e := by
  obtain ⟨e, h1, h2, _⟩ := fieldFacts.setBytes x hs hb
  exact ⟨e, h1, h2⟩
theorem C09_setWideBytes_inv {x : Bytes} (hs : x.size = 64) (hb : IsBytes x) :
    ∃ e, Fe.setWideBytes x = some e ∧ Fe.Inv e := by
  obtain ⟨e, h1, h2, _⟩ := fieldFacts.setWideBytes x hs hb
  exact ⟨e, h1, h2⟩

/-- the bound written in the source comment (`< 2^52`) is not enough for `Subtract` -/
theorem C09_comment_bound_insufficient : ∃ a b : Fe, Fe.Inv a ∧
    (b.l0 < 2^52 ∧ b.l1 < 2^52 ∧ b.l2 < 2^52 ∧ b.l3 < 2^52 ∧ b.l4 < 2^52) ∧
    ¬ (Fe.val (Fe.sub a b) + Fe.val b ≡ Fe.val a [MOD EdVerif.P]) := sub_needs_inv

/-- non-vacuity: the extreme representation satisfies the invariant -/
example : Fe.Inv ⟨2^52 - 38, 2^52 - 38, 2^52 - 38, 2^52 - 38, 2^52 - 38⟩ := by decide

end EdVerif.Props
