import EdVerif.Impl.Once
/-!
C18 (abstract part): for EVERY schedule over ANY thread ids the `sync.Once`-guarded table is built
at most once, no state enables two conflicting accesses by different threads (write/any), and every
thread that reads does so after the table is complete (so every call returns its sequential result).
The tie of this protocol to the source is the regenerated SSA facts F1–F4 (`Props/Structural.lean`);
the Go memory model and the real `sync.Once` are not modelled (contract assumed).
-/
namespace EdVerif.Props
open EdVerif.Impl.Once

theorem C18_once_safe (sched : List Tid) :
    (run sched).builds ≤ 1 ∧ ¬ Raced (run sched) ∧
    (∀ t k, (run sched).pc t = .reading k → (run sched).once = .complete ∧ (run sched).built = N) ∧
    (∀ t, (run sched).pc t = .done → (run sched).built = N) := by
  have h := inv_run sched
  obtain ⟨h1, h2, _⟩ := once_safe sched
  exact ⟨h1, h2, fun t k hk => ⟨h.reading_ok t k hk, h.complete_built (h.reading_ok t k hk)⟩,
    fun t ht => h.complete_built (h.done_ok t ht)⟩

/-- the check-then-build flag protocol is NOT safe: a two-step schedule builds twice with two writers enabled -/
theorem C18_flag_unsafe : ∃ sched : List Tid,
    (frun sched).builds = 2 ∧ ∃ t u, t ≠ u ∧ isBuilding ((frun sched).pc t) = true ∧ isBuilding ((frun sched).pc u) = true :=
  flag_unsafe

/-- non-vacuity: a concrete schedule in which thread 0 builds, threads 1 and 2 wait, then all read -/
example : (run ([0, 1, 2] ++ List.replicate 70 0 ++ List.replicate 40 1 ++ List.replicate 40 2)).pc 1 = .done := by
  decide +kernel

end EdVerif.Props
