import EdVerif.Proofs.ScalarZ
/-!
C08 — scalar encodings: `Bytes` is the 32-byte little-endian integer in `[0, l)`; `SetCanonicalBytes` accepts exactly
the 32-byte strings with value `< l` and round-trips; `SetUniformBytes` maps 64 bytes to their value mod `l`;
`SetBytesWithClamping` maps 32 bytes to the RFC 8032 §5.1.5 clamped integer mod `l`; other lengths are rejected.
(`Scalar.LE` = little-endian value, `Scalar.LEbytes n 32` = the 32 little-endian bytes of `n`.)
-/
namespace EdVerif.Props
open EdVerif.Impl EdVerif.Prims EdVerif.Proofs

theorem C08_bytes {s : W4} (hs : Scalar.Inv s) :
    Scalar.bytes s = Proofs.Scalar.LEbytes (Proofs.Scalar.toZ s).val 32 := Proofs.C08_bytes s hs
theorem C08_bytes_lt_l (s : W4) : (Proofs.Scalar.toZ s).val < EdVerif.L := ZMod.val_lt _
theorem C08_canonical {x : Bytes} (hb : Proofs.Scalar.IsBytes x) :
    (∃ s, Scalar.setCanonicalBytes x = .ok s) ↔ x.size = 32 ∧ Proofs.Scalar.LE x < EdVerif.L := Proofs.C08_canonical x hb
theorem C08_canonical_value {x : Bytes} (hs : x.size = 32) (hb : Proofs.Scalar.IsBytes x) (hlt : Proofs.Scalar.LE x < EdVerif.L) :
    ∃ s, Scalar.setCanonicalBytes x = .ok s ∧ Scalar.Inv s ∧
      Proofs.Scalar.toZ s = (Proofs.Scalar.LE x : ZMod EdVerif.L) ∧ Scalar.bytes s = x := Proofs.C08_canonical_ok x hs hb hlt
theorem C08_canonical_reject {x : Bytes} (hb : Proofs.Scalar.IsBytes x) (h : ¬(x.size = 32 ∧ Proofs.Scalar.LE x < EdVerif.L)) :
    Scalar.setCanonicalBytes x = .err := Proofs.C08_canonical_err x hb h
theorem C08_uniform {x : Bytes} (hx : x.size = 64) (hb : Proofs.Scalar.IsBytes x) :
    ∃ s, Scalar.setUniformBytes x = .ok s ∧ Scalar.Inv s ∧ Proofs.Scalar.toZ s = (Proofs.Scalar.LE x : ZMod EdVerif.L) :=
  Proofs.C08_uniform x hx hb
theorem C08_uniform_reject (x : Bytes) : Scalar.setUniformBytes x = .err ↔ x.size ≠ 64 := Proofs.C08_uniform_err x
theorem C08_clamp {x : Bytes} (hx : x.size = 32) (hb : Proofs.Scalar.IsBytes x) :
    ∃ s, Scalar.setBytesWithClamping x = .ok s ∧ Scalar.Inv s ∧
      Proofs.Scalar.toZ s = (Proofs.Scalar.clamp (Proofs.Scalar.LE x) : ZMod EdVerif.L) := Proofs.C08_clamp x hx hb
/-- the arithmetic clamp is the byte-level one of RFC 8032 (`x[0] &= 248; x[31] &= 63; x[31] |= 64`) -/
theorem C08_clamp_is_rfc8032 (x : Bytes) (hx : x.size = 32) (hb : Proofs.Scalar.IsBytes x) :
    Proofs.Scalar.LE (Proofs.Scalar.clampBytes x) = Proofs.Scalar.clamp (Proofs.Scalar.LE x) := Proofs.Scalar.clampBytes_LE x hx hb
theorem C08_clamp_reject {x : Bytes} (hx : x.size ≠ 32) : Scalar.setBytesWithClamping x = .err := Proofs.C08_clamp_err x hx

end EdVerif.Props
