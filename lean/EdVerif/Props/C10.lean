import EdVerif.Proofs.Closing
/-!
C10 — field encodings and predicates depend only on the value mod p.
`LEbytes n 32` are the 32 little-endian bytes of `n`; `LE x` is the little-endian value of `x`.
-/
namespace EdVerif.Props
open EdVerif.Impl EdVerif.Prims EdVerif.Proofs EdVerif.Spec

/-- `Bytes` is the little-endian encoding of the fully reduced value -/
theorem C10_bytes {a : Fe} (ha : Fe.Inv a) : Fe.bytes a = LEbytes (toZ a).val 32 := fieldFacts.bytes a ha
theorem C10_bytes_reduced (a : Fe) : (toZ a).val < EdVerif.P := ZMod.val_lt _
/-- two representations of the same value encode identically -/
theorem C10_bytes_rep_indep {a b : Fe} (ha : Fe.Inv a) (hb : Fe.Inv b) (h : toZ a = toZ b) :
    Fe.bytes a = Fe.bytes b := by rw [C10_bytes ha, C10_bytes hb, h]

/-- `SetBytes` ignores bit 255 and reduces `2^255-19 .. 2^255-1` to `0 .. 18` (the cast into `F`) -/
theorem C10_setBytes {x : Bytes} (hs : x.size = 32) (hb : IsBytes x) :
    ∃ e, Fe.setBytes x = some e ∧ Fe.Inv e ∧ toZ e = ((LE x % 2^255 : Nat) : F) := fieldFacts.setBytes x hs hb
theorem C10_setBytes_len {x : Bytes} (hs : x.size ≠ 32) : Fe.setBytes x = none := fieldFacts.setBytes_len x hs
theorem C10_setWideBytes {x : Bytes} (hs : x.size = 64) (hb : IsBytes x) :
    ∃ e, Fe.setWideBytes x = some e ∧ Fe.Inv e ∧ toZ e = ((LE x : Nat) : F) := fieldFacts.setWideBytes x hs hb
theorem C10_setWideBytes_len {x : Bytes} (hs : x.size ≠ 64) : Fe.setWideBytes x = none :=
  fieldFacts.setWideBytes_len x hs

theorem C10_equal {a b : Fe} (ha : Fe.Inv a) (hb : Fe.Inv b) :
    Fe.equal a b = if toZ a = toZ b then 1 else 0 := fieldFacts.equal a b ha hb
theorem C10_isNegative {a : Fe} (ha : Fe.Inv a) : Fe.isNegative a = (toZ a).val % 2 := fieldFacts.isNegative a ha

theorem C10_select {a b : Fe} (ha : Fe.Inv a) (hb : Fe.Inv b) :
    Fe.select a b 1 = a ∧ Fe.select a b 0 = b := fieldFacts.select a b ha hb
theorem C10_swap {a b : Fe} (ha : Fe.Inv a) (hb : Fe.Inv b) :
    Fe.swap a b 1 = (b, a) ∧ Fe.swap a b 0 = (a, b) := fieldFacts.swap a b ha hb

/-- non-vacuity / known answer: `p` itself (limbs of `2^255-19`) is a representation of 0 -/
example : Fe.Inv ⟨2^51 - 19, 2^51 - 1, 2^51 - 1, 2^51 - 1, 2^51 - 1⟩ := by decide

end EdVerif.Props
