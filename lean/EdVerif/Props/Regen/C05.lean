import EdVerif.Props.C05
import EdVerif.Props.Regen.SetBytes
import EdVerif.Gen.Ties.Point_Bytes
/-!
# C05 on the regenerated `Bytes` and `SetBytes`

`EdVerif/Gen/Formulas.lean` is what translator T5 reads off the go/ssa form of today's `/repo`; the theorems below are about those
regenerated definitions (prior receiver value = explicit, universally quantified argument), through the ties of exactly the
functions this property is about (`Gen/Ties/<fn>.lean`).
-/
namespace EdVerif.Props
open EdVerif EdVerif.Impl EdVerif.Prims EdVerif.Proofs EdVerif.Spec EdVerif.Gen EdVerif.Gen.FormulaTies

theorem C05_regen_bytes {P : P3} (hP : P.Valid) : Formulas.Point_Bytes P = Spec.encode P.toEd := by
  rw [tie_Point_Bytes]; exact C05_bytes hP

/-- encode then decode, both regenerated: a valid point comes back as a valid point with the same affine value -/
theorem C05_regen_roundtrip (v : P3) {P : P3} (hP : P.Valid) :
    ∃ P', Formulas.Point_SetBytes v (Formulas.Point_Bytes P) = (some P', P') ∧ P'.Valid ∧ P'.toEd = P.toEd := by
  obtain ⟨P', h, hv, he⟩ := C05_roundtrip hP
  refine ⟨P', ?_, hv, he⟩
  rw [tie_Point_SetBytes, tie_Point_Bytes, FormulaSpec.Point_SetBytes_eq]
  show (Point.setBytes (Point.bytes P), (Point.setBytes (Point.bytes P)).getD v) = _
  rw [h]; rfl

#print axioms C05_regen_bytes
#print axioms C05_regen_roundtrip
end EdVerif.Props
