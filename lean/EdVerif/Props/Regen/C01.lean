import EdVerif.Props.C01
import EdVerif.Gen.Ties.Point_ScalarMult
import EdVerif.Gen.Ties.Point_ScalarBaseMult
import EdVerif.Gen.Ties.Scalar_signedRadix16
/-!
# C01 on the regenerated `signedRadix16`, `ScalarMult`, `ScalarBaseMult`

`EdVerif/Gen/Formulas.lean` is what translator T5 reads off the go/ssa form of today's `/repo`; the theorems below are about those
regenerated definitions (prior receiver value = explicit, universally quantified argument), through the ties of exactly the
functions this property is about (`Gen/Ties/<fn>.lean`).
-/
namespace EdVerif.Props
open EdVerif EdVerif.Impl EdVerif.Prims EdVerif.Proofs EdVerif.Spec EdVerif.Gen EdVerif.Gen.FormulaTies

/-- C01 (regenerated): the digit recoding of today's source is the model's, and the two constant-time scalar
    multiplications of today's source are the model's digit loops applied to it -/
theorem C01_regen_signedRadix16 (s : W4) : Formulas.Scalar_signedRadix16 s = Scalar.signedRadix16 s := by
  rw [tie_Scalar_signedRadix16, FormulaSpec.Scalar_signedRadix16_eq]

theorem digitsI8_of_range {d : Array Int} (h : ∀ i < 64, (-8 : ℤ) ≤ d[i]! ∧ d[i]! ≤ 8) (hs : d.size = 64) :
    FormulaSpec.DigitsI8 d := by
  intro i
  by_cases hi : i < 64
  · have := h i hi; omega
  · have : d[i]! = 0 := by
      rw [getElem!_neg]
      · rfl
      · omega
    omega


/-- the regenerated `ScalarMult`: whatever the receiver held, the result is a valid representation of `[k]Q` -/
theorem C01_regen_scalarMult {s : W4} {k : ℕ} {q : P3} (v : P3)
    (hk : Scalar.bytes s = LEbytes k 32) (hk255 : k < 2 ^ 255) (hq : q.Valid) :
    (Formulas.Point_ScalarMult v s q).Valid ∧ (Formulas.Point_ScalarMult v s q).toEd = k • q.toEd := by
  obtain ⟨he, hr, _⟩ := Proofs.radix16_facts hk hk255
  obtain ⟨r, hok, hv, hsum⟩ := C01_scalarMult hk hk255 hq
  have hd : Scalar.radix16Digits s = Proofs.radix16OfBytes (Scalar.bytes s) :=
    FormulaSpec.radix16Digits_of_ok s _ ((FormulaSpec.Scalar_signedRadix16_eq s).trans he)
  have h8 : FormulaSpec.DigitsI8 (Proofs.radix16OfBytes (Scalar.bytes s)) :=
    digitsI8_of_range hr (Proofs.radix16_spec _ (by rw [hk]; exact LEbytes_lt32 k) (by rw [hk]; exact LEbytes_top k hk255)).1
  have hr' : Formulas.Point_ScalarMult v s q = r := by
    rw [tie_Point_ScalarMult]
    unfold FormulaSpec.Point_ScalarMult
    rw [hd, FormulaSpec.scalarMultDigitsI8_eq _ _ h8]
    have := (Proofs.scalarMult_ok (q := q) he).symm.trans hok
    exact Res.ok.inj this
  rw [hr']; exact ⟨hv, hsum⟩

/-- the regenerated `ScalarBaseMult` returns what the model returns (under the no-panic condition `k < 2^255`) -/
theorem regen_scalarBaseMult_eq {s : W4} {k : ℕ} {r : P3} (v : P3)
    (hk : Scalar.bytes s = LEbytes k 32) (hk255 : k < 2 ^ 255) (hok : Point.scalarBaseMult s = .ok r) :
    Formulas.Point_ScalarBaseMult v s = r := by
  obtain ⟨he, hr, _⟩ := Proofs.radix16_facts hk hk255
  have hd : Scalar.radix16Digits s = Proofs.radix16OfBytes (Scalar.bytes s) :=
    FormulaSpec.radix16Digits_of_ok s _ ((FormulaSpec.Scalar_signedRadix16_eq s).trans he)
  have h8 : FormulaSpec.DigitsI8 (Proofs.radix16OfBytes (Scalar.bytes s)) :=
    digitsI8_of_range hr (Proofs.radix16_spec _ (by rw [hk]; exact LEbytes_lt32 k) (by rw [hk]; exact LEbytes_top k hk255)).1
  rw [tie_Point_ScalarBaseMult]
  unfold FormulaSpec.Point_ScalarBaseMult
  rw [hd, FormulaSpec.scalarBaseMultDigitsI8_eq _ h8]
  have := (Proofs.scalarBaseMult_ok he).symm.trans hok
  exact Res.ok.inj this

/-- the regenerated `ScalarBaseMult` -/
theorem C01_regen_scalarBaseMult {s : W4} {k : ℕ} (v : P3)
    (hk : Scalar.bytes s = LEbytes k 32) (hk255 : k < 2 ^ 255) :
    (Formulas.Point_ScalarBaseMult v s).Valid ∧ (Formulas.Point_ScalarBaseMult v s).toEd = k • basepoint := by
  obtain ⟨he, hr, _⟩ := Proofs.radix16_facts hk hk255
  obtain ⟨r, hok, hv, hsum⟩ := C01_scalarBaseMult hk hk255
  have hd : Scalar.radix16Digits s = Proofs.radix16OfBytes (Scalar.bytes s) :=
    FormulaSpec.radix16Digits_of_ok s _ ((FormulaSpec.Scalar_signedRadix16_eq s).trans he)
  have h8 : FormulaSpec.DigitsI8 (Proofs.radix16OfBytes (Scalar.bytes s)) :=
    digitsI8_of_range hr (Proofs.radix16_spec _ (by rw [hk]; exact LEbytes_lt32 k) (by rw [hk]; exact LEbytes_top k hk255)).1
  have hr' : Formulas.Point_ScalarBaseMult v s = r := by
    rw [tie_Point_ScalarBaseMult]
    unfold FormulaSpec.Point_ScalarBaseMult
    rw [hd, FormulaSpec.scalarBaseMultDigitsI8_eq _ h8]
    have := (Proofs.scalarBaseMult_ok he).symm.trans hok
    exact Res.ok.inj this
  rw [hr']; exact ⟨hv, hsum⟩

#print axioms C01_regen_scalarMult
#print axioms C01_regen_scalarBaseMult
end EdVerif.Props
