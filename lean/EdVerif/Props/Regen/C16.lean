import EdVerif.Props.C16
import EdVerif.Gen.Ties.field_Element_SqrtRatio
/-!
# C16 on the regenerated `SqrtRatio` (every aliasing pattern)

`EdVerif/Gen/Formulas.lean` is what translator T5 reads off the go/ssa form of today's `/repo`; the theorems below are about those
regenerated definitions (prior receiver value = explicit, universally quantified argument), through the ties of exactly the
functions this property is about (`Gen/Ties/<fn>.lean`).
-/
namespace EdVerif.Props
open EdVerif EdVerif.Impl EdVerif.Prims EdVerif.Proofs EdVerif.Spec EdVerif.Gen EdVerif.Gen.FormulaTies

theorem C16_regen (r u v : Fe) (hu : Fe.Inv u) (hv : Fe.Inv v) :
    let res := Formulas.field_Element_SqrtRatio r u v
    Fe.Inv res.1 ∧ (toZ res.1).val % 2 = 0 ∧ (res.2 = 0 ∨ res.2 = 1) ∧
    (res.2 = 1 ↔ ∃ x : F, toZ v * x ^ 2 = toZ u) ∧
    (res.2 = 1 → toZ v * toZ res.1 ^ 2 = toZ u) := by
  rw [tie_field_Element_SqrtRatio]; exact C16_decode u v hu hv

theorem C16_regen_aliased (u v : Fe) :
    Formulas.field_Element_SqrtRatio__al010 v u v = Fe.sqrtRatio u v ∧      -- r == v
    Formulas.field_Element_SqrtRatio__al002 u u v = Fe.sqrtRatio u v ∧      -- r == u
    Formulas.field_Element_SqrtRatio__al011 v u u = Fe.sqrtRatio u u ∧      -- u == v
    Formulas.field_Element_SqrtRatio__al000 u u u = Fe.sqrtRatio u u :=     -- all three
  ⟨tie_field_Element_SqrtRatio__al010 v u v, tie_field_Element_SqrtRatio__al002 u u v,
   tie_field_Element_SqrtRatio__al011 v u u, tie_field_Element_SqrtRatio__al000 u u u⟩

#print axioms C16_regen
end EdVerif.Props
