import EdVerif.Gen.Ties.Point_SetExtendedCoordinates
/-!
# `Point.SetExtendedCoordinates`, regenerated: pair form (shared by C13, C14)

`EdVerif/Gen/Formulas.lean` is what translator T5 reads off the go/ssa form of today's `/repo`; the theorems below are about those
regenerated definitions (prior receiver value = explicit, universally quantified argument), through the ties of exactly the
functions this property is about (`Gen/Ties/<fn>.lean`).
-/
namespace EdVerif.Props
open EdVerif EdVerif.Impl EdVerif.Prims EdVerif.Gen EdVerif.Gen.FormulaTies

/-- C13/C14 for `Point.SetExtendedCoordinates`, in every aliasing pattern in which none of the coordinates
    shares storage with the receiver's coordinates (coordinates are `field.Element`s, the receiver a `Point`:
    they cannot alias), here for pairwise distinct coordinates -/
theorem C14_regen_Point_SetExtendedCoordinates (v : P3) (X Y Z T : Fe) :
    (Formulas.Point_SetExtendedCoordinates v X Y Z T).1 = Point.setExtendedCoordinates X Y Z T ∧
    ((Formulas.Point_SetExtendedCoordinates v X Y Z T).1 = none → (Formulas.Point_SetExtendedCoordinates v X Y Z T).2 = v) ∧
    (∀ p, (Formulas.Point_SetExtendedCoordinates v X Y Z T).1 = some p →
        (Formulas.Point_SetExtendedCoordinates v X Y Z T).2 = p ∧ p = ⟨X, Y, Z, T⟩) := by
  rw [tie_Point_SetExtendedCoordinates, FormulaSpec.Point_SetExtendedCoordinates_eq]
  generalize hr : Point.setExtendedCoordinates X Y Z T = r
  refine ⟨rfl, ?_, ?_⟩
  · intro h; simp only at h; simp [h]
  · intro p h
    simp only at h
    refine ⟨by simp [h], ?_⟩
    rw [h] at hr
    unfold Point.setExtendedCoordinates at hr
    split at hr
    · cases hr
    · exact (Option.some.inj hr).symm

#print axioms C14_regen_Point_SetExtendedCoordinates
end EdVerif.Props
