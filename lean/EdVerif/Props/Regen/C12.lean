import EdVerif.Props.Regen.C01
import EdVerif.Props.Regen.C01Loops
import EdVerif.Props.Regen.C02
import EdVerif.Props.Regen.C04
import EdVerif.Props.Regen.C13
import EdVerif.Gen.Ties.Point_Set
import EdVerif.Gen.Ties.NewIdentityPoint
import EdVerif.Gen.Ties.NewGeneratorPoint
/-!
# C12 on the regenerated definitions: every writer of a `Point` maps valid inputs to a valid result

`Props/C12.lean` proves the invariant by induction over histories of the hand-written API machine.  The inductive step is, per
operation, "valid arguments give a valid result (or leave the receiver as it was)".  Here that step is stated for each of the
fourteen ways the library produces or overwrites a `Point`, about the function *regenerated from today's source*, for every prior
value of the receiver: the two constructors, `Set`, the four group operations, the two decoders and the five scalar multiplications.
-/
namespace EdVerif.Props
open EdVerif EdVerif.Impl EdVerif.Prims EdVerif.Proofs EdVerif.Spec EdVerif.Gen EdVerif.Gen.FormulaTies

theorem C12_regen_constructors :
    Formulas.NewIdentityPoint.Valid ∧ Formulas.NewGeneratorPoint.Valid := by
  rw [tie_NewIdentityPoint, tie_NewGeneratorPoint]
  exact ⟨C04_identity.1, C04_generator.1⟩

theorem C12_regen_set (v : P3) {P : P3} (hP : P.Valid) : (Formulas.Point_Set v P).Valid := by
  rw [tie_Point_Set]; exact hP

theorem C12_regen_group (v : P3) {P Q : P3} (hP : P.Valid) (hQ : Q.Valid) :
    (Formulas.Point_Add v P Q).Valid ∧ (Formulas.Point_Subtract v P Q).Valid ∧
    (Formulas.Point_Negate v P).Valid ∧ (Formulas.Point_MultByCofactor v P).Valid :=
  ⟨(C02_regen_add v hP hQ).1, (C02_regen_sub v hP hQ).1, (C02_regen_neg v hP).1, (C02_regen_cofactor v hP).1⟩

/-- decoders: on success the receiver is the returned, valid point; on failure it is what it was -/
theorem C12_regen_setBytes {x : Bytes} (hb : IsBytes x) (v : P3) :
    (∀ P, (Formulas.Point_SetBytes v x).1 = some P → (Formulas.Point_SetBytes v x).2 = P ∧ P.Valid) ∧
    ((Formulas.Point_SetBytes v x).1 = none → (Formulas.Point_SetBytes v x).2 = v) :=
  ⟨fun P h => ⟨((C04_regen hb v).2.2 P h).1, ((C04_regen hb v).2.2 P h).2.1⟩, (C04_regen hb v).2.1⟩

theorem C12_regen_setExtendedCoordinates {X Y Z T : Fe} (hX : Fe.Inv X) (hY : Fe.Inv Y) (hZ : Fe.Inv Z) (hT : Fe.Inv T) (v : P3) :
    (∀ P, (Formulas.Point_SetExtendedCoordinates v X Y Z T).1 = some P →
        (Formulas.Point_SetExtendedCoordinates v X Y Z T).2 = P ∧ P.Valid) ∧
    ((Formulas.Point_SetExtendedCoordinates v X Y Z T).1 = none → (Formulas.Point_SetExtendedCoordinates v X Y Z T).2 = v) := by
  obtain ⟨h1, h2, h3⟩ := C14_regen_Point_SetExtendedCoordinates v X Y Z T
  refine ⟨fun P h => ⟨(h3 P h).1, ?_⟩, h2⟩
  exact (C13_valid hX hY hZ hT (h1 ▸ h)).1

/-- the five scalar multiplications, on valid scalars and points -/
theorem C12_regen_scalarMults (v : P3) {s t : W4} {k j : ℕ} {q : P3}
    (hk : Scalar.bytes s = LEbytes k 32) (hk255 : k < 2 ^ 255)
    (hj : Scalar.bytes t = LEbytes j 32) (hj255 : j < 2 ^ 255) (hq : q.Valid) :
    (Formulas.Point_ScalarMult v s q).Valid ∧ (Formulas.Point_ScalarBaseMult v s).Valid ∧
    (∃ r, Formulas.Point_VarTimeDoubleScalarBaseMult v s q t = .ok r ∧ r.Valid) := by
  refine ⟨(C01_regen_scalarMult v hk hk255 hq).1, (C01_regen_scalarBaseMult v hk hk255).1, ?_⟩
  obtain ⟨r, h, hv, _⟩ := C01_regen_varTimeDouble hk hk255 hj hj255 hq v
  exact ⟨r, h, hv⟩

theorem C12_regen_multiScalarMults (v : P3) (ss : Array W4) (ps : Array P3) (ks : Array ℕ) (hs : ss.size = ps.size)
    (hn : ps.size < 2 ^ 63)
    (hk : ∀ i < ps.size, Scalar.bytes ss[i]! = LEbytes ks[i]! 32 ∧ ks[i]! < 2 ^ 255)
    (hp : ∀ i < ps.size, (ps[i]!).Valid) :
    (∃ r, Formulas.Point_MultiScalarMult v ss ps = .ok r ∧ r.Valid) ∧
    (∃ r, Formulas.Point_VarTimeMultiScalarMult v ss ps = .ok r ∧ r.Valid) := by
  obtain ⟨r, h, hv, _⟩ := C01_regen_multiScalarMult v ss ps ks hs hn hk hp
  obtain ⟨r', h', hv', _⟩ := C01_regen_varTimeMultiScalarMult v ss ps ks hs hn hk hp
  exact ⟨⟨r, h, hv⟩, ⟨r', h', hv'⟩⟩

#print axioms C12_regen_group
#print axioms C12_regen_scalarMults
#print axioms C12_regen_multiScalarMults
#print axioms C12_regen_setExtendedCoordinates
end EdVerif.Props
