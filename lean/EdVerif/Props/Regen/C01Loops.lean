import EdVerif.Props.C01
import EdVerif.Gen.Ties.Scalar_nonAdjacentForm
import EdVerif.Gen.Ties.Point_VarTimeDoubleScalarBaseMult
import EdVerif.Gen.Ties.Point_MultiScalarMult
import EdVerif.Gen.Ties.Point_VarTimeMultiScalarMult
import EdVerif.Gen.Ties.nafLookupTable8_FromP3
import EdVerif.Gen.Ties.nafLookupTable5_SelectInto
import EdVerif.Gen.Ties.nafLookupTable8_SelectInto
/-!
# C01 on the regenerated variable-time and multi-scalar multiplications

`EdVerif/Gen/Formulas.lean` contains what the current Go source of `nonAdjacentForm`, `VarTimeDoubleScalarBaseMult`,
`MultiScalarMult`, `VarTimeMultiScalarMult` computes (loops kept as `Loop.iter` with untrusted fuel, run-time index checks as
`Res.guard`, panics as `Res.panic`).  `Proofs/FormulaSpec.lean` proves these equal to the hand-written model under explicit
hypotheses on the digits (in the range of the tables; `int8` values).  Here the hypotheses are discharged for scalars
with `Scalar.bytes s = LEbytes k 32`, `k < 2^255` (every valid scalar), using the digit theorems of `Proofs/Naf.lean`
and `Proofs/Digits.lean` — and the C01 theorems are then stated about the regenerated definitions: for every prior value `v` of
the receiver the result is `.ok r` with `r` valid and `r.toEd = Σ k_i • P_i` (run-time index checks and fuel never fire).
-/
namespace EdVerif.Props
open EdVerif EdVerif.Impl EdVerif.Prims EdVerif.Gen EdVerif.Gen.FormulaTies EdVerif.Proofs EdVerif.FormulaSpec EdVerif.Spec
open Finset

/-- `nonAdjacentForm`: unconditional, panics included -/
theorem regen_nonAdjacentForm (s : W4) (w : Nat) :
    Formulas.Scalar_nonAdjacentForm s w = Scalar.nonAdjacentForm s w :=
  (tie_Scalar_nonAdjacentForm s w).trans (Scalar_nonAdjacentForm_eq s w)

theorem nafRange5 {s : W4} {k : ℕ} (hk : Scalar.bytes s = LEbytes k 32) (hk255 : k < 2 ^ 255) :
    ∀ d, Scalar.nonAdjacentForm s 5 = .ok d → NafRange 8 d := by
  intro d hd
  obtain ⟨he, hr, _⟩ := naf5_facts hk hk255
  rw [he] at hd
  cases hd
  intro i hi
  rcases hr i hi with h | ⟨_, h1, h2⟩
  · rw [h]; constructor <;> decide
  · exact ⟨by simpa using h1, by simpa using h2⟩

theorem nafRange8 {s : W4} {k : ℕ} (hk : Scalar.bytes s = LEbytes k 32) (hk255 : k < 2 ^ 255) :
    ∀ d, Scalar.nonAdjacentForm s 8 = .ok d → NafRange 64 d := by
  intro d hd
  obtain ⟨he, hr, _⟩ := naf8_facts hk hk255
  rw [he] at hd
  cases hd
  intro i hi
  rcases hr i hi with h | ⟨_, h1, h2⟩
  · rw [h]; constructor <;> decide
  · exact ⟨by simpa using h1, by simpa using h2⟩

/-- `VarTimeDoubleScalarBaseMult`, all four aliasing patterns (`A` may share storage with the receiver, `b` with `a`) -/
theorem regen_VarTimeDoubleScalarBaseMult {a b : W4} {ka kb : ℕ}
    (ha : Scalar.bytes a = LEbytes ka 32) (ha255 : ka < 2 ^ 255)
    (hb : Scalar.bytes b = LEbytes kb 32) (hb255 : kb < 2 ^ 255) (v A : P3) :
    Formulas.Point_VarTimeDoubleScalarBaseMult v a A b = Point.varTimeDoubleScalarBaseMult a A b ∧
    Formulas.Point_VarTimeDoubleScalarBaseMult__al0121 v a A b = Point.varTimeDoubleScalarBaseMult a A a ∧
    Formulas.Point_VarTimeDoubleScalarBaseMult__al0103 v a A b = Point.varTimeDoubleScalarBaseMult a v b ∧
    Formulas.Point_VarTimeDoubleScalarBaseMult__al0101 v a A b = Point.varTimeDoubleScalarBaseMult a v a := by
  refine ⟨?_, ?_, ?_, ?_⟩
  · rw [tie_Point_VarTimeDoubleScalarBaseMult]
    exact Point_VarTimeDoubleScalarBaseMult_eq v a A b (nafRange5 ha ha255) (nafRange8 hb hb255)
  · rw [tie_Point_VarTimeDoubleScalarBaseMult__al0121]
    exact Point_VarTimeDoubleScalarBaseMult_eq v a A a (nafRange5 ha ha255) (nafRange8 ha ha255)
  · rw [tie_Point_VarTimeDoubleScalarBaseMult__al0103]
    exact Point_VarTimeDoubleScalarBaseMult_eq v a v b (nafRange5 ha ha255) (nafRange8 hb hb255)
  · rw [tie_Point_VarTimeDoubleScalarBaseMult__al0101]
    exact Point_VarTimeDoubleScalarBaseMult_eq v a v a (nafRange5 ha ha255) (nafRange8 ha ha255)

/-- consequently (C01): on valid inputs the regenerated function returns a valid point representing `ka • A + kb • B` -/
theorem C01_regen_varTimeDouble {a b : W4} {ka kb : ℕ} {A : P3}
    (ha : Scalar.bytes a = LEbytes ka 32) (ha255 : ka < 2 ^ 255)
    (hb : Scalar.bytes b = LEbytes kb 32) (hb255 : kb < 2 ^ 255) (hA : A.Valid) (v : P3) :
    ∃ r, Formulas.Point_VarTimeDoubleScalarBaseMult v a A b = .ok r ∧ r.Valid ∧
      r.toEd = ka • A.toEd + kb • basepoint := by
  rw [(regen_VarTimeDoubleScalarBaseMult ha ha255 hb hb255 v A).1]
  exact C01_varTimeDouble ha ha255 hb hb255 hA

/-- the elements of an array of digit arrays obtained by `collect`, in terms of the per-scalar function -/
theorem collect_elems {β : Type} [Inhabited β] (R : W4 → Res β) (g : W4 → β) (ss : Array W4)
    (h : ∀ i < ss.size, R ss[i]! = .ok (g ss[i]!)) (ds : Array β)
    (hd : Point.collect (ss.toList.map R) = .ok ds) : ds = ss.map g := by
  rw [collect_ok R g ss h] at hd
  cases hd; rfl

theorem regen_MultiScalarMult (v : P3) (ss : Array W4) (ps : Array P3) (ks : Array ℕ)
    (hn : ps.size < 2 ^ 63)
    (hk : ∀ i < ss.size, Scalar.bytes ss[i]! = LEbytes ks[i]! 32 ∧ ks[i]! < 2 ^ 255) :
    Formulas.Point_MultiScalarMult v ss ps =
      if ss.size != ps.size then .panic "length" else Point.multiScalarMult ss ps := by
  rw [tie_Point_MultiScalarMult]
  apply Point_MultiScalarMult_eq v ss ps hn
  intro ds hds j i
  have e := collect_elems Scalar.signedRadix16 (fun s => radix16OfBytes (Scalar.bytes s)) ss
    (fun i hi => (radix16_facts (hk i hi).1 (hk i hi).2).1) ds hds
  subst e
  by_cases hj : j < ss.size
  · rw [FormulaSpec.getElem!_map' _ ss j hj]
    have hb : ∀ i < 32, (Scalar.bytes ss[j]!)[i]! < 256 := by rw [(hk j hj).1]; exact LEbytes_lt32 _
    have h31 : (Scalar.bytes ss[j]!)[31]! ≤ 127 := by rw [(hk j hj).1]; exact LEbytes_top _ (hk j hj).2
    by_cases hi : i < 64
    · have := (radix16_facts (hk j hj).1 (hk j hj).2).2.1 i hi
      omega
    · have hs := (radix16_spec _ hb h31).1
      have : (radix16OfBytes (Scalar.bytes ss[j]!))[i]! = 0 := by
        rw [getElem!_neg _ _ (by omega)]; rfl
      rw [this]; constructor <;> decide
  · have : (Array.map (fun s => radix16OfBytes (Scalar.bytes s)) ss)[j]! = #[] := by
      rw [getElem!_neg _ _ (by simpa using hj)]; rfl
    rw [this]
    have : (#[] : Array Int)[i]! = 0 := rfl
    rw [this]; constructor <;> decide

theorem regen_VarTimeMultiScalarMult (v : P3) (ss : Array W4) (ps : Array P3) (ks : Array ℕ)
    (hn : ps.size < 2 ^ 63)
    (hk : ∀ i < ss.size, Scalar.bytes ss[i]! = LEbytes ks[i]! 32 ∧ ks[i]! < 2 ^ 255) :
    Formulas.Point_VarTimeMultiScalarMult v ss ps =
      if ss.size != ps.size then .panic "length" else Point.varTimeMultiScalarMult ss ps := by
  rw [tie_Point_VarTimeMultiScalarMult]
  apply Point_VarTimeMultiScalarMult_eq v ss ps hn
  intro ds hds j
  have e := collect_elems (Scalar.nonAdjacentForm · 5) (fun s => nafOfBytes (Scalar.bytes s) 5) ss
    (fun i hi => (naf5_facts (hk i hi).1 (hk i hi).2).1) ds hds
  subst e
  by_cases hj : j < ss.size
  · rw [FormulaSpec.getElem!_map' _ ss j hj]
    exact nafRange5 (hk j hj).1 (hk j hj).2 _ (naf5_facts (hk j hj).1 (hk j hj).2).1
  · have : (Array.map (fun s => nafOfBytes (Scalar.bytes s) 5) ss)[j]! = #[] := by
      rw [getElem!_neg _ _ (by simpa using hj)]; rfl
    rw [this]
    intro i _
    have : (#[] : Array Int)[i]! = 0 := rfl
    rw [this]; constructor <;> decide


/-- C01 on the regenerated `MultiScalarMult`: for slices of equal length (`< 2^63`), valid scalars and valid points, whatever the
receiver held, the result is a valid representation of `Σ k_i • P_i` -/
theorem C01_regen_multiScalarMult (v : P3) (ss : Array W4) (ps : Array P3) (ks : Array ℕ) (hs : ss.size = ps.size)
    (hn : ps.size < 2 ^ 63)
    (hk : ∀ i < ps.size, Scalar.bytes ss[i]! = LEbytes ks[i]! 32 ∧ ks[i]! < 2 ^ 255)
    (hp : ∀ i < ps.size, (ps[i]!).Valid) :
    ∃ r, Formulas.Point_MultiScalarMult v ss ps = .ok r ∧ r.Valid ∧
      r.toEd = ∑ i ∈ range ps.size, ks[i]! • (ps[i]!).toEd := by
  rw [regen_MultiScalarMult v ss ps ks hn (fun i hi => hk i (hs ▸ hi))]
  have hne : (ss.size != ps.size) = false := by simp [hs]
  simp only [hne, Bool.false_eq_true, if_false]
  exact C01_multiScalarMult ss ps ks hs hk hp

theorem C01_regen_varTimeMultiScalarMult (v : P3) (ss : Array W4) (ps : Array P3) (ks : Array ℕ) (hs : ss.size = ps.size)
    (hn : ps.size < 2 ^ 63)
    (hk : ∀ i < ps.size, Scalar.bytes ss[i]! = LEbytes ks[i]! 32 ∧ ks[i]! < 2 ^ 255)
    (hp : ∀ i < ps.size, (ps[i]!).Valid) :
    ∃ r, Formulas.Point_VarTimeMultiScalarMult v ss ps = .ok r ∧ r.Valid ∧
      r.toEd = ∑ i ∈ range ps.size, ks[i]! • (ps[i]!).toEd := by
  rw [regen_VarTimeMultiScalarMult v ss ps ks hn (fun i hi => hk i (hs ▸ hi))]
  have hne : (ss.size != ps.size) = false := by simp [hs]
  simp only [hne, Bool.false_eq_true, if_false]
  exact C01_varTimeMultiScalarMult ss ps ks hs hk hp

/-- mismatched lengths: the regenerated functions panic (C15) -/
theorem C15_regen_length_mismatch (v : P3) (ss : Array W4) (ps : Array P3) (ks : Array ℕ) (hs : ss.size ≠ ps.size)
    (hn : ps.size < 2 ^ 63)
    (hk : ∀ i < ss.size, Scalar.bytes ss[i]! = LEbytes ks[i]! 32 ∧ ks[i]! < 2 ^ 255) :
    Formulas.Point_MultiScalarMult v ss ps = .panic "length" ∧ Formulas.Point_VarTimeMultiScalarMult v ss ps = .panic "length" := by
  have hne : (ss.size != ps.size) = true := by simp [hs]
  rw [regen_MultiScalarMult v ss ps ks hn hk, regen_VarTimeMultiScalarMult v ss ps ks hn hk]
  simp only [hne, if_true, and_self]

/-- `nafLookupTable8.FromP3` (the loop kept as a loop): the model's table, whatever the receiver held -/
theorem regen_nafLookupTable8_FromP3 (v : Array AffineCached) (q : P3) :
    Formulas.nafLookupTable8_FromP3 v q = .ok (Point.naf8Table q) :=
  (tie_nafLookupTable8_FromP3 v q).trans (nafLookupTable8_FromP3_eq v q)


#print axioms C01_regen_varTimeDouble
#print axioms C01_regen_multiScalarMult
#print axioms C01_regen_varTimeMultiScalarMult
#print axioms regen_nonAdjacentForm
end EdVerif.Props
