import EdVerif.Props.C17
import EdVerif.Props.C17X
import EdVerif.Props.Regen.C01
import EdVerif.Props.Regen.ScalarSetters
import EdVerif.Gen.Ties.Point_BytesMontgomery
/-!
# C17 on the regenerated `BytesMontgomery`, and the X25519 clause on the regenerated chain

`EdVerif/Gen/Formulas.lean` is what translator T5 reads off the go/ssa form of today's `/repo`; the theorems below are about those
regenerated definitions (prior receiver value = explicit, universally quantified argument), through the ties of exactly the
functions this property is about (`Gen/Ties/<fn>.lean`).
-/
namespace EdVerif.Props
open EdVerif EdVerif.Impl EdVerif.Prims EdVerif.Proofs EdVerif.Spec EdVerif.Gen EdVerif.Gen.FormulaTies

theorem C17_regen {P : P3} (hP : P.Valid) :
    Formulas.Point_BytesMontgomery P = LEbytes ((1 + P.toEd.y) * (1 - P.toEd.y)⁻¹).val 32 := by
  rw [tie_Point_BytesMontgomery]; exact C17_partial hP

/-- **C17, last clause, on the regenerated code**: for every 32-byte string `x`, every prior value `s0` of the `Scalar`
receiver and `v` of the `Point` receiver, today's `SetBytesWithClamping` succeeds with some `s`, and today's
`BytesMontgomery` of today's `ScalarBaseMult(s)` is the RFC 7748 X25519 public key of `x`. -/
theorem C17_regen_x25519 (x : Bytes) (hx : x.size = 32) (hb : ∀ i < 32, x[i]! < 256) (s0 : W4) (v : P3) :
    ∃ s, Formulas.Scalar_SetBytesWithClamping s0 x = (some s, s) ∧
      Formulas.Point_BytesMontgomery (Formulas.Point_ScalarBaseMult v s) = (X25519.publicKey x.toList).toArray := by
  obtain ⟨s, r, hs, hr, h⟩ := C17_x25519_array x hx hb
  have hb' : Proofs.Scalar.IsBytes x := fun i hi => hb i (hx ▸ hi)
  obtain ⟨s', hs', hinv, _⟩ := C08_clamp hx hb'
  have hss : s' = s := Res.ok.inj (hs'.symm.trans hs)
  subst hss
  refine ⟨s', ?_, ?_⟩
  · rw [tie_Scalar_SetBytesWithClamping, FormulaSpec.Scalar_SetBytesWithClamping_eq, hs]; rfl
  · rw [regen_scalarBaseMult_eq v (scalar_bytes_k hinv).1 (scalar_bytes_k hinv).2 hr, tie_Point_BytesMontgomery]
    exact h

#print axioms C17_regen
#print axioms C17_regen_x25519
end EdVerif.Props
