import EdVerif.Gen.Formulas
/-!
# C15: the `checkInitialized` calls the translator met

`EdVerif/Gen/Formulas.lean` is what translator T5 reads off the go/ssa form of today's `/repo`; the theorems below are about those
regenerated definitions (prior receiver value = explicit, universally quantified argument), through the ties of exactly the
functions this property is about (`Gen/Ties/<fn>.lean`).
-/
namespace EdVerif.Props
open EdVerif EdVerif.Impl EdVerif.Prims EdVerif.Gen

/-- C15 (regenerated): the `checkInitialized` calls the translator met — which parameters each straight-line
    reader guards before computing -/
theorem C15_regen_guards :
    Formulas.guards.filter (fun g => !g.2.isEmpty) =
      [("(*Point).Add", ["p1", "p2"]), ("(*Point).Subtract", ["p1", "p2"]), ("(*Point).Negate", ["p1"]),
       ("(*Point).MultByCofactor", ["p1"]), ("(*Point).Equal", ["p0", "p1"]), ("(*Point).bytesMontgomery", ["p0"]),
       ("(*Point).bytes", ["p0"]), ("(*Point).extendedCoordinates", ["p0"]), ("(*Point).ScalarMult", ["p2"]),
       ("(*Point).VarTimeDoubleScalarBaseMult", ["p2"]),
       -- `checkInitialized(points...)`: every element of the slice parameter
       ("(*Point).MultiScalarMult", ["a2[*]"]), ("(*Point).VarTimeMultiScalarMult", ["a2[*]"])] := by
  decide

#print axioms C15_regen_guards
end EdVerif.Props
