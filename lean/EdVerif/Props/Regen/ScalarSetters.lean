import EdVerif.Gen.Ties.Scalar_SetCanonicalBytes
import EdVerif.Gen.Ties.Scalar_SetUniformBytes
import EdVerif.Gen.Ties.Scalar_SetBytesWithClamping
/-!
# the three fallible `Scalar` setters, regenerated (shared by C08, C14, C17)

`EdVerif/Gen/Formulas.lean` is what translator T5 reads off the go/ssa form of today's `/repo`; the theorems below are about those
regenerated definitions (prior receiver value = explicit, universally quantified argument), through the ties of exactly the
functions this property is about (`Gen/Ties/<fn>.lean`).
-/
namespace EdVerif.Props
open EdVerif EdVerif.Impl EdVerif.Prims EdVerif.Gen EdVerif.Gen.FormulaTies

/-- C14/C08 for the three fallible `Scalar` setters (regenerated): the value returned is `nil` exactly when the model
    rejects the input, the receiver then keeps its prior value whatever it was, and otherwise the receiver is the value
    the model computes (to which the theorems of C08 apply) -/
theorem C14_regen_Scalar_setters (s : W4) (x : Bytes) :
    Formulas.Scalar_SetCanonicalBytes s x = FormulaSpec.pairOfRes (Scalar.setCanonicalBytes x) s ∧
    Formulas.Scalar_SetUniformBytes s x = FormulaSpec.pairOfRes (Scalar.setUniformBytes x) s ∧
    Formulas.Scalar_SetBytesWithClamping s x = FormulaSpec.pairOfRes (Scalar.setBytesWithClamping x) s := by
  refine ⟨?_, ?_, ?_⟩
  · rw [tie_Scalar_SetCanonicalBytes, FormulaSpec.Scalar_SetCanonicalBytes_eq]
  · rw [tie_Scalar_SetUniformBytes, FormulaSpec.Scalar_SetUniformBytes_eq]
  · rw [tie_Scalar_SetBytesWithClamping, FormulaSpec.Scalar_SetBytesWithClamping_eq]

/-- a rejected input leaves the receiver alone; an accepted one sets it to the returned value -/
theorem C14_regen_pairOfRes (r : Res W4) (s : W4) :
    ((FormulaSpec.pairOfRes r s).1 = none → (FormulaSpec.pairOfRes r s).2 = s) ∧
    (∀ v, (FormulaSpec.pairOfRes r s).1 = some v → (FormulaSpec.pairOfRes r s).2 = v ∧ r = .ok v) := by
  cases r <;> simp [FormulaSpec.pairOfRes]

#print axioms C14_regen_Scalar_setters
end EdVerif.Props
