import EdVerif.Props.C13
import EdVerif.Props.Regen.SetExt
import EdVerif.Gen.Ties.Point_extendedCoordinates
/-!
# C13 on the regenerated `SetExtendedCoordinates` / `extendedCoordinates`

`EdVerif/Gen/Formulas.lean` is what translator T5 reads off the go/ssa form of today's `/repo`; the theorems below are about those
regenerated definitions (prior receiver value = explicit, universally quantified argument), through the ties of exactly the
functions this property is about (`Gen/Ties/<fn>.lean`).
-/
namespace EdVerif.Props
open EdVerif EdVerif.Impl EdVerif.Prims EdVerif.Proofs EdVerif.Spec EdVerif.Gen EdVerif.Gen.FormulaTies

theorem C13_regen {X Y Z T : Fe} (hX : Fe.Inv X) (hY : Fe.Inv Y) (hZ : Fe.Inv Z) (hT : Fe.Inv T) (v : P3) :
    ((∃ P, (Formulas.Point_SetExtendedCoordinates v X Y Z T).1 = some P) ↔
      Spec.ExtValid (toZ X) (toZ Y) (toZ Z) (toZ T)) ∧
    ((Formulas.Point_SetExtendedCoordinates v X Y Z T).1 = none → (Formulas.Point_SetExtendedCoordinates v X Y Z T).2 = v) := by
  obtain ⟨h1, h2, _⟩ := C14_regen_Point_SetExtendedCoordinates v X Y Z T
  refine ⟨?_, h2⟩
  rw [h1]; exact C13 hX hY hZ hT

theorem C13_regen_roundtrip (v : P3) {P : P3} (hP : P.Valid) (e : Array Fe) :
    let c := Formulas.Point_extendedCoordinates P e
    Formulas.Point_SetExtendedCoordinates v c.1 c.2.1 c.2.2.1 c.2.2.2 = (some P, P) := by
  intro c
  have hc : c = (P.x, P.y, P.z, P.t) := tie_Point_extendedCoordinates P e
  rw [hc, tie_Point_SetExtendedCoordinates, FormulaSpec.Point_SetExtendedCoordinates_eq]
  show (Point.setExtendedCoordinates P.x P.y P.z P.t, (Point.setExtendedCoordinates P.x P.y P.z P.t).getD v) = _
  rw [C13_roundtrip hP]; rfl

#print axioms C13_regen
#print axioms C13_regen_roundtrip
end EdVerif.Props
