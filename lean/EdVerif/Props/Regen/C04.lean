import EdVerif.Props.C04
import EdVerif.Props.Regen.SetBytes
/-!
# C04 on the regenerated `Point.SetBytes`

`EdVerif/Gen/Formulas.lean` is what translator T5 reads off the go/ssa form of today's `/repo`; the theorems below are about those
regenerated definitions (prior receiver value = explicit, universally quantified argument), through the ties of exactly the
functions this property is about (`Gen/Ties/<fn>.lean`).
-/
namespace EdVerif.Props
open EdVerif EdVerif.Impl EdVerif.Prims EdVerif.Proofs EdVerif.Spec EdVerif.Gen EdVerif.Gen.FormulaTies

/-- the regenerated `SetBytes` returns a point exactly for the 32-byte strings whose `y` has an `x` on the curve; on
failure the receiver keeps its value, on success it is the returned point -/
theorem C04_regen {x : Bytes} (hb : IsBytes x) (v : P3) :
    ((∃ P, (Formulas.Point_SetBytes v x).1 = some P) ↔ x.size = 32 ∧ ∃ xx : F, Spec.onCurve xx (yOf x)) ∧
    ((Formulas.Point_SetBytes v x).1 = none → (Formulas.Point_SetBytes v x).2 = v) ∧
    (∀ P, (Formulas.Point_SetBytes v x).1 = some P → (Formulas.Point_SetBytes v x).2 = P ∧
        P.Valid ∧ P.toEd.y = yOf x ∧ (P.toEd.x = 0 ∨ P.toEd.x.val % 2 = x[31]! / 128)) := by
  obtain ⟨h1, h2, h3⟩ := C14_regen_Point_SetBytes v x
  refine ⟨?_, h2, ?_⟩
  · rw [h1]; exact C04 hb
  · intro P hP
    exact ⟨h3 P hP, C04_value hb (h1 ▸ hP)⟩

#print axioms C04_regen
end EdVerif.Props
