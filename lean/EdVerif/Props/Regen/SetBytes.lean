import EdVerif.Gen.Ties.Point_SetBytes
/-!
# `Point.SetBytes`, regenerated: pair form (shared by C04, C05, C14)

`EdVerif/Gen/Formulas.lean` is what translator T5 reads off the go/ssa form of today's `/repo`; the theorems below are about those
regenerated definitions (prior receiver value = explicit, universally quantified argument), through the ties of exactly the
functions this property is about (`Gen/Ties/<fn>.lean`).
-/
namespace EdVerif.Props
open EdVerif EdVerif.Impl EdVerif.Prims EdVerif.Gen EdVerif.Gen.FormulaTies

/-- C14 for `Point.SetBytes`: the regenerated function returns `none` (= `(nil, error)`) exactly when the
    model does, and then the receiver's final value is its prior value, whatever it was. -/
theorem C14_regen_Point_SetBytes (v : P3) (x : Bytes) :
    (Formulas.Point_SetBytes v x).1 = Point.setBytes x ∧
    ((Formulas.Point_SetBytes v x).1 = none → (Formulas.Point_SetBytes v x).2 = v) ∧
    (∀ p, (Formulas.Point_SetBytes v x).1 = some p → (Formulas.Point_SetBytes v x).2 = p) := by
  rw [tie_Point_SetBytes, FormulaSpec.Point_SetBytes_eq]
  generalize Point.setBytes x = r
  refine ⟨rfl, ?_, ?_⟩
  · intro h; simp only at h; simp [h]
  · intro p h; simp only at h; simp [h]

#print axioms C14_regen_Point_SetBytes
end EdVerif.Props
