import EdVerif.Gen.Ties.Scalar_MultiplyAdd
import EdVerif.Gen.Ties.Scalar_Invert
import EdVerif.Gen.Ties.Scalar_Set
import EdVerif.Gen.Ties.Scalar_Bytes
/-!
# C07 on the regenerated `MultiplyAdd`, `Invert`, `Set`, `Bytes`

`EdVerif/Gen/Formulas.lean` is what translator T5 reads off the go/ssa form of today's `/repo`; the theorems below are about those
regenerated definitions (prior receiver value = explicit, universally quantified argument), through the ties of exactly the
functions this property is about (`Gen/Ties/<fn>.lean`).
-/
namespace EdVerif.Props
open EdVerif EdVerif.Impl EdVerif.Prims EdVerif.Gen EdVerif.Gen.FormulaTies

/-- C07 (regenerated): `MultiplyAdd`, `Invert`, `Set`, `Bytes` of today's source are the model functions,
    whichever of receiver and arguments share storage (first / all-aliased patterns shown; the generated file has all 15 + 2 + 2) -/
theorem C07_regen_Scalar (s x y z : W4) :
    Formulas.Scalar_MultiplyAdd s x y z = Scalar.multiplyAdd x y z ∧
    Formulas.Scalar_Invert s x = Scalar.invert x ∧
    Formulas.Scalar_Invert__al00 x x = Scalar.invert x ∧
    Formulas.Scalar_Set s x = x ∧
    Formulas.Scalar_Bytes s = Scalar.bytes s := by
  refine ⟨?_, ?_, ?_, ?_, ?_⟩
  · rw [tie_Scalar_MultiplyAdd, FormulaSpec.Scalar_MultiplyAdd_eq]
  · rw [tie_Scalar_Invert, FormulaSpec.Scalar_Invert_eq]
  · rw [tie_Scalar_Invert__al00, FormulaSpec.Scalar_Invert_eq]
  · rw [tie_Scalar_Set, FormulaSpec.Scalar_Set_eq]
  · rw [tie_Scalar_Bytes]; rfl

#print axioms C07_regen_Scalar
end EdVerif.Props
