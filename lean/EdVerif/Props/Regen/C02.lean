import EdVerif.Props.C02
import EdVerif.Gen.Ties.Point_Add
import EdVerif.Gen.Ties.Point_Subtract
import EdVerif.Gen.Ties.Point_Negate
import EdVerif.Gen.Ties.Point_MultByCofactor
/-!
# C02 on the regenerated `Add`, `Subtract`, `Negate`, `MultByCofactor` (every aliasing pattern)

`EdVerif/Gen/Formulas.lean` is what translator T5 reads off the go/ssa form of today's `/repo`; the theorems below are about those
regenerated definitions (prior receiver value = explicit, universally quantified argument), through the ties of exactly the
functions this property is about (`Gen/Ties/<fn>.lean`).
-/
namespace EdVerif.Props
open EdVerif EdVerif.Impl EdVerif.Prims EdVerif.Proofs EdVerif.Spec EdVerif.Gen EdVerif.Gen.FormulaTies

theorem C02_regen_add (v : P3) {P Q : P3} (hP : P.Valid) (hQ : Q.Valid) :
    (Formulas.Point_Add v P Q).Valid ∧ (Formulas.Point_Add v P Q).toEd = P.toEd + Q.toEd := by
  rw [tie_Point_Add]; exact C02_add hP hQ

theorem C02_regen_add_aliased {P Q : P3} (hP : P.Valid) (hQ : Q.Valid) :
    (Formulas.Point_Add__al002 P P Q).toEd = P.toEd + Q.toEd ∧      -- v.Add(v, q)
    (Formulas.Point_Add__al010 Q P Q).toEd = P.toEd + Q.toEd ∧      -- v.Add(p, v)
    (Formulas.Point_Add__al011 Q P P).toEd = P.toEd + P.toEd ∧      -- v.Add(p, p)
    (Formulas.Point_Add__al000 P P P).toEd = P.toEd + P.toEd := by  -- v.Add(v, v)
  refine ⟨?_, ?_, ?_, ?_⟩
  · rw [tie_Point_Add__al002]; exact (C02_add hP hQ).2
  · rw [tie_Point_Add__al010]; exact (C02_add hP hQ).2
  · rw [tie_Point_Add__al011]; exact (C02_add hP hP).2
  · rw [tie_Point_Add__al000]; exact (C02_add hP hP).2

theorem C02_regen_sub (v : P3) {P Q : P3} (hP : P.Valid) (hQ : Q.Valid) :
    (Formulas.Point_Subtract v P Q).Valid ∧ (Formulas.Point_Subtract v P Q).toEd = P.toEd - Q.toEd := by
  rw [tie_Point_Subtract]; exact C02_sub hP hQ

theorem C02_regen_sub_aliased {P Q : P3} (hP : P.Valid) (hQ : Q.Valid) :
    (Formulas.Point_Subtract__al002 P P Q).toEd = P.toEd - Q.toEd ∧
    (Formulas.Point_Subtract__al010 Q P Q).toEd = P.toEd - Q.toEd ∧
    (Formulas.Point_Subtract__al011 Q P P).toEd = P.toEd - P.toEd ∧
    (Formulas.Point_Subtract__al000 P P P).toEd = P.toEd - P.toEd := by
  refine ⟨?_, ?_, ?_, ?_⟩
  · rw [tie_Point_Subtract__al002]; exact (C02_sub hP hQ).2
  · rw [tie_Point_Subtract__al010]; exact (C02_sub hP hQ).2
  · rw [tie_Point_Subtract__al011]; exact (C02_sub hP hP).2
  · rw [tie_Point_Subtract__al000]; exact (C02_sub hP hP).2

theorem C02_regen_neg (v : P3) {P : P3} (hP : P.Valid) :
    (Formulas.Point_Negate v P).Valid ∧ (Formulas.Point_Negate v P).toEd = -P.toEd ∧
    (Formulas.Point_Negate__al00 P P).toEd = -P.toEd := by
  rw [tie_Point_Negate, tie_Point_Negate__al00]; exact ⟨(C02_neg hP).1, (C02_neg hP).2, (C02_neg hP).2⟩

theorem C02_regen_cofactor (v : P3) {P : P3} (hP : P.Valid) :
    (Formulas.Point_MultByCofactor v P).Valid ∧ (Formulas.Point_MultByCofactor v P).toEd = 8 • P.toEd ∧
    (Formulas.Point_MultByCofactor__al00 P P).toEd = 8 • P.toEd := by
  rw [tie_Point_MultByCofactor, tie_Point_MultByCofactor__al00]
  exact ⟨(C02_cofactor hP).1, (C02_cofactor hP).2, (C02_cofactor hP).2⟩

#print axioms C02_regen_add
#print axioms C02_regen_sub
#print axioms C02_regen_neg
#print axioms C02_regen_cofactor
end EdVerif.Props
