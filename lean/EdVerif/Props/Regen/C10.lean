import EdVerif.Gen.Ties.field_Element_Bytes
import EdVerif.Gen.Ties.field_Element_bytes
import EdVerif.Gen.Ties.field_Element_IsNegative
/-!
# C10 on the regenerated `Element.Bytes` / `IsNegative`

The primitives `Fe.bytes` / `Fe.isNegative` of the hand-written model (about which `Props/C10.lean` proves that they depend only on
the value mod p) are what today's Go code of `(*field.Element).Bytes` (after `reduce`, 5-limb loop with byte stores) and
`IsNegative` computes.
-/
namespace EdVerif.Props
open EdVerif EdVerif.Impl EdVerif.Prims EdVerif.Gen EdVerif.Gen.FormulaTies EdVerif.FormulaSpec

theorem C10_regen_Bytes (v : Fe) : Formulas.field_Element_Bytes v = Fe.bytes v :=
  (tie_field_Element_Bytes v).trans (field_Element_Bytes_eq v)

theorem C10_regen_IsNegative (v : Fe) : Formulas.field_Element_IsNegative v = Fe.isNegative v :=
  (tie_field_Element_IsNegative v).trans (field_Element_IsNegative_eq v)

#print axioms C10_regen_Bytes
end EdVerif.Props
