import EdVerif.Gen.Ties.Point_Add
/-!
# C11 at the formula level on the regenerated `Add`

`EdVerif/Gen/Formulas.lean` is what translator T5 reads off the go/ssa form of today's `/repo`; the theorems below are about those
regenerated definitions (prior receiver value = explicit, universally quantified argument), through the ties of exactly the
functions this property is about (`Gen/Ties/<fn>.lean`).
-/
namespace EdVerif.Props
open EdVerif EdVerif.Impl EdVerif.Prims EdVerif.Gen EdVerif.Gen.FormulaTies

/-- C11 at the formula level: `v.Add(p, q)` computes the same function of the argument values whichever of
    `v, p, q` share storage (all five aliasing patterns), and likewise `Subtract` -/
theorem C11_regen_Point_Add (a b : P3) :
    Formulas.Point_Add a a b = Point.add a b ∧ Formulas.Point_Add__al002 a a b = Point.add a b ∧
    Formulas.Point_Add__al010 b a a = Point.add a b ∧ Formulas.Point_Add__al011 b a a = Point.add a a ∧
    Formulas.Point_Add__al000 a a a = Point.add a a :=
  ⟨tie_Point_Add a a b, tie_Point_Add__al002 a a b, tie_Point_Add__al010 b a a, tie_Point_Add__al011 b a a,
   tie_Point_Add__al000 a a a⟩

#print axioms C11_regen_Point_Add
end EdVerif.Props
