import EdVerif.Props.C06
import EdVerif.Gen.Ties.Point_Equal
/-!
# C06 on the regenerated `Equal`

`EdVerif/Gen/Formulas.lean` is what translator T5 reads off the go/ssa form of today's `/repo`; the theorems below are about those
regenerated definitions (prior receiver value = explicit, universally quantified argument), through the ties of exactly the
functions this property is about (`Gen/Ties/<fn>.lean`).
-/
namespace EdVerif.Props
open EdVerif EdVerif.Impl EdVerif.Prims EdVerif.Proofs EdVerif.Spec EdVerif.Gen EdVerif.Gen.FormulaTies

open Classical in
theorem C06_regen {P Q : P3} (hP : P.Valid) (hQ : Q.Valid) :
    Formulas.Point_Equal P Q = (if P.toEd = Q.toEd then 1 else 0) ∧ Formulas.Point_Equal__al00 P P = 1 := by
  rw [tie_Point_Equal, tie_Point_Equal__al00]
  refine ⟨C06 hP hQ, ?_⟩
  have := C06 hP hP
  simpa [FormulaSpec.Point_Equal] using this

#print axioms C06_regen
end EdVerif.Props
