import EdVerif.Props.Structural.WellFormed
import EdVerif.Props.Structural.Ct
import EdVerif.Props.Structural.CtExact
import EdVerif.Props.Structural.ProvLabels
import EdVerif.Props.Structural.Writes
import EdVerif.Props.Structural.Returns
import EdVerif.Props.Structural.Globals
import EdVerif.Props.Structural.ErrorPaths
import EdVerif.Props.Structural.Guards
/-!
# Structural theorems about the regenerated SSA of `/repo` (`EdVerif.Gen.Ssa.prog`)

Each theorem evaluates an executable checker of `EdVerif/Ssa/*.lean` on the generated data in the
kernel (`decide +kernel`); one module per predicate under `EdVerif/Props/Structural/` so that they are
checked in parallel and a property file can import just what it needs.

| property | theorem | module |
|---|---|---|
| (all) | `wellFormed_ok` | `Structural.WellFormed` |
| C03 | `ctCheck_ok` | `Structural.Ct` |
| C03 (known finding exact) | `ctCheck_residual_is_known` | `Structural.CtExact` |
| C11(b) | `writesOnly_ok` | `Structural.Writes` |
| C14 | `errorPathsPure_ok` | `Structural.ErrorPaths` |
| C15 | `guardDominates_ok` | `Structural.Guards` |
| C18 F1–F4 | `globalsDiscipline_ok` | `Structural.Globals` |
| C19 | `returnsFresh_ok` | `Structural.Returns` |
-/
namespace EdVerif.Props.Structural
open EdVerif.Ssa EdVerif.Gen.Ssa

/-- all structural predicates hold of the regenerated program -/
theorem structural_all :
    wellFormed prog hints = true
    ∧ ctCheck prog hints Policy.ct ((Policy.ctExemptions ++ Policy.ctDischargedGuards) ++ Policy.ctKnownFindings) = true
    ∧ ctCheckExact prog hints Policy.ct (Policy.ctExemptions ++ Policy.ctDischargedGuards) Policy.ctKnownFindings = true
    ∧ writesOnly prog hints Policy.writes = true
    ∧ returnsFresh prog hints Policy.returns = true
    ∧ globalsDiscipline prog hints Policy.globals = true
    ∧ errorPathsPure prog hints Policy.errorPaths = true
    ∧ guardDominates prog hints Policy.guards = true :=
  ⟨wellFormed_ok, ctCheck_ok, ctCheck_residual_is_known, writesOnly_ok, returnsFresh_ok, globalsDiscipline_ok,
   errorPathsPure_ok, guardDominates_ok⟩

end EdVerif.Props.Structural
