import EdVerif.Proofs.PointLayerDecode
import EdVerif.Proofs.Closing
/-!
C04 — point decoding accepts exactly the documented set and yields the right point.

`SetBytes x` succeeds iff `x` has length 32 and its low 255 bits, read little-endian and reduced
mod `p` (`yOf x`; non-canonical `y ∈ [p, 2^255)` included), are the `y`-coordinate of a curve
point; the result is then a valid point with that `y` whose `x` has the parity given by bit 255
(or `x = 0`, where a set sign bit is accepted). Every other input is rejected.
Hypotheses: `fieldFacts : FieldFacts`, `sqrtFacts : SqrtRatioDecodeFacts` (closed by the field layer).
-/
namespace EdVerif.Props
open EdVerif.Impl EdVerif.Prims EdVerif.Proofs EdVerif.Spec

theorem C04 {x : Bytes} (hb : IsBytes x) :
    (∃ P, Point.setBytes x = some P) ↔ x.size = 32 ∧ ∃ xx : F, Spec.onCurve xx (yOf x) :=
  Proofs.C04 fieldFacts sqrtFacts hb

theorem C04_value {x : Bytes} (hb : IsBytes x)
    {P : P3} (h : Point.setBytes x = some P) :
    P.Valid ∧ P.toEd.y = yOf x ∧ (P.toEd.x = 0 ∨ P.toEd.x.val % 2 = x[31]! / 128) :=
  Proofs.C04_value fieldFacts sqrtFacts hb h

/-- any length other than 32 is rejected -/
theorem C04_len {x : Bytes} (hs : x.size ≠ 32) : Point.setBytes x = none :=
  Proofs.setBytes_len fieldFacts hs

/-- the package-level points, decoded from their encodings at initialisation -/
theorem C04_identity :
    Point.identity.Valid ∧ Point.identity.toEd = 0 := Proofs.identity_valid fieldFacts sqrtFacts

theorem C04_generator :
    Point.generator.Valid ∧ Point.generator.toEd = Proofs.basepoint := Proofs.generator_valid fieldFacts sqrtFacts

/-- non-vacuity: the accepting side is inhabited (the encoding of the identity) -/
example : IsBytes Point.identityBytes ∧ Point.identityBytes.size = 32 ∧
    ∃ xx : F, Spec.onCurve xx (yOf Point.identityBytes) :=
  ⟨Proofs.identityBytes_isBytes, rfl, 0, by rw [Proofs.yOf_identityBytes]; exact (0 : Ed25519).on⟩

#print axioms C04
#print axioms C04_value
#print axioms C04_len
#print axioms C04_identity
#print axioms C04_generator
end EdVerif.Props
