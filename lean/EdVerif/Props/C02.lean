import EdVerif.Proofs.PointLayer
import EdVerif.Proofs.Closing
/-!
C02 — `Add`, `Subtract`, `Negate` and `MultByCofactor` are the complete Edwards group law.

For all valid points (any projective representation, any limb form satisfying `Fe.Inv`) the model
operations return a valid point representing exactly `P + Q`, `P - Q`, `-P`, `8 • P` in the group
`Spec.Ed25519` (`-x² + y² = 1 + d x² y²` over `ZMod (2^255-19)`); no exceptional pairs.
All hypotheses are closed: `fieldFacts` is proved in `Proofs/Closing.lean` from the kernels regenerated on this run.
-/
namespace EdVerif.Props
open EdVerif.Impl EdVerif.Proofs EdVerif.Spec

theorem C02_add {P Q : P3} (hP : P.Valid) (hQ : Q.Valid) :
    (Point.add P Q).Valid ∧ (Point.add P Q).toEd = P.toEd + Q.toEd := Proofs.C02_add fieldFacts hP hQ

theorem C02_sub {P Q : P3} (hP : P.Valid) (hQ : Q.Valid) :
    (Point.sub P Q).Valid ∧ (Point.sub P Q).toEd = P.toEd - Q.toEd := Proofs.C02_sub fieldFacts hP hQ

theorem C02_neg {P : P3} (hP : P.Valid) :
    (Point.neg P).Valid ∧ (Point.neg P).toEd = -P.toEd := Proofs.C02_neg fieldFacts hP

theorem C02_cofactor {P : P3} (hP : P.Valid) :
    (Point.multByCofactor P).Valid ∧ (Point.multByCofactor P).toEd = 8 • P.toEd :=
  Proofs.C02_cofactor fieldFacts hP

/-- non-vacuity: valid points exist (here the raw identity), independently of `FieldFacts` -/
example : ∃ P : P3, P.Valid ∧ P.toEd = 0 := Proofs.exists_valid

#print axioms C02_add
#print axioms C02_sub
#print axioms C02_neg
#print axioms C02_cofactor
end EdVerif.Props
