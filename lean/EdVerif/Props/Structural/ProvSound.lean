import EdVerif.Ssa.ProvSound.Main
import EdVerif.Ssa.Policy
import EdVerif.Gen.Ssa
/-!
# C11(b) / C19 — the provenance theorems about the regenerated SSA, against the execution semantics

* `prov_simple_verdicts` (regenerated obligations, kernel evaluation): the pointer-provenance labelling of the SSA of
  the current working tree is consistent (`provOkSimple`, incl. the side conditions the soundness proof needs), every
  exported function stores only through the parameters the policy allows (`writesOkSimple`), and the constructors /
  encoders return only memory allocated during the call (`returnsOkSimple`).
* `EdVerif.Ssa.writes_sound`, `EdVerif.Ssa.fresh_returns_sound` (`EdVerif/Ssa/ProvSound`, generic, proved once).
* `C11_arguments_never_modified`, `C19_results_fresh`: the instances for `/repo`.
-/
namespace EdVerif.Props.Structural
open EdVerif.Ssa EdVerif.Gen.Ssa

set_option maxRecDepth 1000000

theorem prov_simple_verdict : provOkSimple prog hints = true := by decide +kernel
theorem writes_simple_verdict : writesOkSimple prog hints Policy.writes = true := by decide +kernel
theorem returns_simple_verdict : returnsOkSimple prog hints Policy.returns = true := by decide +kernel

/-- **C11(b) for the current tree**: for every exported function of the two packages, every heap and all
    well-shaped arguments (any aliasing between them), at every point of the execution — after any number of
    steps, on normal return and on panic — every block of memory that existed before the call, is not the target
    of an argument the policy lets the function store through (its receiver; `u` for `Swap`) and is not a
    package-level variable, has exactly its original content. -/
theorem C11_arguments_never_modified
    (fi : Nat) (f : Func) (hf : prog.funcs[fi]? = some f) (he : f.exported = true)
    (heap : Heap) (args : List RVal) (s : State) (ha : ArgsOk prog f args)
    (hs : callState prog heap fi args = some s) (fuel : Nat) (h' : Heap)
    (hr : (run prog fuel s).heap? = some h') :
    UnchangedOutside prog (maskedArgBlocks (allowedWrites Policy.writes f) args 0) heap h' :=
  writes_sound prog hints Policy.writes prov_simple_verdict writes_simple_verdict fi f hf he heap args s ha hs fuel h' hr

/-- **C19 (freshness) for the current tree**: every pointer / slice returned by `NewIdentityPoint`,
    `NewGeneratorPoint`, `NewScalar`, `ExtendedCoordinates` and the `Bytes` methods points into memory
    allocated during that call. -/
theorem C19_results_fresh
    (fi : Nat) (f : Func) (hf : prog.funcs[fi]? = some f) (hp : Policy.returns.fresh.any (· == f.name) = true)
    (heap : Heap) (args : List RVal) (s : State) (ha : ArgsOk prog f args)
    (hs : callState prog heap fi args = some s) (fuel : Nat) (s' : State) (rets : List RVal)
    (hr : run prog fuel s = .done s' rets) :
    ∀ r ∈ rets, ∀ v ∈ r, FreshVal heap.blocks.size v :=
  fresh_returns_sound prog hints Policy.returns prov_simple_verdict returns_simple_verdict fi f hf hp heap args s ha hs fuel s' rets hr

end EdVerif.Props.Structural
