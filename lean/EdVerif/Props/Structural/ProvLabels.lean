import EdVerif.Ssa.Policy
import EdVerif.Gen.Ssa
/-!
# Consistency of the pointer-provenance labelling (basis of C11(b), C14, C18, C19)
Regenerated obligation: re-proved by kernel evaluation (`decide +kernel`) whenever `Gen/Ssa.lean` changes.
-/
namespace EdVerif.Props.Structural
open EdVerif.Ssa EdVerif.Gen.Ssa

set_option maxRecDepth 1000000

/-- the provenance labelling and the write/return summaries emitted by the translator are
    consistent with the rules of `EdVerif/Ssa/Prov.lean`, for every function -/
theorem provConsistent_ok : provConsistent prog hints = true := by
  decide +kernel

end EdVerif.Props.Structural
