import EdVerif.Ssa.Policy
import EdVerif.Gen.Ssa
/-!
# C15 — `guardDominates`
Regenerated obligation: re-proved by kernel evaluation (`decide +kernel`) whenever `Gen/Ssa.lean` changes.
-/
namespace EdVerif.Props.Structural
open EdVerif.Ssa EdVerif.Gen.Ssa

set_option maxRecDepth 1000000

/-- C15: in every reader the `checkInitialized` call covering a `*Point` input dominates all its
    uses; the multi-scalar functions compare the slice lengths (and panic) first. -/
theorem guardDominates_ok : guardDominates prog hints Policy.guards = true := by
  decide +kernel

end EdVerif.Props.Structural
