import EdVerif.Ssa.GlobSound.Main
import EdVerif.Ssa.Policy
import EdVerif.Gen.Ssa
import EdVerif.Props.Structural.ProvSound
/-!
# C18 (F1–F3) / C19 — package-level state is never modified by API calls: the theorem about the regenerated SSA

* `globals_simple_verdict` (regenerated obligation, kernel evaluation).
* `EdVerif.Ssa.globals_sound` (`EdVerif/Ssa/GlobSound`, generic, proved once).
* `C18_package_state_readonly`: the instance for `/repo`.
-/
namespace EdVerif.Props.Structural
open EdVerif.Ssa EdVerif.Gen.Ssa

set_option maxRecDepth 1000000

theorem globals_simple_verdict : globalsOkSimple prog hints Policy.globals = true := by decide +kernel

/-- **No hidden state, for the current tree**: at every point of the execution of an exported function — any fuel,
    normal return or panic — on a heap that contains the package-level variables, with well-shaped arguments that do
    not point into them, every package-level variable other than the two lazily built basepoint tables
    (`identity`, `generator`, `d`, `d2`, `feOne`, `feZero`, `sqrtM1`, `scalarTwo168/336`, `scalarMinusOneBytes`, …) has
    exactly the content it had before the call. -/
theorem C18_package_state_readonly
    (fi : Nat) (f : Func) (hf : prog.funcs[fi]? = some f) (he : f.exported = true)
    (heap : Heap) (args : List RVal) (s : State) (ha : ArgsOk prog f args) (hg : ArgsAvoidGlobals prog args)
    (hh : HeapHasGlobals prog heap) (hc : callState prog heap fi args = some s)
    (fuel : Nat) (h' : Heap) (hr : (run prog fuel s).heap? = some h')
    (g : Nat) (hlt : g < prog.globals.length) (hnt : ∀ t ∈ onceTablesOf prog Policy.globals, t.g ≠ g) :
    h'.blocks[g + 1]? = heap.blocks[g + 1]? :=
  globals_sound prog hints Policy.globals prov_simple_verdict globals_simple_verdict fi f hf he heap args s ha hg hh hc fuel h' hr g hlt hnt

end EdVerif.Props.Structural
