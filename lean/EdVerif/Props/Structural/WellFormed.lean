import EdVerif.Ssa.Policy
import EdVerif.Gen.Ssa
/-!
# Well-formedness of the generated program (conventions the other predicates rely on)

Regenerated obligation: re-proved by kernel evaluation (`decide +kernel`) whenever `Gen/Ssa.lean` changes.
-/
namespace EdVerif.Props.Structural
open EdVerif.Ssa EdVerif.Gen.Ssa

set_option maxRecDepth 1000000

/-- ids are consecutive, operands and block references are in range, blocks end in their only
    terminator, `succs`/`preds`/phi edges agree, one hint record per function -/
theorem wellFormed_ok : wellFormed prog hints = true := by
  decide +kernel

end EdVerif.Props.Structural
