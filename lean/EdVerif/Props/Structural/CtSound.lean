import EdVerif.Ssa.NI.Main
import EdVerif.Ssa.Policy
import EdVerif.Gen.Ssa
/-!
# C03 — the constant-time theorem about the regenerated SSA, against the leakage semantics

* `C03_simple_verdict` (regenerated obligation, kernel evaluation): the simple form of the checker's verdict,
  including the strengthened re-check `sFuncOk` the soundness proof works with, holds for the SSA of the
  current working tree of `/repo`, with exactly the policy's allowed (function, kind) pairs.
* `EdVerif.Ssa.ni` (`EdVerif/Ssa/NI`, generic, proved once): for ANY program with that verdict, two runs of a
  checked function from related states have leakage traces that are equal or first differ at an allowed site.
* `C03_noninterference`: the instance for `/repo` — every function the constant-time discipline applies to
  (every exported non-`VarTime` operation of `Point`, `Scalar`, `field.Element`, `ScalarMult`, `ScalarBaseMult`,
  `MultiScalarMult` and everything they reach), all heaps, all arguments, all secrets, any number of steps.
-/
namespace EdVerif.Props.Structural
open EdVerif.Ssa EdVerif.Gen.Ssa

set_option maxRecDepth 1000000

/-- the (function, kind) pairs at which the policy lets a secret reach a leak point: decoder validity
    decisions, the discharged `signedRadix16` guard, and the recorded known finding KF-1 -/
def c03Allowed : AllowedSites :=
  ((Policy.ctExemptions ++ Policy.ctDischargedGuards) ++ Policy.ctKnownFindings).map fun a => (a.1, a.2.1)

theorem C03_simple_verdict : ctOkSimple prog hints Policy.ct c03Allowed = true := by
  decide +kernel

/-- **C03 for the current tree**: for every checked function, related heaps and related arguments
    (equal public parts, arbitrary secrets), the two leakage traces — branch conditions, memory addresses,
    indices, slice bounds, variable shift counts, division operands, allocation sizes, call targets — after
    any number of steps are equal, or first differ at an event of an allowed (function, kind). -/
theorem C03_noninterference
    (fi : Nat) (f : Func) (h : FuncHints) (hc : (ctChecked prog Policy.ct).testBit fi = true)
    (hf : prog.funcs[fi]? = some f) (hh : hints[fi]? = some h)
    (h1 h2 : Heap) (args1 args2 : List RVal) (hheap : RelHeap h1 h2) (hargs : RelArgs f h 0 args1 args2)
    (s1 s2 : State) (e1 : callState prog h1 fi args1 = some s1) (e2 : callState prog h2 fi args2 = some s2)
    (fuel : Nat) :
    TraceRel c03Allowed (runTrace prog fuel s1 []).2.reverse (runTrace prog fuel s2 []).2.reverse :=
  ni prog hints Policy.ct c03Allowed C03_simple_verdict fi f h hc hf hh h1 h2 args1 args2 hheap hargs s1 s2 e1 e2 fuel

/-- non-vacuity: the discipline applies to the three constant-time scalar multiplications and to the
    field multiplication (they are checked functions of the regenerated program) -/
theorem C03_entries_checked :
    ((prog.funcIdx? (nm! "(*Point).ScalarMult")).map (ctChecked prog Policy.ct).testBit = some true) ∧
    ((prog.funcIdx? (nm! "(*Point).ScalarBaseMult")).map (ctChecked prog Policy.ct).testBit = some true) ∧
    ((prog.funcIdx? (nm! "(*Point).MultiScalarMult")).map (ctChecked prog Policy.ct).testBit = some true) ∧
    ((prog.funcIdx? (nm! "(*field.Element).Multiply")).map (ctChecked prog Policy.ct).testBit = some true) ∧
    ((prog.funcIdx? (nm! "(*Point).VarTimeDoubleScalarBaseMult")).map (ctChecked prog Policy.ct).testBit = some false) := by
  decide +kernel

end EdVerif.Props.Structural
