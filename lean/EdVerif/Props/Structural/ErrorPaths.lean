import EdVerif.Ssa.Policy
import EdVerif.Gen.Ssa
import EdVerif.Props.Structural.ProvLabels
/-!
# C14 — `errorPathsPure`
Regenerated obligation: re-proved by kernel evaluation (`decide +kernel`) whenever `Gen/Ssa.lean` changes.
-/
namespace EdVerif.Props.Structural
open EdVerif.Ssa EdVerif.Gen.Ssa

set_option maxRecDepth 1000000

theorem errorPathsCheck_ok : errorPathsCheck prog hints Policy.errorPaths = true := by
  decide +kernel

/-- C14: in the seven fallible setters no path to an error return touches the receiver, the input
    is never written, and every other return returns the receiver. -/
theorem errorPathsPure_ok : errorPathsPure prog hints Policy.errorPaths = true := by
  simp only [errorPathsPure, provConsistent_ok, errorPathsCheck_ok, Bool.and_self]

end EdVerif.Props.Structural
