import EdVerif.Ssa.GuardSound.Real
/-!
# C15 — misuse is loud: the theorem about the regenerated SSA, against the execution semantics

* `EdVerif.Ssa.guard_sound` (generic, proved once): for any program whose guard verdict `guardOkSimple` is true and whose
  guard function meets `GuardFnSpec`, a reader called with an uninitialized Point in a guarded position never returns normally.
* `EdVerif.Ssa.checkInitialized_spec` (regenerated obligation): the SSA of `checkInitialized` in the current working tree meets
  `GuardFnSpec` — symbolic execution of its loop: called with a slice of pointers one of which designates a Point whose `x`
  and `y` limbs are all zero it never returns, and it never changes memory.
* `EdVerif.Ssa.guardOk_real` (regenerated obligation, kernel evaluation) and `EdVerif.Ssa.guard_real`: the instance.
-/
namespace EdVerif.Props.Structural
open EdVerif.Ssa EdVerif.Gen.Ssa

/-- **C15 for the current tree**: `Add`, `Subtract`, `Negate`, `Equal`, `Bytes`, `BytesMontgomery`, `ExtendedCoordinates`,
    `MultByCofactor`, `ScalarMult`, `VarTimeDoubleScalarBaseMult`, `MultiScalarMult`, `VarTimeMultiScalarMult` (and their
    unexported helpers), called — on any heap, with any other arguments, any aliasing — with a `*Point` argument in a guarded
    position whose `x` and `y` limbs are all zero, or with a `[]*Point` one of whose elements is such a point, never return
    normally (they panic; `checkInitialized` is reached before anything is written). -/
theorem C15_uninitialized_never_returns {fi : Nat} {f : Func} {names : List Nm} (hf : prog.funcs[fi]? = some f)
    (hnames : lookupGuarded f.name Policy.guards.guarded = some names)
    {j : Nat} (hbit : (namesMask f.params names 0).testBit j = true)
    {heap : Heap} {args : List RVal} {s : State} (hs : callState prog heap fi args = some s)
    (harg : ∃ a, args[j]? = some a ∧ ArgForm prog f j a ∧ ArgUninit heap a) :
    ∀ fuel s' rets, run prog fuel s ≠ .done s' rets :=
  guard_real hf hnames hbit hs harg

end EdVerif.Props.Structural
