import EdVerif.Ssa.Policy
import EdVerif.Gen.Ssa
/-!
# C03 — without the known finding, exactly the known finding is rejected

Kept apart from `Structural.Ct` so that the two fail independently: if KF-1 is repaired in `/repo`,
`ctCheck_ok` still holds and only this module stops compiling (`ssadiag C03` then prints
`known-finding-not-reproduced`).
Regenerated obligation: re-proved by kernel evaluation (`decide +kernel`) whenever `Gen/Ssa.lean` changes.
-/
namespace EdVerif.Props.Structural
open EdVerif.Ssa EdVerif.Gen.Ssa

set_option maxRecDepth 1000000

/-- C03: without the known finding, what is rejected is exactly KF-1 (per function and kind, with
    counts) — any other site would be a violation. -/
theorem ctCheck_residual_is_known :
    ctCheckExact prog hints Policy.ct
      (Policy.ctExemptions ++ Policy.ctDischargedGuards) Policy.ctKnownFindings = true := by
  decide +kernel

end EdVerif.Props.Structural
