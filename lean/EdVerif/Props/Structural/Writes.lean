import EdVerif.Ssa.Policy
import EdVerif.Gen.Ssa
import EdVerif.Props.Structural.ProvLabels
/-!
# C11(b) — `writesOnly`
Regenerated obligation: re-proved by kernel evaluation (`decide +kernel`) whenever `Gen/Ssa.lean` changes.
-/
namespace EdVerif.Props.Structural
open EdVerif.Ssa EdVerif.Gen.Ssa

set_option maxRecDepth 1000000

theorem writesCheck_ok : writesCheck prog hints Policy.writes = true := by
  decide +kernel

/-- C11(b): every exported function stores only through its receiver (`Swap`: and `u`; `SelectInto`:
    `dest`) or memory it allocated; nothing stores through a pointer loaded from memory. -/
theorem writesOnly_ok : writesOnly prog hints Policy.writes = true := by
  simp only [writesOnly, provConsistent_ok, writesCheck_ok, Bool.and_self]

end EdVerif.Props.Structural
