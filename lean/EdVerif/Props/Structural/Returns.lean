import EdVerif.Ssa.Policy
import EdVerif.Gen.Ssa
import EdVerif.Props.Structural.ProvLabels
/-!
# C19 — `returnsFresh`
Regenerated obligation: re-proved by kernel evaluation (`decide +kernel`) whenever `Gen/Ssa.lean` changes.
-/
namespace EdVerif.Props.Structural
open EdVerif.Ssa EdVerif.Gen.Ssa

set_option maxRecDepth 1000000

theorem returnsCheck_ok : returnsCheck prog hints Policy.returns = true := by
  decide +kernel

/-- C19: constructors and encoders return fresh memory; every other API function returning a pointer
    returns its receiver (or nil). -/
theorem returnsFresh_ok : returnsFresh prog hints Policy.returns = true := by
  simp only [returnsFresh, provConsistent_ok, returnsCheck_ok, Bool.and_self]

end EdVerif.Props.Structural
