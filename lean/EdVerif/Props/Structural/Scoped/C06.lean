import EdVerif.Ssa.Scope
import EdVerif.Ssa.Policy
import EdVerif.Gen.Ssa
/-!
# C06 — purity obligation, scoped to the operations this property is about
Regenerated obligation (re-proved by kernel evaluation whenever `Gen/Ssa.lean` changes): every function reachable from the exported
operations below (static calls and function values) has a consistent provenance labelling and stores to no package-level variable
outside `init` and the two `sync.Once` closures — so the model's view of these operations as pure functions of the argument values
holds for today's source.  (File written by `tools/gen_scoped.py`.)
-/
namespace EdVerif.Props.Structural
open EdVerif.Ssa EdVerif.Gen.Ssa

set_option maxRecDepth 1000000

def roots_C06 : List Nm :=
  [nm! "(*Point).Equal"]

theorem globalsScoped_C06_ok : globalsScoped prog hints Policy.globals roots_C06 = true := by
  decide +kernel

end EdVerif.Props.Structural
