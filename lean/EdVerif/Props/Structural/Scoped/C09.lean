import EdVerif.Ssa.Scope
import EdVerif.Ssa.Policy
import EdVerif.Gen.Ssa
/-!
# C09 — purity obligation, scoped to the operations this property is about
Regenerated obligation (re-proved by kernel evaluation whenever `Gen/Ssa.lean` changes): every function reachable from the exported
operations below (static calls and function values) has a consistent provenance labelling and stores to no package-level variable
outside `init` and the two `sync.Once` closures — so the model's view of these operations as pure functions of the argument values
holds for today's source.  (File written by `tools/gen_scoped.py`.)
-/
namespace EdVerif.Props.Structural
open EdVerif.Ssa EdVerif.Gen.Ssa

set_option maxRecDepth 1000000

def roots_C09 : List Nm :=
  [nm! "(*field.Element).Absolute",
   nm! "(*field.Element).Add",
   nm! "(*field.Element).Bytes",
   nm! "(*field.Element).Equal",
   nm! "(*field.Element).Invert",
   nm! "(*field.Element).IsNegative",
   nm! "(*field.Element).Mult32",
   nm! "(*field.Element).Multiply",
   nm! "(*field.Element).Negate",
   nm! "(*field.Element).One",
   nm! "(*field.Element).Pow22523",
   nm! "(*field.Element).Select",
   nm! "(*field.Element).Set",
   nm! "(*field.Element).SetBytes",
   nm! "(*field.Element).SetWideBytes",
   nm! "(*field.Element).SqrtRatio",
   nm! "(*field.Element).Square",
   nm! "(*field.Element).Subtract",
   nm! "(*field.Element).Swap",
   nm! "(*field.Element).Zero"]

theorem globalsScoped_C09_ok : globalsScoped prog hints Policy.globals roots_C09 = true := by
  decide +kernel

end EdVerif.Props.Structural
