import EdVerif.Ssa.Scope
import EdVerif.Ssa.Policy
import EdVerif.Gen.Ssa
/-!
# C12 — purity obligation, scoped to the operations this property is about
Regenerated obligation (re-proved by kernel evaluation whenever `Gen/Ssa.lean` changes): every function reachable from the exported
operations below (static calls and function values) has a consistent provenance labelling and stores to no package-level variable
outside `init` and the two `sync.Once` closures — so the model's view of these operations as pure functions of the argument values
holds for today's source.  (File written by `tools/gen_scoped.py`.)
-/
namespace EdVerif.Props.Structural
open EdVerif.Ssa EdVerif.Gen.Ssa

set_option maxRecDepth 1000000

def roots_C12 : List Nm :=
  [nm! "(*Point).Add",
   nm! "(*Point).Bytes",
   nm! "(*Point).BytesMontgomery",
   nm! "(*Point).Equal",
   nm! "(*Point).ExtendedCoordinates",
   nm! "(*Point).MultByCofactor",
   nm! "(*Point).MultiScalarMult",
   nm! "(*Point).Negate",
   nm! "(*Point).ScalarBaseMult",
   nm! "(*Point).ScalarMult",
   nm! "(*Point).Set",
   nm! "(*Point).SetBytes",
   nm! "(*Point).SetExtendedCoordinates",
   nm! "(*Point).Subtract",
   nm! "(*Point).VarTimeDoubleScalarBaseMult",
   nm! "(*Point).VarTimeMultiScalarMult",
   nm! "NewGeneratorPoint",
   nm! "NewIdentityPoint"]

theorem globalsScoped_C12_ok : globalsScoped prog hints Policy.globals roots_C12 = true := by
  decide +kernel

end EdVerif.Props.Structural
