import EdVerif.Ssa.Policy
import EdVerif.Gen.Ssa
import EdVerif.Props.Structural.ProvLabels
/-!
# C18 F1–F4 — `globalsDiscipline`
Regenerated obligation: re-proved by kernel evaluation (`decide +kernel`) whenever `Gen/Ssa.lean` changes.
-/
namespace EdVerif.Props.Structural
open EdVerif.Ssa EdVerif.Gen.Ssa

set_option maxRecDepth 1000000

theorem globalsCheck_ok : globalsCheck prog hints Policy.globals = true := by
  decide +kernel

/-- C18 F1–F4: package-level variables are written only by `init` and the two `sync.Once`
    closures; the lazily built tables are reached only through their accessors, which call `Do`
    first; no other global is stored through; no goroutines, channels, raw pointers, other `sync`. -/
theorem globalsDiscipline_ok : globalsDiscipline prog hints Policy.globals = true := by
  simp only [globalsDiscipline, provConsistent_ok, globalsCheck_ok, Bool.and_self]

end EdVerif.Props.Structural
