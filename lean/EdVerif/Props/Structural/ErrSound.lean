import EdVerif.Ssa.ErrSound.Main
import EdVerif.Ssa.Policy
import EdVerif.Gen.Ssa
import EdVerif.Props.Structural.ProvSound
/-!
# C14 — failed setters are atomic: the theorem about the regenerated SSA, against the execution semantics

* `errorPaths_simple_verdict` (regenerated obligation, kernel evaluation): the error-path predicate, with the side
  conditions its soundness proof needs, holds for the seven fallible setters in the SSA of the current working tree.
* `EdVerif.Ssa.error_atomic_sound` (`EdVerif/Ssa/ErrSound`, generic, proved once).
* `C14_failed_setters_atomic`: the instance for `/repo`.
-/
namespace EdVerif.Props.Structural
open EdVerif.Ssa EdVerif.Gen.Ssa

set_option maxRecDepth 1000000

theorem errorPaths_simple_verdict : errorPathsOkSimple prog hints Policy.errorPaths = true := by decide +kernel

/-- **C14 for the current tree**: a call of `Element.SetBytes`, `Element.SetWideBytes`, `Scalar.SetUniformBytes`,
    `Scalar.SetCanonicalBytes`, `Scalar.SetBytesWithClamping`, `Point.SetBytes` or `Point.SetExtendedCoordinates` on any heap
    with well-shaped arguments that returns, returns either `nil` as its first result — and then every block of memory that
    existed before the call (the receiver, the input slice with its spare capacity, everything else; package-level variables
    excepted) has exactly its original content — or exactly its receiver. -/
theorem C14_failed_setters_atomic
    (fi : Nat) (f : Func) (hf : prog.funcs[fi]? = some f) (hs : Policy.errorPaths.setters.any (· == f.name) = true)
    (heap : Heap) (args : List RVal) (s : State) (ha : ArgsOk prog f args) (hc : callState prog heap fi args = some s)
    (fuel : Nat) (s' : State) (rets : List RVal) (hr : run prog fuel s = .done s' rets) :
    ∃ r0 rest, rets = r0 :: rest ∧
      ((r0 = [.nil] ∧ AllUnchanged prog heap s'.heap) ∨ (∃ a0 as, args = a0 :: as ∧ r0 = a0)) :=
  error_atomic_sound prog hints Policy.errorPaths prov_simple_verdict errorPaths_simple_verdict fi f hf hs heap args s ha hc fuel s' rets hr

end EdVerif.Props.Structural
