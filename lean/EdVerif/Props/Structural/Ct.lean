import EdVerif.Ssa.Policy
import EdVerif.Gen.Ssa
/-!
# C03 — `ctCheck` on the regenerated SSA
Regenerated obligation: re-proved by kernel evaluation (`decide +kernel`) whenever `Gen/Ssa.lean` changes.
-/
namespace EdVerif.Props.Structural
open EdVerif.Ssa EdVerif.Gen.Ssa

set_option maxRecDepth 1000000

/-- one kernel evaluation of the C03 checker giving both statements below -/
theorem ctVerdict_ok :
    ctVerdict prog hints Policy.ct (Policy.ctExemptions ++ Policy.ctDischargedGuards) Policy.ctKnownFindings = true := by
  decide +kernel

/-- C03 (regenerated part): with the decoder exemptions, the discharged guard and the known finding
    KF-1, the constant-time labelling of every checked function is consistent and leak-free. -/
theorem ctCheck_ok :
    ctCheck prog hints Policy.ct
      ((Policy.ctExemptions ++ Policy.ctDischargedGuards) ++ Policy.ctKnownFindings) = true := by
  have h := ctVerdict_ok
  rw [ctVerdict_eq, Bool.and_eq_true] at h
  exact h.1

/-- C03: without the known finding, what is rejected is exactly KF-1 (per function and kind, with
    counts) — any other site would be a violation. -/
theorem ctCheck_residual_is_known :
    ctCheckExact prog hints Policy.ct
      (Policy.ctExemptions ++ Policy.ctDischargedGuards) Policy.ctKnownFindings = true := by
  have h := ctVerdict_ok
  rw [ctVerdict_eq, Bool.and_eq_true] at h
  exact h.2

end EdVerif.Props.Structural
