import EdVerif.Ssa.Policy
import EdVerif.Gen.Ssa
/-!
# C03 — `ctCheck` on the regenerated SSA (with the known finding allowed)
Regenerated obligation: re-proved by kernel evaluation (`decide +kernel`) whenever `Gen/Ssa.lean` changes.
-/
namespace EdVerif.Props.Structural
open EdVerif.Ssa EdVerif.Gen.Ssa

set_option maxRecDepth 1000000

/-- C03 (regenerated part): with the decoder exemptions, the discharged guard and the known finding
    KF-1, the constant-time labelling of every checked function is consistent and leak-free. -/
theorem ctCheck_ok :
    ctCheck prog hints Policy.ct
      ((Policy.ctExemptions ++ Policy.ctDischargedGuards) ++ Policy.ctKnownFindings) = true := by
  decide +kernel

end EdVerif.Props.Structural
