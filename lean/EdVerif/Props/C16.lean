import EdVerif.Proofs.SqrtRatioImpl
import EdVerif.Proofs.Closing
/-!
Property C16: `field.Element.SqrtRatio` follows the ristretto255 `SQRT_RATIO_M1` contract
(RFC 9496 §4.2).

`Fe.sqrtRatio u v = (r, wasSquare)` is the executable model of `r.SqrtRatio(u, v)`; `toZ` maps an
element to `F = ZMod (2^255 - 19)`; `Fe.Inv` is the representation invariant (limbs `≤ 2^52 - 38`)
established by every public operation.  The hypothesis `fieldFacts : FieldFacts` (the `ZMod p` view of the
field operations) is discharged by `fieldFacts_of_kernelFacts` and the kernel layer.
-/
namespace EdVerif.Props
open EdVerif.Impl EdVerif.Prims EdVerif.Spec EdVerif.Proofs

/-- C16. For all representable `u`, `v`, with `(r, wasSquare) = SqrtRatio(u, v)`:
* `r` is representable and non-negative (its canonical value is even), `wasSquare ∈ {0, 1}`;
* `u = 0`: `(r, wasSquare) = (0, 1)`;
* `u ≠ 0`, `v = 0`: `(0, 0)`;
* `u/v` a non-zero square: `wasSquare = 1` and `r² = u/v`;
* `u/v` a non-square: `wasSquare = 0` and `r² = sqrt(-1) · u/v`. -/
theorem C16 (u v : Fe) (hu : Fe.Inv u) (hv : Fe.Inv v) :
    let res := Fe.sqrtRatio u v
    Fe.Inv res.1 ∧ (toZ res.1).val % 2 = 0 ∧ (res.2 = 0 ∨ res.2 = 1) ∧
    (toZ u = 0 → toZ res.1 = 0 ∧ res.2 = 1) ∧
    (toZ u ≠ 0 → toZ v = 0 → toZ res.1 = 0 ∧ res.2 = 0) ∧
    (toZ u ≠ 0 → toZ v ≠ 0 → IsSquare (toZ u / toZ v) →
      res.2 = 1 ∧ toZ res.1 ^ 2 = toZ u / toZ v) ∧
    (toZ u ≠ 0 → toZ v ≠ 0 → ¬ IsSquare (toZ u / toZ v) →
      res.2 = 0 ∧ toZ res.1 ^ 2 = Spec.sqrtM1 * (toZ u / toZ v)) :=
  sqrtRatio_contract fieldFacts u v hu hv

/-- C16, decoder form: `wasSquare = 1` iff `v x² = u` is solvable, and then `r` is a solution;
`r` is always non-negative. -/
theorem C16_decode (u v : Fe) (hu : Fe.Inv u) (hv : Fe.Inv v) :
    let res := Fe.sqrtRatio u v
    Fe.Inv res.1 ∧ (toZ res.1).val % 2 = 0 ∧ (res.2 = 0 ∨ res.2 = 1) ∧
    (res.2 = 1 ↔ ∃ x : F, toZ v * x ^ 2 = toZ u) ∧
    (res.2 = 1 → toZ v * toZ res.1 ^ 2 = toZ u) :=
  sqrtRatio_decode fieldFacts u v hu hv

/-- non-vacuity: the hypotheses are satisfiable -/
example : ∃ u v : Fe, Fe.Inv u ∧ Fe.Inv v := ⟨⟨4, 0, 0, 0, 0⟩, ⟨1, 0, 0, 0, 0⟩, by decide, by decide⟩

end EdVerif.Props

#print axioms EdVerif.Props.C16
#print axioms EdVerif.Props.C16_decode
