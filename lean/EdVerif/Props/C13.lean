import EdVerif.Proofs.PointLayer
import EdVerif.Proofs.Closing
/-!
C13 — extended-coordinate import/export is validated and faithful.

`SetExtendedCoordinates` accepts `(X, Y, Z, T)` iff `Z ≠ 0`, `-X² + Y² = Z² + d T²`, `X Y = Z T`
(`Spec.ExtValid`), the receiver then holds exactly these coordinates, i.e. the point `(X/Z, Y/Z)`;
`ExtendedCoordinates` (the four fields in the model) fed back reproduces the same point.
-/
namespace EdVerif.Props
open EdVerif.Impl EdVerif.Prims EdVerif.Proofs EdVerif.Spec

theorem C13 {X Y Z T : Fe} (hX : Fe.Inv X) (hY : Fe.Inv Y) (hZ : Fe.Inv Z)
    (hT : Fe.Inv T) :
    (∃ P, Point.setExtendedCoordinates X Y Z T = some P) ↔
      Spec.ExtValid (toZ X) (toZ Y) (toZ Z) (toZ T) := Proofs.C13 fieldFacts hX hY hZ hT

theorem C13_value {X Y Z T : Fe} {P : P3} (h : Point.setExtendedCoordinates X Y Z T = some P) :
    P = ⟨X, Y, Z, T⟩ := Proofs.C13_value h

theorem C13_valid {X Y Z T : Fe} (hX : Fe.Inv X) (hY : Fe.Inv Y) (hZ : Fe.Inv Z)
    (hT : Fe.Inv T) {P : P3} (h : Point.setExtendedCoordinates X Y Z T = some P) :
    P.Valid ∧ P.toEd = Spec.toEd (toZ X) (toZ Y) (toZ Z) (toZ T) ∧
      P.toEd.x = toZ X / toZ Z ∧ P.toEd.y = toZ Y / toZ Z := Proofs.C13_valid fieldFacts hX hY hZ hT h

theorem C13_roundtrip {P : P3} (hP : P.Valid) :
    Point.setExtendedCoordinates P.x P.y P.z P.t = some P := Proofs.C13_roundtrip fieldFacts hP

/-- non-vacuity: a valid quadruple exists -/
example : ∃ P : P3, P.Valid ∧ P.toEd = 0 := Proofs.exists_valid

#print axioms C13
#print axioms C13_value
#print axioms C13_valid
#print axioms C13_roundtrip
end EdVerif.Props
