import EdVerif.Proofs.ApiProofs4
/-!
C15 (model half) — misuse is loud: uninitialised Points and mismatched lengths panic.

In the API state machine (`Impl/Api.lean`):

* `C15_uninit_panics`: for every operation and every `Point`-typed *input* position (`Op.pIn`:
  `Bytes`, `BytesMontgomery`, `Negate`/`MultByCofactor` argument, both arguments of
  `Add`/`Subtract`, both sides of `Equal`, `ExtendedCoordinates`, the point of `ScalarMult`, `A` of
  `VarTimeDoubleScalarBaseMult`, every element of the points slice of the multi-scalar calls), if
  all names resolve and that input is the zero value, the call returns `panic "uninit"` and the
  store is untouched. The explicit per-operation forms are `C15_pBytes … C15_pMSM_uninit`.
* `C15_length_panics`: a multi-scalar call whose slices differ in length returns `panic "length"`,
  whatever the points are.
* `C15_panic_only_misuse`: conversely, in a store satisfying the invariant of C12, these are the
  only panics. So a zero-value `Point` is always acceptable as a pure receiver
  (`C15_ok_of_no_misuse`, `C15_zero_receiver_*`), and plain copying is exempt (`C15_pSet`).

The converse uses the scalar layer and the scalar-multiplication refinement (scalar setters never
panic on byte strings; the scalar multiplications succeed on valid inputs), discharged in
`Proofs/ApiProofs4.lean` (`scalarFacts`, `scalarMultFacts`); parametric forms:
`Proofs.C15_panic_only_misuse`, `Proofs.C15_ok_of_no_misuse`.
-/
namespace EdVerif.Props
open EdVerif.Impl EdVerif.Prims EdVerif.Proofs

/-- C15: an uninitialised `Point` in any input position makes the call panic (class `"uninit"`) -/
theorem C15_uninit_panics {σ : Store} {op : Op} (hb : (Api.step σ op).2.kind ≠ .bad)
    (hu : UninitInput σ op) (hl : ¬ op.LengthMismatch) :
    Api.step σ op = (σ, Api.panicO "uninit") := Proofs.C15_uninit_panics hb hu hl

/-- C15: mismatched slice lengths make the multi-scalar calls panic (class `"length"`) -/
theorem C15_length_panics {σ : Store} {op : Op} (hb : (Api.step σ op).2.kind ≠ .bad)
    (hl : op.LengthMismatch) : Api.step σ op = (σ, Api.panicO "length") :=
  Proofs.C15_length_panics hb hl

/-! explicit forms -/

theorem C15_pBytes {σ : Store} {v out : String} {P : P3} (hv : σ.p[v]? = some P)
    (hu : Point.isUninit P = true) : Api.step σ (.pBytes v out) = (σ, Api.panicO "uninit") :=
  Proofs.C15_pBytes hv hu

theorem C15_pBytesMontgomery {σ : Store} {v out : String} {P : P3} (hv : σ.p[v]? = some P)
    (hu : Point.isUninit P = true) :
    Api.step σ (.pBytesMontgomery v out) = (σ, Api.panicO "uninit") :=
  Proofs.C15_pBytesMontgomery hv hu

theorem C15_p1 {σ : Store} {o : POp1} {v p : String} {R P : P3} (hv : σ.p[v]? = some R)
    (hp : σ.p[p]? = some P) (hu : Point.isUninit P = true) :
    Api.step σ (.p1 o v p) = (σ, Api.panicO "uninit") := Proofs.C15_p1 hv hp hu

theorem C15_p2 {σ : Store} {o : POp2} {v p q : String} {R P Q : P3} (hv : σ.p[v]? = some R)
    (hp : σ.p[p]? = some P) (hq : σ.p[q]? = some Q)
    (hu : Point.isUninit P = true ∨ Point.isUninit Q = true) :
    Api.step σ (.p2 o v p q) = (σ, Api.panicO "uninit") := Proofs.C15_p2 hv hp hq hu

theorem C15_pEqual {σ : Store} {v u : String} {P Q : P3} (hv : σ.p[v]? = some P)
    (hq : σ.p[u]? = some Q) (hu : Point.isUninit P = true ∨ Point.isUninit Q = true) :
    Api.step σ (.pEqual v u) = (σ, Api.panicO "uninit") := Proofs.C15_pEqual hv hq hu

theorem C15_pExtCoords {σ : Store} {v X Y Z T : String} {P : P3} (hv : σ.p[v]? = some P)
    (hu : Point.isUninit P = true) :
    Api.step σ (.pExtCoords v X Y Z T) = (σ, Api.panicO "uninit") := Proofs.C15_pExtCoords hv hu

theorem C15_pScalarMult {σ : Store} {v x q : String} {R Q : P3} {k : W4} (hv : σ.p[v]? = some R)
    (hx : σ.s[x]? = some k) (hq : σ.p[q]? = some Q) (hu : Point.isUninit Q = true) :
    Api.step σ (.pScalarMult v x q) = (σ, Api.panicO "uninit") :=
  Proofs.C15_pScalarMult hv hx hq hu

theorem C15_pVarTimeDouble {σ : Store} {v a A b : String} {R PA : P3} {ka kb : W4}
    (hv : σ.p[v]? = some R) (ha : σ.s[a]? = some ka) (hA : σ.p[A]? = some PA)
    (hb : σ.s[b]? = some kb) (hu : Point.isUninit PA = true) :
    Api.step σ (.pVarTimeDouble v a A b) = (σ, Api.panicO "uninit") :=
  Proofs.C15_pVarTimeDouble hv ha hA hb hu

theorem C15_pMSM_uninit {σ : Store} {vt : Bool} {v : String} {xs qs : List String} {R : P3}
    {ks : List W4} {Qs : List P3} (hv : σ.p[v]? = some R) (hks : Api.getAll σ.s xs = some ks)
    (hQs : Api.getAll σ.p qs = some Qs) (hl : xs.length = qs.length)
    {n : String} (hn : n ∈ qs) {P : P3} (hP : σ.p[n]? = some P) (hu : Point.isUninit P = true) :
    Api.step σ (.pMSM vt v xs qs) = (σ, Api.panicO "uninit") :=
  Proofs.C15_pMSM_uninit hv hks hQs hl hn hP hu

theorem C15_pMSM_length {σ : Store} {vt : Bool} {v : String} {xs qs : List String} {R : P3}
    {ks : List W4} {Qs : List P3} (hv : σ.p[v]? = some R) (hks : Api.getAll σ.s xs = some ks)
    (hQs : Api.getAll σ.p qs = some Qs) (hl : xs.length ≠ qs.length) :
    Api.step σ (.pMSM vt v xs qs) = (σ, Api.panicO "length") :=
  Proofs.C15_pMSM_length hv hks hQs hl

/-- `getAll` is the pointwise lookup of the names -/
theorem C15_getAll_spec {α} (m : Std.HashMap String α) (ns : List String) (l : List α)
    (h : Api.getAll m ns = some l) : List.Forall₂ (fun n x => m[n]? = some x) ns l :=
  Proofs.getAll_spec m ns l h

/-- plain copying is exempt -/
theorem C15_pSet {σ : Store} {v u : String} {R P : P3} (hv : σ.p[v]? = some R)
    (hu : σ.p[u]? = some P) :
    Api.step σ (.pSet v u) = ({ σ with p := σ.p.insert v P }, Api.okO) := Proofs.C15_pSet hv hu

theorem C15_pSet_never_panics {σ : Store} (v u c : String) :
    (Api.step σ (.pSet v u)).2.kind ≠ .panic c := Proofs.C15_pSet_never_panics v u c

/-- C15, converse: in a store satisfying the invariant every panic is one of the two misuses -/
theorem C15_panic_only_misuse {σ : Store} (h : StoreInv σ) {op : Op} {c : String} (hp : (Api.step σ op).2.kind = .panic c) :
    (c = "length" ∧ op.LengthMismatch) ∨ (c = "uninit" ∧ UninitInput σ op) :=
  Proofs.C15_panic_only_misuse scalarFacts scalarMultFacts h hp

/-- C15: without misuse every non-fallible operation succeeds, whatever the receiver holds -/
theorem C15_ok_of_no_misuse {σ : Store} (h : StoreInv σ) {op : Op} (hb : (Api.step σ op).2.kind ≠ .bad)
    (hu : ¬ UninitInput σ op) (hl : ¬ op.LengthMismatch) (hs : ¬ op.IsFallibleSetter) :
    (Api.step σ op).2.kind = .ok := Proofs.C15_ok_of_no_misuse scalarFacts scalarMultFacts h hb hu hl hs

/-- a zero-value receiver of `Add` / `Subtract` is fine -/
theorem C15_zero_receiver_p2 {σ : Store} {o : POp2} {v p q : String} {P Q : P3}
    (hv : σ.p[v]? = some Point.zeroValue) (hp : σ.p[p]? = some P) (hq : σ.p[q]? = some Q)
    (hP : P.Valid) (hQ : Q.Valid) :
    Api.step σ (.p2 o v p q) = ({ σ with p := σ.p.insert v (Api.evalP2 o P Q) }, Api.okO) ∧
      (Api.evalP2 o P Q).Valid := Proofs.C15_zero_receiver_p2 fieldFacts hv hp hq hP hQ

/-- a zero-value receiver of `ScalarMult` is fine -/
theorem C15_zero_receiver_scalarMult {σ : Store} {v x q : String} {k : W4}
    {Q : P3} (hv : σ.p[v]? = some Point.zeroValue) (hx : σ.s[x]? = some k)
    (hq : σ.p[q]? = some Q) (hk : Scalar.Inv k) (hQ : Q.Valid) :
    ∃ R, Api.step σ (.pScalarMult v x q) = ({ σ with p := σ.p.insert v R }, Api.okO) ∧
      R.Valid := Proofs.C15_zero_receiver_scalarMult scalarMultFacts hv hx hq hk hQ

/-- the input positions, for reference -/
example (o : POp2) (v p q : String) : (Op.p2 o v p q).pIn = [p, q] := rfl
example (vt : Bool) (v : String) (xs qs : List String) : (Op.pMSM vt v xs qs).pIn = qs := rfl
example (v u : String) : (Op.pSet v u).pIn = [] := rfl

/-- non-vacuity: the zero value is uninitialised, and a store with a zero-value point under `"v"`
makes `Bytes` panic -/
example : Point.isUninit Point.zeroValue = true := Proofs.isUninit_zeroValue
example : ∃ (σ : Store), UninitInput σ (.pBytes "v" "out") ∧
    Api.step σ (.pBytes "v" "out") = (σ, Api.panicO "uninit") := by
  have h1 : (({} : Std.HashMap String P3).insert "v" Point.zeroValue)["v"]? =
      some Point.zeroValue := Std.HashMap.getElem?_insert_self
  exact ⟨{ p := ({} : Std.HashMap String P3).insert "v" Point.zeroValue },
    ⟨"v", List.mem_singleton.mpr rfl, Point.zeroValue, h1, Proofs.isUninit_zeroValue⟩,
    Proofs.C15_pBytes h1 Proofs.isUninit_zeroValue⟩

#print axioms C15_uninit_panics
#print axioms C15_length_panics
#print axioms C15_pBytes
#print axioms C15_pBytesMontgomery
#print axioms C15_p1
#print axioms C15_p2
#print axioms C15_pEqual
#print axioms C15_pExtCoords
#print axioms C15_pScalarMult
#print axioms C15_pVarTimeDouble
#print axioms C15_pMSM_uninit
#print axioms C15_pMSM_length
#print axioms C15_pSet
#print axioms C15_pSet_never_panics
#print axioms C15_panic_only_misuse
#print axioms C15_ok_of_no_misuse
#print axioms C15_zero_receiver_p2
#print axioms C15_zero_receiver_scalarMult
end EdVerif.Props
