import EdVerif.Impl.Alias
import EdVerif.Impl.Fe
import EdVerif.Gen.FieldKernels
import EdVerif.Gen.FiatKernels
/-!
C11 (kernel part, re-proved against the regenerated kernels on every run): every straight-line
kernel of `field` and of the fiat scalar code reads a parameter's limb only before any aliasable
parameter's same limb is written — except `Swap`, whose interleaved reads/writes are handled by the
explicit lemma below — and never writes through a byte-slice parameter.
The rest of C11 (all exported operations under every alias partition, arguments bit-for-bit
unchanged) is decided by the executed correspondence and by the SSA write-set predicate
(`Props/Structural.lean`).
-/
namespace EdVerif.Props
open EdVerif.Impl EdVerif.Prims

theorem C11_kernels_field : Alias.unsafeKernels EdVerif.Gen.Field.memEvents = ["Swap"] := by decide +kernel

theorem C11_kernels_fiat : Alias.unsafeKernels EdVerif.Gen.Fiat.memEvents = [] := by decide +kernel

theorem uxor_self_and (m x : Nat) : U.xor 64 x (U.and 64 m (U.xor 64 x x)) = x := by
  unfold U.xor U.and; simp

/-- `v.Swap(v, cond)` leaves the element unchanged, whatever `cond` -/
theorem C11_swap_self (x : Fe) (c : Nat) : Fe.swap x x c = (x, x) := by
  simp only [Fe.swap, EdVerif.Gen.Field.Swap, uxor_self_and]

end EdVerif.Props
