import EdVerif.Proofs.ScalarZ
/-!
C07 — scalar arithmetic is arithmetic in `ZMod l`, `l = 2^252 + 27742317777372353535851937790883648493` (prime:
`Spec.prime_L`). A `Scalar` is its Montgomery-domain `[4]uint64`; `Scalar.Inv s` = words `< 2^64` and value `< l`;
`Scalar.toZ s = eval s · (2^256)⁻¹ : ZMod l`. The fiat kernels are the ones regenerated from `/repo/scalar_fiat.go`
on this run; their Montgomery iterations are proved in `Proofs/Fiat1.lean`, `Fiat2.lean`.
-/
namespace EdVerif.Props
open EdVerif.Impl EdVerif.Prims EdVerif.Proofs

theorem C07_zero : Scalar.Inv Scalar.rz ∧ Proofs.Scalar.toZ Scalar.rz = 0 := Proofs.C07_zero
theorem C07_add {x y : W4} (hx : Scalar.Inv x) (hy : Scalar.Inv y) :
    Scalar.Inv (Scalar.add x y) ∧ Proofs.Scalar.toZ (Scalar.add x y) = Proofs.Scalar.toZ x + Proofs.Scalar.toZ y :=
  Proofs.C07_add x y hx hy
theorem C07_sub {x y : W4} (hx : Scalar.Inv x) (hy : Scalar.Inv y) :
    Scalar.Inv (Scalar.sub x y) ∧ Proofs.Scalar.toZ (Scalar.sub x y) = Proofs.Scalar.toZ x - Proofs.Scalar.toZ y :=
  Proofs.C07_sub x y hx hy
theorem C07_neg {x : W4} (hx : Scalar.Inv x) :
    Scalar.Inv (Scalar.neg x) ∧ Proofs.Scalar.toZ (Scalar.neg x) = - Proofs.Scalar.toZ x := Proofs.C07_neg x hx
theorem C07_mul {x y : W4} (hx : Scalar.Inv x) (hy : Scalar.Inv y) :
    Scalar.Inv (Scalar.mul x y) ∧ Proofs.Scalar.toZ (Scalar.mul x y) = Proofs.Scalar.toZ x * Proofs.Scalar.toZ y :=
  Proofs.C07_mul x y hx hy
theorem C07_multiplyAdd {x y z : W4} (hx : Scalar.Inv x) (hy : Scalar.Inv y) (hz : Scalar.Inv z) :
    Scalar.Inv (Scalar.multiplyAdd x y z) ∧
      Proofs.Scalar.toZ (Scalar.multiplyAdd x y z) = Proofs.Scalar.toZ x * Proofs.Scalar.toZ y + Proofs.Scalar.toZ z :=
  Proofs.C07_multiplyAdd x y z hx hy hz
/-- `Invert`: `0 ↦ 0` because `0⁻¹ = 0` in `ZMod l` -/
theorem C07_invert {t : W4} (ht : Scalar.Inv t) :
    Scalar.Inv (Scalar.invert t) ∧ Proofs.Scalar.toZ (Scalar.invert t) = (Proofs.Scalar.toZ t)⁻¹ := Proofs.C07_invert t ht
/-- `Equal` returns exactly 1 or 0 and decides equality in `ZMod l` -/
theorem C07_equal {s t : W4} (hs : Scalar.Inv s) (ht : Scalar.Inv t) :
    Scalar.equal s t = if Proofs.Scalar.toZ s = Proofs.Scalar.toZ t then 1 else 0 := Proofs.C07_equal s t hs ht

/-- non-vacuity: the Montgomery form of `l - 1` satisfies the invariant -/
example : Scalar.Inv (Scalar.neg ⟨1, 0, 0, 0⟩) :=
  (Proofs.C07_neg ⟨1, 0, 0, 0⟩ (by unfold Scalar.Inv Scalar.eval EdVerif.L; norm_num)).1

end EdVerif.Props
