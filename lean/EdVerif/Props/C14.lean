import EdVerif.Proofs.ApiProofs2
/-!
C14 (model half) — failed setters are atomic and no setter modifies its input.

In the API state machine (`Impl/Api.lean`) a call returns the new store and an outcome
`ok | err | panic cls | bad` (`bad` = a name of the test harness does not resolve).

* `C14_atomic` (and `_panic`, `_bad`): whenever the outcome is not `ok` the *whole* store — the
  receiver, every input, every other object — is exactly the store before the call.
* `C14_err_only_setters`: `err` is only ever reported by the fallible setters
  `Element.SetBytes`, `Element.SetWideBytes`, `Scalar.SetUniformBytes / SetCanonicalBytes /
  SetBytesWithClamping` (`sSetBytes`), `Point.SetBytes`, `Point.SetExtendedCoordinates`.
* `C14_frame_*`: a (successful) call writes at most the slots listed in `Op.wE / wS / wP / wB`:
  its receiver (`Swap`: both operands; `ExtendedCoordinates`: the four outputs; encoders: the
  output buffer). `C14_input_unchanged`: an operation without a declared byte-string output — in
  particular every setter — leaves every byte string as it was; `C14_setter_frame` bundles this for
  the fallible setters.

No hypotheses: these are facts about the control structure of the model; the Go side of C14
(returned pointer is the receiver, `nil` on error) is observed by the correspondence harness.
-/
namespace EdVerif.Props
open EdVerif.Impl EdVerif.Prims EdVerif.Proofs

/-- C14: a call that reports an error leaves the whole store exactly as it was -/
theorem C14_atomic {σ : Store} {op : Op} (h : (Api.step σ op).2.kind = .err) :
    (Api.step σ op).1 = σ := Proofs.C14_atomic h

/-- the same for panics -/
theorem C14_atomic_panic {σ : Store} {op : Op} {c : String}
    (h : (Api.step σ op).2.kind = .panic c) : (Api.step σ op).1 = σ := Proofs.C14_atomic_panic h

/-- the same for harness-level misuse (unresolved name) -/
theorem C14_atomic_bad {σ : Store} {op : Op} (h : (Api.step σ op).2.kind = .bad) :
    (Api.step σ op).1 = σ := Proofs.C14_atomic_bad h

/-- every call either leaves the store untouched or reports success -/
theorem C14_unchanged_or_ok (σ : Store) (op : Op) :
    (Api.step σ op).1 = σ ∨ (Api.step σ op).2.kind = .ok := Proofs.step_unchanged_or_ok σ op

/-- C14: only the fallible setters can report an error -/
theorem C14_err_only_setters {σ : Store} {op : Op} (h : (Api.step σ op).2.kind = .err) :
    op.IsFallibleSetter := Proofs.C14_err_only_setters h

/-- a call writes at most the `Element` slots in `op.wE` -/
theorem C14_frame_e {σ : Store} {op : Op} {n : String} (hn : n ∉ op.wE) :
    (Api.step σ op).1.e[n]? = σ.e[n]? := Proofs.frame_e hn

/-- a call writes at most the `Scalar` slots in `op.wS` -/
theorem C14_frame_s {σ : Store} {op : Op} {n : String} (hn : n ∉ op.wS) :
    (Api.step σ op).1.s[n]? = σ.s[n]? := Proofs.frame_s hn

/-- a call writes at most the `Point` slots in `op.wP` -/
theorem C14_frame_p {σ : Store} {op : Op} {n : String} (hn : n ∉ op.wP) :
    (Api.step σ op).1.p[n]? = σ.p[n]? := Proofs.frame_p hn

/-- a call writes at most the byte-string slots in `op.wB` (declared outputs of the encoders) -/
theorem C14_frame_b {σ : Store} {op : Op} {n : String} (hn : n ∉ op.wB) :
    (Api.step σ op).1.b[n]? = σ.b[n]? := Proofs.frame_b hn

/-- C14: no operation without a declared byte-string output modifies any byte string -/
theorem C14_input_unchanged {σ : Store} {op : Op} (h : op.wB = []) :
    (Api.step σ op).1.b = σ.b := Proofs.b_unchanged h

/-- C14: no setter modifies its input; the only slot it may write is its receiver -/
theorem C14_setter_frame {σ : Store} {op : Op} (h : op.IsFallibleSetter) :
    (Api.step σ op).1.b = σ.b ∧
    (∀ n, n ∉ op.wE → (Api.step σ op).1.e[n]? = σ.e[n]?) ∧
    (∀ n, n ∉ op.wS → (Api.step σ op).1.s[n]? = σ.s[n]?) ∧
    (∀ n, n ∉ op.wP → (Api.step σ op).1.p[n]? = σ.p[n]?) := Proofs.setter_frame h

/-- the write sets of the setters are their receivers -/
example (v b : String) : (Op.eSetBytes v b).wE = [v] ∧ (Op.eSetBytes v b).wB = [] := ⟨rfl, rfl⟩
example (k : SSet) (s b : String) : (Op.sSetBytes k s b).wS = [s] ∧ (Op.sSetBytes k s b).wB = [] :=
  ⟨rfl, rfl⟩
example (v b : String) : (Op.pSetBytes v b).wP = [v] ∧ (Op.pSetBytes v b).wB = [] := ⟨rfl, rfl⟩
example (v X Y Z T : String) :
    (Op.pSetExtCoords v X Y Z T).wP = [v] ∧ (Op.pSetExtCoords v X Y Z T).wE = [] := ⟨rfl, rfl⟩

/-- non-vacuity: an error does occur (`Element.SetBytes` on the empty byte string) -/
example : ∃ (σ : Store) (op : Op), (Api.step σ op).2.kind = .err ∧ op.IsFallibleSetter := by
  refine ⟨{ e := ({} : Std.HashMap String Fe).insert "v" Fe.rz,
            b := ({} : Std.HashMap String Bytes).insert "b" #[] }, .eSetBytes "v" "b", ?_, trivial⟩
  have h1 : (({} : Std.HashMap String Fe).insert "v" Fe.rz)["v"]? = some Fe.rz :=
    Std.HashMap.getElem?_insert_self
  have h2 : (({} : Std.HashMap String Bytes).insert "b" #[])["b"]? = some #[] :=
    Std.HashMap.getElem?_insert_self
  have h3 : Fe.setBytes #[] = none := rfl
  simp only [Api.step, h1, h2, h3]
  rfl

#print axioms C14_atomic
#print axioms C14_atomic_panic
#print axioms C14_atomic_bad
#print axioms C14_unchanged_or_ok
#print axioms C14_err_only_setters
#print axioms C14_frame_e
#print axioms C14_frame_s
#print axioms C14_frame_p
#print axioms C14_frame_b
#print axioms C14_input_unchanged
#print axioms C14_setter_frame
end EdVerif.Props
