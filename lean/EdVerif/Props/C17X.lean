import EdVerif.Proofs.X25519.Ladder
import EdVerif.Proofs.X25519.Order
import EdVerif.Proofs.X25519.Bytes
import EdVerif.Props.C01
import EdVerif.Props.C08
import EdVerif.Props.C17
/-!
C17, last clause — `BytesMontgomery([clamp(x)]B)` is the X25519 public key of `x` (RFC 7748).

* `ladder_base`: pure mathematics. The RFC 7748 Montgomery ladder (`Spec/X25519.lean`, the RFC's pseudo-code verbatim
  over `ZMod p`) run on the `u`-coordinate `9` returns `u([k]B) = (1 + y)/(1 - y)` of the point `[k]B` of the
  twisted-Edwards group `Spec.Ed25519`, for **every** `k < 2^255` (clamping is not needed; `0⁻¹ = 0` covers
  `[k]B = 0`, exactly as `z_2^(p-2)` does in the RFC).
* `L_smul_basepoint`: `l • B = 0`, by kernel evaluation of a verified projective double-and-add (`Proofs/X25519/Order.lean`).
* `C17_x25519`: for every 32-byte string `x`, the model of the Go code run as a user would
  (`SetBytesWithClamping`, `ScalarBaseMult`, `BytesMontgomery`) returns `X25519(x, 9)`.

No hypothesis was added to the statements asked for.
-/
namespace EdVerif.Props
open EdVerif.Impl EdVerif.Prims EdVerif.Proofs EdVerif.Spec

/-- mathematics: the RFC ladder on `u = 9` computes the `u`-coordinate of `[k]B`, for every `k < 2^255` -/
theorem ladder_base (k : ℕ) (hk : k < 2 ^ 255) :
    X25519.ladder k 9 = (1 + (k • basepoint).y) * (1 - (k • basepoint).y)⁻¹ :=
  Proofs.X25519.ladder_base k hk

/-- the base point has order dividing `l` -/
theorem L_smul_basepoint : EdVerif.L • basepoint = 0 := Proofs.X25519.L_smul_basepoint

/-- the X25519 public key of `x`, mathematically: the encoding of `u([clamp(x)]B)` -/
theorem publicKey_eq (x : Bytes) (hx : x.size = 32) (hb : ∀ i < 32, x[i]! < 256) :
    X25519.publicKey x.toList =
      (LEbytes ((1 + ((Proofs.Scalar.clamp (Proofs.Scalar.LE x)) • basepoint).y) *
        (1 - ((Proofs.Scalar.clamp (Proofs.Scalar.LE x)) • basepoint).y)⁻¹).val 32).toList := by
  have hb' : Proofs.Scalar.IsBytes x := fun i hi => hb i (hx ▸ hi)
  unfold X25519.publicKey X25519.x25519
  rw [Proofs.X25519.decodeU_nine, Proofs.X25519.decodeScalar_eq x hx hb',
    Proofs.X25519.ladder_base _ (Proofs.X25519.clamp_lt _), Proofs.X25519.encodeU_eq]

/-- C17, last clause: for every 32-byte string `x`, `BytesMontgomery([clamp(x)]B)` — computed by the model of the Go
code exactly as a user would: `SetBytesWithClamping`, `ScalarBaseMult`, `BytesMontgomery` — is the X25519 public
key of `x` -/
theorem C17_x25519 (x : Bytes) (hx : x.size = 32) (hb : ∀ i < 32, x[i]! < 256) :
    ∃ s r, Scalar.setBytesWithClamping x = .ok s ∧ Point.scalarBaseMult s = .ok r ∧
      (Point.bytesMontgomery r).toList = X25519.publicKey x.toList := by
  have hb' : Proofs.Scalar.IsBytes x := fun i hi => hb i (hx ▸ hi)
  obtain ⟨s, hs, hinv, hz⟩ := C08_clamp hx hb'
  obtain ⟨r, hr, hv, he⟩ := C01_scalarBaseMult_valid hinv
  refine ⟨s, r, hs, hr, ?_⟩
  rw [C17_partial hv, he, hz, ZMod.val_natCast, Proofs.X25519.mod_L_smul_basepoint, publicKey_eq x hx hb]

/-- the same as an equation between byte arrays -/
theorem C17_x25519_array (x : Bytes) (hx : x.size = 32) (hb : ∀ i < 32, x[i]! < 256) :
    ∃ s r, Scalar.setBytesWithClamping x = .ok s ∧ Point.scalarBaseMult s = .ok r ∧
      Point.bytesMontgomery r = (X25519.publicKey x.toList).toArray := by
  obtain ⟨s, r, hs, hr, h⟩ := C17_x25519 x hx hb
  exact ⟨s, r, hs, hr, by rw [← h]⟩

#print axioms ladder_base
#print axioms L_smul_basepoint
#print axioms C17_x25519

/-! ### executed sanity checks (compiled evaluation; tests, not proofs)

RFC 7748 §6.1: Alice's private key `a` and public key `X25519(a, 9)`; §5.2 first test vector. -/

def alicePriv : List ℕ := [0x77,0x07,0x6d,0x0a,0x73,0x18,0xa5,0x7d,0x3c,0x16,0xc1,0x72,0x51,0xb2,0x66,0x45,
  0xdf,0x4c,0x2f,0x87,0xeb,0xc0,0x99,0x2a,0xb1,0x77,0xfb,0xa5,0x1d,0xb9,0x2c,0x2a]
def alicePub : List ℕ := [0x85,0x20,0xf0,0x09,0x89,0x30,0xa7,0x54,0x74,0x8b,0x7d,0xdc,0xb4,0x3e,0xf7,0x5a,
  0x0d,0xbf,0x3a,0x0d,0x26,0x38,0x1a,0xf4,0xeb,0xa4,0xa9,0x8e,0xaa,0x9b,0x4e,0x6a]

-- the specification reproduces the RFC's public key
#guard X25519.publicKey alicePriv == alicePub

-- the model reproduces it too (both sides of `C17_x25519` on a concrete key)
#guard (match Scalar.setBytesWithClamping alicePriv.toArray with
  | .ok s => (match Point.scalarBaseMult s with
    | .ok r => (Point.bytesMontgomery r).toList == X25519.publicKey alicePriv
    | _ => false)
  | _ => false)

-- RFC 7748 §5.2, first `X25519(k, u)` test vector (variable `u`: exercises `decodeU` and the general ladder)
#guard X25519.x25519
  [0xa5,0x46,0xe3,0x6b,0xf0,0x52,0x7c,0x9d,0x3b,0x16,0x15,0x4b,0x82,0x46,0x5e,0xdd,
   0x62,0x14,0x4c,0x0a,0xc1,0xfc,0x5a,0x18,0x50,0x6a,0x22,0x44,0xba,0x44,0x9a,0xc4]
  [0xe6,0xdb,0x68,0x67,0x58,0x30,0x30,0xdb,0x35,0x94,0xc1,0xa4,0x24,0xb1,0x5f,0x7c,
   0x72,0x66,0x24,0xec,0x26,0xb3,0x35,0x3b,0x10,0xa9,0x03,0xa6,0xd0,0xab,0x1c,0x4c]
  == [0xc3,0xda,0x55,0x37,0x9d,0xe9,0xc6,0x90,0x8e,0x94,0xea,0x4d,0xf2,0x8d,0x08,0x4f,
   0x32,0xec,0xcf,0x03,0x49,0x1c,0x71,0xf7,0x54,0xb4,0x07,0x55,0x77,0xa2,0x85,0x52]

end EdVerif.Props
