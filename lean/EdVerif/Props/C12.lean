import EdVerif.Proofs.ApiProofs4
/-!
C12 — every reachable `Point` is a valid curve point; C09 (closure half) — no sequence of operations
leaves the representation range.

The API state machine `Api.step` / `Api.run` (`Impl/Api.lean`) has one `Op` per exported function
or method, with names for receiver and arguments (so every aliasing pattern is an `Op`). `StoreInv`
is an inductive invariant of it: after *any* finite history of operations (whose literal arguments
are in the documented domain: `Select`/`Swap` conditions in `{0,1}`, `Mult32` argument `< 2^32`,
byte strings consisting of bytes), whatever their outcome,

* every stored `Point` is the zero value (a never-written receiver) or `P3.Valid`
  (limb invariants, `Z ≠ 0`, `-X² + Y² = Z² + d T²`, `X Y = Z T`)                       — `C12`;
* every stored `field.Element` satisfies the limb invariant `Fe.Inv` on which the field
  arithmetic is proved correct (C09)                                              — `C09_reachable`;
* every stored `Scalar` is reduced                                              — `scalar_reachable`.

A valid point is never mistaken for an uninitialised one, and on valid points `Equal` and `Bytes`
agree, so no reachable value compares `Equal` to an unrelated point or encodes as a different one.

No hypotheses are left: the interfaces `FieldFacts` (field layer), `ScalarFacts` (scalar layer) and
`ScalarMultFacts` (the five scalar multiplications return valid points on valid inputs) are
discharged in `Proofs/ApiProofs4.lean` by `fieldFacts`, `scalarFacts`, `scalarMultFacts`; the
parametric forms are `Proofs.step_inv`, `Proofs.run_inv`, `Proofs.C12`, `Proofs.C09_reachable`.
-/
namespace EdVerif.Props
open EdVerif.Impl EdVerif.Prims EdVerif.Proofs EdVerif.Spec

/-- the invariant is preserved by every call, successful or not -/
theorem C12_step_inv {σ : Store} (h : StoreInv σ) {op : Op} (hw : op.WellFormed) :
    StoreInv (Api.step σ op).1 :=
  Proofs.step_inv fieldFacts scalarFacts scalarMultFacts h hw

/-- the invariant holds after every history -/
theorem C12_run_inv {ops : List Op} (hw : ∀ o ∈ ops, o.WellFormed) : StoreInv (Api.run ops) :=
  Proofs.run_inv fieldFacts scalarFacts scalarMultFacts hw

/-- C12: every reachable `Point` is the zero value (an unused receiver) or a valid curve point -/
theorem C12 {ops : List Op}
    (hw : ∀ o ∈ ops, o.WellFormed) (n : String) (P : P3) (hP : (Api.run ops).p[n]? = some P) :
    P = Point.zeroValue ∨ P.Valid := Proofs.C12 fieldFacts scalarFacts scalarMultFacts hw n P hP

/-- C12: a reachable `Point` that passes `checkInitialized` is a valid curve point -/
theorem C12_initialized {ops : List Op} (hw : ∀ o ∈ ops, o.WellFormed) (n : String) (P : P3)
    (hP : (Api.run ops).p[n]? = some P) (hu : Point.isUninit P = false) : P.Valid :=
  Proofs.C12_initialized fieldFacts scalarFacts scalarMultFacts hw n P hP hu

/-- C09, closure: every reachable `field.Element` satisfies the representation invariant -/
theorem C09_reachable {ops : List Op}
    (hw : ∀ o ∈ ops, o.WellFormed) (n : String) (e : Fe) (he : (Api.run ops).e[n]? = some e) :
    Fe.Inv e := Proofs.C09_reachable fieldFacts scalarFacts scalarMultFacts hw n e he

/-- every reachable `Scalar` is reduced -/
theorem scalar_reachable {ops : List Op} (hw : ∀ o ∈ ops, o.WellFormed) (n : String) (s : W4)
    (hs : (Api.run ops).s[n]? = some s) : Scalar.Inv s :=
  Proofs.scalar_reachable fieldFacts scalarFacts scalarMultFacts hw n s hs

/-- a valid point is never taken for the zero value by `checkInitialized` -/
theorem C12_valid_not_isUninit {P : P3} (h : P.Valid) : Point.isUninit P = false :=
  Proofs.valid_not_isUninit h

/-- the zero value is not a valid point (`Z = 0`) -/
theorem C12_zeroValue_not_valid : ¬ Point.zeroValue.Valid := Proofs.zeroValue_not_valid

/-- no degenerate values: on valid points `Equal` returns 1 exactly when the encodings coincide -/
theorem C12_equal_iff_bytes {P Q : P3} (hP : P.Valid) (hQ : Q.Valid) :
    Point.equal P Q = 1 ↔ Point.bytes P = Point.bytes Q := Proofs.equal_iff_bytes fieldFacts hP hQ

/-- non-vacuity: the empty store satisfies the invariant, the side conditions are satisfiable, and a
history reaches a store holding a valid (non-zero-value) point -/
example : StoreInv {} := Proofs.storeInv_empty
example : (Op.eSelect "v" "a" "b" 1).WellFormed ∧ (Op.eMult32 "v" "a" 121666).WellFormed :=
  ⟨Or.inr rfl, by show 121666 < 2 ^ 32; decide⟩
example : ∃ ops : List Op, (∀ o ∈ ops, o.WellFormed) ∧
    ∃ P, (Api.run ops).p["v"]? = some P ∧ P.Valid ∧ P ≠ Point.zeroValue := by
  refine ⟨[.pNewIdentity "v"], ?_, Point.identity, ?_,
    (identity_valid fieldFacts sqrtFacts).1, ?_⟩
  · intro o ho
    rw [List.mem_singleton] at ho; subst ho; trivial
  · show (({} : Store).p.insert "v" Point.identity)["v"]? = some Point.identity
    exact Std.HashMap.getElem?_insert_self
  · intro e
    exact Proofs.zeroValue_not_valid (e ▸ (identity_valid fieldFacts sqrtFacts).1)

#print axioms C12_step_inv
#print axioms C12_run_inv
#print axioms C12
#print axioms C12_initialized
#print axioms C09_reachable
#print axioms scalar_reachable
#print axioms C12_valid_not_isUninit
#print axioms C12_zeroValue_not_valid
#print axioms C12_equal_iff_bytes
end EdVerif.Props
