import EdVerif.Gen.FormulaTies
/-!
# Property statements transported to the regenerated definitions

`EdVerif/Gen/Formulas.lean` is what the current Go source of the functions above the kernels computes
(symbolic execution of their go/ssa form); `EdVerif/Gen/FormulaTies.lean` proves each of them equal to the
hand-written model for every aliasing pattern.  The theorems below restate, on the *generated* definitions,
the facts of C13/C14/C15/C11 that are about these functions directly, so that they are theorems about
today's source, not only about the hand-written model.
-/
namespace EdVerif.Props
open EdVerif EdVerif.Impl EdVerif.Prims EdVerif.Gen EdVerif.Gen.FormulaTies

/-- C14 for `Point.SetBytes`: the regenerated function returns `none` (= `(nil, error)`) exactly when the
    model does, and then the receiver's final value is its prior value, whatever it was. -/
theorem C14_regen_Point_SetBytes (v : P3) (x : Bytes) :
    (Formulas.Point_SetBytes v x).1 = Point.setBytes x ∧
    ((Formulas.Point_SetBytes v x).1 = none → (Formulas.Point_SetBytes v x).2 = v) ∧
    (∀ p, (Formulas.Point_SetBytes v x).1 = some p → (Formulas.Point_SetBytes v x).2 = p) := by
  rw [tie_Point_SetBytes, FormulaSpec.Point_SetBytes_eq]
  generalize Point.setBytes x = r
  refine ⟨rfl, ?_, ?_⟩
  · intro h; simp only at h; simp [h]
  · intro p h; simp only at h; simp [h]

/-- C13/C14 for `Point.SetExtendedCoordinates`, in every aliasing pattern in which none of the coordinates
    shares storage with the receiver's coordinates (coordinates are `field.Element`s, the receiver a `Point`:
    they cannot alias), here for pairwise distinct coordinates -/
theorem C14_regen_Point_SetExtendedCoordinates (v : P3) (X Y Z T : Fe) :
    (Formulas.Point_SetExtendedCoordinates v X Y Z T).1 = Point.setExtendedCoordinates X Y Z T ∧
    ((Formulas.Point_SetExtendedCoordinates v X Y Z T).1 = none → (Formulas.Point_SetExtendedCoordinates v X Y Z T).2 = v) ∧
    (∀ p, (Formulas.Point_SetExtendedCoordinates v X Y Z T).1 = some p →
        (Formulas.Point_SetExtendedCoordinates v X Y Z T).2 = p ∧ p = ⟨X, Y, Z, T⟩) := by
  rw [tie_Point_SetExtendedCoordinates, FormulaSpec.Point_SetExtendedCoordinates_eq]
  generalize hr : Point.setExtendedCoordinates X Y Z T = r
  refine ⟨rfl, ?_, ?_⟩
  · intro h; simp only at h; simp [h]
  · intro p h
    simp only at h
    refine ⟨by simp [h], ?_⟩
    rw [h] at hr
    unfold Point.setExtendedCoordinates at hr
    split at hr
    · cases hr
    · exact (Option.some.inj hr).symm

/-- C11 at the formula level: `v.Add(p, q)` computes the same function of the argument values whichever of
    `v, p, q` share storage (all five aliasing patterns), and likewise `Subtract` -/
theorem C11_regen_Point_Add (a b : P3) :
    Formulas.Point_Add a a b = Point.add a b ∧ Formulas.Point_Add__al002 a a b = Point.add a b ∧
    Formulas.Point_Add__al010 b a a = Point.add a b ∧ Formulas.Point_Add__al011 b a a = Point.add a a ∧
    Formulas.Point_Add__al000 a a a = Point.add a a :=
  ⟨tie_Point_Add a a b, tie_Point_Add__al002 a a b, tie_Point_Add__al010 b a a, tie_Point_Add__al011 b a a,
   tie_Point_Add__al000 a a a⟩

/-- C15 (regenerated): the `checkInitialized` calls the translator met — which parameters each straight-line
    reader guards before computing -/
theorem C15_regen_guards :
    Formulas.guards.filter (fun g => !g.2.isEmpty) =
      [("(*Point).Add", ["p1", "p2"]), ("(*Point).Subtract", ["p1", "p2"]), ("(*Point).Negate", ["p1"]),
       ("(*Point).MultByCofactor", ["p1"]), ("(*Point).Equal", ["p0", "p1"]), ("(*Point).bytesMontgomery", ["p0"]),
       ("(*Point).bytes", ["p0"]), ("(*Point).extendedCoordinates", ["p0"]), ("(*Point).ScalarMult", ["p2"])] := by
  decide

end EdVerif.Props
