import EdVerif.Proofs.PointLayer
import EdVerif.Proofs.Closing
/-!
C06 — `Point.Equal` decides point equality exactly: for valid points in any projective
representation it returns `1` iff both represent the same affine curve point, else `0`.
-/
namespace EdVerif.Props
open EdVerif.Impl EdVerif.Proofs EdVerif.Spec

open Classical in
theorem C06 {P Q : P3} (hP : P.Valid) (hQ : Q.Valid) :
    Point.equal P Q = if P.toEd = Q.toEd then 1 else 0 := Proofs.C06 fieldFacts hP hQ

/-- non-vacuity -/
example : ∃ P : P3, P.Valid ∧ P.toEd = 0 := Proofs.exists_valid

#print axioms C06
end EdVerif.Props
