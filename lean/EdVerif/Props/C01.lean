import EdVerif.Proofs.ScalarMultTop
import EdVerif.Proofs.Closing
import EdVerif.Proofs.ScalarZ
/-!
C01 — `ScalarMult`, `ScalarBaseMult`, `VarTimeDoubleScalarBaseMult`, `MultiScalarMult` and
`VarTimeMultiScalarMult` set the receiver to `Σ [k_i] P_i`; the result never depends on the prior
receiver; zero terms give the identity.

Statements are on the executable model (`EdVerif.Impl.Point`). A scalar `s : W4` (Montgomery form)
enters the point layer only through its canonical encoding `Scalar.bytes s`; the theorems are
stated under `Scalar.bytes s = LEbytes k 32` and `k < 2^255` (the scalar layer proves that every
valid scalar satisfies this with `k = (toZ s).val < l`). Under these hypotheses `signedRadix16` /
`nonAdjacentForm` do not panic, every table lookup is in range, the result is a valid point, and
its affine value in the group `Spec.Ed25519` is exactly `Σ k_i • P_i` (`ℕ`-scalar multiplication of
the `AddCommGroup`), for *all* valid input points, including small-order ones and the identity.

**Receiver independence.** The model functions do not take the prior value of the receiver as an
argument at all: `Point.scalarMult s q`, `Point.scalarBaseMult s`,
`Point.varTimeDoubleScalarBaseMult a A b`, `Point.multiScalarMult ss ps`,
`Point.varTimeMultiScalarMult ss ps` are pure functions of the listed arguments, and every
accumulator in them starts from `identity` / `P2.zero` (as in the repaired Go code, where
`MultiScalarMult` resets `v` to the identity). That the result of the real code does not depend on
the prior receiver either is checked by the executed correspondence (the Go harness runs each
function on used, fresh and zero-value receivers and compares with the model).

**Zero terms.** `C01_multiScalarMult_empty`, `C01_varTimeMultiScalarMult_empty`: for empty
argument slices the result is a valid representation of the identity.

Hypotheses `fieldFacts : FieldFacts` (field layer) and `sqrtFacts : SqrtRatioDecodeFacts` (needed because the
package-level `identity` / `generator` are obtained by decoding) are closed by the field layer.
-/
namespace EdVerif.Props
open EdVerif.Impl EdVerif.Prims EdVerif.Proofs EdVerif.Spec
open Finset

/-- `ScalarMult`: `v = [k] q` -/
theorem C01_scalarMult {s : W4} {k : ℕ} {q : P3}
    (hk : Scalar.bytes s = LEbytes k 32) (hk255 : k < 2 ^ 255) (hq : q.Valid) :
    ∃ r, Point.scalarMult s q = .ok r ∧ r.Valid ∧ r.toEd = k • q.toEd :=
  Proofs.scalarMult_spec fieldFacts sqrtFacts hk hk255 hq

/-- `ScalarBaseMult`: `v = [k] B` -/
theorem C01_scalarBaseMult {s : W4} {k : ℕ}
    (hk : Scalar.bytes s = LEbytes k 32) (hk255 : k < 2 ^ 255) :
    ∃ r, Point.scalarBaseMult s = .ok r ∧ r.Valid ∧ r.toEd = k • basepoint :=
  Proofs.scalarBaseMult_spec fieldFacts sqrtFacts hk hk255

/-- `VarTimeDoubleScalarBaseMult`: `v = [ka] A + [kb] B` -/
theorem C01_varTimeDouble {a b : W4} {ka kb : ℕ}
    {A : P3} (ha : Scalar.bytes a = LEbytes ka 32) (ha255 : ka < 2 ^ 255)
    (hb : Scalar.bytes b = LEbytes kb 32) (hb255 : kb < 2 ^ 255) (hA : A.Valid) :
    ∃ r, Point.varTimeDoubleScalarBaseMult a A b = .ok r ∧ r.Valid ∧
      r.toEd = ka • A.toEd + kb • basepoint :=
  Proofs.varTimeDouble_spec fieldFacts sqrtFacts ha ha255 hb hb255 hA

/-- `MultiScalarMult`: `v = Σ_i [k_i] P_i` (`ks` is only read at indices `< ps.size`) -/
theorem C01_multiScalarMult (ss : Array W4) (ps : Array P3) (ks : Array ℕ) (hs : ss.size = ps.size)
    (hk : ∀ i < ps.size, Scalar.bytes ss[i]! = LEbytes ks[i]! 32 ∧ ks[i]! < 2 ^ 255)
    (hp : ∀ i < ps.size, (ps[i]!).Valid) :
    ∃ r, Point.multiScalarMult ss ps = .ok r ∧ r.Valid ∧
      r.toEd = ∑ i ∈ range ps.size, ks[i]! • (ps[i]!).toEd :=
  Proofs.multiScalarMult_spec fieldFacts sqrtFacts ss ps ks hs hk hp

/-- `VarTimeMultiScalarMult`: `v = Σ_i [k_i] P_i` -/
theorem C01_varTimeMultiScalarMult (ss : Array W4) (ps : Array P3) (ks : Array ℕ) (hs : ss.size = ps.size)
    (hk : ∀ i < ps.size, Scalar.bytes ss[i]! = LEbytes ks[i]! 32 ∧ ks[i]! < 2 ^ 255)
    (hp : ∀ i < ps.size, (ps[i]!).Valid) :
    ∃ r, Point.varTimeMultiScalarMult ss ps = .ok r ∧ r.Valid ∧
      r.toEd = ∑ i ∈ range ps.size, ks[i]! • (ps[i]!).toEd :=
  Proofs.varTimeMultiScalarMult_spec fieldFacts ss ps ks hs hk hp

/-- zero terms: `MultiScalarMult` of empty slices is the identity -/
theorem C01_multiScalarMult_empty :
    ∃ r, Point.multiScalarMult #[] #[] = .ok r ∧ r.Valid ∧ r.toEd = 0 := by
  simpa using C01_multiScalarMult #[] #[] #[] rfl (by simp) (by simp)

/-- zero terms: `VarTimeMultiScalarMult` of empty slices is the identity -/
theorem C01_varTimeMultiScalarMult_empty :
    ∃ r, Point.varTimeMultiScalarMult #[] #[] = .ok r ∧ r.Valid ∧ r.toEd = 0 := by
  simpa using C01_varTimeMultiScalarMult #[] #[] #[] rfl (by simp) (by simp)

/-! ### non-vacuity -/

/-- the Montgomery form of the scalar `1` (`2^256 mod l`) -/
def oneMont : W4 :=
  ⟨15486807595281847581, 14334777244411350896, 18446744073709551614, 1152921504606846975⟩

theorem oneMont_bytes : Scalar.bytes oneMont = LEbytes 1 32 := by decide +kernel

theorem zero_bytes : Scalar.bytes Scalar.rz = LEbytes 0 32 := by decide +kernel

/-- the hypotheses are satisfiable: scalar `1`, point `generator` (valid by `generator_rep`) -/
example :
    ∃ r, Point.scalarMult oneMont Point.generator = .ok r ∧ r.Valid ∧ r.toEd = basepoint := by
  have h := C01_scalarMult oneMont_bytes (by norm_num) (generator_rep fieldFacts sqrtFacts).valid
  rw [(generator_rep fieldFacts sqrtFacts).toEd_eq, one_smul] at h
  exact h

example :
    ∃ r, Point.scalarBaseMult oneMont = .ok r ∧ r.Valid ∧ r.toEd = basepoint := by
  simpa using C01_scalarBaseMult oneMont_bytes (by norm_num)

example :
    ∃ r, Point.varTimeDoubleScalarBaseMult oneMont Point.generator Scalar.rz = .ok r ∧ r.Valid ∧
      r.toEd = basepoint := by
  have h := C01_varTimeDouble oneMont_bytes (by norm_num) zero_bytes (by norm_num)
    (generator_rep fieldFacts sqrtFacts).valid
  rw [(generator_rep fieldFacts sqrtFacts).toEd_eq, one_smul, zero_smul, add_zero] at h
  exact h

/-- two terms: `[1] B + [1] B = 2 B` -/
example :
    ∃ r, Point.multiScalarMult #[oneMont, oneMont] #[Point.generator, Point.generator] = .ok r ∧
      r.Valid ∧ r.toEd = basepoint + basepoint := by
  have hv := (generator_rep fieldFacts sqrtFacts).valid
  have he := (generator_rep fieldFacts sqrtFacts).toEd_eq
  have hget : ∀ {α : Type} [Inhabited α] (x : α) (i : ℕ), i < 2 → (#[x, x] : Array α)[i]! = x := by
    intro α _ x i hi
    interval_cases i <;> rfl
  have e : (#[Point.generator, Point.generator] : Array P3).size = 2 := rfl
  have hs : (#[oneMont, oneMont] : Array W4).size
      = (#[Point.generator, Point.generator] : Array P3).size := by rw [e]; rfl
  have hk : ∀ i < (#[Point.generator, Point.generator] : Array P3).size,
      Scalar.bytes (#[oneMont, oneMont] : Array W4)[i]! = LEbytes (#[1, 1] : Array ℕ)[i]! 32 ∧
        (#[1, 1] : Array ℕ)[i]! < 2 ^ 255 := by
    intro i hi
    rw [e] at hi
    rw [hget _ i hi, hget _ i hi]
    exact ⟨oneMont_bytes, by norm_num⟩
  have hp : ∀ i < (#[Point.generator, Point.generator] : Array P3).size,
      ((#[Point.generator, Point.generator] : Array P3)[i]!).Valid := by
    intro i hi
    rw [e] at hi
    rw [hget _ i hi]
    exact hv
  have h := C01_multiScalarMult _ _ _ hs hk hp
  rw [e, sum_range_succ, sum_range_one] at h
  simpa [he] using h

#print axioms C01_scalarMult
#print axioms C01_scalarBaseMult
#print axioms C01_varTimeDouble
#print axioms C01_multiScalarMult
#print axioms C01_varTimeMultiScalarMult
#print axioms C01_multiScalarMult_empty
#print axioms C01_varTimeMultiScalarMult_empty

/-! ### Closed forms: every valid scalar (`Scalar.Inv`, i.e. any scalar the API can produce — C07/C08/C12) -/

theorem scalar_bytes_k {s : W4} (hs : Scalar.Inv s) :
    Scalar.bytes s = LEbytes (Proofs.Scalar.toZ s).val 32 ∧ (Proofs.Scalar.toZ s).val < 2 ^ 255 := by
  refine ⟨Proofs.C08_bytes s hs, ?_⟩
  have h : (Proofs.Scalar.toZ s).val < EdVerif.L := ZMod.val_lt _
  have hL : EdVerif.L < 2 ^ 255 := by unfold EdVerif.L; norm_num
  omega

/-- `ScalarMult`: the receiver becomes `[k]Q` with `k ∈ [0, l)` the integer the scalar encodes -/
theorem C01_scalarMult_valid {s : W4} {q : P3} (hs : Scalar.Inv s) (hq : q.Valid) :
    ∃ r, Point.scalarMult s q = .ok r ∧ r.Valid ∧ r.toEd = (Proofs.Scalar.toZ s).val • q.toEd :=
  C01_scalarMult (scalar_bytes_k hs).1 (scalar_bytes_k hs).2 hq

theorem C01_scalarBaseMult_valid {s : W4} (hs : Scalar.Inv s) :
    ∃ r, Point.scalarBaseMult s = .ok r ∧ r.Valid ∧ r.toEd = (Proofs.Scalar.toZ s).val • basepoint :=
  C01_scalarBaseMult (scalar_bytes_k hs).1 (scalar_bytes_k hs).2

theorem C01_varTimeDouble_valid {a b : W4} {A : P3} (ha : Scalar.Inv a) (hb : Scalar.Inv b) (hA : A.Valid) :
    ∃ r, Point.varTimeDoubleScalarBaseMult a A b = .ok r ∧ r.Valid ∧
      r.toEd = (Proofs.Scalar.toZ a).val • A.toEd + (Proofs.Scalar.toZ b).val • basepoint :=
  C01_varTimeDouble (scalar_bytes_k ha).1 (scalar_bytes_k ha).2 (scalar_bytes_k hb).1 (scalar_bytes_k hb).2 hA

theorem C01_multiScalarMult_valid (ss : Array W4) (ps : Array P3) (hsz : ss.size = ps.size)
    (hs : ∀ i < ps.size, Scalar.Inv ss[i]!) (hp : ∀ i < ps.size, (ps[i]!).Valid) :
    ∃ r, Point.multiScalarMult ss ps = .ok r ∧ r.Valid ∧
      r.toEd = ∑ i ∈ Finset.range ps.size, ((ss.map fun s => (Proofs.Scalar.toZ s).val)[i]!) • (ps[i]!).toEd := by
  refine C01_multiScalarMult ss ps (ss.map fun s => (Proofs.Scalar.toZ s).val) hsz (fun i hi => ?_) hp
  have hi' : i < ss.size := hsz ▸ hi
  have e : (ss.map fun s => (Proofs.Scalar.toZ s).val)[i]! = (Proofs.Scalar.toZ ss[i]!).val := by
    simp [hi']
  rw [e]
  exact scalar_bytes_k (hs i hi)

theorem C01_varTimeMultiScalarMult_valid (ss : Array W4) (ps : Array P3) (hsz : ss.size = ps.size)
    (hs : ∀ i < ps.size, Scalar.Inv ss[i]!) (hp : ∀ i < ps.size, (ps[i]!).Valid) :
    ∃ r, Point.varTimeMultiScalarMult ss ps = .ok r ∧ r.Valid ∧
      r.toEd = ∑ i ∈ Finset.range ps.size, ((ss.map fun s => (Proofs.Scalar.toZ s).val)[i]!) • (ps[i]!).toEd := by
  refine C01_varTimeMultiScalarMult ss ps (ss.map fun s => (Proofs.Scalar.toZ s).val) hsz (fun i hi => ?_) hp
  have hi' : i < ss.size := hsz ▸ hi
  have e : (ss.map fun s => (Proofs.Scalar.toZ s).val)[i]! = (Proofs.Scalar.toZ ss[i]!).val := by
    simp [hi']
  rw [e]
  exact scalar_bytes_k (hs i hi)

end EdVerif.Props
