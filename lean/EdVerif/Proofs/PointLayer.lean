import EdVerif.Proofs.PointDefs
/-!
Point layer, algebraic part: every point-level operation of the executable model refines the
corresponding operation of the affine Edwards group, given the field-level facts `FieldFacts`.

* constants `d`, `d2`;
* building blocks ("Rep in ⇒ Rep out", limb invariants threaded) for all conversions, the five
  `projP1xP1` formulas, selection and conditional negation;
* C02 (`Add`, `Subtract`, `Negate`, `MultByCofactor`), C06 (`Equal`), C13 (`SetExtendedCoordinates`),
  C17 (`BytesMontgomery`, up to the byte-level encoding).
-/
namespace EdVerif.Proofs
open EdVerif.Impl EdVerif.Prims EdVerif.Spec

/-! ### transport of the `Spec` relations along equalities of coordinates -/

theorem _root_.EdVerif.Spec.ExtRep.congr {X Y Z T X' Y' Z' T' : F} {p : Ed25519} (h : ExtRep X Y Z T p)
    (eX : X' = X) (eY : Y' = Y) (eZ : Z' = Z) (eT : T' = T) : ExtRep X' Y' Z' T' p := by
  subst eX eY eZ eT; exact h

theorem _root_.EdVerif.Spec.P2Rep.congr {X Y Z X' Y' Z' : F} {p : Ed25519} (h : P2Rep X Y Z p)
    (eX : X' = X) (eY : Y' = Y) (eZ : Z' = Z) : P2Rep X' Y' Z' p := by
  subst eX eY eZ; exact h

theorem _root_.EdVerif.Spec.CachedRep.congr {A B Z T A' B' Z' T' : F} {p : Ed25519} (h : CachedRep A B Z T p)
    (eA : A' = A) (eB : B' = B) (eZ : Z' = Z) (eT : T' = T) : CachedRep A' B' Z' T' p := by
  subst eA eB eZ eT; exact h

theorem _root_.EdVerif.Spec.AffCachedRep.congr {A B T A' B' T' : F} {p : Ed25519} (h : AffCachedRep A B T p)
    (eA : A' = A) (eB : B' = B) (eT : T' = T) : AffCachedRep A' B' T' p := by
  subst eA eB eT; exact h

/-! ### a concrete valid point (non-vacuity of `P3.Valid`, independent of `FieldFacts`) -/

/-- the raw identity `(0 : 1 : 1 : 0)` with canonical limbs -/
def rawIdentity : P3 := ⟨⟨0, 0, 0, 0, 0⟩, ⟨1, 0, 0, 0, 0⟩, ⟨1, 0, 0, 0, 0⟩, ⟨0, 0, 0, 0, 0⟩⟩

theorem toZ_limbs_zero : toZ ⟨0, 0, 0, 0, 0⟩ = 0 := by simp [toZ, Fe.val]
theorem toZ_limbs_one : toZ ⟨1, 0, 0, 0, 0⟩ = 1 := by simp [toZ, Fe.val]

theorem rawIdentity_rep : rawIdentity.Rep 0 :=
  ⟨by decide, by decide, by decide, by decide,
    extRep_zero.congr toZ_limbs_zero toZ_limbs_one toZ_limbs_one toZ_limbs_zero⟩

theorem exists_valid : ∃ P : P3, P.Valid ∧ P.toEd = 0 := ⟨rawIdentity, P3.rep_iff.mp rawIdentity_rep⟩

/-! ### constants -/

theorem dBytes_size : Point.dBytes.size = 32 := rfl

theorem dBytes_isBytes : IsBytes Point.dBytes := by
  unfold IsBytes; decide

theorem dBytes_LE : LE Point.dBytes % 2 ^ 255 = EdVerif.D := by decide +kernel

section
variable (ff : FieldFacts)
include ff

/-- `var d` is the curve constant -/
theorem d_good : Good Point.d Spec.d := by
  obtain ⟨e, he, hinv, hval⟩ := ff.setBytes Point.dBytes dBytes_size dBytes_isBytes
  have hd : Point.d = e := by unfold Point.d; rw [he]; rfl
  rw [hd]
  exact ⟨hinv, by rw [hval, dBytes_LE]; rfl⟩

theorem d_inv : Fe.Inv Point.d := (d_good ff).inv
theorem toZ_d : toZ Point.d = Spec.d := (d_good ff).val

/-- `var d2 = 2 d` -/
theorem d2_good : Good Point.d2 (2 * Spec.d) :=
  (Good.add ff (d_good ff) (d_good ff)).congr (by ring)

theorem d2_inv : Fe.Inv Point.d2 := (d2_good ff).inv
theorem toZ_d2 : toZ Point.d2 = 2 * Spec.d := (d2_good ff).val

/-! ### zero elements of the auxiliary representations -/

theorem P2_zero_rep : Point.P2.zero.Rep 0 :=
  ⟨ff.zero.1, ff.one.1, ff.one.1,
    p2Rep_zero.congr ff.zero.2 ff.one.2 ff.one.2⟩

theorem Cached_zero_rep : Point.Cached.zero.Rep 0 :=
  ⟨ff.one.1, ff.one.1, ff.one.1, ff.zero.1,
    cachedRep_zero.congr ff.one.2 ff.one.2 ff.one.2 ff.zero.2⟩

theorem AffineCached_zero_rep : Point.AffineCached.zero.Rep 0 :=
  ⟨ff.one.1, ff.one.1, ff.zero.1,
    affCachedRep_zero.congr ff.one.2 ff.one.2 ff.zero.2⟩

/-! ### conversions -/

/-- `projP2.FromP1xP1` -/
theorem P2_fromP1xP1_rep {p : P1xP1} {q : Ed25519} (h : p.Rep q) :
    (Point.P2.fromP1xP1 p).Rep q := by
  have gX := Good.of_inv h.ix
  have gY := Good.of_inv h.iy
  have gZ := Good.of_inv h.iz
  have gT := Good.of_inv h.it
  have X3 := Good.mul ff gX gT
  have Y3 := Good.mul ff gY gZ
  have Z3 := Good.mul ff gZ gT
  exact ⟨X3.inv, Y3.inv, Z3.inv, h.rep.toP2.congr X3.val Y3.val Z3.val⟩

omit ff in
/-- `projP2.FromP3` -/
theorem P2_fromP3_rep {p : P3} {q : Ed25519} (h : p.Rep q) : (Point.P2.fromP3 p).Rep q :=
  ⟨h.ix, h.iy, h.iz, h.rep.toP2⟩

/-- `Point.fromP1xP1` -/
theorem fromP1xP1_rep {p : P1xP1} {q : Ed25519} (h : p.Rep q) : (Point.fromP1xP1 p).Rep q := by
  have gX := Good.of_inv h.ix
  have gY := Good.of_inv h.iy
  have gZ := Good.of_inv h.iz
  have gT := Good.of_inv h.it
  have X3 := Good.mul ff gX gT
  have Y3 := Good.mul ff gY gZ
  have Z3 := Good.mul ff gZ gT
  have T3 := Good.mul ff gX gY
  exact ⟨X3.inv, Y3.inv, Z3.inv, T3.inv, h.rep.toExt.congr X3.val Y3.val Z3.val T3.val⟩

/-- `Point.fromP2` -/
theorem fromP2_rep {p : P2} {q : Ed25519} (h : p.Rep q) : (Point.fromP2 p).Rep q := by
  have gX := Good.of_inv h.ix
  have gY := Good.of_inv h.iy
  have gZ := Good.of_inv h.iz
  have X3 := Good.mul ff gX gZ
  have Y3 := Good.mul ff gY gZ
  have Z3 := Good.square ff gZ
  have T3 := Good.mul ff gX gY
  exact ⟨X3.inv, Y3.inv, Z3.inv, T3.inv, h.rep.toExt.congr X3.val Y3.val Z3.val T3.val⟩

/-- `projCached.FromP3` -/
theorem Cached_fromP3_rep {p : P3} {q : Ed25519} (h : p.Rep q) : (Point.Cached.fromP3 p).Rep q := by
  have gx := Good.of_inv h.ix
  have gy := Good.of_inv h.iy
  have gt := Good.of_inv h.it
  have A := Good.add ff gy gx
  have B := Good.sub ff gy gx
  have T := Good.mul ff gt (d2_good ff)
  exact ⟨A.inv, B.inv, h.iz, T.inv,
    h.rep.toCached.congr A.val B.val rfl (T.val.trans (by ring))⟩

/-- `affineCached.FromP3` -/
theorem AffineCached_fromP3_rep {p : P3} {q : Ed25519} (h : p.Rep q) :
    (Point.AffineCached.fromP3 p).Rep q := by
  have gx := Good.of_inv h.ix
  have gy := Good.of_inv h.iy
  have gz := Good.of_inv h.iz
  have gt := Good.of_inv h.it
  have A := Good.add ff gy gx
  have B := Good.sub ff gy gx
  have T := Good.mul ff gt (d2_good ff)
  have I := Good.invert ff gz
  have A' := Good.mul ff A I
  have B' := Good.mul ff B I
  have T' := Good.mul ff T I
  exact ⟨A'.inv, B'.inv, T'.inv,
    h.rep.toAffCached.congr A'.val B'.val (T'.val.trans (by ring))⟩

/-! ### the `projP1xP1` formulas -/

/-- `projP1xP1.Add` -/
theorem P1xP1_add_rep {p : P3} {c : Cached} {P Q : Ed25519} (hp : p.Rep P) (hc : c.Rep Q) :
    (Point.P1xP1.add p c).Rep (P + Q) := by
  have gx := Good.of_inv hp.ix
  have gy := Good.of_inv hp.iy
  have gz := Good.of_inv hp.iz
  have gt := Good.of_inv hp.it
  have cp := Good.of_inv hc.ip
  have cm := Good.of_inv hc.im
  have cz := Good.of_inv hc.iz
  have ct := Good.of_inv hc.it
  have YpX := Good.add ff gy gx
  have YmX := Good.sub ff gy gx
  have PP := Good.mul ff YpX cp
  have MM := Good.mul ff YmX cm
  have TT := Good.mul ff gt ct
  have ZZ := Good.mul ff gz cz
  have ZZ2 := Good.add ff ZZ ZZ
  have X3 := Good.sub ff PP MM
  have Y3 := Good.add ff PP MM
  have Z3 := Good.add ff ZZ2 TT
  have T3 := Good.sub ff ZZ2 TT
  exact ⟨X3.inv, Y3.inv, Z3.inv, T3.inv,
    hp.rep.add_cached hc.rep X3.val Y3.val (Z3.val.trans (by ring)) (T3.val.trans (by ring))⟩

/-- `projP1xP1.Sub` -/
theorem P1xP1_sub_rep {p : P3} {c : Cached} {P Q : Ed25519} (hp : p.Rep P) (hc : c.Rep Q) :
    (Point.P1xP1.sub p c).Rep (P - Q) := by
  have gx := Good.of_inv hp.ix
  have gy := Good.of_inv hp.iy
  have gz := Good.of_inv hp.iz
  have gt := Good.of_inv hp.it
  have cp := Good.of_inv hc.ip
  have cm := Good.of_inv hc.im
  have cz := Good.of_inv hc.iz
  have ct := Good.of_inv hc.it
  have YpX := Good.add ff gy gx
  have YmX := Good.sub ff gy gx
  have PP := Good.mul ff YpX cm
  have MM := Good.mul ff YmX cp
  have TT := Good.mul ff gt ct
  have ZZ := Good.mul ff gz cz
  have ZZ2 := Good.add ff ZZ ZZ
  have X3 := Good.sub ff PP MM
  have Y3 := Good.add ff PP MM
  have Z3 := Good.sub ff ZZ2 TT
  have T3 := Good.add ff ZZ2 TT
  exact ⟨X3.inv, Y3.inv, Z3.inv, T3.inv,
    hp.rep.sub_cached hc.rep X3.val Y3.val (Z3.val.trans (by ring)) (T3.val.trans (by ring))⟩

/-- `projP1xP1.AddAffine` -/
theorem P1xP1_addAffine_rep {p : P3} {c : AffineCached} {P Q : Ed25519} (hp : p.Rep P)
    (hc : c.Rep Q) : (Point.P1xP1.addAffine p c).Rep (P + Q) := by
  have gx := Good.of_inv hp.ix
  have gy := Good.of_inv hp.iy
  have gz := Good.of_inv hp.iz
  have gt := Good.of_inv hp.it
  have cp := Good.of_inv hc.ip
  have cm := Good.of_inv hc.im
  have ct := Good.of_inv hc.it
  have YpX := Good.add ff gy gx
  have YmX := Good.sub ff gy gx
  have PP := Good.mul ff YpX cp
  have MM := Good.mul ff YmX cm
  have TT := Good.mul ff gt ct
  have Z2 := Good.add ff gz gz
  have X3 := Good.sub ff PP MM
  have Y3 := Good.add ff PP MM
  have Z3 := Good.add ff Z2 TT
  have T3 := Good.sub ff Z2 TT
  exact ⟨X3.inv, Y3.inv, Z3.inv, T3.inv,
    hp.rep.add_affCached hc.rep X3.val Y3.val (Z3.val.trans (by ring)) (T3.val.trans (by ring))⟩

/-- `projP1xP1.SubAffine` -/
theorem P1xP1_subAffine_rep {p : P3} {c : AffineCached} {P Q : Ed25519} (hp : p.Rep P)
    (hc : c.Rep Q) : (Point.P1xP1.subAffine p c).Rep (P - Q) := by
  have gx := Good.of_inv hp.ix
  have gy := Good.of_inv hp.iy
  have gz := Good.of_inv hp.iz
  have gt := Good.of_inv hp.it
  have cp := Good.of_inv hc.ip
  have cm := Good.of_inv hc.im
  have ct := Good.of_inv hc.it
  have YpX := Good.add ff gy gx
  have YmX := Good.sub ff gy gx
  have PP := Good.mul ff YpX cm
  have MM := Good.mul ff YmX cp
  have TT := Good.mul ff gt ct
  have Z2 := Good.add ff gz gz
  have X3 := Good.sub ff PP MM
  have Y3 := Good.add ff PP MM
  have Z3 := Good.sub ff Z2 TT
  have T3 := Good.add ff Z2 TT
  exact ⟨X3.inv, Y3.inv, Z3.inv, T3.inv,
    hp.rep.sub_affCached hc.rep X3.val Y3.val (Z3.val.trans (by ring)) (T3.val.trans (by ring))⟩

/-- `projP1xP1.Double` -/
theorem P1xP1_double_rep {p : P2} {P : Ed25519} (hp : p.Rep P) :
    (Point.P1xP1.double p).Rep (2 • P) := by
  have gX := Good.of_inv hp.ix
  have gY := Good.of_inv hp.iy
  have gZ := Good.of_inv hp.iz
  have XX := Good.square ff gX
  have YY := Good.square ff gY
  have ZZ := Good.square ff gZ
  have ZZ2 := Good.add ff ZZ ZZ
  have XpY := Good.add ff gX gY
  have XpYsq := Good.square ff XpY
  have vY := Good.add ff YY XX
  have vZ := Good.sub ff YY XX
  have X3 := Good.sub ff XpYsq vY
  have T3 := Good.sub ff ZZ2 vZ
  exact ⟨X3.inv, vY.inv, vZ.inv, T3.inv,
    hp.rep.double vY.val vZ.val (by show toZ (Fe.sub _ _) = _ - toZ (Fe.add (Fe.square p.Y) (Fe.square p.X)); rw [X3.val, vY.val])
      (by show toZ (Fe.sub _ _) = _ - toZ (Fe.sub (Fe.square p.Y) (Fe.square p.X))
          rw [T3.val, vZ.val]; ring)⟩

/-! ### selection and conditional negation -/

theorem Cached_select_one {a b : Cached} {A B : Ed25519} (ha : a.Rep A) (hb : b.Rep B) :
    Point.Cached.select a b 1 = a := by
  unfold Point.Cached.select
  rw [(ff.select _ _ ha.ip hb.ip).1, (ff.select _ _ ha.im hb.im).1, (ff.select _ _ ha.iz hb.iz).1,
    (ff.select _ _ ha.it hb.it).1]

theorem Cached_select_zero {a b : Cached} {A B : Ed25519} (ha : a.Rep A) (hb : b.Rep B) :
    Point.Cached.select a b 0 = b := by
  unfold Point.Cached.select
  rw [(ff.select _ _ ha.ip hb.ip).2, (ff.select _ _ ha.im hb.im).2, (ff.select _ _ ha.iz hb.iz).2,
    (ff.select _ _ ha.it hb.it).2]

/-- `projCached.Select` for `cond ∈ {0, 1}` -/
theorem Cached_select_rep {a b : Cached} {A B : Ed25519} (ha : a.Rep A) (hb : b.Rep B)
    {cond : Nat} (hc : cond = 0 ∨ cond = 1) :
    (Point.Cached.select a b cond).Rep (if cond = 1 then A else B) := by
  rcases hc with rfl | rfl
  · rw [Cached_select_zero ff ha hb]; simpa using hb
  · rw [Cached_select_one ff ha hb]; simpa using ha

theorem AffineCached_select_one {a b : AffineCached} {A B : Ed25519} (ha : a.Rep A) (hb : b.Rep B) :
    Point.AffineCached.select a b 1 = a := by
  unfold Point.AffineCached.select
  rw [(ff.select _ _ ha.ip hb.ip).1, (ff.select _ _ ha.im hb.im).1, (ff.select _ _ ha.it hb.it).1]

theorem AffineCached_select_zero {a b : AffineCached} {A B : Ed25519} (ha : a.Rep A)
    (hb : b.Rep B) : Point.AffineCached.select a b 0 = b := by
  unfold Point.AffineCached.select
  rw [(ff.select _ _ ha.ip hb.ip).2, (ff.select _ _ ha.im hb.im).2, (ff.select _ _ ha.it hb.it).2]

/-- `affineCached.Select` for `cond ∈ {0, 1}` -/
theorem AffineCached_select_rep {a b : AffineCached} {A B : Ed25519} (ha : a.Rep A) (hb : b.Rep B)
    {cond : Nat} (hc : cond = 0 ∨ cond = 1) :
    (Point.AffineCached.select a b cond).Rep (if cond = 1 then A else B) := by
  rcases hc with rfl | rfl
  · rw [AffineCached_select_zero ff ha hb]; simpa using hb
  · rw [AffineCached_select_one ff ha hb]; simpa using ha

theorem Cached_condNeg_zero {c : Cached} {Q : Ed25519} (hc : c.Rep Q) :
    Point.Cached.condNeg c 0 = c := by
  have hn := (ff.neg _ hc.it).1
  unfold Point.Cached.condNeg
  rw [(ff.swap _ _ hc.ip hc.im).2, (ff.select _ _ hn hc.it).2]

theorem Cached_condNeg_one {c : Cached} {Q : Ed25519} (hc : c.Rep Q) :
    (Point.Cached.condNeg c 1).Rep (-Q) := by
  have gn := Good.neg ff (Good.of_inv hc.it)
  have e : Point.Cached.condNeg c 1 = ⟨c.YminusX, c.YplusX, c.Z, Fe.neg c.T2d⟩ := by
    unfold Point.Cached.condNeg
    rw [(ff.swap _ _ hc.ip hc.im).1, (ff.select _ _ gn.inv hc.it).1]
  rw [e]
  exact ⟨hc.im, hc.ip, hc.iz, gn.inv, hc.rep.neg.congr rfl rfl rfl gn.val⟩

/-- `projCached.CondNeg` for `cond ∈ {0, 1}` -/
theorem Cached_condNeg_rep {c : Cached} {Q : Ed25519} (hc : c.Rep Q) {cond : Nat}
    (h : cond = 0 ∨ cond = 1) : (Point.Cached.condNeg c cond).Rep (if cond = 1 then -Q else Q) := by
  rcases h with rfl | rfl
  · rw [Cached_condNeg_zero ff hc]; simpa using hc
  · simpa using Cached_condNeg_one ff hc

theorem AffineCached_condNeg_zero {c : AffineCached} {Q : Ed25519} (hc : c.Rep Q) :
    Point.AffineCached.condNeg c 0 = c := by
  have hn := (ff.neg _ hc.it).1
  unfold Point.AffineCached.condNeg
  rw [(ff.swap _ _ hc.ip hc.im).2, (ff.select _ _ hn hc.it).2]

theorem AffineCached_condNeg_one {c : AffineCached} {Q : Ed25519} (hc : c.Rep Q) :
    (Point.AffineCached.condNeg c 1).Rep (-Q) := by
  have gn := Good.neg ff (Good.of_inv hc.it)
  have e : Point.AffineCached.condNeg c 1 = ⟨c.YminusX, c.YplusX, Fe.neg c.T2d⟩ := by
    unfold Point.AffineCached.condNeg
    rw [(ff.swap _ _ hc.ip hc.im).1, (ff.select _ _ gn.inv hc.it).1]
  rw [e]
  exact ⟨hc.im, hc.ip, gn.inv, hc.rep.neg.congr rfl rfl gn.val⟩

/-- `affineCached.CondNeg` for `cond ∈ {0, 1}` -/
theorem AffineCached_condNeg_rep {c : AffineCached} {Q : Ed25519} (hc : c.Rep Q) {cond : Nat}
    (h : cond = 0 ∨ cond = 1) :
    (Point.AffineCached.condNeg c cond).Rep (if cond = 1 then -Q else Q) := by
  rcases h with rfl | rfl
  · rw [AffineCached_condNeg_zero ff hc]; simpa using hc
  · simpa using AffineCached_condNeg_one ff hc

/-! ### C02 : `Add`, `Subtract`, `Negate`, `MultByCofactor` -/

theorem add_rep {p q : P3} {P Q : Ed25519} (hp : p.Rep P) (hq : q.Rep Q) :
    (Point.add p q).Rep (P + Q) :=
  fromP1xP1_rep ff (P1xP1_add_rep ff hp (Cached_fromP3_rep ff hq))

theorem sub_rep {p q : P3} {P Q : Ed25519} (hp : p.Rep P) (hq : q.Rep Q) :
    (Point.sub p q).Rep (P - Q) :=
  fromP1xP1_rep ff (P1xP1_sub_rep ff hp (Cached_fromP3_rep ff hq))

theorem neg_rep {p : P3} {P : Ed25519} (hp : p.Rep P) : (Point.neg p).Rep (-P) := by
  have nx := Good.neg ff (Good.of_inv hp.ix)
  have nt := Good.neg ff (Good.of_inv hp.it)
  exact ⟨nx.inv, hp.iy, hp.iz, nt.inv, hp.rep.neg.congr nx.val rfl rfl nt.val⟩

/-- doubling through `projP2` / `projP1xP1` -/
theorem double_rep {p : P1xP1} {P : Ed25519} (hp : p.Rep P) :
    (Point.P1xP1.double (Point.P2.fromP1xP1 p)).Rep (2 • P) :=
  P1xP1_double_rep ff (P2_fromP1xP1_rep ff hp)

theorem multByCofactor_rep {p : P3} {P : Ed25519} (hp : p.Rep P) :
    (Point.multByCofactor p).Rep (8 • P) := by
  have h1 := P1xP1_double_rep ff (P2_fromP3_rep hp)
  have h2 := double_rep ff h1
  have h3 := double_rep ff h2
  have h4 := fromP1xP1_rep ff h3
  have e : (2 : ℕ) • (2 : ℕ) • (2 : ℕ) • P = 8 • P := by
    rw [smul_smul, smul_smul]; norm_num
  rw [← e]; exact h4

/-- four doublings of a completed point (`mul16` of the scalar multiplications) -/
theorem mul16_rep {p : P1xP1} {P : Ed25519} (hp : p.Rep P) : (Point.mul16 p).Rep (16 • P) := by
  have h1 := double_rep ff hp
  have h2 := double_rep ff h1
  have h3 := double_rep ff h2
  have h4 := double_rep ff h3
  have e : (2 : ℕ) • (2 : ℕ) • (2 : ℕ) • (2 : ℕ) • P = 16 • P := by
    rw [smul_smul, smul_smul, smul_smul]; norm_num
  rw [← e]; exact h4

theorem C02_add {P Q : P3} (hP : P.Valid) (hQ : Q.Valid) :
    (Point.add P Q).Valid ∧ (Point.add P Q).toEd = P.toEd + Q.toEd :=
  P3.rep_iff.mp (add_rep ff hP.rep hQ.rep)

theorem C02_sub {P Q : P3} (hP : P.Valid) (hQ : Q.Valid) :
    (Point.sub P Q).Valid ∧ (Point.sub P Q).toEd = P.toEd - Q.toEd :=
  P3.rep_iff.mp (sub_rep ff hP.rep hQ.rep)

theorem C02_neg {P : P3} (hP : P.Valid) : (Point.neg P).Valid ∧ (Point.neg P).toEd = -P.toEd :=
  P3.rep_iff.mp (neg_rep ff hP.rep)

theorem C02_cofactor {P : P3} (hP : P.Valid) :
    (Point.multByCofactor P).Valid ∧ (Point.multByCofactor P).toEd = 8 • P.toEd :=
  P3.rep_iff.mp (multByCofactor_rep ff hP.rep)

/-! ### C06 : `Equal` -/

open Classical in
theorem C06 {P Q : P3} (hP : P.Valid) (hQ : Q.Valid) :
    Point.equal P Q = if P.toEd = Q.toEd then 1 else 0 := by
  obtain ⟨px, py, pz, pt, pv⟩ := hP
  obtain ⟨qx, qy, qz, qt, qv⟩ := hQ
  have t1 := Good.mul ff (Good.of_inv px) (Good.of_inv qz)
  have t2 := Good.mul ff (Good.of_inv qx) (Good.of_inv pz)
  have t3 := Good.mul ff (Good.of_inv py) (Good.of_inv qz)
  have t4 := Good.mul ff (Good.of_inv qy) (Good.of_inv pz)
  have e1 := Good.equal ff t1 t2
  have e2 := Good.equal ff t3 t4
  have key := toEd_eq_iff pv qv
  unfold Point.equal
  simp only []
  rw [e1, e2]
  unfold P3.toEd
  by_cases hx : toZ P.x * toZ Q.z = toZ Q.x * toZ P.z
  · by_cases hy : toZ P.y * toZ Q.z = toZ Q.y * toZ P.z
    · rw [if_pos hx, if_pos hy, if_pos (key.mp ⟨hx, hy⟩)]; rfl
    · rw [if_pos hx, if_neg hy, if_neg (fun h => hy (key.mpr h).2)]; rfl
  · by_cases hy : toZ P.y * toZ Q.z = toZ Q.y * toZ P.z
    · rw [if_neg hx, if_pos hy, if_neg (fun h => hx (key.mpr h).1)]; rfl
    · rw [if_neg hx, if_neg hy, if_neg (fun h => hx (key.mpr h).1)]; rfl

/-- `Equal` returns `0` or `1` -/
theorem equal_bit {P Q : P3} (hP : P.Valid) (hQ : Q.Valid) :
    Point.equal P Q = 0 ∨ Point.equal P Q = 1 := by
  rw [C06 ff hP hQ]; split <;> simp

/-! ### C13 : `SetExtendedCoordinates` / `ExtendedCoordinates` -/

theorem isOnCurve_iff {X Y Z T : Fe} (hX : Fe.Inv X) (hY : Fe.Inv Y) (hZ : Fe.Inv Z)
    (hT : Fe.Inv T) :
    Point.isOnCurve X Y Z T = true ↔ Spec.ExtValid (toZ X) (toZ Y) (toZ Z) (toZ T) := by
  have gX := Good.of_inv hX
  have gY := Good.of_inv hY
  have gZ := Good.of_inv hZ
  have gT := Good.of_inv hT
  have XX := Good.square ff gX
  have YY := Good.square ff gY
  have ZZ := Good.square ff gZ
  have TT := Good.square ff gT
  have lhs := Good.sub ff YY XX
  have rhs := Good.add ff (Good.mul ff (d_good ff) TT) ZZ
  have lhs2 := Good.mul ff gX gY
  have rhs2 := Good.mul ff gT gZ
  have e1 := Good.equal ff gZ (Good.rz ff)
  have e2 := Good.equal ff lhs rhs
  have e3 := Good.equal ff lhs2 rhs2
  unfold Point.isOnCurve
  simp only []
  rw [e1, e2, e3]
  by_cases hz : toZ Z = 0
  · simp only [hz, if_true]
    constructor
    · intro h; simp at h
    · intro h; exact absurd rfl h.z_ne
  · by_cases hc : toZ Y ^ 2 - toZ X ^ 2 = Spec.d * toZ T ^ 2 + toZ Z ^ 2
    · by_cases hs : toZ X * toZ Y = toZ T * toZ Z
      · simp only [if_neg hz, if_pos hc, if_pos hs]
        constructor
        · intro _
          exact ⟨hz, by linear_combination hc, by linear_combination hs⟩
        · intro _; simp
      · simp only [if_neg hz, if_pos hc, if_neg hs]
        constructor
        · intro h; simp at h
        · intro h; exact absurd (by linear_combination h.segre) hs
    · simp only [if_neg hz, if_neg hc]
      constructor
      · intro h; simp at h
      · intro h; exact absurd (by linear_combination h.curve) hc

theorem C13 {X Y Z T : Fe} (hX : Fe.Inv X) (hY : Fe.Inv Y) (hZ : Fe.Inv Z) (hT : Fe.Inv T) :
    (∃ P, Point.setExtendedCoordinates X Y Z T = some P) ↔
      Spec.ExtValid (toZ X) (toZ Y) (toZ Z) (toZ T) := by
  rw [← isOnCurve_iff ff hX hY hZ hT]
  unfold Point.setExtendedCoordinates
  cases Point.isOnCurve X Y Z T <;> simp

omit ff in
theorem C13_value {X Y Z T : Fe} {P : P3} (h : Point.setExtendedCoordinates X Y Z T = some P) :
    P = ⟨X, Y, Z, T⟩ := by
  unfold Point.setExtendedCoordinates at h
  cases hc : Point.isOnCurve X Y Z T <;> rw [hc] at h <;> simp at h
  exact h.symm

/-- an accepted quadruple gives a valid point, namely `(X/Z, Y/Z)` -/
theorem C13_valid {X Y Z T : Fe} (hX : Fe.Inv X) (hY : Fe.Inv Y) (hZ : Fe.Inv Z) (hT : Fe.Inv T)
    {P : P3} (h : Point.setExtendedCoordinates X Y Z T = some P) :
    P.Valid ∧ P.toEd = Spec.toEd (toZ X) (toZ Y) (toZ Z) (toZ T) ∧
      P.toEd.x = toZ X / toZ Z ∧ P.toEd.y = toZ Y / toZ Z := by
  have hv := (C13 ff hX hY hZ hT).mp ⟨P, h⟩
  have e := C13_value h
  subst e
  exact ⟨⟨hX, hY, hZ, hT, hv⟩, rfl, hv.toEd_x, hv.toEd_y⟩

/-- the model's `ExtendedCoordinates` returns the four fields; feeding them back reproduces `P` -/
theorem C13_roundtrip {P : P3} (hP : P.Valid) :
    Point.setExtendedCoordinates P.x P.y P.z P.t = some P := by
  obtain ⟨hx, hy, hz, ht, hv⟩ := hP
  have h := (isOnCurve_iff ff hx hy hz ht).mpr hv
  unfold Point.setExtendedCoordinates
  rw [h]; rfl

/-! ### C17 : `BytesMontgomery` (field-level part) -/

theorem bytesMontgomery_eq {P : P3} (hP : P.Valid) :
    Point.bytesMontgomery P = LEbytes ((1 + P.toEd.y) * (1 - P.toEd.y)⁻¹).val 32 := by
  obtain ⟨_, hy, hz, _, hv⟩ := hP
  have y := Good.mul ff (Good.of_inv hy) (Good.invert ff (Good.of_inv hz))
  have recip := Good.invert ff (Good.sub ff (Good.one ff) y)
  have u := Good.mul ff (Good.add ff (Good.one ff) y) recip
  have e : P.toEd.y = toZ P.y * (toZ P.z)⁻¹ := by
    unfold P3.toEd; rw [hv.toEd_y, div_eq_mul_inv]
  have hb := Good.bytes ff u
  unfold Point.bytesMontgomery Point.copyFieldElement Point.feOne
  simp only []
  rw [hb, e]

theorem C17_partial {P : P3} (hP : P.Valid) :
    Point.bytesMontgomery P = LEbytes ((1 + P.toEd.y) * (1 - P.toEd.y)⁻¹).val 32 :=
  bytesMontgomery_eq ff hP

/-- the output only depends on the affine `y`: representation independent, same for `P` and `-P` -/
theorem C17_y_only {P Q : P3} (hP : P.Valid) (hQ : Q.Valid) (h : P.toEd.y = Q.toEd.y) :
    Point.bytesMontgomery P = Point.bytesMontgomery Q := by
  rw [C17_partial ff hP, C17_partial ff hQ, h]

theorem C17_neg {P : P3} (hP : P.Valid) :
    Point.bytesMontgomery (Point.neg P) = Point.bytesMontgomery P := by
  have hn := C02_neg ff hP
  exact C17_y_only ff hn.1 hP (by rw [hn.2]; rfl)

theorem C17_identity {P : P3} (hP : P.Valid) (h0 : P.toEd = 0) :
    Point.bytesMontgomery P = LEbytes 0 32 := by
  rw [C17_partial ff hP, h0]
  simp

end

end EdVerif.Proofs
