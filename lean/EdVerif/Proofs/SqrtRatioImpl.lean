import Mathlib.Data.ZMod.Basic
import Mathlib.Tactic.Ring
import Mathlib.Tactic.LinearCombination
import EdVerif.Proofs.FieldFacts
import EdVerif.Spec.SqrtRatio
/-!
`field.Element.SqrtRatio` of the executable model follows the ristretto255 `SQRT_RATIO_M1`
contract (RFC 9496 §4.2).  Everything here is derived from the `ZMod p` view `FieldFacts` of the
field operations and the pure mathematics of `EdVerif.Spec.SqrtRatio`.
-/
namespace EdVerif.Proofs
open EdVerif.Impl EdVerif.Prims EdVerif.Spec

/-! ### the intermediate values of `Fe.sqrtRatio` -/

/-- the candidate root `r = (u v³) (u v⁷)^((p-5)/8)` as computed by the model -/
def srRR (u v : Fe) : Fe :=
  let v2 := Fe.square v
  let t0 := Fe.mul v2 v
  let uv3 := Fe.mul u t0
  let t0 := Fe.square v2
  let uv7 := Fe.mul uv3 t0
  let t0 := Fe.pow22523 uv7
  Fe.mul uv3 t0

/-- `check = v r²` as computed by the model -/
def srCheck (u v : Fe) : Fe := Fe.mul v (Fe.square (srRR u v))

/-- the value selected before `Absolute` -/
def srSel (u v : Fe) : Fe :=
  Fe.select (Fe.mul (srRR u v) Fe.sqrtM1) (srRR u v)
    (Fe.equal (srCheck u v) (Fe.neg u) ||| Fe.equal (srCheck u v) (Fe.mul (Fe.neg u) Fe.sqrtM1))

theorem sqrtRatio_unfold (u v : Fe) :
    Fe.sqrtRatio u v =
      (Fe.absolute (srSel u v),
        Fe.equal (srCheck u v) u ||| Fe.equal (srCheck u v) (Fe.neg u)) := rfl

theorem srRR_z (ff : FieldFacts) (u v : Fe) (hu : Fe.Inv u) (hv : Fe.Inv v) :
    Fe.Inv (srRR u v) ∧ toZ (srRR u v) = sqrtRatioR0 (toZ u) (toZ v) := by
  obtain ⟨iv2, zv2⟩ := ff.square v hv
  obtain ⟨iv3, zv3⟩ := ff.mul _ _ iv2 hv
  obtain ⟨iuv3, zuv3⟩ := ff.mul u _ hu iv3
  obtain ⟨iv4, zv4⟩ := ff.square _ iv2
  obtain ⟨iuv7, zuv7⟩ := ff.mul _ _ iuv3 iv4
  obtain ⟨ipw, zpw⟩ := ff.pow22523 _ iuv7
  obtain ⟨irr, zrr⟩ := ff.mul _ _ iuv3 ipw
  refine ⟨irr, ?_⟩
  have e3 : toZ (Fe.mul u (Fe.mul (Fe.square v) v)) = toZ u * toZ v ^ 3 := by
    rw [zuv3, zv3, zv2]; ring
  have e7 : toZ (Fe.mul (Fe.mul u (Fe.mul (Fe.square v) v)) (Fe.square (Fe.square v)))
      = toZ u * toZ v ^ 7 := by
    rw [zuv7, e3, zv4, zv2]; ring
  show toZ (Fe.mul (Fe.mul u (Fe.mul (Fe.square v) v))
    (Fe.pow22523 (Fe.mul (Fe.mul u (Fe.mul (Fe.square v) v)) (Fe.square (Fe.square v))))) = _
  rw [zrr, zpw, e7, e3, sqrtRatioR0, sqrtExp_eq]

theorem srCheck_z (ff : FieldFacts) (u v : Fe) (hu : Fe.Inv u) (hv : Fe.Inv v) :
    Fe.Inv (srCheck u v) ∧ toZ (srCheck u v) = sqrtRatioCheck (toZ u) (toZ v) := by
  obtain ⟨irr, zrr⟩ := srRR_z ff u v hu hv
  obtain ⟨isq, zsq⟩ := ff.square _ irr
  obtain ⟨ick, zck⟩ := ff.mul v _ hv isq
  refine ⟨ick, ?_⟩
  show toZ (Fe.mul v (Fe.square (srRR u v))) = _
  rw [zck, zsq, zrr, sqrtRatioCheck]

theorem ite_or_ite (p q : Prop) [Decidable p] [Decidable q] [Decidable (p ∨ q)] :
    ((if p then 1 else 0 : ℕ) ||| (if q then 1 else 0)) = if p ∨ q then 1 else 0 := by
  by_cases hp : p <;> by_cases hq : q <;> simp [hp, hq]

open Classical in
/-- the `wasSquare` flag of the model is the indicator of `sqrtRatioWasSquare` -/
theorem srFlag_z (ff : FieldFacts) (u v : Fe) (hu : Fe.Inv u) (hv : Fe.Inv v) :
    (Fe.equal (srCheck u v) u ||| Fe.equal (srCheck u v) (Fe.neg u)) =
      if sqrtRatioWasSquare (toZ u) (toZ v) then 1 else 0 := by
  obtain ⟨ick, zck⟩ := srCheck_z ff u v hu hv
  obtain ⟨iun, zun⟩ := ff.neg u hu
  rw [ff.equal _ _ ick hu, ff.equal _ _ ick iun, ite_or_ite, zck, zun]
  by_cases h : sqrtRatioCheck (toZ u) (toZ v) = toZ u ∨ sqrtRatioCheck (toZ u) (toZ v) = -toZ u
  · have hw : sqrtRatioWasSquare (toZ u) (toZ v) := h
    rw [if_pos h, if_pos hw]
  · have hw : ¬ sqrtRatioWasSquare (toZ u) (toZ v) := h
    rw [if_neg h, if_neg hw]

open Classical in
/-- the value selected before `Absolute` is `sqrtRatioR` -/
theorem srSel_z (ff : FieldFacts) (u v : Fe) (hu : Fe.Inv u) (hv : Fe.Inv v) :
    Fe.Inv (srSel u v) ∧ toZ (srSel u v) = sqrtRatioR (toZ u) (toZ v) := by
  obtain ⟨irr, zrr⟩ := srRR_z ff u v hu hv
  obtain ⟨ick, zck⟩ := srCheck_z ff u v hu hv
  obtain ⟨iun, zun⟩ := ff.neg u hu
  obtain ⟨iuni, zuni⟩ := ff.mul _ _ iun ff.sqrtM1.1
  obtain ⟨irp, zrp⟩ := ff.mul _ _ irr ff.sqrtM1.1
  obtain ⟨sel1, sel0⟩ := ff.select _ _ irp irr
  unfold srSel
  rw [ff.equal _ _ ick iun, ff.equal _ _ ick iuni, ite_or_ite, zck, zuni, zun, ff.sqrtM1.2]
  unfold sqrtRatioR
  by_cases h : sqrtRatioCheck (toZ u) (toZ v) = -toZ u ∨
      sqrtRatioCheck (toZ u) (toZ v) = -toZ u * Spec.sqrtM1
  · rw [if_pos h, if_pos h, sel1]
    exact ⟨irp, by rw [zrp, zrr, ff.sqrtM1.2]⟩
  · rw [if_neg h, if_neg h, sel0]
    exact ⟨irr, zrr⟩

open Classical in
/-- `Fe.sqrtRatio` in terms of the specification functions -/
theorem sqrtRatio_model (ff : FieldFacts) (u v : Fe) (hu : Fe.Inv u) (hv : Fe.Inv v) :
    ∃ r, Fe.Inv r ∧ toZ r = sqrtRatioR (toZ u) (toZ v) ∧
      Fe.sqrtRatio u v =
        (Fe.absolute r, if sqrtRatioWasSquare (toZ u) (toZ v) then 1 else 0) := by
  obtain ⟨isel, zsel⟩ := srSel_z ff u v hu hv
  exact ⟨srSel u v, isel, zsel, by rw [sqrtRatio_unfold, srFlag_z ff u v hu hv]⟩

/-! ### `Absolute` in `F` -/

/-- the value of `Absolute`: the even one of `x`, `-x` -/
noncomputable def absF (x : F) : F := if x.val % 2 = 1 then -x else x

theorem P_odd : EdVerif.P % 2 = 1 := by decide +kernel

theorem absF_even (x : F) : (absF x).val % 2 = 0 := by
  unfold absF
  by_cases h : x.val % 2 = 1
  · rw [if_pos h]
    have hx : x ≠ 0 := by
      rintro rfl
      rw [ZMod.val_zero] at h
      exact absurd h (by norm_num)
    rw [ZMod.neg_val, if_neg hx]
    have h1 : x.val < EdVerif.P := ZMod.val_lt x
    have h2 := P_odd
    omega
  · rw [if_neg h]
    omega

theorem absF_sq (x : F) : absF x ^ 2 = x ^ 2 := by
  unfold absF
  split
  · ring
  · rfl

theorem absF_zero : absF 0 = 0 := by
  unfold absF
  split
  · exact neg_zero
  · rfl

/-! ### the contract of the selected root, in `F` -/

theorem sqrtRatioR_zero_left (V : F) : sqrtRatioR 0 V = 0 := by
  unfold sqrtRatioR
  split <;> simp [sqrtRatioR0_zero_left]

theorem sqrtRatioR_zero_right (U : F) : sqrtRatioR U 0 = 0 := by
  unfold sqrtRatioR
  split <;> simp [sqrtRatioR0_zero_right]

theorem sqrtRatioWasSquare_zero_left (V : F) : sqrtRatioWasSquare 0 V :=
  Or.inl (sqrtRatioCheck_zero_left V)

theorem not_sqrtRatioWasSquare_zero_right {U : F} (hU : U ≠ 0) : ¬ sqrtRatioWasSquare U 0 := by
  unfold sqrtRatioWasSquare
  rw [sqrtRatioCheck_zero_right]
  rintro (h | h)
  · exact hU h.symm
  · exact hU (neg_eq_zero.mp h.symm)

theorem sqrtRatioR_sq_of_isSquare {U V : F} (hU : U ≠ 0) (hV : V ≠ 0) (h : IsSquare (U / V)) :
    sqrtRatioWasSquare U V ∧ sqrtRatioR U V ^ 2 = U / V := by
  have hw : sqrtRatioWasSquare U V := (sqrtRatio_wasSquare_iff hU hV).mpr h
  refine ⟨hw, ?_⟩
  rw [eq_div_iff hV]
  linear_combination sqrtRatioR_spec_square hw

theorem sqrtRatioR_sq_of_not_isSquare {U V : F} (hU : U ≠ 0) (hV : V ≠ 0)
    (h : ¬ IsSquare (U / V)) :
    ¬ sqrtRatioWasSquare U V ∧ sqrtRatioR U V ^ 2 = sqrtM1 * (U / V) := by
  have hw : ¬ sqrtRatioWasSquare U V := fun hw => h ((sqrtRatio_wasSquare_iff hU hV).mp hw)
  refine ⟨hw, ?_⟩
  rw [mul_div_assoc', eq_div_iff hV]
  linear_combination sqrtRatioR_spec_nonsquare hU hV hw

/-! ### the contract of the model -/

/-- Property C16: `Fe.sqrtRatio` follows the `SQRT_RATIO_M1` contract of RFC 9496 §4.2. -/
theorem sqrtRatio_contract (ff : FieldFacts) (u v : Fe) (hu : Fe.Inv u) (hv : Fe.Inv v) :
    let res := Fe.sqrtRatio u v
    Fe.Inv res.1 ∧ (toZ res.1).val % 2 = 0 ∧ (res.2 = 0 ∨ res.2 = 1) ∧
    (toZ u = 0 → toZ res.1 = 0 ∧ res.2 = 1) ∧
    (toZ u ≠ 0 → toZ v = 0 → toZ res.1 = 0 ∧ res.2 = 0) ∧
    (toZ u ≠ 0 → toZ v ≠ 0 → IsSquare (toZ u / toZ v) →
      res.2 = 1 ∧ toZ res.1 ^ 2 = toZ u / toZ v) ∧
    (toZ u ≠ 0 → toZ v ≠ 0 → ¬ IsSquare (toZ u / toZ v) →
      res.2 = 0 ∧ toZ res.1 ^ 2 = Spec.sqrtM1 * (toZ u / toZ v)) := by
  classical
  obtain ⟨r, ir, zr, hres⟩ := sqrtRatio_model ff u v hu hv
  obtain ⟨iabs, zabs⟩ := ff.absolute r ir
  have zabs' : toZ (Fe.absolute r) = absF (sqrtRatioR (toZ u) (toZ v)) := by
    rw [zabs, zr]; rfl
  intro res
  have h1 : res.1 = Fe.absolute r := congrArg Prod.fst hres
  have h2 : res.2 = if sqrtRatioWasSquare (toZ u) (toZ v) then 1 else 0 := congrArg Prod.snd hres
  rw [h1, h2, zabs']
  refine ⟨iabs, absF_even _, ?_, ?_, ?_, ?_, ?_⟩
  · by_cases hw : sqrtRatioWasSquare (toZ u) (toZ v)
    · right; rw [if_pos hw]
    · left; rw [if_neg hw]
  · intro hU
    rw [hU, sqrtRatioR_zero_left, absF_zero, if_pos (sqrtRatioWasSquare_zero_left _)]
    exact ⟨rfl, rfl⟩
  · intro hU hV
    rw [hV, sqrtRatioR_zero_right, absF_zero, if_neg (not_sqrtRatioWasSquare_zero_right hU)]
    exact ⟨rfl, rfl⟩
  · intro hU hV hsq
    obtain ⟨hw, hr⟩ := sqrtRatioR_sq_of_isSquare hU hV hsq
    rw [if_pos hw, absF_sq]
    exact ⟨rfl, hr⟩
  · intro hU hV hsq
    obtain ⟨hw, hr⟩ := sqrtRatioR_sq_of_not_isSquare hU hV hsq
    rw [if_neg hw, absF_sq]
    exact ⟨rfl, hr⟩

/-- The form used by point decoding: the flag says whether `v x² = u` is solvable, and then the
returned element is a solution; the returned element is always even (non-negative). -/
theorem sqrtRatio_decode (ff : FieldFacts) (u v : Fe) (hu : Fe.Inv u) (hv : Fe.Inv v) :
    let res := Fe.sqrtRatio u v
    Fe.Inv res.1 ∧ (toZ res.1).val % 2 = 0 ∧ (res.2 = 0 ∨ res.2 = 1) ∧
    (res.2 = 1 ↔ ∃ x : F, toZ v * x ^ 2 = toZ u) ∧
    (res.2 = 1 → toZ v * toZ res.1 ^ 2 = toZ u) := by
  classical
  obtain ⟨r, ir, zr, hres⟩ := sqrtRatio_model ff u v hu hv
  obtain ⟨iabs, zabs⟩ := ff.absolute r ir
  have zabs' : toZ (Fe.absolute r) = absF (sqrtRatioR (toZ u) (toZ v)) := by
    rw [zabs, zr]; rfl
  intro res
  have h1 : res.1 = Fe.absolute r := congrArg Prod.fst hres
  have h2 : res.2 = if sqrtRatioWasSquare (toZ u) (toZ v) then 1 else 0 := congrArg Prod.snd hres
  rw [h1, h2, zabs']
  have hflag : (if sqrtRatioWasSquare (toZ u) (toZ v) then 1 else 0 : ℕ) = 1 ↔
      sqrtRatioWasSquare (toZ u) (toZ v) := by
    by_cases hw : sqrtRatioWasSquare (toZ u) (toZ v)
    · rw [if_pos hw]; exact ⟨fun _ => hw, fun _ => rfl⟩
    · rw [if_neg hw]; exact ⟨fun h => absurd h (by norm_num), fun h => absurd h hw⟩
  refine ⟨iabs, absF_even _, ?_, ?_, ?_⟩
  · by_cases hw : sqrtRatioWasSquare (toZ u) (toZ v)
    · right; rw [if_pos hw]
    · left; rw [if_neg hw]
  · rw [hflag, sqrtRatioWasSquare_iff]
  · intro h
    rw [absF_sq]
    exact sqrtRatioR_spec_square (hflag.mp h)

/-! ### non-vacuity: a concrete input satisfying the hypotheses, and its concrete output -/

example : Fe.Inv (⟨4, 0, 0, 0, 0⟩ : Fe) ∧ Fe.Inv (⟨1, 0, 0, 0, 0⟩ : Fe) := by decide

/-- `SqrtRatio(4, 1) = (2, 1)` by evaluating the model (the limbs returned represent `2 + p`) -/
example : Fe.val (Fe.sqrtRatio ⟨4, 0, 0, 0, 0⟩ ⟨1, 0, 0, 0, 0⟩).1 % EdVerif.P = 2 ∧
    (Fe.sqrtRatio ⟨4, 0, 0, 0, 0⟩ ⟨1, 0, 0, 0, 0⟩).2 = 1 := by decide +kernel

/-- `SqrtRatio(2, 1)` : `2` is a non-square, the flag is `0` -/
example : (Fe.sqrtRatio ⟨2, 0, 0, 0, 0⟩ ⟨1, 0, 0, 0, 0⟩).2 = 0 := by decide +kernel

end EdVerif.Proofs
