import EdVerif.Proofs.PointLayer
/-!
Point layer, byte-level part: little-endian byte strings (`LE`, `LEbytes`), the RFC 8032 encoding
`Spec.encode` and C05 (`Point.Bytes` is the canonical, representation-independent encoding).
-/
namespace EdVerif.Proofs
open EdVerif.Impl EdVerif.Prims EdVerif.Spec

/-! ### `LE` / `LEbytes` -/

theorem LEbytes_size (n k : Nat) : (LEbytes n k).size = k := by simp [LEbytes]

theorem LEbytes_getElem! (n : Nat) {k i : Nat} (h : i < k) :
    (LEbytes n k)[i]! = n / 256 ^ i % 256 := by
  have hs : i < (LEbytes n k).size := by rw [LEbytes_size]; exact h
  rw [getElem!_pos (LEbytes n k) i hs]
  simp [LEbytes]

theorem LEbytes_isBytes (n k : Nat) : IsBytes (LEbytes n k) := by
  intro i hi
  rw [LEbytes_size] at hi
  rw [LEbytes_getElem! n hi]
  exact Nat.mod_lt _ (by norm_num)

theorem LE_eq_list (b : Bytes) : LE b = b.toList.foldr (fun x acc => x + 256 * acc) 0 := by
  unfold LE; rw [Array.foldr_toList]

theorem LE_list_ofFn (k n : Nat) :
    (List.ofFn (n := k) fun i => n / 256 ^ i.val % 256).foldr (fun x acc => x + 256 * acc) 0 =
      n % 256 ^ k := by
  induction k generalizing n with
  | zero => simp [Nat.mod_one]
  | succ k ih =>
    rw [List.ofFn_succ, List.foldr_cons]
    have e : (fun i : Fin k => n / 256 ^ (i.succ).val % 256) =
        fun i : Fin k => (n / 256) / 256 ^ i.val % 256 := by
      funext i
      rw [Fin.val_succ, pow_succ, mul_comm, Nat.div_div_eq_div_mul]
    rw [e, ih (n / 256)]
    simp only [Fin.val_zero, pow_zero, Nat.div_one]
    rw [pow_succ, mul_comm (256 ^ k) 256, Nat.mod_mul]

theorem LE_LEbytes (n k : Nat) : LE (LEbytes n k) = n % 256 ^ k := by
  rw [LE_eq_list]
  unfold LEbytes
  rw [Array.toList_ofFn]
  exact LE_list_ofFn k n

theorem LEbytes_inj_lt {n m k : Nat} (hn : n < 256 ^ k) (hm : m < 256 ^ k)
    (h : LEbytes n k = LEbytes m k) : n = m := by
  have := congrArg LE h
  rwa [LE_LEbytes, LE_LEbytes, Nat.mod_eq_of_lt hn, Nat.mod_eq_of_lt hm] at this

/-! ### setting bit 255 -/

theorem or_128 : ∀ a, a < 128 → a ||| 128 = a + 128 := by decide

theorem LEbytes_low (y s i : Nat) (hi : i < 31) :
    (y + 2 ^ 255 * s) / 256 ^ i % 256 = y / 256 ^ i % 256 := by
  have e1 : (256 : Nat) ^ i = 2 ^ (8 * i) := by
    rw [show (256 : Nat) = 2 ^ 8 by norm_num, ← pow_mul]
  have e2 : (2 : Nat) ^ 255 = 2 ^ (8 * i) * (256 * 2 ^ (247 - 8 * i)) := by
    rw [show (256 : Nat) = 2 ^ 8 by norm_num, ← pow_add, ← pow_add]
    congr 1; omega
  rw [e1, e2, mul_assoc, Nat.add_mul_div_left _ _ (by positivity), mul_assoc,
    Nat.add_mul_mod_self_left]

theorem LEbytes_high (y s : Nat) (hy : y < 2 ^ 255) (hs : s < 2) :
    (y / 256 ^ 31 % 256) ||| (128 * s) = (y + 2 ^ 255 * s) / 256 ^ 31 % 256 := by
  have hs' : s = 0 ∨ s = 1 := by omega
  norm_num at hy ⊢
  rcases hs' with rfl | rfl
  · simp
  · rw [or_128 _ (by omega)]
    omega

/-- `a.set! 31 v = b` from the entries -/
theorem set!_31_ext {a b : Array Nat} {v : Nat} (hs : a.size = b.size) (hv : b[31]! = v)
    (hrest : ∀ i, i < a.size → i ≠ 31 → a[i]! = b[i]!) : a.set! 31 v = b := by
  apply Array.ext
  · simp [hs]
  · intro i h1 h2
    have h1' : i < a.size := by simpa using h1
    simp only [Array.set!_eq_setIfInBounds]
    rw [Array.getElem_setIfInBounds h1']
    split
    · rename_i h31; subst h31; rw [← hv, getElem!_pos b 31 h2]
    · rename_i h31
      rw [← getElem!_pos b i h2, ← hrest i h1' (fun h => h31 h.symm), getElem!_pos a i h1']

/-- OR-ing `128·s` into byte 31 of the encoding of `y < 2^255` sets bit 255 -/
theorem LEbytes_setHigh (y s : Nat) (hy : y < 2 ^ 255) (hs : s < 2) :
    (LEbytes y 32).set! 31 ((LEbytes y 32)[31]! ||| (128 * s)) = LEbytes (y + 2 ^ 255 * s) 32 := by
  apply set!_31_ext
  · rw [LEbytes_size, LEbytes_size]
  · rw [LEbytes_getElem! _ (by norm_num), LEbytes_getElem! _ (by norm_num)]
    exact (LEbytes_high y s hy hs).symm
  · intro i hi h31
    rw [LEbytes_size] at hi
    rw [LEbytes_getElem! _ hi, LEbytes_getElem! _ hi]
    exact (LEbytes_low y s i (by omega)).symm

theorem trunc_shl_bit (s : Nat) (hs : s < 2) : U.trunc 8 (U.shl 64 s 7) = 128 * s := by
  have hs' : s = 0 ∨ s = 1 := by omega
  rcases hs' with rfl | rfl <;> decide

/-! ### the encoding -/

theorem P_lt : EdVerif.P < 2 ^ 255 := by decide +kernel
theorem P_odd' : EdVerif.P % 2 = 1 := by decide +kernel

instance : NeZero EdVerif.P := ⟨by decide +kernel⟩

theorem val_lt_255 (a : F) : a.val < 2 ^ 255 := lt_trans (ZMod.val_lt a) P_lt

theorem encode_size (q : Ed25519) : (Spec.encode q).size = 32 := LEbytes_size _ _
theorem encode_isBytes (q : Ed25519) : IsBytes (Spec.encode q) := LEbytes_isBytes _ _

theorem encode_arg_lt (q : Ed25519) : q.y.val + 2 ^ 255 * (q.x.val % 2) < 256 ^ 32 := by
  have h := val_lt_255 q.y
  have h2 : q.x.val % 2 < 2 := Nat.mod_lt _ (by norm_num)
  norm_num at h ⊢
  omega

/-- `LE (encode q) = y + 2^255 · (x mod 2)` -/
theorem LE_encode (q : Ed25519) : LE (Spec.encode q) = q.y.val + 2 ^ 255 * (q.x.val % 2) := by
  unfold Spec.encode
  rw [LE_LEbytes, Nat.mod_eq_of_lt (encode_arg_lt q)]

/-- the encoding as "canonical `y`, then the sign of `x` in bit 7 of byte 31" -/
theorem encode_eq_setBit (q : Ed25519) :
    Spec.encode q = (LEbytes q.y.val 32).set! 31 ((LEbytes q.y.val 32)[31]! ||| (128 * (q.x.val % 2))) :=
  (LEbytes_setHigh _ _ (val_lt_255 q.y) (Nat.mod_lt _ (by norm_num))).symm

theorem encode_getElem!_31 (q : Ed25519) : (Spec.encode q)[31]! / 128 = q.x.val % 2 := by
  unfold Spec.encode
  rw [LEbytes_getElem! _ (by norm_num)]
  have h := val_lt_255 q.y
  have h2 : q.x.val % 2 < 2 := Nat.mod_lt _ (by norm_num)
  norm_num at h ⊢
  omega

theorem encode_low (q : Ed25519) : LE (Spec.encode q) % 2 ^ 255 = q.y.val := by
  rw [LE_encode]
  have h := val_lt_255 q.y
  omega

theorem neg_parity_nat (p v : Nat) (h : v < p) (hp : p % 2 = 1) : (p - v) % 2 ≠ v % 2 := by omega

/-- a non-zero field element and its negative have different parities (`p` is odd) -/
theorem neg_parity {a : F} (ha : a ≠ 0) : (-a).val % 2 ≠ a.val % 2 := by
  rw [ZMod.neg_val, if_neg ha]
  exact neg_parity_nat _ _ (ZMod.val_lt a) P_odd'

/-- the encoding determines the point -/
theorem _root_.EdVerif.Spec.encode_injective : Function.Injective Spec.encode := by
  intro q q' h
  have hLE := congrArg LE h
  rw [LE_encode, LE_encode] at hLE
  have h1 := val_lt_255 q.y
  have h2 := val_lt_255 q'.y
  have hy : q.y.val = q'.y.val := by omega
  have hs : q.x.val % 2 = q'.x.val % 2 := by omega
  have hy' : q.y = q'.y := ZMod.val_injective _ hy
  have hon' : onCurve q'.x q.y := by rw [hy']; exact q'.on
  rcases onCurve_x_unique q.on hon' with hx | hx
  · exact Ed25519.ext' hx.symm hy'
  · by_cases h0 : q.x = 0
    · rw [h0, neg_zero] at hx
      exact Ed25519.ext' (by rw [h0, hx]) hy'
    · exfalso
      apply neg_parity h0
      rw [← hx, hs]

/-! ### C05 : `Point.Bytes` -/

section
variable (ff : FieldFacts)
include ff

theorem C05_bytes {P : P3} (hP : P.Valid) : Point.bytes P = Spec.encode P.toEd := by
  obtain ⟨hx, hy, hz, _, hv⟩ := hP
  have zi := Good.invert ff (Good.of_inv hz)
  have x := Good.mul ff (Good.of_inv hx) zi
  have y := Good.mul ff (Good.of_inv hy) zi
  have ex : P.toEd.x = toZ P.x * (toZ P.z)⁻¹ := by
    unfold P3.toEd; rw [hv.toEd_x, div_eq_mul_inv]
  have ey : P.toEd.y = toZ P.y * (toZ P.z)⁻¹ := by
    unfold P3.toEd; rw [hv.toEd_y, div_eq_mul_inv]
  have hb := Good.bytes ff y
  have hn := Good.isNegative ff x
  unfold Point.bytes Point.copyFieldElement Spec.encode
  simp only []
  rw [hb, hn, ← ex, ← ey, trunc_shl_bit _ (Nat.mod_lt _ (by norm_num))]
  exact LEbytes_setHigh _ _ (val_lt_255 _) (Nat.mod_lt _ (by norm_num))

/-- representation independence: the bytes only depend on the represented point -/
theorem C05_rep_indep {P Q : P3} (hP : P.Valid) (hQ : Q.Valid) (h : P.toEd = Q.toEd) :
    Point.bytes P = Point.bytes Q := by
  rw [C05_bytes ff hP, C05_bytes ff hQ, h]

/-- equal encodings iff equal points -/
theorem C05_bytes_eq_iff {P Q : P3} (hP : P.Valid) (hQ : Q.Valid) :
    Point.bytes P = Point.bytes Q ↔ P.toEd = Q.toEd := by
  rw [C05_bytes ff hP, C05_bytes ff hQ]
  exact ⟨fun h => Spec.encode_injective h, fun h => by rw [h]⟩

end

end EdVerif.Proofs
