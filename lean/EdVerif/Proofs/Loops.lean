import Mathlib.Algebra.BigOperators.Group.Finset.Basic
import Mathlib.Algebra.Module.BigOperators
import Mathlib.Algebra.Module.Basic
import Mathlib.Tactic.Ring
import Mathlib.Tactic.Abel
import Mathlib.Tactic.Module
import Mathlib.Tactic.Linarith
/-!
C01, generic layer: the loop shapes of the five scalar multiplications of `scalarmult.go`, over an
arbitrary commutative group `G` (Mathlib `AddCommGroup`, `ℤ`-scalar multiplication `•`).

Every theorem is given in *fold form*: a `List.foldl` over `List.range` with exactly the index
arithmetic of the model (`EdVerif.Impl.Point`: `i := 62 - k`, `i := 255 - k`, `i := 2*k+1`, …), and
its right-hand side is the *closed form* `(∑ i ∈ Finset.range n, d i * r^i) • Q`.

All sums are `Finset.sum` over `Finset.range`. No model file is imported here: instantiation with
the curve group goes through `foldl_rel` (a relational fold lemma) below.
-/
namespace EdVerif.Proofs.Loops
open Finset

variable {G : Type*} [AddCommGroup G]

/-! ### Generic fold lemmas -/

/-- Relational fold: if `R` relates the initial states and is preserved by corresponding steps
(for the elements of the list), it relates the results. Used to transport the abstract loop
theorems to the model loops (`R v g` = "model value `v` represents group element `g`"). -/
theorem foldl_rel {α β ι : Type*} (R : α → β → Prop) (f : α → ι → α) (g : β → ι → β)
    (l : List ι) (a : α) (b : β) (h0 : R a b)
    (hstep : ∀ a b, ∀ x ∈ l, R a b → R (f a x) (g b x)) :
    R (l.foldl f a) (l.foldl g b) := by
  induction l generalizing a b with
  | nil => simpa using h0
  | cons x xs ih =>
    simp only [List.foldl_cons]
    apply ih
    · exact hstep a b x (by simp) h0
    · intro a b y hy hab
      exact hstep a b y (by simp [hy]) hab

/-- `v := v + g j` for `j = 0 .. m-1`. -/
theorem foldl_add_terms (g : ℕ → G) (v0 : G) (m : ℕ) :
    (List.range m).foldl (fun v j => v + g j) v0 = v0 + ∑ j ∈ range m, g j := by
  induction m with
  | zero => simp
  | succ m ih =>
    rw [List.range_succ, List.foldl_append, ih, sum_range_succ]
    simp only [List.foldl_cons, List.foldl_nil]
    abel

/-- Horner loop with arbitrary added terms: `acc := r • acc + t i` for `i = n-1` downto `0`. -/
theorem foldl_horner_terms (r : ℤ) (t : ℕ → G) (X : G) (n : ℕ) :
    (List.range n).foldl (fun acc k => r • acc + t (n - 1 - k)) X
      = r ^ n • X + ∑ i ∈ range n, r ^ i • t i := by
  induction n generalizing X with
  | zero => simp
  | succ n ih =>
    rw [List.range_succ_eq_map, List.foldl_cons, List.foldl_map]
    have hf : (fun (acc : G) (k : ℕ) => r • acc + t (n + 1 - 1 - (k + 1)))
        = (fun acc k => r • acc + t (n - 1 - k)) := by
      funext acc k
      have : n + 1 - 1 - (k + 1) = n - 1 - k := by omega
      rw [this]
    have h0 : n + 1 - 1 - 0 = n := by omega
    simp only [Nat.succ_eq_add_one]
    rw [hf, ih, h0, sum_range_succ, pow_succ]
    simp only [smul_add, smul_smul]
    abel

/-- Horner loop whose step is an arbitrary function of `r • acc` and the index, provided that
function adds a term. (Shape: `acc := step (r • acc) i`.) -/
theorem foldl_horner_step (r : ℤ) (step : G → ℕ → G) (t : ℕ → G)
    (hstep : ∀ v i, step v i = v + t i) (X : G) (n : ℕ) :
    (List.range n).foldl (fun acc k => step (r • acc) (n - 1 - k)) X
      = r ^ n • X + ∑ i ∈ range n, r ^ i • t i := by
  have : (fun (acc : G) (k : ℕ) => step (r • acc) (n - 1 - k))
      = (fun acc k => r • acc + t (n - 1 - k)) := by
    funext acc k; rw [hstep]
  rw [this, foldl_horner_terms]

/-- four doublings are multiplication by 16 (`mul16` of the model). -/
theorem double4 (x : G) :
    ((x + x) + (x + x)) + ((x + x) + (x + x)) + (((x + x) + (x + x)) + ((x + x) + (x + x)))
      = (16 : ℤ) • x := by
  module

theorem double4' (x y z u : G) (hy : y = x + x) (hz : z = y + y) (hu : u = z + z) :
    u + u = (16 : ℤ) • x := by
  subst hy hz hu; module

theorem double1 (x : G) : x + x = (2 : ℤ) • x := by module

/-- the variable-time NAF branch: add `T x` if `x > 0`, subtract `T (-x)` if `x < 0`. -/
theorem naf_branch (T : ℤ → G) (Q : G) (x : ℤ) (v : G)
    (hT : ∀ y : ℤ, 0 < y → (y = x ∨ y = -x) → T y = y • Q) :
    (if x > 0 then v + T x else if x < 0 then v - T (-x) else v) = v + x • Q := by
  rcases lt_trichotomy x 0 with h | h | h
  · have h1 : ¬ x > 0 := by linarith
    rw [if_neg h1, if_pos h, hT (-x) (by linarith) (Or.inr rfl)]
    module
  · subst h; simp
  · rw [if_pos h, hT x h (Or.inl rfl)]

/-! ### 1. Horner, radix `r` (ScalarMult shape) -/

/-- `acc := d n • Q; for i = n-1 downto 0: acc := r • acc + d i • Q`. -/
def horner (r : ℤ) (d : ℕ → ℤ) (Q : G) (n : ℕ) : G :=
  (List.range n).foldl (fun acc k => r • acc + d (n - 1 - k) • Q) (d n • Q)

theorem horner_eq (r : ℤ) (d : ℕ → ℤ) (Q : G) (n : ℕ) :
    horner r d Q n = (∑ i ∈ range (n + 1), d i * r ^ i) • Q := by
  unfold horner
  rw [foldl_horner_terms r (fun i => d i • Q), sum_range_succ, add_smul, sum_smul]
  simp only [smul_smul]
  rw [add_comm]
  congr 1
  · apply sum_congr rfl
    intro i _
    rw [mul_comm]
  · rw [mul_comm]

/-- radix-16 instance -/
def horner16 (d : ℕ → ℤ) (Q : G) (n : ℕ) : G := horner 16 d Q n

theorem horner16_eq (d : ℕ → ℤ) (Q : G) (n : ℕ) :
    horner16 d Q n = (∑ i ∈ range (n + 1), d i * 16 ^ i) • Q :=
  horner_eq 16 d Q n

/-- exactly the `scalarMultDigits` loop: `tmp1 := identity + sel d[63]`, then for `k < 63`,
`i := 62 - k`, `tmp1 := 16 • tmp1 + sel d[i]`. -/
theorem horner16_fold63 (d : ℕ → ℤ) (Q : G) :
    (List.range 63).foldl (fun acc k => (16 : ℤ) • acc + d (62 - k) • Q) (0 + d 63 • Q)
      = (∑ i ∈ range 64, d i * 16 ^ i) • Q := by
  rw [zero_add]
  exact horner16_eq d Q 63

/-! ### 2. Comb (ScalarBaseMult shape) -/

/-- splitting a sum over `range (2n)` into even and odd indices -/
theorem sum_range_two_mul {M : Type*} [AddCommMonoid M] (f : ℕ → M) (n : ℕ) :
    ∑ i ∈ range (2 * n), f i = ∑ k ∈ range n, f (2 * k) + ∑ k ∈ range n, f (2 * k + 1) := by
  induction n with
  | zero => simp
  | succ n ih =>
    have : 2 * (n + 1) = 2 * n + 1 + 1 := by ring
    rw [this, sum_range_succ, sum_range_succ, ih, sum_range_succ, sum_range_succ]
    abel

/-- `v := Σ_{k<n} d(2k+1) • T k; v := 16 • v; v := v + Σ_{k<n} d(2k) • T k`, tables
`T k = 256^k • B`; fold form with the index expressions of `scalarBaseMultDigits`
(`i := 2*k+1`, table `i / 2`). -/
theorem comb16_eq (d : ℕ → ℤ) (B : G) (T : ℕ → G) (n : ℕ)
    (hT : ∀ k < n, T k = (256 : ℤ) ^ k • B) :
    (List.range n).foldl (fun v k => v + d (2 * k) • T ((2 * k) / 2))
        ((16 : ℤ) • (List.range n).foldl (fun v k => v + d (2 * k + 1) • T ((2 * k + 1) / 2)) 0)
      = (∑ i ∈ range (2 * n), d i * 16 ^ i) • B := by
  rw [foldl_add_terms (fun k => d (2 * k + 1) • T ((2 * k + 1) / 2)),
    foldl_add_terms (fun k => d (2 * k) • T ((2 * k) / 2)), zero_add, sum_range_two_mul,
    add_smul, sum_smul, sum_smul, smul_sum, add_comm]
  congr 1
  · apply sum_congr rfl
    intro k hk
    have h1 : 2 * k / 2 = k := by omega
    rw [h1, hT k (mem_range.mp hk), smul_smul]
    congr 1
    rw [pow_mul]; norm_num
  · apply sum_congr rfl
    intro k hk
    have h1 : (2 * k + 1) / 2 = k := by omega
    rw [h1, hT k (mem_range.mp hk), smul_smul, smul_smul]
    congr 1
    rw [pow_succ, pow_mul]; norm_num; ring

/-- `scalarBaseMultDigits` shape, `n = 32`, starting from `identity = 0`. -/
theorem comb16_fold32 (d : ℕ → ℤ) (B : G) (T : ℕ → G)
    (hT : ∀ k < 32, T k = (256 : ℤ) ^ k • B) :
    (List.range 32).foldl (fun v k => v + d (2 * k) • T ((2 * k) / 2))
        ((16 : ℤ) • (List.range 32).foldl (fun v k => v + d (2 * k + 1) • T ((2 * k + 1) / 2)) 0)
      = (∑ i ∈ range 64, d i * 16 ^ i) • B :=
  comb16_eq d B T 32 hT

/-- the table points of `basepointTable`: `p₀ = B`, `p_{k+1} = 2^8 • p_k` (eight doublings). -/
theorem table_points (B : G) (p : ℕ → G) (h0 : p 0 = B)
    (hs : ∀ k, p (k + 1) = (256 : ℤ) • p k) (k : ℕ) : p k = (256 : ℤ) ^ k • B := by
  induction k with
  | zero => simp [h0]
  | succ k ih => rw [hs, ih, smul_smul, pow_succ, mul_comm]

theorem double8 (x : G) :
    (List.range 8).foldl (fun p _ => p + p) x = (256 : ℤ) • x := by
  simp only [List.range, List.range.loop, List.foldl_cons, List.foldl_nil]
  module

/-! ### 3. Multi-scalar Horner (MultiScalarMult shape) -/

/-- `addAll v i`: `for j < m: v := v + d j i • Q j` -/
def addAll (m : ℕ) (d : ℕ → ℕ → ℤ) (Q : ℕ → G) (v : G) (i : ℕ) : G :=
  (List.range m).foldl (fun v j => v + d j i • Q j) v

theorem addAll_eq (m : ℕ) (d : ℕ → ℕ → ℤ) (Q : ℕ → G) (v : G) (i : ℕ) :
    addAll m d Q v i = v + ∑ j ∈ range m, d j i • Q j :=
  foldl_add_terms (fun j => d j i • Q j) v m

/-- `v := addAll 0 n; for i = n-1 downto 0: v := addAll (r • v) i` equals
`Σ_j (Σ_{i ≤ n} d j i r^i) • Q j`. The empty family (`m = 0`) gives `0`. -/
theorem multiHorner_eq (r : ℤ) (m : ℕ) (d : ℕ → ℕ → ℤ) (Q : ℕ → G) (n : ℕ) :
    (List.range n).foldl (fun acc k => addAll m d Q (r • acc) (n - 1 - k)) (addAll m d Q 0 n)
      = ∑ j ∈ range m, (∑ i ∈ range (n + 1), d j i * r ^ i) • Q j := by
  rw [foldl_horner_step r (addAll m d Q) (fun i => ∑ j ∈ range m, d j i • Q j)
    (fun v i => addAll_eq m d Q v i), addAll_eq, zero_add]
  have hj : ∀ j, (∑ i ∈ range (n + 1), d j i * r ^ i) • Q j
      = (r ^ n * d j n) • Q j + ∑ i ∈ range n, (r ^ i * d j i) • Q j := by
    intro j
    rw [sum_range_succ, add_smul, sum_smul, add_comm, mul_comm]
    congr 1
    apply sum_congr rfl
    intro i _
    rw [mul_comm]
  simp only [smul_sum, smul_smul, hj]
  rw [sum_add_distrib, sum_comm (s := range n)]

/-- `multiScalarMultDigits` shape: 64 digits, radix 16, `i := 62 - k`. -/
theorem multiHorner16_fold63 (m : ℕ) (d : ℕ → ℕ → ℤ) (Q : ℕ → G) :
    (List.range 63).foldl (fun acc k => addAll m d Q ((16 : ℤ) • acc) (62 - k)) (addAll m d Q 0 63)
      = ∑ j ∈ range m, (∑ i ∈ range 64, d j i * 16 ^ i) • Q j :=
  multiHorner_eq 16 m d Q 63

theorem multiHorner_empty (r : ℤ) (d : ℕ → ℕ → ℤ) (Q : ℕ → G) (n : ℕ) :
    (List.range n).foldl (fun acc k => addAll 0 d Q (r • acc) (n - 1 - k)) (addAll 0 d Q 0 n)
      = 0 := by
  rw [multiHorner_eq]; simp

/-! ### 4. NAF double-and-add (VarTime shapes) -/

/-- `acc := 0; for i = n-1 downto 0: acc := 2 • acc; acc += da i • A; acc += db i • B`. -/
theorem nafDouble_eq (da db : ℕ → ℤ) (A B : G) (n : ℕ) :
    (List.range n).foldl
        (fun acc k => ((2 : ℤ) • acc + da (n - 1 - k) • A) + db (n - 1 - k) • B) 0
      = (∑ i ∈ range n, da i * 2 ^ i) • A + (∑ i ∈ range n, db i * 2 ^ i) • B := by
  have : (fun (acc : G) (k : ℕ) => ((2 : ℤ) • acc + da (n - 1 - k) • A) + db (n - 1 - k) • B)
      = (fun acc k => (2 : ℤ) • acc + (fun i => da i • A + db i • B) (n - 1 - k)) := by
    funext acc k; simp only [add_assoc]
  rw [this]
  refine (foldl_horner_terms (2 : ℤ) (fun i => da i • A + db i • B) 0 n).trans ?_
  rw [smul_zero, zero_add, sum_smul, sum_smul, ← sum_add_distrib]
  apply sum_congr rfl
  intro i _
  rw [smul_add, smul_smul, smul_smul, mul_comm, mul_comm (2 ^ i)]

/-- `varTimeDoubleDigits` shape: 256 digits, `i := 255 - k`. -/
theorem nafDouble_fold256 (da db : ℕ → ℤ) (A B : G) :
    (List.range 256).foldl
        (fun acc k => ((2 : ℤ) • acc + da (255 - k) • A) + db (255 - k) • B) 0
      = (∑ i ∈ range 256, da i * 2 ^ i) • A + (∑ i ∈ range 256, db i * 2 ^ i) • B :=
  nafDouble_eq da db A B 256

/-- family version: `acc := 0; for i = n-1 downto 0: acc := 2 • acc; for j < m: acc += d j i • Q j` -/
theorem nafMulti_eq (m : ℕ) (d : ℕ → ℕ → ℤ) (Q : ℕ → G) (n : ℕ) :
    (List.range n).foldl
        (fun acc k => (List.range m).foldl (fun v j => v + d j (n - 1 - k) • Q j) ((2 : ℤ) • acc)) 0
      = ∑ j ∈ range m, (∑ i ∈ range n, d j i * 2 ^ i) • Q j := by
  have h := foldl_horner_step (2 : ℤ) (addAll m d Q) (fun i => ∑ j ∈ range m, d j i • Q j)
    (fun v i => addAll_eq m d Q v i) 0 n
  unfold addAll at h
  rw [h, smul_zero, zero_add]
  simp only [smul_sum, smul_smul]
  rw [sum_comm]
  apply sum_congr rfl
  intro j _
  rw [sum_smul]
  apply sum_congr rfl
  intro i _
  rw [mul_comm]

/-- `varTimeMultiDigits` shape: 256 digits, `i := 255 - k`. -/
theorem nafMulti_fold256 (m : ℕ) (d : ℕ → ℕ → ℤ) (Q : ℕ → G) :
    (List.range 256).foldl
        (fun acc k => (List.range m).foldl (fun v j => v + d j (255 - k) • Q j) ((2 : ℤ) • acc)) 0
      = ∑ j ∈ range m, (∑ i ∈ range 256, d j i * 2 ^ i) • Q j :=
  nafMulti_eq m d Q 256

end EdVerif.Proofs.Loops
