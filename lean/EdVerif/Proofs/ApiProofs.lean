import EdVerif.Impl.Api
import EdVerif.Proofs.PointLayerDecode
import EdVerif.Proofs.SqrtRatioImpl
/-!
API state machine, part 1: the interfaces to the scalar layers, the store invariant, and the
inductive invariant `step_inv` / `run_inv` (properties C12 and the closure half of C09).

* `ScalarFacts`, `ScalarMultFacts` : what is consumed from the scalar layer and from the
  scalar-multiplication refinement (hypotheses here, discharged elsewhere);
* `StoreInv σ` : every stored `Element` satisfies `Fe.Inv`, every stored `Scalar` satisfies
  `Scalar.Inv`, every stored `Point` is the zero value or `P3.Valid`, every stored byte string
  consists of bytes;
* `Op.WellFormed` : side conditions on the literal arguments of an `Op`;
* `step_inv`, `run_inv`, `C12`, `C09_reachable`.
-/
namespace EdVerif.Proofs
open EdVerif.Impl EdVerif.Prims EdVerif.Spec

/-! ### interfaces to the layers that are developed in parallel -/

/-- closure of the scalar representation invariant under the `Scalar` API -/
structure ScalarFacts : Prop where
  rz : Scalar.Inv Scalar.rz
  add : ∀ x y, Scalar.Inv x → Scalar.Inv y → Scalar.Inv (Scalar.add x y)
  sub : ∀ x y, Scalar.Inv x → Scalar.Inv y → Scalar.Inv (Scalar.sub x y)
  neg : ∀ x, Scalar.Inv x → Scalar.Inv (Scalar.neg x)
  mul : ∀ x y, Scalar.Inv x → Scalar.Inv y → Scalar.Inv (Scalar.mul x y)
  multiplyAdd : ∀ x y z, Scalar.Inv x → Scalar.Inv y → Scalar.Inv z →
    Scalar.Inv (Scalar.multiplyAdd x y z)
  invert : ∀ x, Scalar.Inv x → Scalar.Inv (Scalar.invert x)
  bytes : ∀ x, Scalar.Inv x → IsBytes (Scalar.bytes x)
  setUniformBytes_err : ∀ x, Scalar.setUniformBytes x = .err ↔ x.size ≠ 64
  setUniformBytes_ok : ∀ x, x.size = 64 → IsBytes x →
    ∃ s, Scalar.setUniformBytes x = .ok s ∧ Scalar.Inv s
  setCanonicalBytes : ∀ x, IsBytes x →
    (∃ s, Scalar.setCanonicalBytes x = .ok s ∧ Scalar.Inv s) ∨ Scalar.setCanonicalBytes x = .err
  setBytesWithClamping : ∀ x, IsBytes x →
    (∃ s, Scalar.setBytesWithClamping x = .ok s ∧ Scalar.Inv s) ∨
      Scalar.setBytesWithClamping x = .err

/-- the five scalar multiplications succeed on valid inputs and return valid points -/
structure ScalarMultFacts : Prop where
  scalarMult : ∀ k q, Scalar.Inv k → P3.Valid q → ∃ r, Point.scalarMult k q = .ok r ∧ r.Valid
  scalarBaseMult : ∀ k, Scalar.Inv k → ∃ r, Point.scalarBaseMult k = .ok r ∧ r.Valid
  varTimeDoubleScalarBaseMult : ∀ a A b, Scalar.Inv a → P3.Valid A → Scalar.Inv b →
    ∃ r, Point.varTimeDoubleScalarBaseMult a A b = .ok r ∧ r.Valid
  multiScalarMult : ∀ (ks : Array W4) (qs : Array P3), ks.size = qs.size →
    (∀ k ∈ ks, Scalar.Inv k) → (∀ q ∈ qs, P3.Valid q) →
    ∃ r, Point.multiScalarMult ks qs = .ok r ∧ r.Valid
  varTimeMultiScalarMult : ∀ (ks : Array W4) (qs : Array P3), ks.size = qs.size →
    (∀ k ∈ ks, Scalar.Inv k) → (∀ q ∈ qs, P3.Valid q) →
    ∃ r, Point.varTimeMultiScalarMult ks qs = .ok r ∧ r.Valid

/-! ### the store invariant -/

/-- every value stored in the map satisfies `Q` -/
def AllVals {α} (Q : α → Prop) (m : Std.HashMap String α) : Prop :=
  ∀ (n : String) (v : α), m[n]? = some v → Q v

theorem AllVals.empty {α} (Q : α → Prop) : AllVals Q ({} : Std.HashMap String α) := by
  intro n v h
  simp at h

theorem AllVals.insert {α} {Q : α → Prop} {m : Std.HashMap String α} (h : AllVals Q m)
    {k : String} {x : α} (hx : Q x) : AllVals Q (m.insert k x) := by
  intro n v hv
  rw [Std.HashMap.getElem?_insert] at hv
  split at hv
  · cases hv; exact hx
  · exact h n v hv

/-- a stored `Point` is the zero value (a fresh receiver) or a valid curve point -/
def PointOk (P : P3) : Prop := P = Point.zeroValue ∨ P.Valid

/-- the invariant of the API state machine -/
structure StoreInv (σ : Store) : Prop where
  e : AllVals Fe.Inv σ.e
  s : AllVals Scalar.Inv σ.s
  p : AllVals PointOk σ.p
  b : AllVals IsBytes σ.b

/-- side conditions on literal arguments (and on the harness's injection ops) -/
def _root_.EdVerif.Impl.Op.WellFormed : Op → Prop
  | .eSelect _ _ _ cond => cond = 0 ∨ cond = 1
  | .eSwap _ _ cond => cond = 0 ∨ cond = 1
  | .eMult32 _ _ y => y < 2 ^ 32
  | .bSet _ x => IsBytes x
  | .eLimbs _ v => Fe.Inv v
  | .sLimbs _ v => Scalar.Inv v
  | .pLimbs _ v => v = Point.zeroValue ∨ v.Valid
  | _ => True

/-! ### zero value, `isUninit` and validity -/

theorem isUninit_iff (P : P3) : Point.isUninit P = true ↔ P.x = Fe.rz ∧ P.y = Fe.rz := by
  unfold Point.isUninit
  rw [Bool.and_eq_true, beq_iff_eq, beq_iff_eq]

theorem isUninit_zeroValue : Point.isUninit Point.zeroValue = true := by
  rw [isUninit_iff]; exact ⟨rfl, rfl⟩

theorem toZ_rz : toZ Fe.rz = 0 := toZ_limbs_zero

/-- a valid point is never taken for an uninitialised one -/
theorem valid_not_isUninit {P : P3} (h : P.Valid) : Point.isUninit P = false := by
  cases hu : Point.isUninit P
  · rfl
  · exfalso
    obtain ⟨hx, hy⟩ := (isUninit_iff P).mp hu
    obtain ⟨_, _, _, _, hz, hc, hs⟩ := h
    rw [hx, hy, toZ_rz] at hc hs
    have hT : toZ P.t = 0 := by
      have : toZ P.z * toZ P.t = 0 := by rw [← hs]; ring
      rcases mul_eq_zero.mp this with h0 | h0
      · exact absurd h0 hz
      · exact h0
    rw [hT] at hc
    have : toZ P.z ^ 2 = 0 := by
      have e : -(0 : F) ^ 2 + 0 ^ 2 = 0 := by ring
      rw [e] at hc
      rw [hc]; ring
    exact hz (pow_eq_zero_iff (by norm_num) |>.mp this)

theorem PointOk.valid_of_not_uninit {P : P3} (h : PointOk P) (hu : Point.isUninit P = false) :
    P.Valid := by
  rcases h with rfl | h
  · rw [isUninit_zeroValue] at hu; cases hu
  · exact h

theorem zeroValue_not_valid : ¬ Point.zeroValue.Valid := fun h => by
  have := valid_not_isUninit h
  rw [isUninit_zeroValue] at this; cases this

/-! ### `getAll` -/

theorem getAll_nil {α} (m : Std.HashMap String α) : Api.getAll m [] = some [] := rfl

theorem getAll_cons {α} (m : Std.HashMap String α) (n : String) (ns : List String) :
    Api.getAll m (n :: ns) =
      match m[n]? with
      | none => none
      | some x => match Api.getAll m ns with
        | none => none
        | some l => some (x :: l) := by
  unfold Api.getAll
  rw [List.mapM_cons]
  cases m[n]? <;> simp only [Option.bind_none, Option.bind_some, bind]
  cases List.mapM (fun n => m[n]?) ns <;> rfl

/-- `getAll` is the pointwise lookup -/
theorem getAll_spec {α} (m : Std.HashMap String α) :
    ∀ (ns : List String) (l : List α), Api.getAll m ns = some l →
      List.Forall₂ (fun n x => m[n]? = some x) ns l
  | [], l, h => by
    rw [getAll_nil] at h; cases h; exact List.Forall₂.nil
  | n :: ns, l, h => by
    rw [getAll_cons] at h
    cases hn : m[n]? with
    | none => rw [hn] at h; cases h
    | some x =>
      rw [hn] at h
      cases ha : Api.getAll m ns with
      | none => rw [ha] at h; cases h
      | some l' =>
        rw [ha] at h; cases h
        exact List.Forall₂.cons hn (getAll_spec m ns l' ha)

theorem getAll_length {α} {m : Std.HashMap String α} {ns : List String} {l : List α}
    (h : Api.getAll m ns = some l) : l.length = ns.length :=
  (List.Forall₂.length_eq (getAll_spec m ns l h)).symm

theorem forall₂_mem_right {α β} {R : α → β → Prop} {as : List α} {bs : List β}
    (h : List.Forall₂ R as bs) {b : β} (hb : b ∈ bs) : ∃ a ∈ as, R a b := by
  induction h with
  | nil => cases hb
  | cons h1 _ ih =>
    rcases List.mem_cons.mp hb with rfl | hb
    · exact ⟨_, List.mem_cons_self, h1⟩
    · obtain ⟨a, ha, e⟩ := ih hb
      exact ⟨a, List.mem_cons_of_mem _ ha, e⟩

theorem forall₂_mem_left {α β} {R : α → β → Prop} {as : List α} {bs : List β}
    (h : List.Forall₂ R as bs) {a : α} (ha : a ∈ as) : ∃ b ∈ bs, R a b := by
  induction h with
  | nil => cases ha
  | cons h1 _ ih =>
    rcases List.mem_cons.mp ha with rfl | ha
    · exact ⟨_, List.mem_cons_self, h1⟩
    · obtain ⟨b, hb, e⟩ := ih ha
      exact ⟨b, List.mem_cons_of_mem _ hb, e⟩

theorem getAll_mem {α} {m : Std.HashMap String α} {ns : List String} {l : List α}
    (h : Api.getAll m ns = some l) {x : α} (hx : x ∈ l) : ∃ n ∈ ns, m[n]? = some x :=
  forall₂_mem_right (getAll_spec m ns l h) hx

theorem getAll_mem' {α} {m : Std.HashMap String α} {ns : List String} {l : List α}
    (h : Api.getAll m ns = some l) {n : String} (hn : n ∈ ns) : ∃ x ∈ l, m[n]? = some x :=
  forall₂_mem_left (getAll_spec m ns l h) hn

theorem getAll_allVals {α} {Q : α → Prop} {m : Std.HashMap String α} (hm : AllVals Q m)
    {ns : List String} {l : List α} (h : Api.getAll m ns = some l) : ∀ x ∈ l, Q x := by
  intro x hx
  obtain ⟨n, _, e⟩ := getAll_mem h hx
  exact hm n x e

/-! ### per-operation closure facts -/

section
variable (ff : FieldFacts)
include ff

theorem sqrtDecodeFacts : SqrtRatioDecodeFacts := fun u v hu hv => sqrtRatio_decode ff u v hu hv

theorem evalE1_inv (o : EOp1) {a : Fe} (ha : Fe.Inv a) : Fe.Inv (Api.evalE1 o a) := by
  cases o
  · exact ha
  · exact (ff.neg a ha).1
  · exact (ff.square a ha).1
  · exact (ff.invert a ha).1
  · exact (ff.pow22523 a ha).1
  · exact (ff.absolute a ha).1

theorem evalE2_inv (o : EOp2) {a b : Fe} (ha : Fe.Inv a) (hb : Fe.Inv b) :
    Fe.Inv (Api.evalE2 o a b) := by
  cases o
  · exact (ff.add a b ha hb).1
  · exact (ff.sub a b ha hb).1
  · exact (ff.mul a b ha hb).1

theorem select_inv {a b : Fe} (ha : Fe.Inv a) (hb : Fe.Inv b) {c : Nat} (hc : c = 0 ∨ c = 1) :
    Fe.Inv (Fe.select a b c) := by
  rcases hc with rfl | rfl
  · rw [(ff.select a b ha hb).2]; exact hb
  · rw [(ff.select a b ha hb).1]; exact ha

theorem swap_inv {a b : Fe} (ha : Fe.Inv a) (hb : Fe.Inv b) {c : Nat} (hc : c = 0 ∨ c = 1) :
    Fe.Inv (Fe.swap a b c).1 ∧ Fe.Inv (Fe.swap a b c).2 := by
  rcases hc with rfl | rfl
  · rw [(ff.swap a b ha hb).2]; exact ⟨ha, hb⟩
  · rw [(ff.swap a b ha hb).1]; exact ⟨hb, ha⟩

theorem sqrtRatio_inv {u v : Fe} (hu : Fe.Inv u) (hv : Fe.Inv v) : Fe.Inv (Fe.sqrtRatio u v).1 :=
  (sqrtRatio_decode ff u v hu hv).1

theorem fe_setBytes_inv {x : Bytes} (hx : IsBytes x) {r : Fe} (h : Fe.setBytes x = some r) :
    Fe.Inv r := by
  by_cases hs : x.size = 32
  · obtain ⟨e, he, hi, _⟩ := ff.setBytes x hs hx
    rw [he] at h; cases h; exact hi
  · rw [ff.setBytes_len x hs] at h; cases h

theorem fe_setWideBytes_inv {x : Bytes} (hx : IsBytes x) {r : Fe}
    (h : Fe.setWideBytes x = some r) : Fe.Inv r := by
  by_cases hs : x.size = 64
  · obtain ⟨e, he, hi, _⟩ := ff.setWideBytes x hs hx
    rw [he] at h; cases h; exact hi
  · rw [ff.setWideBytes_len x hs] at h; cases h

theorem fe_bytes_isBytes {a : Fe} (ha : Fe.Inv a) : IsBytes (Fe.bytes a) := by
  rw [ff.bytes a ha]; exact LEbytes_isBytes _ _

theorem evalP1_valid (o : POp1) {P : P3} (hP : P.Valid) : (Api.evalP1 o P).Valid := by
  cases o
  · exact (C02_neg ff hP).1
  · exact (C02_cofactor ff hP).1

theorem evalP2_valid (o : POp2) {P Q : P3} (hP : P.Valid) (hQ : Q.Valid) :
    (Api.evalP2 o P Q).Valid := by
  cases o
  · exact (C02_add ff hP hQ).1
  · exact (C02_sub ff hP hQ).1

theorem point_bytes_isBytes {P : P3} (hP : P.Valid) : IsBytes (Point.bytes P) := by
  rw [C05_bytes ff hP]; exact encode_isBytes _

theorem point_bytesMontgomery_isBytes {P : P3} (hP : P.Valid) :
    IsBytes (Point.bytesMontgomery P) := by
  rw [C17_partial ff hP]; exact LEbytes_isBytes _ _

theorem point_setBytes_valid {x : Bytes} (hx : IsBytes x) {P : P3}
    (h : Point.setBytes x = some P) : P.Valid :=
  (C04_value ff (sqrtDecodeFacts ff) hx h).1

end

section
variable (sc : ScalarFacts)
include sc

theorem evalS1_inv (o : SOp1) {a : W4} (ha : Scalar.Inv a) : Scalar.Inv (Api.evalS1 o a) := by
  cases o
  · exact ha
  · exact sc.neg a ha
  · exact sc.invert a ha

theorem evalS2_inv (o : SOp2) {a b : W4} (ha : Scalar.Inv a) (hb : Scalar.Inv b) :
    Scalar.Inv (Api.evalS2 o a b) := by
  cases o
  · exact sc.add a b ha hb
  · exact sc.sub a b ha hb
  · exact sc.mul a b ha hb

/-- a scalar setter on a byte string returns a reduced scalar or the error, never a panic -/
theorem evalSSet_cases (k : SSet) {x : Bytes} (hx : IsBytes x) :
    (∃ s, Api.evalSSet k x = .ok s ∧ Scalar.Inv s) ∨ Api.evalSSet k x = .err := by
  cases k
  · by_cases hs : x.size = 64
    · exact Or.inl (sc.setUniformBytes_ok x hs hx)
    · exact Or.inr ((sc.setUniformBytes_err x).mpr hs)
  · exact sc.setCanonicalBytes x hx
  · exact sc.setBytesWithClamping x hx

end

/-- `ofRes` preserves an invariant if the successful branch does -/
theorem ofRes_inv {α} {σ : Store} (h : StoreInv σ) (r : Res α) (put : α → Store)
    (hput : ∀ a, r = .ok a → StoreInv (put a)) : StoreInv (Api.ofRes σ r put).1 := by
  cases r with
  | ok a => exact hput a rfl
  | err => exact h
  | panic c => exact h

/-! ### the inductive invariant -/

theorem step_inv (ff : FieldFacts) (sc : ScalarFacts) (sm : ScalarMultFacts) {σ : Store}
    (h : StoreInv σ) {op : Op} (hw : op.WellFormed) : StoreInv (Api.step σ op).1 := by
  cases op with
  | eNew n => exact ⟨h.e.insert ff.rz.1, h.s, h.p, h.b⟩
  | sNew n => exact ⟨h.e, h.s.insert sc.rz, h.p, h.b⟩
  | pNew n => exact ⟨h.e, h.s, h.p.insert (Or.inl rfl), h.b⟩
  | bSet n x => exact ⟨h.e, h.s, h.p, h.b.insert hw⟩
  | eLimbs n v => exact ⟨h.e.insert hw, h.s, h.p, h.b⟩
  | sLimbs n v => exact ⟨h.e, h.s.insert hw, h.p, h.b⟩
  | pLimbs n v => exact ⟨h.e, h.s, h.p.insert hw, h.b⟩
  | eConst k v =>
    simp only [Api.step]
    split
    · refine ⟨h.e.insert ?_, h.s, h.p, h.b⟩
      cases k
      · exact ff.zero.1
      · exact ff.one.1
    · exact h
  | e1 o v a =>
    simp only [Api.step]
    split
    · rename_i _ x _ hx
      exact ⟨h.e.insert (evalE1_inv ff o (h.e _ _ hx)), h.s, h.p, h.b⟩
    · exact h
  | e2 o v a b =>
    simp only [Api.step]
    split
    · rename_i _ x y _ hx hy
      exact ⟨h.e.insert (evalE2_inv ff o (h.e _ _ hx) (h.e _ _ hy)), h.s, h.p, h.b⟩
    · exact h
  | eMult32 v a y =>
    simp only [Api.step]
    split
    · rename_i _ x _ hx
      exact ⟨h.e.insert (ff.mult32 x y (h.e _ _ hx) hw).1, h.s, h.p, h.b⟩
    · exact h
  | eSelect v a b cond =>
    simp only [Api.step]
    split
    · rename_i _ x y _ hx hy
      exact ⟨h.e.insert (select_inv ff (h.e _ _ hx) (h.e _ _ hy) hw), h.s, h.p, h.b⟩
    · exact h
  | eSwap v u cond =>
    simp only [Api.step]
    split
    · rename_i x y hx hy
      have hs := swap_inv ff (h.e _ _ hx) (h.e _ _ hy) hw
      exact ⟨(h.e.insert hs.1).insert hs.2, h.s, h.p, h.b⟩
    · exact h
  | eSqrtRatio r u v =>
    simp only [Api.step]
    split
    · rename_i _ x y _ hx hy
      exact ⟨h.e.insert (sqrtRatio_inv ff (h.e _ _ hx) (h.e _ _ hy)), h.s, h.p, h.b⟩
    · exact h
  | eSetBytes v b =>
    simp only [Api.step]
    split
    · rename_i _ x _ hx
      split
      · rename_i r hr
        exact ⟨h.e.insert (fe_setBytes_inv ff (h.b _ _ hx) hr), h.s, h.p, h.b⟩
      · exact h
    · exact h
  | eSetWideBytes v b =>
    simp only [Api.step]
    split
    · rename_i _ x _ hx
      split
      · rename_i r hr
        exact ⟨h.e.insert (fe_setWideBytes_inv ff (h.b _ _ hx) hr), h.s, h.p, h.b⟩
      · exact h
    · exact h
  | eBytes v out =>
    simp only [Api.step]
    split
    · rename_i x hx
      exact ⟨h.e, h.s, h.p, h.b.insert (fe_bytes_isBytes ff (h.e _ _ hx))⟩
    · exact h
  | eEqual v u =>
    simp only [Api.step]
    split <;> exact h
  | eIsNegative v =>
    simp only [Api.step]
    split <;> exact h
  | s1 o s x =>
    simp only [Api.step]
    split
    · rename_i _ a _ ha
      exact ⟨h.e, h.s.insert (evalS1_inv sc o (h.s _ _ ha)), h.p, h.b⟩
    · exact h
  | s2 o s x y =>
    simp only [Api.step]
    split
    · rename_i _ a b _ ha hb
      exact ⟨h.e, h.s.insert (evalS2_inv sc o (h.s _ _ ha) (h.s _ _ hb)), h.p, h.b⟩
    · exact h
  | sMultiplyAdd s x y z =>
    simp only [Api.step]
    split
    · rename_i _ a b c _ ha hb hc
      exact ⟨h.e, h.s.insert (sc.multiplyAdd a b c (h.s _ _ ha) (h.s _ _ hb) (h.s _ _ hc)),
        h.p, h.b⟩
    · exact h
  | sSetBytes k s b =>
    simp only [Api.step]
    split
    · rename_i _ x _ hx
      apply ofRes_inv h
      intro a ha
      refine ⟨h.e, h.s.insert ?_, h.p, h.b⟩
      rcases evalSSet_cases sc k (h.b _ _ hx) with ⟨s', hs', hi⟩ | he
      · rw [hs'] at ha; cases ha; exact hi
      · rw [he] at ha; cases ha
    · exact h
  | sBytes s out =>
    simp only [Api.step]
    split
    · rename_i x hx
      exact ⟨h.e, h.s, h.p, h.b.insert (sc.bytes x (h.s _ _ hx))⟩
    · exact h
  | sEqual s t =>
    simp only [Api.step]
    split <;> exact h
  | pNewIdentity v =>
    exact ⟨h.e, h.s, h.p.insert (Or.inr (identity_valid ff (sqrtDecodeFacts ff)).1), h.b⟩
  | pNewGenerator v =>
    exact ⟨h.e, h.s, h.p.insert (Or.inr (generator_valid ff (sqrtDecodeFacts ff)).1), h.b⟩
  | pSet v u =>
    simp only [Api.step]
    split
    · rename_i _ x _ hx
      exact ⟨h.e, h.s, h.p.insert (h.p _ _ hx), h.b⟩
    · exact h
  | pSetBytes v b =>
    simp only [Api.step]
    split
    · rename_i _ x _ hx
      split
      · rename_i r hr
        exact ⟨h.e, h.s, h.p.insert (Or.inr (point_setBytes_valid ff (h.b _ _ hx) hr)), h.b⟩
      · exact h
    · exact h
  | pBytes v out =>
    simp only [Api.step]
    split
    · rename_i x hx
      split
      · exact h
      · rename_i hu
        have hv := (h.p _ _ hx).valid_of_not_uninit (Bool.eq_false_iff.mpr hu)
        exact ⟨h.e, h.s, h.p, h.b.insert (point_bytes_isBytes ff hv)⟩
    · exact h
  | pBytesMontgomery v out =>
    simp only [Api.step]
    split
    · rename_i x hx
      split
      · exact h
      · rename_i hu
        have hv := (h.p _ _ hx).valid_of_not_uninit (Bool.eq_false_iff.mpr hu)
        exact ⟨h.e, h.s, h.p, h.b.insert (point_bytesMontgomery_isBytes ff hv)⟩
    · exact h
  | p1 o v p =>
    simp only [Api.step]
    split
    · rename_i _ x _ hx
      split
      · exact h
      · rename_i hu
        have hv := (h.p _ _ hx).valid_of_not_uninit (Bool.eq_false_iff.mpr hu)
        exact ⟨h.e, h.s, h.p.insert (Or.inr (evalP1_valid ff o hv)), h.b⟩
    · exact h
  | p2 o v p q =>
    simp only [Api.step]
    split
    · rename_i _ x y _ hx hy
      split
      · exact h
      · rename_i hu
        rw [Bool.or_eq_true, not_or] at hu
        have hvx := (h.p _ _ hx).valid_of_not_uninit (Bool.eq_false_iff.mpr hu.1)
        have hvy := (h.p _ _ hy).valid_of_not_uninit (Bool.eq_false_iff.mpr hu.2)
        exact ⟨h.e, h.s, h.p.insert (Or.inr (evalP2_valid ff o hvx hvy)), h.b⟩
    · exact h
  | pEqual v u =>
    simp only [Api.step]
    split
    · split <;> exact h
    · exact h
  | pExtCoords v X Y Z T =>
    simp only [Api.step]
    split
    · rename_i x hx
      split
      · exact h
      · rename_i hu
        obtain ⟨ix, iy, iz, it, _⟩ := (h.p _ _ hx).valid_of_not_uninit (Bool.eq_false_iff.mpr hu)
        exact ⟨(((h.e.insert ix).insert iy).insert iz).insert it, h.s, h.p, h.b⟩
    · exact h
  | pSetExtCoords v X Y Z T =>
    simp only [Api.step]
    split
    · rename_i _ x y z t _ hx hy hz ht
      split
      · rename_i r hr
        exact ⟨h.e, h.s, h.p.insert (Or.inr
          (C13_valid ff (h.e _ _ hx) (h.e _ _ hy) (h.e _ _ hz) (h.e _ _ ht) hr).1), h.b⟩
      · exact h
    · exact h
  | pScalarBaseMult v x =>
    simp only [Api.step]
    split
    · rename_i _ k _ hk
      apply ofRes_inv h
      intro a ha
      obtain ⟨r, hr, hv⟩ := sm.scalarBaseMult k (h.s _ _ hk)
      rw [hr] at ha; cases ha
      exact ⟨h.e, h.s, h.p.insert (Or.inr hv), h.b⟩
    · exact h
  | pScalarMult v x q =>
    simp only [Api.step]
    split
    · rename_i _ k Q _ hk hQ
      split
      · exact h
      · rename_i hu
        have hvQ := (h.p _ _ hQ).valid_of_not_uninit (Bool.eq_false_iff.mpr hu)
        apply ofRes_inv h
        intro a ha
        obtain ⟨r, hr, hv⟩ := sm.scalarMult k Q (h.s _ _ hk) hvQ
        rw [hr] at ha; cases ha
        exact ⟨h.e, h.s, h.p.insert (Or.inr hv), h.b⟩
    · exact h
  | pVarTimeDouble v a A b =>
    simp only [Api.step]
    split
    · rename_i _ ka PA kb _ hka hPA hkb
      split
      · exact h
      · rename_i hu
        have hvA := (h.p _ _ hPA).valid_of_not_uninit (Bool.eq_false_iff.mpr hu)
        apply ofRes_inv h
        intro a ha
        obtain ⟨r, hr, hv⟩ :=
          sm.varTimeDoubleScalarBaseMult ka PA kb (h.s _ _ hka) hvA (h.s _ _ hkb)
        rw [hr] at ha; cases ha
        exact ⟨h.e, h.s, h.p.insert (Or.inr hv), h.b⟩
    · exact h
  | pMSM vt v xs qs =>
    simp only [Api.step]
    split
    · rename_i _ ks Qs _ hks hQs
      split
      · exact h
      · rename_i hlen
        split
        · exact h
        · rename_i hany
          have hlen' : ks.toArray.size = Qs.toArray.size := by
            simpa using hlen
          have hk : ∀ k ∈ ks.toArray, Scalar.Inv k := fun k hk =>
            getAll_allVals h.s hks k (by simpa using hk)
          have hq : ∀ q ∈ Qs.toArray, P3.Valid q := fun q hq => by
            have hq' : q ∈ Qs := by simpa using hq
            apply (getAll_allVals h.p hQs q hq').valid_of_not_uninit
            cases hu : Point.isUninit q
            · rfl
            · exact absurd (List.any_eq_true.mpr ⟨q, hq', hu⟩) hany
          apply ofRes_inv h
          intro a ha
          cases vt
          · obtain ⟨r, hr, hv⟩ := sm.multiScalarMult _ _ hlen' hk hq
            simp only [Bool.false_eq_true, if_false] at ha
            rw [hr] at ha; cases ha
            exact ⟨h.e, h.s, h.p.insert (Or.inr hv), h.b⟩
          · obtain ⟨r, hr, hv⟩ := sm.varTimeMultiScalarMult _ _ hlen' hk hq
            simp only [if_true] at ha
            rw [hr] at ha; cases ha
            exact ⟨h.e, h.s, h.p.insert (Or.inr hv), h.b⟩
    · exact h

theorem storeInv_empty : StoreInv {} :=
  ⟨AllVals.empty _, AllVals.empty _, AllVals.empty _, AllVals.empty _⟩

theorem foldl_inv (ff : FieldFacts) (sc : ScalarFacts) (sm : ScalarMultFacts) :
    ∀ (ops : List Op) (σ : Store), StoreInv σ → (∀ o ∈ ops, o.WellFormed) →
      StoreInv (ops.foldl (fun σ o => (Api.step σ o).1) σ)
  | [], _, h, _ => h
  | o :: ops, _, h, hw =>
    foldl_inv ff sc sm ops _ (step_inv ff sc sm h (hw o List.mem_cons_self))
      (fun o' ho' => hw o' (List.mem_cons_of_mem _ ho'))

/-- the invariant holds after every history of well-formed operations -/
theorem run_inv (ff : FieldFacts) (sc : ScalarFacts) (sm : ScalarMultFacts) {ops : List Op}
    (hw : ∀ o ∈ ops, o.WellFormed) : StoreInv (Api.run ops) :=
  foldl_inv ff sc sm ops {} storeInv_empty hw

/-- C12: every reachable `Point` is the zero value (an unused receiver) or a valid curve point -/
theorem C12 (ff : FieldFacts) (sc : ScalarFacts) (sm : ScalarMultFacts) {ops : List Op}
    (hw : ∀ o ∈ ops, o.WellFormed) (n : String) (P : P3) (hP : (Api.run ops).p[n]? = some P) :
    P = Point.zeroValue ∨ P.Valid := (run_inv ff sc sm hw).p n P hP

/-- C09, closure half: every reachable `Element` satisfies the representation invariant -/
theorem C09_reachable (ff : FieldFacts) (sc : ScalarFacts) (sm : ScalarMultFacts) {ops : List Op}
    (hw : ∀ o ∈ ops, o.WellFormed) (n : String) (e : Fe) (he : (Api.run ops).e[n]? = some e) :
    Fe.Inv e := (run_inv ff sc sm hw).e n e he

/-- every reachable `Scalar` is reduced -/
theorem scalar_reachable (ff : FieldFacts) (sc : ScalarFacts) (sm : ScalarMultFacts)
    {ops : List Op} (hw : ∀ o ∈ ops, o.WellFormed) (n : String) (s : W4)
    (hs : (Api.run ops).s[n]? = some s) : Scalar.Inv s := (run_inv ff sc sm hw).s n s hs

/-- a reachable point that passes `checkInitialized` is a valid curve point -/
theorem C12_initialized (ff : FieldFacts) (sc : ScalarFacts) (sm : ScalarMultFacts)
    {ops : List Op} (hw : ∀ o ∈ ops, o.WellFormed) (n : String) (P : P3)
    (hP : (Api.run ops).p[n]? = some P) (hu : Point.isUninit P = false) : P.Valid :=
  PointOk.valid_of_not_uninit (C12 ff sc sm hw n P hP) hu

/-- no degenerate values: on valid points `Equal` and the encoding agree, so no valid point compares
`Equal` to a point with a different encoding or encodes like a point it is not `Equal` to -/
theorem equal_iff_bytes (ff : FieldFacts) {P Q : P3} (hP : P.Valid) (hQ : Q.Valid) :
    Point.equal P Q = 1 ↔ Point.bytes P = Point.bytes Q := by
  classical
  rw [C06 ff hP hQ, C05_bytes_eq_iff ff hP hQ]
  by_cases he : P.toEd = Q.toEd
  · rw [if_pos he]; exact ⟨fun _ => he, fun _ => rfl⟩
  · rw [if_neg he]; exact ⟨fun h => absurd h (by norm_num), fun h => absurd h he⟩

end EdVerif.Proofs
