import EdVerif.Asm.Exec
import EdVerif.Proofs.FeKernels2
/-!
C20, proof layer (part 2): the assembly routines meet the *column specification* of the field
multiplication, proved from the opcode semantics alone — i.e. without looking at the Go code of
`feMulGeneric` / `feSquareGeneric`:

  `feMul(out, a, b)`  stores  `carryPropagate (cols a b)`   for limbs `< 2^52`,

where `cols` (from `Proofs/FeKernels2.lean`) are the five schoolbook columns with the `19`-fold, split
at bit 51. Together with `mul_columns` / `square_columns` (the same statement for the Go kernels) this
is a second, shape-independent proof of C20 under the invariant.

The symbolic state after execution is brought into column form by unconditional rewrite rules about the
128-bit accumulator idiom `ADDQ lo; ADCQ hi` (`acc_lo`, `acc_hi`), the `SHLQ $13, lo, hi` join
(`shld13`) and the mask (`mask51`); only the last step uses the bounds.
-/
set_option linter.unnecessarySeqFocus false
namespace EdVerif.Proofs.AsmCols
open EdVerif EdVerif.Asm EdVerif.Prims EdVerif.Gen EdVerif.Gen.Asm EdVerif.Proofs

/-! ### the 128-bit accumulator, unconditionally -/

theorem mul_lo (x y : Nat) : (Bits.Mul64 x y).snd = x * y % 2^64 := rfl
theorem mul_hi (x y : Nat) : (Bits.Mul64 x y).fst = x * y / 2^64 := rfl

/-- `ADDQ AX, lo` on an accumulator whose low word is `S % 2^64` -/
theorem acc_lo (S p : Nat) : (Bits.Add64 (S % 2^64) (p % 2^64) 0).fst = (S + p) % 2^64 := by
  simp only [Bits.Add64]; omega

/-- `ADCQ DX, hi` directly after the first `MULQ` (high word `S / 2^64`) -/
theorem acc_hi0 (S p : Nat) :
    (Bits.Add64 (S / 2^64) (p / 2^64) (Bits.Add64 (S % 2^64) (p % 2^64) 0).snd).fst =
      (S + p) / 2^64 % 2^64 := by
  simp only [Bits.Add64]; omega

/-- `ADCQ DX, hi` later in the chain (high word `S / 2^64 % 2^64`) -/
theorem acc_hi (S p : Nat) :
    (Bits.Add64 (S / 2^64 % 2^64) (p / 2^64) (Bits.Add64 (S % 2^64) (p % 2^64) 0).snd).fst =
      (S + p) / 2^64 % 2^64 := by
  simp only [Bits.Add64]; omega

/-- `SHLQ $13, lo, hi`: bits 51..114 of the accumulator -/
theorem shld13 (S : Nat) :
    U.or 64 (U.shl 64 (S / 2^64 % 2^64) 13) (U.shr 64 (S % 2^64) 51) = S % 2^128 / 2^51 % 2^64 := by
  simp only [U.or, U.shl, U.shr, Nat.shiftRight_eq_div_pow, Nat.shiftLeft_eq]
  have h2 : S % 2^64 / 2^51 < 2^13 := by omega
  have h1 : S / 2^64 % 2^64 * 2^13 % 2^64 = (S / 2^64 % 2^51) * 2^13 := by omega
  rw [h1, or_eq_add_of_shift _ _ h2]
  omega

/-- `ANDQ mask, lo` -/
theorem mask51 (S : Nat) : U.and 64 (S % 2^64) 2251799813685247 = S % 2^51 := by
  simp only [U.and, and_mask51]; omega

/-! ### folding the two reduction chains -/

/-- the second reduction chain is `carryPropagateGeneric` -/
theorem carry_fold (x0 x1 x2 x3 x4 : Nat) :
    (⟨(Bits.Add64 (U.and 64 x0 2251799813685247) (U.mul 64 (U.shr 64 x4 51) 19) 0).fst,
      (Bits.Add64 (U.and 64 x1 2251799813685247) (U.shr 64 x0 51) 0).fst,
      (Bits.Add64 (U.and 64 x2 2251799813685247) (U.shr 64 x1 51) 0).fst,
      (Bits.Add64 (U.and 64 x3 2251799813685247) (U.shr 64 x2 51) 0).fst,
      (Bits.Add64 (U.and 64 x4 2251799813685247) (U.shr 64 x3 51) 0).fst⟩ : Fe) =
    Field.carryPropagateGeneric ⟨x0, x1, x2, x3, x4⟩ := by
  simp only [Field.carryPropagateGeneric, uadd_eq]

/-- first reduction chain, limbs 1..4: no wrap-around when the lower column is `< 2^111` -/
theorem rr_eq (S T s t : Nat) (hS : S = s) (hT : T = t) (ht : t < 2^111) :
    (Bits.Add64 (S % 2^51) (T % 2^128 / 2^51 % 2^64) 0).fst = s % 2^51 + t / 2^51 := by
  subst hS hT; simp only [Bits.Add64]; omega

/-- first reduction chain, limb 0: the carry out of column 4 (`< 2^107`) comes back as `19 ×` -/
theorem rr0_eq (S T s t : Nat) (hS : S = s) (hT : T = t) (ht : t < 2^107) :
    (Bits.Add64 (S % 2^51) (U.mul 64 (T % 2^128 / 2^51 % 2^64) 19) 0).fst = s % 2^51 + t / 2^51 * 19 := by
  subst hS hT; simp only [Bits.Add64, U.mul]; omega

/-- a limb `< 2^52` times a small constant does not wrap -/
theorem small_mul {x c : Nat} (h : x < 2^52) (hc : c ≤ 38) : x * c % 2^64 = x * c := by
  have : x * c ≤ x * 38 := Nat.mul_le_mul_left x hc
  omega

/-- leaf goals `⟨accumulated sum⟩ = ⟨column⟩`: remove the non-wrapping `% 2^64` of the small multiples
(`19 ×`, `38 ×`, `2 ×`, `SHLQ $1`), then `ring` -/
macro "col_eq" : tactic => `(tactic|
  ((try simp (disch := omega) only [U.mul, shl1_eq, small_mul]) <;> ring))

/-- bring the symbolic final state into column form -/
macro "asm_cols" : tactic => `(tactic|
  simp only [mul_lo, mul_hi, acc_lo, acc_hi0, acc_hi, shld13, mask51])

set_option maxRecDepth 1000000 in
set_option maxHeartbeats 4000000 in
/-- `feMul(&mem[i], &mem[j], &mem[k])`, any aliasing: object `i` becomes `carryPropagate (cols mem[j] mem[k])` -/
theorem feMul_columns_mem (mem : Mem) (i j k : Nat) (ha : Lt52 (mem j)) (hb : Lt52 (mem k)) :
    feMulAsmMem mem i j k = some (upd mem i (Field.carryPropagateGeneric (cols (mem j) (mem k)))) := by
  asm_exec
  asm_cols
  rw [carry_fold]
  generalize mem j = a at *
  generalize mem k = b at *
  have hcb := col_bounds ha hb
  obtain ⟨a0, a1, a2, a3, a4⟩ := a
  obtain ⟨b0, b1, b2, b3, b4⟩ := b
  obtain ⟨ha0, ha1, ha2, ha3, ha4⟩ := ha
  obtain ⟨hb0, hb1, hb2, hb3, hb4⟩ := hb
  simp only at ha0 ha1 ha2 ha3 ha4 hb0 hb1 hb2 hb3 hb4
  simp only [cols, col0, col1, col2, col3, col4] at hcb ⊢
  obtain ⟨h0, h1, h2, h3, h4⟩ := hcb
  congr 3
  · refine rr0_eq _ _ _ _ ?_ ?_ h4 <;> col_eq
  · refine rr_eq _ _ _ _ ?_ ?_ h0 <;> col_eq
  · refine rr_eq _ _ _ _ ?_ ?_ h1 <;> col_eq
  · refine rr_eq _ _ _ _ ?_ ?_ h2 <;> col_eq
  · refine rr_eq _ _ _ _ ?_ ?_ h3 <;> col_eq

set_option maxRecDepth 1000000 in
set_option maxHeartbeats 4000000 in
theorem feSquare_columns_mem (mem : Mem) (i j : Nat) (ha : Lt52 (mem j)) :
    feSquareAsmMem mem i j = some (upd mem i (Field.carryPropagateGeneric (cols (mem j) (mem j)))) := by
  asm_exec
  asm_cols
  rw [carry_fold]
  generalize mem j = a at *
  have hcb := col_bounds ha ha
  obtain ⟨a0, a1, a2, a3, a4⟩ := a
  obtain ⟨ha0, ha1, ha2, ha3, ha4⟩ := ha
  simp only at ha0 ha1 ha2 ha3 ha4
  simp only [cols, col0, col1, col2, col3, col4] at hcb ⊢
  obtain ⟨h0, h1, h2, h3, h4⟩ := hcb
  congr 3
  · refine rr0_eq _ _ _ _ ?_ ?_ h4 <;> col_eq
  · refine rr_eq _ _ _ _ ?_ ?_ h0 <;> col_eq
  · refine rr_eq _ _ _ _ ?_ ?_ h1 <;> col_eq
  · refine rr_eq _ _ _ _ ?_ ?_ h2 <;> col_eq
  · refine rr_eq _ _ _ _ ?_ ?_ h3 <;> col_eq

theorem feMul_columns (o : Fe) {a b : Fe} (ha : Lt52 a) (hb : Lt52 b) :
    feMulAsmFrom o a b = some (Field.carryPropagateGeneric (cols a b)) := by
  simp only [feMulAsmFrom, feMul_columns_mem (memOf [o, a, b]) 0 1 2 ha hb, Option.map, upd_same]; rfl

theorem feSquare_columns (o : Fe) {a : Fe} (ha : Lt52 a) :
    feSquareAsmFrom o a = some (Field.carryPropagateGeneric (cols a a)) := by
  simp only [feSquareAsmFrom, feSquare_columns_mem (memOf [o, a]) 0 1 ha, Option.map, upd_same]; rfl

/-! ### C20 under the invariant, through the column specification -/

theorem C20_mul_cols (o v : Fe) {a b : Fe} (ha : Inv a) (hb : Inv b) :
    feMulAsmFrom o a b = some (Field.feMulGeneric v a b) := by
  rw [feMul_columns o (inv_lt52 ha) (inv_lt52 hb), mul_columns v a b (inv_lt52 ha) (inv_lt52 hb)]
  rfl

theorem C20_square_cols (o v : Fe) {a : Fe} (ha : Inv a) :
    feSquareAsmFrom o a = some (Field.feSquareGeneric v a) := by
  rw [feSquare_columns o (inv_lt52 ha), square_columns v a (inv_lt52 ha)]
  rfl

/-- consequence for the assembly build: the stored element is tight and congruent to the product -/
theorem feMulAsm_spec (o : Fe) {a b : Fe} (ha : Inv a) (hb : Inv b) :
    ∃ r, feMulAsmFrom o a b = some r ∧ Tight r ∧ val r ≡ val a * val b [MOD P] := by
  obtain ⟨hu, hv⟩ := cols_spec (inv_lt52 ha) (inv_lt52 hb)
  obtain ⟨ht, hc⟩ := carryGeneric_spec _ hu
  exact ⟨_, feMul_columns o (inv_lt52 ha) (inv_lt52 hb), ht, hc.trans hv⟩

theorem feSquareAsm_spec (o : Fe) {a : Fe} (ha : Inv a) :
    ∃ r, feSquareAsmFrom o a = some r ∧ Tight r ∧ val r ≡ val a * val a [MOD P] := by
  obtain ⟨hu, hv⟩ := cols_spec (inv_lt52 ha) (inv_lt52 ha)
  obtain ⟨ht, hc⟩ := carryGeneric_spec _ hu
  exact ⟨_, feSquare_columns o (inv_lt52 ha), ht, hc.trans hv⟩

#print axioms feMul_columns_mem
#print axioms feSquare_columns_mem
#print axioms C20_mul_cols
#print axioms C20_square_cols
#print axioms feMulAsm_spec
end EdVerif.Proofs.AsmCols
