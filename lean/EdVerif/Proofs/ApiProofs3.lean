import EdVerif.Proofs.ApiProofs2
/-!
API state machine, part 3: misuse is loud (model half of C15).

* an uninitialised (zero-value) `Point` in any *input* position makes the call panic with class
  `"uninit"` and leaves the store untouched; a multi-scalar call whose slices differ in length
  panics with class `"length"`;
* conversely, in a store satisfying the invariant these are the *only* panics: in particular a
  zero-value receiver alone never causes one, and `Set` never panics.
-/
namespace EdVerif.Proofs
open EdVerif.Impl EdVerif.Prims

/-! ### explicit statements, one per operation with `Point`-typed inputs -/

section
variable {σ : Store}

theorem C15_pBytes {v out : String} {P : P3} (hv : σ.p[v]? = some P)
    (hu : Point.isUninit P = true) : Api.step σ (.pBytes v out) = (σ, Api.uninitP) := by
  simp only [Api.step, hv, hu, if_true]

theorem C15_pBytesMontgomery {v out : String} {P : P3} (hv : σ.p[v]? = some P)
    (hu : Point.isUninit P = true) : Api.step σ (.pBytesMontgomery v out) = (σ, Api.uninitP) := by
  simp only [Api.step, hv, hu, if_true]

theorem C15_p1 {o : POp1} {v p : String} {R P : P3} (hv : σ.p[v]? = some R) (hp : σ.p[p]? = some P)
    (hu : Point.isUninit P = true) : Api.step σ (.p1 o v p) = (σ, Api.uninitP) := by
  simp only [Api.step, hv, hp, hu, if_true]

theorem C15_p2 {o : POp2} {v p q : String} {R P Q : P3} (hv : σ.p[v]? = some R)
    (hp : σ.p[p]? = some P) (hq : σ.p[q]? = some Q)
    (hu : Point.isUninit P = true ∨ Point.isUninit Q = true) :
    Api.step σ (.p2 o v p q) = (σ, Api.uninitP) := by
  simp only [Api.step, hv, hp, hq]
  rw [if_pos (by rw [Bool.or_eq_true]; exact hu)]

theorem C15_pEqual {v u : String} {P Q : P3} (hv : σ.p[v]? = some P) (hq : σ.p[u]? = some Q)
    (hu : Point.isUninit P = true ∨ Point.isUninit Q = true) :
    Api.step σ (.pEqual v u) = (σ, Api.uninitP) := by
  simp only [Api.step, hv, hq]
  rw [if_pos (by rw [Bool.or_eq_true]; exact hu)]

theorem C15_pExtCoords {v X Y Z T : String} {P : P3} (hv : σ.p[v]? = some P)
    (hu : Point.isUninit P = true) : Api.step σ (.pExtCoords v X Y Z T) = (σ, Api.uninitP) := by
  simp only [Api.step, hv, hu, if_true]

theorem C15_pScalarMult {v x q : String} {R Q : P3} {k : W4} (hv : σ.p[v]? = some R)
    (hx : σ.s[x]? = some k) (hq : σ.p[q]? = some Q) (hu : Point.isUninit Q = true) :
    Api.step σ (.pScalarMult v x q) = (σ, Api.uninitP) := by
  simp only [Api.step, hv, hx, hq, hu, if_true]

theorem C15_pVarTimeDouble {v a A b : String} {R PA : P3} {ka kb : W4} (hv : σ.p[v]? = some R)
    (ha : σ.s[a]? = some ka) (hA : σ.p[A]? = some PA) (hb : σ.s[b]? = some kb)
    (hu : Point.isUninit PA = true) :
    Api.step σ (.pVarTimeDouble v a A b) = (σ, Api.uninitP) := by
  simp only [Api.step, hv, ha, hA, hb, hu, if_true]

/-- a multi-scalar call with slices of different lengths panics, whatever the points are -/
theorem C15_pMSM_length {vt : Bool} {v : String} {xs qs : List String} {R : P3} {ks : List W4}
    {Qs : List P3} (hv : σ.p[v]? = some R) (hks : Api.getAll σ.s xs = some ks)
    (hQs : Api.getAll σ.p qs = some Qs) (hl : xs.length ≠ qs.length) :
    Api.step σ (.pMSM vt v xs qs) = (σ, Api.panicO "length") := by
  have hl' : (ks.length != Qs.length) = true := by
    rw [getAll_length hks, getAll_length hQs]; simpa using hl
  simp only [Api.step, hv, hks, hQs, hl', if_true]

/-- a multi-scalar call (equal lengths) any of whose points is uninitialised panics -/
theorem C15_pMSM_uninit {vt : Bool} {v : String} {xs qs : List String} {R : P3} {ks : List W4}
    {Qs : List P3} (hv : σ.p[v]? = some R) (hks : Api.getAll σ.s xs = some ks)
    (hQs : Api.getAll σ.p qs = some Qs) (hl : xs.length = qs.length)
    {n : String} (hn : n ∈ qs) {P : P3} (hP : σ.p[n]? = some P) (hu : Point.isUninit P = true) :
    Api.step σ (.pMSM vt v xs qs) = (σ, Api.uninitP) := by
  have hl' : (ks.length != Qs.length) = false := by
    rw [getAll_length hks, getAll_length hQs]; simpa using hl
  have hany : Qs.any Point.isUninit = true := by
    obtain ⟨Q, hQ, e⟩ := getAll_mem' hQs hn
    rw [hP] at e; cases e
    exact List.any_eq_true.mpr ⟨P, hQ, hu⟩
  simp only [Api.step, hv, hks, hQs, hl', hany, if_true, Bool.false_eq_true, if_false]

/-- plain copying is exempt: `Set` copies whatever is there, including the zero value -/
theorem C15_pSet {v u : String} {R P : P3} (hv : σ.p[v]? = some R) (hu : σ.p[u]? = some P) :
    Api.step σ (.pSet v u) = ({ σ with p := σ.p.insert v P }, Api.okO) := by
  simp only [Api.step, hv, hu]

theorem C15_pSet_never_panics (v u c : String) : (Api.step σ (.pSet v u)).2.kind ≠ .panic c := by
  simp only [Api.step]
  split <;> (intro h; cases h)

end

/-! ### uniform statements over all operations -/

/-- the `Point`-typed *input* positions of an operation (receivers are not inputs; `pSet`'s source
is exempt by design) -/
def _root_.EdVerif.Impl.Op.pIn : Op → List String
  | .pBytes v _ => [v]
  | .pBytesMontgomery v _ => [v]
  | .p1 _ _ p => [p]
  | .p2 _ _ p q => [p, q]
  | .pEqual v u => [v, u]
  | .pExtCoords v _ _ _ _ => [v]
  | .pScalarMult _ _ q => [q]
  | .pVarTimeDouble _ _ A _ => [A]
  | .pMSM _ _ _ qs => qs
  | _ => []

/-- some `Point` input of the call is an uninitialised (zero-value) point -/
def UninitInput (σ : Store) (op : Op) : Prop :=
  ∃ n ∈ op.pIn, ∃ P, σ.p[n]? = some P ∧ Point.isUninit P = true

/-- the two slices of a multi-scalar multiplication differ in length -/
def _root_.EdVerif.Impl.Op.LengthMismatch : Op → Prop
  | .pMSM _ _ xs qs => xs.length ≠ qs.length
  | _ => False

/-- C15: if all names resolve (the outcome is not `bad`) and some `Point` input is uninitialised,
the call panics with class `"uninit"` and the store is untouched (for the multi-scalar calls:
provided the lengths agree, otherwise see `C15_length_panics`) -/
theorem C15_uninit_panics {σ : Store} {op : Op} (hb : (Api.step σ op).2.kind ≠ .bad)
    (hu : UninitInput σ op) (hl : ¬ op.LengthMismatch) :
    Api.step σ op = (σ, Api.uninitP) := by
  obtain ⟨n, hn, P, hP, hu⟩ := hu
  cases op
  case pBytes v out =>
    simp only [Op.pIn, List.mem_singleton] at hn; subst hn
    exact C15_pBytes hP hu
  case pBytesMontgomery v out =>
    simp only [Op.pIn, List.mem_singleton] at hn; subst hn
    exact C15_pBytesMontgomery hP hu
  case p1 o v p =>
    simp only [Op.pIn, List.mem_singleton] at hn; subst hn
    simp only [Api.step] at hb
    split at hb
    · rename_i _ x hv hp
      rw [hP] at hp; cases hp
      exact C15_p1 hv hP hu
    · exact absurd rfl hb
  case p2 o v p q =>
    simp only [Op.pIn, List.mem_cons, List.not_mem_nil, or_false] at hn
    simp only [Api.step] at hb
    split at hb
    · rename_i _ x y hv hp hq
      refine C15_p2 hv hp hq ?_
      rcases hn with rfl | rfl
      · rw [hP] at hp; cases hp; exact Or.inl hu
      · rw [hP] at hq; cases hq; exact Or.inr hu
    · exact absurd rfl hb
  case pEqual v u =>
    simp only [Op.pIn, List.mem_cons, List.not_mem_nil, or_false] at hn
    simp only [Api.step] at hb
    split at hb
    · rename_i x y hv hq
      refine C15_pEqual hv hq ?_
      rcases hn with rfl | rfl
      · rw [hP] at hv; cases hv; exact Or.inl hu
      · rw [hP] at hq; cases hq; exact Or.inr hu
    · exact absurd rfl hb
  case pExtCoords v X Y Z T =>
    simp only [Op.pIn, List.mem_singleton] at hn; subst hn
    exact C15_pExtCoords hP hu
  case pScalarMult v x q =>
    simp only [Op.pIn, List.mem_singleton] at hn; subst hn
    simp only [Api.step] at hb
    split at hb
    · rename_i _ k Q hv hx hq
      rw [hP] at hq; cases hq
      exact C15_pScalarMult hv hx hP hu
    · exact absurd rfl hb
  case pVarTimeDouble v a A b =>
    simp only [Op.pIn, List.mem_singleton] at hn; subst hn
    simp only [Api.step] at hb
    split at hb
    · rename_i _ ka PA kb hv ha hA hb'
      rw [hP] at hA; cases hA
      exact C15_pVarTimeDouble hv ha hP hb' hu
    · exact absurd rfl hb
  case pMSM vt v xs qs =>
    simp only [Op.pIn] at hn
    simp only [Op.LengthMismatch, ne_eq, not_not] at hl
    simp only [Api.step] at hb
    split at hb
    · rename_i _ ks Qs hv hks hQs
      exact C15_pMSM_uninit hv hks hQs hl hn hP hu
    · exact absurd rfl hb
  all_goals exact absurd hn (by simp [Op.pIn])

/-- C15: a multi-scalar call whose two slices differ in length panics with class `"length"`,
regardless of the points -/
theorem C15_length_panics {σ : Store} {op : Op} (hb : (Api.step σ op).2.kind ≠ .bad)
    (hl : op.LengthMismatch) : Api.step σ op = (σ, Api.panicO "length") := by
  cases op
  case pMSM vt v xs qs =>
    simp only [Api.step] at hb
    split at hb
    · rename_i _ ks Qs hv hks hQs
      exact C15_pMSM_length hv hks hQs hl
    · exact absurd rfl hb
  all_goals exact absurd hl id

/-! ### the converse: in a store satisfying the invariant there are no other panics -/

theorem ofRes_ok_kind {α} {σ : Store} {r : Res α} {put : α → Store} {a : α} (h : r = .ok a) :
    (Api.ofRes σ r put).2.kind = .ok := by
  subst h; rfl

theorem ofRes_not_panic {α} {σ : Store} {r : Res α} {put : α → Store} {c : String}
    (h : (∃ a, r = .ok a) ∨ r = .err) : (Api.ofRes σ r put).2.kind ≠ .panic c := by
  rcases h with ⟨a, rfl⟩ | rfl <;> (intro h'; cases h')

theorem uninitP_kind {c : String} (h : Api.uninitP.kind = .panic c) : c = "uninit" := by
  cases h; rfl

/-- C15, converse: in a store satisfying the invariant, a panic is always one of the two documented
misuses: a length mismatch (class `"length"`) or an uninitialised `Point` input (class `"uninit"`).
In particular a zero-value *receiver* never causes a panic, and operations without `Point` inputs
(`Set` included) never panic. -/
theorem C15_panic_only_misuse (sc : ScalarFacts) (sm : ScalarMultFacts) {σ : Store}
    (h : StoreInv σ) {op : Op} {c : String} (hp : (Api.step σ op).2.kind = .panic c) :
    (c = "length" ∧ op.LengthMismatch) ∨ (c = "uninit" ∧ UninitInput σ op) := by
  cases op
  case sSetBytes k s b =>
    exfalso
    simp only [Api.step] at hp
    split at hp
    · rename_i _ x _ hx
      refine ofRes_not_panic ?_ hp
      rcases evalSSet_cases sc k (h.b _ _ hx) with ⟨s', hs', _⟩ | he
      · exact Or.inl ⟨s', hs'⟩
      · exact Or.inr he
    · cases hp
  case pBytes v out =>
    simp only [Api.step] at hp
    split at hp
    · rename_i x hx
      split at hp
      · rename_i hu
        exact Or.inr ⟨uninitP_kind hp, v, List.mem_singleton.mpr rfl, x, hx, hu⟩
      · cases hp
    · cases hp
  case pBytesMontgomery v out =>
    simp only [Api.step] at hp
    split at hp
    · rename_i x hx
      split at hp
      · rename_i hu
        exact Or.inr ⟨uninitP_kind hp, v, List.mem_singleton.mpr rfl, x, hx, hu⟩
      · cases hp
    · cases hp
  case p1 o v p =>
    simp only [Api.step] at hp
    split at hp
    · rename_i _ x _ hx
      split at hp
      · rename_i hu
        exact Or.inr ⟨uninitP_kind hp, p, List.mem_singleton.mpr rfl, x, hx, hu⟩
      · cases hp
    · cases hp
  case p2 o v p q =>
    simp only [Api.step] at hp
    split at hp
    · rename_i _ x y _ hx hy
      split at hp
      · rename_i hu
        refine Or.inr ⟨uninitP_kind hp, ?_⟩
        rcases Bool.or_eq_true _ _ |>.mp hu with hu | hu
        · exact ⟨p, List.mem_cons_self, x, hx, hu⟩
        · exact ⟨q, List.mem_cons_of_mem _ List.mem_cons_self, y, hy, hu⟩
      · cases hp
    · cases hp
  case pEqual v u =>
    simp only [Api.step] at hp
    split at hp
    · rename_i x y hx hy
      split at hp
      · rename_i hu
        refine Or.inr ⟨uninitP_kind hp, ?_⟩
        rcases Bool.or_eq_true _ _ |>.mp hu with hu | hu
        · exact ⟨v, List.mem_cons_self, x, hx, hu⟩
        · exact ⟨u, List.mem_cons_of_mem _ List.mem_cons_self, y, hy, hu⟩
      · cases hp
    · cases hp
  case pExtCoords v X Y Z T =>
    simp only [Api.step] at hp
    split at hp
    · rename_i x hx
      split at hp
      · rename_i hu
        exact Or.inr ⟨uninitP_kind hp, v, List.mem_singleton.mpr rfl, x, hx, hu⟩
      · cases hp
    · cases hp
  case pScalarBaseMult v x =>
    exfalso
    simp only [Api.step] at hp
    split at hp
    · rename_i _ k _ hk
      obtain ⟨r, hr, _⟩ := sm.scalarBaseMult k (h.s _ _ hk)
      rw [ofRes_ok_kind hr] at hp; cases hp
    · cases hp
  case pScalarMult v x q =>
    simp only [Api.step] at hp
    split at hp
    · rename_i _ k Q _ hk hQ
      split at hp
      · rename_i hu
        exact Or.inr ⟨uninitP_kind hp, q, List.mem_singleton.mpr rfl, Q, hQ, hu⟩
      · rename_i hu
        exfalso
        have hvQ := (h.p _ _ hQ).valid_of_not_uninit (Bool.eq_false_iff.mpr hu)
        obtain ⟨r, hr, _⟩ := sm.scalarMult k Q (h.s _ _ hk) hvQ
        rw [ofRes_ok_kind hr] at hp; cases hp
    · cases hp
  case pVarTimeDouble v a A b =>
    simp only [Api.step] at hp
    split at hp
    · rename_i _ ka PA kb _ hka hPA hkb
      split at hp
      · rename_i hu
        exact Or.inr ⟨uninitP_kind hp, A, List.mem_singleton.mpr rfl, PA, hPA, hu⟩
      · rename_i hu
        exfalso
        have hvA := (h.p _ _ hPA).valid_of_not_uninit (Bool.eq_false_iff.mpr hu)
        obtain ⟨r, hr, _⟩ :=
          sm.varTimeDoubleScalarBaseMult ka PA kb (h.s _ _ hka) hvA (h.s _ _ hkb)
        rw [ofRes_ok_kind hr] at hp; cases hp
    · cases hp
  case pMSM vt v xs qs =>
    simp only [Api.step] at hp
    split at hp
    · rename_i _ ks Qs _ hks hQs
      split at hp
      · rename_i hlen
        left
        refine ⟨by cases hp; rfl, ?_⟩
        show xs.length ≠ qs.length
        rw [← getAll_length hks, ← getAll_length hQs]
        simpa using hlen
      · rename_i hlen
        split at hp
        · rename_i hany
          obtain ⟨Q, hQ, hu⟩ := List.any_eq_true.mp hany
          obtain ⟨n, hn, e⟩ := getAll_mem hQs hQ
          exact Or.inr ⟨uninitP_kind hp, n, hn, Q, e, hu⟩
        · rename_i hany
          exfalso
          have hlen' : ks.toArray.size = Qs.toArray.size := by simpa using hlen
          have hk : ∀ k ∈ ks.toArray, Scalar.Inv k := fun k hk =>
            getAll_allVals h.s hks k (by simpa using hk)
          have hq : ∀ q ∈ Qs.toArray, P3.Valid q := fun q hq => by
            have hq' : q ∈ Qs := by simpa using hq
            apply (getAll_allVals h.p hQs q hq').valid_of_not_uninit
            cases hu : Point.isUninit q
            · rfl
            · exact absurd (List.any_eq_true.mpr ⟨q, hq', hu⟩) hany
          cases vt
          · obtain ⟨r, hr, _⟩ := sm.multiScalarMult _ _ hlen' hk hq
            simp only [Bool.false_eq_true, if_false] at hp
            rw [ofRes_ok_kind hr] at hp; cases hp
          · obtain ⟨r, hr, _⟩ := sm.varTimeMultiScalarMult _ _ hlen' hk hq
            simp only [if_true] at hp
            rw [ofRes_ok_kind hr] at hp; cases hp
    · cases hp
  all_goals
    exfalso
    revert hp
    simp only [Api.step, Api.okO, Api.badO, Api.errO, Api.retO]
    (repeat' split) <;> (intro h; cases h)

/-- C15: a call with resolved names, no uninitialised `Point` input and no length mismatch, which is
not one of the fallible setters, succeeds — whatever the receiver holds (in particular a zero-value
`Point` is always acceptable as a pure receiver) -/
theorem C15_ok_of_no_misuse (sc : ScalarFacts) (sm : ScalarMultFacts) {σ : Store}
    (h : StoreInv σ) {op : Op} (hb : (Api.step σ op).2.kind ≠ .bad)
    (hu : ¬ UninitInput σ op) (hl : ¬ op.LengthMismatch) (hs : ¬ op.IsFallibleSetter) :
    (Api.step σ op).2.kind = .ok := by
  cases hk : (Api.step σ op).2.kind with
  | ok => rfl
  | err => exact absurd (C14_err_only_setters hk) hs
  | bad => exact absurd hk hb
  | panic c =>
    rcases C15_panic_only_misuse sc sm h hk with ⟨_, h'⟩ | ⟨_, h'⟩
    · exact absurd h' hl
    · exact absurd h' hu

/-! ### concrete instances: a zero-value receiver is fine -/

/-- `v.Add(p, q)` / `v.Subtract(p, q)` with `v` the zero value and valid `p`, `q` succeeds and
leaves a valid point in `v` -/
theorem C15_zero_receiver_p2 (ff : FieldFacts) {σ : Store} {o : POp2} {v p q : String} {P Q : P3}
    (hv : σ.p[v]? = some Point.zeroValue) (hp : σ.p[p]? = some P) (hq : σ.p[q]? = some Q)
    (hP : P.Valid) (hQ : Q.Valid) :
    Api.step σ (.p2 o v p q) = ({ σ with p := σ.p.insert v (Api.evalP2 o P Q) }, Api.okO) ∧
      (Api.evalP2 o P Q).Valid := by
  refine ⟨?_, evalP2_valid ff o hP hQ⟩
  simp only [Api.step, hv, hp, hq, valid_not_isUninit hP, valid_not_isUninit hQ, Bool.or_self,
    Bool.false_eq_true, if_false]

/-- `v.ScalarMult(x, q)` with `v` the zero value, a reduced scalar and a valid `q` succeeds and
leaves a valid point in `v` -/
theorem C15_zero_receiver_scalarMult (sm : ScalarMultFacts) {σ : Store} {v x q : String} {k : W4}
    {Q : P3} (hv : σ.p[v]? = some Point.zeroValue) (hx : σ.s[x]? = some k)
    (hq : σ.p[q]? = some Q) (hk : Scalar.Inv k) (hQ : Q.Valid) :
    ∃ R, Api.step σ (.pScalarMult v x q) = ({ σ with p := σ.p.insert v R }, Api.okO) ∧
      R.Valid := by
  obtain ⟨R, hR, hRv⟩ := sm.scalarMult k Q hk hQ
  refine ⟨R, ?_, hRv⟩
  simp only [Api.step, hv, hx, hq, valid_not_isUninit hQ, Bool.false_eq_true, if_false]
  rw [hR]
  rfl

end EdVerif.Proofs
