import EdVerif.Proofs.ApiProofs
/-!
API state machine, part 2: failed calls are atomic, only fallible setters report errors and only
the declared slots are written (model half of C14).
-/
namespace EdVerif.Proofs
open EdVerif.Impl EdVerif.Prims

/-! ### C14 : atomicity -/

theorem ofRes_cases {α} (σ : Store) (r : Res α) (put : α → Store) :
    (Api.ofRes σ r put).1 = σ ∨ (Api.ofRes σ r put).2.kind = .ok := by
  cases r
  · exact Or.inr rfl
  · exact Or.inl rfl
  · exact Or.inl rfl

/-- every call either leaves the store untouched or reports success -/
theorem step_unchanged_or_ok (σ : Store) (op : Op) :
    (Api.step σ op).1 = σ ∨ (Api.step σ op).2.kind = .ok := by
  cases op <;>
  simp only [Api.step, Api.okO, Api.badO, Api.errO, Api.retO, Api.uninitP, Api.panicO] <;>
  (repeat' split) <;>
  first
    | exact Or.inr trivial
    | exact Or.inr (by with_reducible rfl)
    | exact Or.inl (by with_reducible rfl)
    | exact ofRes_cases _ _ _

/-- a call that does not report success leaves the whole store exactly as it was -/
theorem step_unchanged {σ : Store} {op : Op} (h : (Api.step σ op).2.kind ≠ .ok) :
    (Api.step σ op).1 = σ :=
  (step_unchanged_or_ok σ op).resolve_right h

/-- C14, atomicity: a call that reports an error leaves the whole store (receiver, inputs and
everything else) exactly as it was -/
theorem C14_atomic {σ : Store} {op : Op} (h : (Api.step σ op).2.kind = .err) :
    (Api.step σ op).1 = σ :=
  step_unchanged (by rw [h]; intro h'; cases h')

theorem C14_atomic_panic {σ : Store} {op : Op} {c : String}
    (h : (Api.step σ op).2.kind = .panic c) : (Api.step σ op).1 = σ :=
  step_unchanged (by rw [h]; intro h'; cases h')

theorem C14_atomic_bad {σ : Store} {op : Op} (h : (Api.step σ op).2.kind = .bad) :
    (Api.step σ op).1 = σ :=
  step_unchanged (by rw [h]; intro h'; cases h')

/-! ### only the fallible setters report errors -/

/-- the seven fallible setters (`sSetBytes` stands for `SetUniformBytes`, `SetCanonicalBytes` and
`SetBytesWithClamping`) -/
def _root_.EdVerif.Impl.Op.IsFallibleSetter : Op → Prop
  | .eSetBytes _ _ => True
  | .eSetWideBytes _ _ => True
  | .sSetBytes _ _ _ => True
  | .pSetBytes _ _ => True
  | .pSetExtCoords _ _ _ _ _ => True
  | _ => False

/-! The scalar multiplications never report an error. (Proof pattern: the definitions are unfolded
at the level of the *function* (`Point.scalarMult = F`), where the kernel compares a constant with a
λ-term, and the discriminant is generalised before the `match` is reduced; unfolding the applied
form makes the kernel evaluate `signedRadix16 k` on a symbolic `k`, which does not terminate in
practice.) -/

theorem signedRadix16_ne_err (s : W4) : Scalar.signedRadix16 s ≠ .err := by
  unfold Scalar.signedRadix16
  by_cases h : (Scalar.bytes s)[31]! > 127
  · rw [if_pos h]; intro h'; cases h'
  · rw [if_neg h]; intro h'; cases h'

theorem nonAdjacentForm_ne_err (s : W4) (w : Nat) : Scalar.nonAdjacentForm s w ≠ .err := by
  unfold Scalar.nonAdjacentForm
  by_cases h : (Scalar.bytes s)[31]! > 127
  · rw [if_pos h]; intro h'; cases h'
  · rw [if_neg h]
    by_cases h2 : w < 2
    · rw [if_pos h2]; intro h'; cases h'
    · rw [if_neg h2]
      by_cases h3 : w > 8
      · rw [if_pos h3]; intro h'; cases h'
      · rw [if_neg h3]; intro h'; cases h'

theorem scalarMult_ne_err (k : W4) (q : P3) : Point.scalarMult k q ≠ .err := by
  have key : ∀ F, Point.scalarMult = F → F k q ≠ .err := by
    intro F hF
    delta Point.scalarMult at hF
    subst hF
    have hne := signedRadix16_ne_err k
    beta_reduce
    generalize Scalar.signedRadix16 k = r at hne ⊢
    cases r
    · intro h; cases h
    · exact absurd rfl hne
    · intro h; cases h
  exact key _ rfl

theorem scalarBaseMult_ne_err (k : W4) : Point.scalarBaseMult k ≠ .err := by
  have key : ∀ F, Point.scalarBaseMult = F → F k ≠ .err := by
    intro F hF
    delta Point.scalarBaseMult at hF
    subst hF
    have hne := signedRadix16_ne_err k
    beta_reduce
    generalize Scalar.signedRadix16 k = r at hne ⊢
    cases r
    · intro h; cases h
    · exact absurd rfl hne
    · intro h; cases h
  exact key _ rfl

theorem varTimeDouble_ne_err (a : W4) (A : P3) (b : W4) :
    Point.varTimeDoubleScalarBaseMult a A b ≠ .err := by
  have key : ∀ F, Point.varTimeDoubleScalarBaseMult = F → F a A b ≠ .err := by
    intro F hF
    delta Point.varTimeDoubleScalarBaseMult at hF
    subst hF
    have ha := nonAdjacentForm_ne_err a 5
    have hb := nonAdjacentForm_ne_err b 8
    beta_reduce
    generalize Scalar.nonAdjacentForm a 5 = r at ha ⊢
    generalize Scalar.nonAdjacentForm b 8 = t at hb ⊢
    cases r
    · cases t
      · intro h; cases h
      · exact absurd rfl hb
      · intro h; cases h
    · exact absurd rfl ha
    · intro h; cases h
  exact key _ rfl

theorem collect_foldl_ne_err {α} : ∀ (xs : List (Res α)) (acc : Res (Array α)),
    acc ≠ .err → (∀ r ∈ xs, r ≠ .err) →
    xs.foldl (fun acc r => match acc, r with
      | .ok a, .ok x => .ok (a.push x)
      | .ok _, .err => .err
      | .ok _, .panic c => .panic c
      | e, _ => e) acc ≠ .err
  | [], _, h, _ => h
  | r :: xs, acc, h, hx => by
    rw [List.foldl_cons]
    apply collect_foldl_ne_err xs _ _ (fun r' hr' => hx r' (List.mem_cons_of_mem _ hr'))
    have hr := hx r List.mem_cons_self
    split
    · intro h'; cases h'
    · exact absurd rfl hr
    · intro h'; cases h'
    · exact h

theorem collect_ne_err {α} (xs : List (Res α)) (hx : ∀ r ∈ xs, r ≠ .err) :
    Point.collect xs ≠ .err :=
  collect_foldl_ne_err xs (.ok #[]) (by intro h; cases h) hx

theorem multiScalarMult_ne_err (ks : Array W4) (qs : Array P3) :
    Point.multiScalarMult ks qs ≠ .err := by
  have key : ∀ F, Point.multiScalarMult = F → F ks qs ≠ .err := by
    intro F hF
    delta Point.multiScalarMult at hF
    subst hF
    have h : Point.collect (ks.toList.map Scalar.signedRadix16) ≠ .err := by
      apply collect_ne_err
      intro r hr
      obtain ⟨k, _, rfl⟩ := List.mem_map.mp hr
      exact signedRadix16_ne_err k
    beta_reduce
    generalize Point.collect (ks.toList.map Scalar.signedRadix16) = r at h ⊢
    cases r
    · intro h'; cases h'
    · exact absurd rfl h
    · intro h'; cases h'
  exact key _ rfl

theorem varTimeMultiScalarMult_ne_err (ks : Array W4) (qs : Array P3) :
    Point.varTimeMultiScalarMult ks qs ≠ .err := by
  have key : ∀ F, Point.varTimeMultiScalarMult = F → F ks qs ≠ .err := by
    intro F hF
    delta Point.varTimeMultiScalarMult at hF
    subst hF
    have h : Point.collect (ks.toList.map (Scalar.nonAdjacentForm · 5)) ≠ .err := by
      apply collect_ne_err
      intro r hr
      obtain ⟨k, _, rfl⟩ := List.mem_map.mp hr
      exact nonAdjacentForm_ne_err k 5
    beta_reduce
    generalize Point.collect (ks.toList.map (Scalar.nonAdjacentForm · 5)) = r at h ⊢
    cases r
    · intro h'; cases h'
    · exact absurd rfl h
    · intro h'; cases h'
  exact key _ rfl

theorem ofRes_kind_err {α} {σ : Store} {r : Res α} {put : α → Store}
    (h : (Api.ofRes σ r put).2.kind = .err) : r = .err := by
  cases r
  · cases h
  · rfl
  · cases h

/-- C14: an error can only be reported by one of the fallible setters -/
theorem C14_err_only_setters {σ : Store} {op : Op} (h : (Api.step σ op).2.kind = .err) :
    op.IsFallibleSetter := by
  cases op
  case eSetBytes => trivial
  case eSetWideBytes => trivial
  case sSetBytes => trivial
  case pSetBytes => trivial
  case pSetExtCoords => trivial
  case pScalarBaseMult v x =>
    simp only [Api.step] at h
    split at h
    · exact absurd (ofRes_kind_err h) (scalarBaseMult_ne_err _)
    · cases h
  case pScalarMult v x q =>
    simp only [Api.step] at h
    split at h
    · split at h
      · cases h
      · exact absurd (ofRes_kind_err h) (scalarMult_ne_err _ _)
    · cases h
  case pVarTimeDouble v a A b =>
    simp only [Api.step] at h
    split at h
    · split at h
      · cases h
      · exact absurd (ofRes_kind_err h) (varTimeDouble_ne_err _ _ _)
    · cases h
  case pMSM vt v xs qs =>
    simp only [Api.step] at h
    split at h
    · split at h
      · cases h
      · split at h
        · cases h
        · have := ofRes_kind_err h
          cases vt
          · exact absurd this (multiScalarMult_ne_err _ _)
          · exact absurd this (varTimeMultiScalarMult_ne_err _ _)
    · cases h
  all_goals
    exfalso
    revert h
    simp only [Api.step, Api.okO, Api.badO, Api.retO, Api.uninitP, Api.panicO]
    (repeat' split) <;> (intro h; cases h)

/-! ### frame: which slots a call may write -/

/-- the `Element` slots an operation may write -/
def _root_.EdVerif.Impl.Op.wE : Op → List String
  | .eNew n => [n]
  | .eLimbs n _ => [n]
  | .eConst _ v => [v]
  | .e1 _ v _ => [v]
  | .e2 _ v _ _ => [v]
  | .eMult32 v _ _ => [v]
  | .eSelect v _ _ _ => [v]
  | .eSwap v u _ => [v, u]
  | .eSqrtRatio r _ _ => [r]
  | .eSetBytes v _ => [v]
  | .eSetWideBytes v _ => [v]
  | .pExtCoords _ X Y Z T => [X, Y, Z, T]
  | _ => []

/-- the `Scalar` slots an operation may write -/
def _root_.EdVerif.Impl.Op.wS : Op → List String
  | .sNew n => [n]
  | .sLimbs n _ => [n]
  | .s1 _ s _ => [s]
  | .s2 _ s _ _ => [s]
  | .sMultiplyAdd s _ _ _ => [s]
  | .sSetBytes _ s _ => [s]
  | _ => []

/-- the `Point` slots an operation may write -/
def _root_.EdVerif.Impl.Op.wP : Op → List String
  | .pNew n => [n]
  | .pLimbs n _ => [n]
  | .pNewIdentity v => [v]
  | .pNewGenerator v => [v]
  | .pSet v _ => [v]
  | .pSetBytes v _ => [v]
  | .p1 _ v _ => [v]
  | .p2 _ v _ _ => [v]
  | .pSetExtCoords v _ _ _ _ => [v]
  | .pScalarBaseMult v _ => [v]
  | .pScalarMult v _ _ => [v]
  | .pVarTimeDouble v _ _ _ => [v]
  | .pMSM _ v _ _ => [v]
  | _ => []

/-- the byte-string slots an operation may write: only the declared outputs of the encoders (and
the harness's `bSet`) -/
def _root_.EdVerif.Impl.Op.wB : Op → List String
  | .bSet n _ => [n]
  | .eBytes _ out => [out]
  | .sBytes _ out => [out]
  | .pBytes _ out => [out]
  | .pBytesMontgomery _ out => [out]
  | _ => []

theorem insert_frame {α} (m : Std.HashMap String α) {k n : String} (x : α) (h : n ≠ k) :
    (m.insert k x)[n]? = m[n]? := by
  rw [Std.HashMap.getElem?_insert]
  have : (k == n) = false := by
    rw [beq_eq_false_iff_ne]; exact fun e => h e.symm
  rw [this]; rfl

theorem ofRes_frame {α β} {σ : Store} {r : Res α} {put : α → Store} (proj : Store → β)
    (h : ∀ a, proj (put a) = proj σ) : proj (Api.ofRes σ r put).1 = proj σ := by
  cases r
  · exact h _
  · rfl
  · rfl

/-- a call writes at most the `e`-slots listed in `Op.wE` -/
theorem frame_e {σ : Store} {op : Op} {n : String} (hn : n ∉ op.wE) :
    (Api.step σ op).1.e[n]? = σ.e[n]? := by
  cases op
  case eSwap v u cond =>
    simp only [Op.wE, List.mem_cons, List.not_mem_nil, or_false, not_or] at hn
    simp only [Api.step]
    split
    · exact (insert_frame _ _ hn.2).trans (insert_frame _ _ hn.1)
    · with_reducible rfl
  case pExtCoords v X Y Z T =>
    simp only [Op.wE, List.mem_cons, List.not_mem_nil, or_false, not_or] at hn
    simp only [Api.step]
    split
    · split
      · with_reducible rfl
      · exact (insert_frame _ _ hn.2.2.2).trans ((insert_frame _ _ hn.2.2.1).trans
          ((insert_frame _ _ hn.2.1).trans (insert_frame _ _ hn.1)))
    · with_reducible rfl
  all_goals
    simp only [Api.step, Op.wE, List.mem_cons, List.not_mem_nil, or_false] at hn ⊢ <;>
    (repeat' split) <;>
    first
      | with_reducible rfl
      | with_reducible exact insert_frame _ _ hn
      | with_reducible exact ofRes_frame (fun σ => σ.e[n]?) (fun _ => by with_reducible rfl)

/-- a call writes at most the `s`-slots listed in `Op.wS` -/
theorem frame_s {σ : Store} {op : Op} {n : String} (hn : n ∉ op.wS) :
    (Api.step σ op).1.s[n]? = σ.s[n]? := by
  cases op
  all_goals
    simp only [Api.step, Op.wS, List.mem_cons, List.not_mem_nil, or_false] at hn ⊢ <;>
    (repeat' split) <;>
    first
      | with_reducible rfl
      | with_reducible exact insert_frame _ _ hn
      | with_reducible exact ofRes_frame (fun σ => σ.s[n]?) (fun _ => by with_reducible rfl)
      | with_reducible exact ofRes_frame (fun σ => σ.s[n]?) (fun _ => insert_frame _ _ hn)

/-- a call writes at most the `p`-slots listed in `Op.wP` -/
theorem frame_p {σ : Store} {op : Op} {n : String} (hn : n ∉ op.wP) :
    (Api.step σ op).1.p[n]? = σ.p[n]? := by
  cases op
  all_goals
    simp only [Api.step, Op.wP, List.mem_cons, List.not_mem_nil, or_false] at hn ⊢ <;>
    (repeat' split) <;>
    first
      | with_reducible rfl
      | with_reducible exact insert_frame _ _ hn
      | with_reducible exact ofRes_frame (fun σ => σ.p[n]?) (fun _ => by with_reducible rfl)
      | with_reducible exact ofRes_frame (fun σ => σ.p[n]?) (fun _ => insert_frame _ _ hn)

/-- a call writes at most the `b`-slots listed in `Op.wB` -/
theorem frame_b {σ : Store} {op : Op} {n : String} (hn : n ∉ op.wB) :
    (Api.step σ op).1.b[n]? = σ.b[n]? := by
  cases op
  all_goals
    simp only [Api.step, Op.wB, List.mem_cons, List.not_mem_nil, or_false] at hn ⊢ <;>
    (repeat' split) <;>
    first
      | with_reducible rfl
      | with_reducible exact insert_frame _ _ hn
      | with_reducible exact ofRes_frame (fun σ => σ.b[n]?) (fun _ => by with_reducible rfl)

/-- C14, inputs are never modified: an operation that has no declared byte-string output (in
particular every setter, whose input is a byte string) leaves all byte strings as they were -/
theorem b_unchanged {σ : Store} {op : Op} (h : op.wB = []) : (Api.step σ op).1.b = σ.b := by
  cases op
  case bSet => cases h
  case eBytes => cases h
  case sBytes => cases h
  case pBytes => cases h
  case pBytesMontgomery => cases h
  all_goals
    simp only [Api.step] <;>
    (repeat' split) <;>
    first
      | with_reducible rfl
      | with_reducible exact ofRes_frame (fun σ => σ.b) (fun _ => by with_reducible rfl)

/-- the five fallible setters leave their input byte string / coordinates alone: the only slot
they may write is the receiver -/
theorem setter_frame {σ : Store} {op : Op} (h : op.IsFallibleSetter) :
    (Api.step σ op).1.b = σ.b ∧
    (∀ n, n ∉ op.wE → (Api.step σ op).1.e[n]? = σ.e[n]?) ∧
    (∀ n, n ∉ op.wS → (Api.step σ op).1.s[n]? = σ.s[n]?) ∧
    (∀ n, n ∉ op.wP → (Api.step σ op).1.p[n]? = σ.p[n]?) := by
  refine ⟨b_unchanged ?_, fun _ => frame_e, fun _ => frame_s, fun _ => frame_p⟩
  cases op <;> first | rfl | exact absurd h id

end EdVerif.Proofs
