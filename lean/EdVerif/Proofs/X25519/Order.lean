import EdVerif.Proofs.PointLayerDecode
/-!
# `l • B = 0`: the base point has order dividing `l`

Proved by kernel evaluation (`decide +kernel` only) of a small, verified double-and-add on
projective coordinates `(X : Y : Z)` over `ℕ` modulo `p`:

* `paddF` — the complete projective addition law of the twisted Edwards curve (`add-2008-bbjlp`, `a = -1`), proved to
  represent the group law of `Spec.Ed25519` for *all* pairs of points (`PRep.add`);
* `paddN` — the same formulas on canonical representatives in `ℕ` (no subtraction: `-E` is `(p-1)·E`), whose cast to
  `ZMod p` is `paddF` (`cast_paddN`);
* `smulAux` — right-to-left double-and-add, structural on a fuel argument, evaluated by the kernel on `n = l`.
-/
namespace EdVerif.Proofs.X25519
open EdVerif.Spec EdVerif.Proofs

/-- complete projective addition over the field -/
def paddF (p q : F × F × F) : F × F × F :=
  let A := p.2.2 * q.2.2
  let B := A * A
  let C := p.1 * q.1
  let D' := p.2.1 * q.2.1
  let E := d * C * D'
  let Fm := B - E
  let G := B + E
  (A * Fm * (p.1 * q.2.1 + p.2.1 * q.1), A * G * (D' + C), Fm * G)

/-- the same on canonical representatives -/
def paddN (p q : ℕ × ℕ × ℕ) : ℕ × ℕ × ℕ :=
  let A := p.2.2 * q.2.2 % EdVerif.P
  let B := A * A % EdVerif.P
  let C := p.1 * q.1 % EdVerif.P
  let D' := p.2.1 * q.2.1 % EdVerif.P
  let E := EdVerif.D * C % EdVerif.P * D' % EdVerif.P
  let Fm := (B + (EdVerif.P - 1) * E) % EdVerif.P
  let G := (B + E) % EdVerif.P
  (A * Fm % EdVerif.P * (p.1 * q.2.1 + p.2.1 * q.1) % EdVerif.P, A * G % EdVerif.P * (D' + C) % EdVerif.P,
    Fm * G % EdVerif.P)

def castT (p : ℕ × ℕ × ℕ) : F × F × F := ((p.1 : F), (p.2.1 : F), (p.2.2 : F))

theorem cast_P_sub_one : ((EdVerif.P - 1 : ℕ) : F) = -1 := by
  rw [Nat.cast_sub (by decide +kernel : 1 ≤ EdVerif.P)]
  simp

theorem cast_paddN (p q : ℕ × ℕ × ℕ) : castT (paddN p q) = paddF (castT p) (castT q) := by
  obtain ⟨X1, Y1, Z1⟩ := p
  obtain ⟨X2, Y2, Z2⟩ := q
  simp only [castT, paddN, paddF, Prod.mk.injEq, ZMod.natCast_mod, Nat.cast_mul, Nat.cast_add,
    cast_P_sub_one, Spec.d]
  exact ⟨by ring, trivial, by ring⟩

/-- `(X : Y : Z)` are projective coordinates of the Edwards point `Q` -/
def PRep (p : F × F × F) (Q : Ed25519) : Prop := p.2.2 ≠ 0 ∧ p.1 = Q.x * p.2.2 ∧ p.2.1 = Q.y * p.2.2

theorem PRep.add {p q : F × F × F} {P Q : Ed25519} (hp : PRep p P) (hq : PRep q Q) :
    PRep (paddF p q) (P + Q) := by
  obtain ⟨X1, Y1, Z1⟩ := p
  obtain ⟨X2, Y2, Z2⟩ := q
  obtain ⟨hz1, hx1, hy1⟩ := hp
  obtain ⟨hz2, hx2, hy2⟩ := hq
  simp only at hz1 hx1 hy1 hz2 hx2 hy2
  subst hx1 hy1 hx2 hy2
  have hDp := den_plus_ne_zero (Ed25519.onCurve P) (Ed25519.onCurve Q)
  have hDm := den_minus_ne_zero (Ed25519.onCurve P) (Ed25519.onCurve Q)
  have hz : Z1 * Z2 ≠ 0 := mul_ne_zero hz1 hz2
  simp only [PRep, paddF]
  have eF : Z1 * Z2 * (Z1 * Z2) - d * (P.x * Z1 * (Q.x * Z2)) * (P.y * Z1 * (Q.y * Z2))
      = (Z1 * Z2) ^ 2 * (1 - d * P.x * Q.x * P.y * Q.y) := by ring
  have eG : Z1 * Z2 * (Z1 * Z2) + d * (P.x * Z1 * (Q.x * Z2)) * (P.y * Z1 * (Q.y * Z2))
      = (Z1 * Z2) ^ 2 * (1 + d * P.x * Q.x * P.y * Q.y) := by ring
  rw [eF, eG, Ed25519.add_x, Ed25519.add_y]
  refine ⟨mul_ne_zero (mul_ne_zero (pow_ne_zero _ hz) hDm) (mul_ne_zero (pow_ne_zero _ hz) hDp), ?_, ?_⟩
  · rw [div_mul_eq_mul_div, eq_div_iff hDp]; ring
  · rw [div_mul_eq_mul_div, eq_div_iff hDm]; ring

def force (p : ℕ × ℕ × ℕ) : ℕ := p.1 + p.2.1 + p.2.2

/-- right-to-left double-and-add, structural on fuel: `acc + n • b` -/
def smulAux : ℕ → ℕ × ℕ × ℕ → ℕ → ℕ × ℕ × ℕ → ℕ × ℕ × ℕ
  | 0, _, _, acc => acc
  | fuel + 1, b, n, acc =>
    if n = 0 then acc else
    -- the (semantically void) test forces the kernel to evaluate the state at every step
    if force b + force acc = 0 then
      smulAux fuel (paddN b b) (n / 2) (if n % 2 = 1 then paddN acc b else acc)
    else smulAux fuel (paddN b b) (n / 2) (if n % 2 = 1 then paddN acc b else acc)

theorem smulAux_rep (fuel : ℕ) : ∀ (b : ℕ × ℕ × ℕ) (n : ℕ) (acc : ℕ × ℕ × ℕ) (Bp A : Ed25519),
    n < 2 ^ fuel → PRep (castT b) Bp → PRep (castT acc) A →
    PRep (castT (smulAux fuel b n acc)) (A + n • Bp) := by
  induction fuel with
  | zero =>
    intro b n acc Bp A hn _ ha
    have : n = 0 := by simpa using hn
    subst this
    simpa [smulAux] using ha
  | succ k ih =>
    intro b n acc Bp A hn hb ha
    unfold smulAux
    split
    · next h => subst h; simpa using ha
    · next h =>
      rw [ite_self]
      have hlt : n / 2 < 2 ^ k := by
        rw [Nat.div_lt_iff_lt_mul (by norm_num)]; rw [pow_succ] at hn; omega
      have hbb : PRep (castT (paddN b b)) (Bp + Bp) := by rw [cast_paddN]; exact hb.add hb
      have hnn : n = 2 * (n / 2) + n % 2 := (Nat.div_add_mod n 2).symm
      split
      · next h1 =>
        have hab : PRep (castT (paddN acc b)) (A + Bp) := by rw [cast_paddN]; exact ha.add hb
        have := ih _ (n / 2) _ _ _ hlt hbb hab
        have e : A + n • Bp = A + Bp + (n / 2) • (Bp + Bp) := by
          conv_lhs => rw [hnn, h1]
          rw [add_smul, mul_smul, one_smul, two_smul, smul_add]; abel
        rw [e]; exact this
      · next h1 =>
        have h0 : n % 2 = 0 := by omega
        have := ih _ (n / 2) _ _ _ hlt hbb ha
        have e : A + n • Bp = A + (n / 2) • (Bp + Bp) := by
          conv_lhs => rw [hnn, h0]
          rw [add_zero, mul_smul, two_smul, smul_add]
        rw [e]; exact this

/-- the executed check: double-and-add of `l` on `(Bx : By : 1)` ends in `(0 : Y : Y)` -/
theorem L_check :
    (smulAux 253 (Bx, By, 1) EdVerif.L (0, 1, 1)).1 = 0 ∧
    (smulAux 253 (Bx, By, 1) EdVerif.L (0, 1, 1)).2.1 = (smulAux 253 (Bx, By, 1) EdVerif.L (0, 1, 1)).2.2 := by
  decide +kernel

theorem eq_zero_of_check {r : ℕ × ℕ × ℕ} {Q : Ed25519} (h : PRep (castT r) Q) (c1 : r.1 = 0)
    (c2 : r.2.1 = r.2.2) : Q = 0 := by
  obtain ⟨X, Y, Z⟩ := r
  simp only at c1 c2
  subst c1 c2
  obtain ⟨hz, hx, hy⟩ := h
  simp only [castT, Nat.cast_zero] at hz hx hy
  ext
  · rw [Ed25519.zero_x]
    exact (mul_eq_zero.mp hx.symm).resolve_right hz
  · rw [Ed25519.zero_y]
    have : (Q.y - 1) * (Y : F) = 0 := by linear_combination -hy
    have := (mul_eq_zero.mp this).resolve_right hz
    linear_combination this

theorem basepoint_prep : PRep (castT (Bx, By, 1)) basepoint := by
  refine ⟨?_, ?_, ?_⟩
  · simp [castT]
  · simp [castT, basepoint]
  · simp [castT, basepoint]

theorem zero_prep : PRep (castT (0, 1, 1)) (0 : Ed25519) := by
  refine ⟨?_, ?_, ?_⟩ <;> simp [castT]

/-- the base point is annihilated by `l` -/
theorem L_smul_basepoint : EdVerif.L • basepoint = 0 := by
  have h := smulAux_rep 253 _ EdVerif.L _ _ _ (by decide +kernel) basepoint_prep zero_prep
  rw [zero_add] at h
  exact eq_zero_of_check h L_check.1 L_check.2

/-- scalars act on `B` modulo `l` -/
theorem mod_L_smul_basepoint (k : ℕ) : (k % EdVerif.L) • basepoint = k • basepoint := by
  conv_rhs => rw [← Nat.mod_add_div' k EdVerif.L]
  rw [add_smul, mul_smul, L_smul_basepoint, smul_zero, add_zero]

end EdVerif.Proofs.X25519
