import EdVerif.Spec.X25519
import Mathlib.Tactic.Ring
import Mathlib.Tactic.FieldSimp
import Mathlib.Tactic.LinearCombination
/-!
# The Montgomery `u`-line of edwards25519, projectively

`u(P) = (1 + y) / (1 - y)`.  A pair `(X, Z)` *represents* the Edwards point `P` when it is a non-zero
multiple of `(1 + y, 1 - y)`.  The neutral element `(0, 1)` is represented by `(X, 0)`, `X ≠ 0`; the
point `(0, -1)` of order two by `(0, Z)`, `Z ≠ 0`.

This file proves that the two formulas of the RFC 7748 ladder step are the doubling and the differential
addition of the Edwards group on such representatives, *including* all degenerate cases (no hypothesis on the
order of the points).
-/
namespace EdVerif.Proofs.X25519
open EdVerif.Spec

/-- `(X, Z)` is a non-zero multiple of `(1 + y, 1 - y)` -/
def Rep (X Z : F) (P : Ed25519) : Prop := ∃ l : F, l ≠ 0 ∧ X = l * (1 + P.y) ∧ Z = l * (1 - P.y)

/-- the cross-multiplied form of `Rep` -/
theorem rep_of_cross {X Z : F} {P : Ed25519} (hne : X ≠ 0 ∨ Z ≠ 0)
    (h : X * (1 - P.y) = Z * (1 + P.y)) : Rep X Z P := by
  have h2 := Spec.two_ne_zero
  refine ⟨(X + Z) / 2, ?_, ?_, ?_⟩
  · intro h0
    have hs : X + Z = 0 := by
      rcases div_eq_zero_iff.mp h0 with h | h
      · exact h
      · exact absurd h h2
    have hd : X - Z = 0 := by linear_combination h + P.y * hs
    have hX : 2 * X = 0 := by linear_combination hs + hd
    have hZ : 2 * Z = 0 := by linear_combination hs - hd
    rcases hne with hh | hh
    · exact hh ((mul_eq_zero.mp hX).resolve_left h2)
    · exact hh ((mul_eq_zero.mp hZ).resolve_left h2)
  · rw [div_mul_eq_mul_div, eq_div_iff h2]; linear_combination h
  · rw [div_mul_eq_mul_div, eq_div_iff h2]; linear_combination -h

theorem Rep.cross {X Z : F} {P : Ed25519} (h : Rep X Z P) : X * (1 - P.y) = Z * (1 + P.y) := by
  obtain ⟨l, -, rfl, rfl⟩ := h; ring

theorem Rep.ne {X Z : F} {P : Ed25519} (h : Rep X Z P) : X ≠ 0 ∨ Z ≠ 0 := by
  obtain ⟨l, hl, rfl, rfl⟩ := h
  by_contra hc
  push Not at hc
  obtain ⟨a, b⟩ := hc
  have : 2 * l = 0 := by linear_combination a + b
  exact hl ((mul_eq_zero.mp this).resolve_left Spec.two_ne_zero)

/-- the affine `u` of a representative, with `0⁻¹ = 0` (so the neutral element has `u = 0`) -/
theorem Rep.u {X Z : F} {P : Ed25519} (h : Rep X Z P) : X * Z⁻¹ = (1 + P.y) * (1 - P.y)⁻¹ := by
  obtain ⟨l, hl, rfl, rfl⟩ := h
  by_cases h0 : 1 - P.y = 0
  · simp [h0]
  · field_simp

theorem rep_zero : Rep 1 0 0 := rep_of_cross (Or.inl one_ne_zero) (by simp)

/-! ### the ladder-step formulas -/

/-- `x_2 = AA * BB` -/
def dblX (X Z : F) : F := (X + Z) ^ 2 * (X - Z) ^ 2
/-- `z_2 = E * (AA + a24 * E)` -/
def dblZ (X Z : F) : F := ((X + Z) ^ 2 - (X - Z) ^ 2) * ((X + Z) ^ 2 + 121665 * ((X + Z) ^ 2 - (X - Z) ^ 2))
/-- `x_3 = (DA + CB)^2` -/
def daddX (X2 Z2 X3 Z3 : F) : F := ((X3 - Z3) * (X2 + Z2) + (X3 + Z3) * (X2 - Z2)) ^ 2
/-- `z_3 = x_1 * (DA - CB)^2` -/
def daddZ (x1 X2 Z2 X3 Z3 : F) : F := x1 * ((X3 - Z3) * (X2 + Z2) - (X3 + Z3) * (X2 - Z2)) ^ 2

theorem c16_ne_zero : (16 : F) ≠ 0 := by
  have : (16 : F) = 2 ^ 4 := by norm_num
  rw [this]; exact pow_ne_zero _ Spec.two_ne_zero

/-- the doubling identity, as polynomials modulo the curve equation and `121666 d = -121665` -/
theorem dbl_poly (l x y d : F) (h1 : -x ^ 2 + y ^ 2 - 1 - d * x ^ 2 * y ^ 2 = 0)
    (h2 : d * 121666 + 121665 = 0) :
    dblX (l * (1 + y)) (l * (1 - y)) * ((1 - d * x * x * y * y) - (y * y + x * x)) =
    dblZ (l * (1 + y)) (l * (1 - y)) * ((1 - d * x * x * y * y) + (y * y + x * x)) := by
  unfold dblX dblZ
  linear_combination
    (-16 * l ^ 4 * (121665 * y ^ 4 - 243332 * y ^ 2 + 121666) + 32 * l ^ 4 * (1 - y ^ 2) * 121666) * h1
      + 32 * l ^ 4 * (1 - y ^ 2) * x ^ 2 * y ^ 2 * h2

/-- doubling on representatives, for every point -/
theorem Rep.dbl {X Z : F} {P : Ed25519} (h : Rep X Z P) : Rep (dblX X Z) (dblZ X Z) (P + P) := by
  obtain ⟨l, hl, rfl, rfl⟩ := h
  have hon := Ed25519.onCurve P
  unfold onCurve at hon
  have hD := den_minus_ne_zero (Ed25519.onCurve P) (Ed25519.onCurve P)
  have hdd : d * 121666 + 121665 = 0 := by linear_combination d_eq
  apply rep_of_cross
  · by_contra hc
    push Not at hc
    obtain ⟨a, b⟩ := hc
    have e1 : dblX (l * (1 + P.y)) (l * (1 - P.y)) = 16 * l ^ 4 * P.y ^ 2 := by unfold dblX; ring
    have e2 : dblZ (l * (1 + P.y)) (l * (1 - P.y))
        = 16 * l ^ 4 * ((1 - P.y ^ 2) * (121666 - 121665 * P.y ^ 2)) := by unfold dblZ; ring
    rw [e1] at a
    rw [e2] at b
    have hl4 : 16 * l ^ 4 ≠ 0 := mul_ne_zero c16_ne_zero (pow_ne_zero _ hl)
    have hy : P.y = 0 := by
      have := (mul_eq_zero.mp a).resolve_left hl4
      exact pow_eq_zero_iff (n := 2) (by norm_num) |>.mp this
    have hb := (mul_eq_zero.mp b).resolve_left hl4
    rw [hy] at hb
    apply c121666_ne_zero
    linear_combination hb
  · rw [Ed25519.add_y]
    rw [one_sub_div hD, one_add_div hD, ← mul_div_assoc, ← mul_div_assoc]
    congr 1
    exact dbl_poly l P.x P.y d (by linear_combination hon) hdd

/-- the differential-addition identity, as polynomials modulo the two curve equations -/
theorem dadd_poly (x1 y1 x2 y2 d : F) (h1 : -x1 ^ 2 + y1 ^ 2 - 1 - d * x1 ^ 2 * y1 ^ 2 = 0)
    (h2 : -x2 ^ 2 + y2 ^ 2 - 1 - d * x2 ^ 2 * y2 ^ 2 = 0) :
    (y1 + y2) ^ 2 * ((1 - d * x1 * x2 * y1 * y2) - (y1 * y2 + x1 * x2))
        * ((1 + d * x2 * x1 * y2 * y1) - (y2 * y1 - x2 * x1)) =
    (y2 - y1) ^ 2 * ((1 - d * x1 * x2 * y1 * y2) + (y1 * y2 + x1 * x2))
        * ((1 + d * x2 * x1 * y2 * y1) + (y2 * y1 - x2 * x1)) := by
  linear_combination (4 * x2 ^ 2 * y1 * y2 * (d * y2 ^ 2 + 1)) * h1 + (4 * y1 * y2 * (y1 ^ 2 - 1)) * h2

/-- differential addition on representatives: `u` is the affine `u`-coordinate of `Q - P`, which must not be
the neutral element, the point of order two, or (only used for non-degeneracy) a point of order four -/
theorem Rep.dadd {X2 Z2 X3 Z3 u : F} {P Q : Ed25519} (hP : Rep X2 Z2 P) (hQ : Rep X3 Z3 Q)
    (hu : u * (1 - (Q - P).y) = 1 + (Q - P).y) (hu0 : u ≠ 0) (hne : (Q - P).y ^ 2 ≠ 1) :
    Rep (daddX X2 Z2 X3 Z3) (daddZ u X2 Z2 X3 Z3) (P + Q) := by
  obtain ⟨l, hl, rfl, rfl⟩ := hP
  obtain ⟨m, hm, rfl, rfl⟩ := hQ
  have hon1 := Ed25519.onCurve P
  have hon2 := Ed25519.onCurve Q
  have hDm := den_minus_ne_zero hon1 hon2
  have hDp := den_plus_ne_zero hon2 hon1
  unfold onCurve at hon1 hon2
  have f1 : -P.x ^ 2 + P.y ^ 2 - 1 - d * P.x ^ 2 * P.y ^ 2 = 0 := by linear_combination hon1
  have f2 : -Q.x ^ 2 + Q.y ^ 2 - 1 - d * Q.x ^ 2 * Q.y ^ 2 = 0 := by linear_combination hon2
  have eX : daddX (l * (1 + P.y)) (l * (1 - P.y)) (m * (1 + Q.y)) (m * (1 - Q.y))
      = 16 * l ^ 2 * m ^ 2 * (P.y + Q.y) ^ 2 := by unfold daddX; ring
  have eZ : daddZ u (l * (1 + P.y)) (l * (1 - P.y)) (m * (1 + Q.y)) (m * (1 - Q.y))
      = u * (16 * l ^ 2 * m ^ 2 * (Q.y - P.y) ^ 2) := by unfold daddZ; ring
  have hlm : 16 * l ^ 2 * m ^ 2 ≠ 0 :=
    mul_ne_zero (mul_ne_zero c16_ne_zero (pow_ne_zero _ hl)) (pow_ne_zero _ hm)
  rw [Ed25519.sub_y] at hu hne
  rw [eX, eZ]
  apply rep_of_cross
  · by_contra hc
    push Not at hc
    obtain ⟨a, b⟩ := hc
    have ha : P.y + Q.y = 0 :=
      pow_eq_zero_iff (n := 2) (by norm_num) |>.mp ((mul_eq_zero.mp a).resolve_left hlm)
    have hb : Q.y - P.y = 0 :=
      pow_eq_zero_iff (n := 2) (by norm_num) |>.mp
        ((mul_eq_zero.mp ((mul_eq_zero.mp b).resolve_left hu0)).resolve_left hlm)
    have hy1 : P.y = 0 := by
      have : 2 * P.y = 0 := by linear_combination ha - hb
      exact (mul_eq_zero.mp this).resolve_left Spec.two_ne_zero
    have hy2 : Q.y = 0 := by linear_combination hb + hy1
    apply hne
    have g1 : P.x ^ 2 = -1 := by rw [hy1] at f1; linear_combination -f1
    have g2 : Q.x ^ 2 = -1 := by rw [hy2] at f2; linear_combination -f2
    have e : (Q.y * P.y - Q.x * P.x) / (1 + d * Q.x * P.x * Q.y * P.y) = -(Q.x * P.x) := by
      rw [hy1, hy2]; simp
    rw [e]
    linear_combination Q.x ^ 2 * g1 - g2
  · rw [Ed25519.add_y]
    set Np := P.y * Q.y + P.x * Q.x with hNp
    set Dm := 1 - d * P.x * Q.x * P.y * Q.y with hDm'
    set Nm := Q.y * P.y - Q.x * P.x with hNm
    set Dp := 1 + d * Q.x * P.x * Q.y * P.y with hDp'
    have hu' : u * (Dp - Nm) = Dp + Nm := by
      rw [one_sub_div hDp, one_add_div hDp, ← mul_div_assoc] at hu
      exact (div_left_inj' hDp).mp hu
    have hne' : Dp - Nm ≠ 0 := by
      intro h0
      rw [h0, mul_zero] at hu'
      apply hne
      have : Nm / Dp = 1 := by rw [div_eq_one_iff_eq hDp]; linear_combination h0 * (-1 : F)
      rw [this]; ring
    rw [one_sub_div hDm, one_add_div hDm, ← mul_div_assoc, ← mul_div_assoc]
    congr 1
    apply mul_right_cancel₀ hne'
    have key := dadd_poly P.x P.y Q.x Q.y d f1 f2
    rw [← hNp, ← hDm', ← hNm, ← hDp'] at key
    clear_value Np Dm Nm Dp
    linear_combination (16 * l ^ 2 * m ^ 2) * key
      - (16 * l ^ 2 * m ^ 2 * (Q.y - P.y) ^ 2 * (Dm + Np)) * hu'

end EdVerif.Proofs.X25519
