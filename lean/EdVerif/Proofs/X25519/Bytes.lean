import EdVerif.Spec.X25519
import EdVerif.Proofs.ScalarZ
import EdVerif.Proofs.FieldFacts
/-!
# Byte-level glue between the RFC 7748 specification (`List ℕ`) and the model (`Bytes = Array ℕ`)

* `encodeU u` is `LEbytes u.val 32`;
* `decodeU nine = 9`;
* `decodeScalar x` (RFC 7748: `k[0] &= 248; k[31] &= 127; k[31] |= 64`) is the arithmetic clamp `Scalar.clamp (LE x)`
  used by C08 for `SetBytesWithClamping` (RFC 8032: `… k[31] &= 63 …`; the two agree on bytes).
-/
namespace EdVerif.Proofs.X25519
open EdVerif.Proofs EdVerif.Spec EdVerif.Spec.X25519 EdVerif.Prims

theorem encodeU_eq (u : F) : encodeU u = (LEbytes u.val 32).toList := by
  unfold encodeU LEbytes
  rw [Array.toList_ofFn, List.ofFn_eq_map]
  apply List.ext_getElem
  · simp
  · intro i h1 h2
    simp

theorem decodeU_nine : decodeU nine = 9 := by
  have : leVal (nine.set 31 (nine[31]! &&& 127)) = 9 := by decide +kernel
  unfold decodeU
  simp only [this]
  norm_num

theorem leVal_eq (l : List ℕ) : leVal l = Scalar.LE l.toArray := by
  unfold Scalar.LE
  rw [List.foldr_toArray]
  induction l with
  | nil => rfl
  | cons a l ih => simp [leVal, ih]

theorem toList_get (x : Bytes) (i : ℕ) : x.toList[i]! = x[i]! := by
  rw [getElem!_def, getElem!_def]; simp

theorem toArray_get (l : List ℕ) (i : ℕ) : l.toArray[i]! = l[i]! := by
  rw [getElem!_def, getElem!_def]; simp

theorem list_set_get (l : List ℕ) (i j v : ℕ) :
    (l.set i v)[j]! = if i = j ∧ i < l.length then v else l[j]! := by
  rw [List.getElem!_eq_getElem?_getD, List.getElem!_eq_getElem?_getD, List.getElem?_set]
  by_cases h : i = j
  · subst h
    by_cases h2 : i < l.length
    · simp [h2]
    · simp [h2]
  · simp [h]

theorem and127_or64 : ∀ b, b < 256 → (b &&& 127) ||| 64 = (b &&& 63) ||| 64 := by decide +kernel

/-- RFC 7748 `decodeScalar25519` is the arithmetic clamp of C08 -/
theorem decodeScalar_eq (x : Bytes) (hx : x.size = 32) (hb : Scalar.IsBytes x) :
    decodeScalar x.toList = Scalar.clamp (Scalar.LE x) := by
  have hl : x.toList.length = 32 := by simpa using hx
  unfold decodeScalar
  simp only
  rw [leVal_eq, Scalar.LE_eq_leFrom, Scalar.LE_eq_leFrom x, hx]
  have hs : (((x.toList.set 0 (x.toList[0]! &&& 248)).set 31
      ((x.toList.set 0 (x.toList[0]! &&& 248))[31]! &&& 127)).set 31
      (((x.toList.set 0 (x.toList[0]! &&& 248)).set 31
      ((x.toList.set 0 (x.toList[0]! &&& 248))[31]! &&& 127))[31]! ||| 64)).toArray.size = 32 := by
    simp [hl]
  rw [hs]
  apply Scalar.clamp_core x _ hb
  · simp only [toArray_get, list_set_get, toList_get, List.length_set, hl]
    simp
  · simp only [toArray_get, list_set_get, toList_get, List.length_set, hl]
    simp only [Nat.lt_add_one, and_self, Nat.reduceLT, and_true, OfNat.zero_ne_ofNat, if_true, if_false]
    exact and127_or64 _ (Scalar.isBytes_all hb 31)
  · intro i hi
    simp only [toArray_get, list_set_get, toList_get, List.length_set, hl]
    have h1 : ¬ (31 = 1 + i ∧ 31 < 32) := by omega
    have h2 : ¬ (0 = 1 + i ∧ 0 < 32) := by omega
    simp only [h1, h2, if_false]

theorem clamp_lt (n : ℕ) : Scalar.clamp n < 2 ^ 255 := by
  unfold Scalar.clamp
  omega

end EdVerif.Proofs.X25519
