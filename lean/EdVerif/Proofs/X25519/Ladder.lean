import EdVerif.Proofs.X25519.Rep
import EdVerif.Proofs.PointLayerDecode
import Mathlib.FieldTheory.Finite.Basic
/-!
# The RFC 7748 ladder on `u = 9` computes `u([k]B)`

Loop invariant: after the top bits `m` of `k` have been processed, and after undoing the pending conditional
swap, `(x_2, z_2)` represents `m • B` and `(x_3, z_3)` represents `(m + 1) • B`.
No hypothesis on `k` other than `k < 2^255` is needed (neither clamping nor the order of `B` is used).
-/
namespace EdVerif.Proofs.X25519
open EdVerif.Spec EdVerif.Spec.X25519 EdVerif.Proofs

/-! ### facts about the base point -/

theorem basepoint_y : basepoint.y = (By : F) := rfl

theorem c9_ne_zero : (9 : F) ≠ 0 := by
  intro h
  have h' : ((9 : ℕ) : F) = 0 := by exact_mod_cast h
  rw [ZMod.natCast_eq_zero_iff] at h'
  exact absurd h' (by decide +kernel)

/-- `u(B) = 9` -/
theorem nine_basepoint : (9 : F) * (1 - basepoint.y) = 1 + basepoint.y := by
  rw [basepoint_y]; linear_combination (-2 : F) * By_eq

/-- `B` is none of the four points with `y = ± 1` … in fact `y(B)^2 = 16/25` -/
theorem basepoint_y_sq_ne_one : basepoint.y ^ 2 ≠ 1 := by
  intro h
  rw [basepoint_y] at h
  apply c9_ne_zero
  linear_combination (-25 : F) * h + ((By : F) * 5 + 4) * By_eq

/-! ### one step -/

/-- the ladder invariant: after un-swapping, `(x2, z2)` represents `m • B` and `(x3, z3)` represents `(m+1) • B` -/
def Inv (m : ℕ) (s : St) : Prop :=
  Rep (cswap s.swap s.x2 s.x3).1 (cswap s.swap s.z2 s.z3).1 (m • basepoint) ∧
  Rep (cswap s.swap s.x2 s.x3).2 (cswap s.swap s.z2 s.z3).2 ((m + 1) • basepoint)

theorem succ_sub (m : ℕ) : (m + 1) • basepoint - m • basepoint = basepoint := by
  rw [add_smul, one_smul, add_sub_cancel_left]

theorem sub_succ_y (m : ℕ) : (m • basepoint - (m + 1) • basepoint).y = basepoint.y := by
  have : m • basepoint - (m + 1) • basepoint = -basepoint := by
    rw [add_smul, one_smul, sub_add_cancel_left]
  rw [this, Ed25519.neg_y]

/-- the two branches of a ladder step on un-swapped representatives -/
theorem step_core {U2 W2 U3 W3 : F} {m : ℕ} (h2 : Rep U2 W2 (m • basepoint))
    (h3 : Rep U3 W3 ((m + 1) • basepoint)) :
    (Rep (dblX U2 W2) (dblZ U2 W2) ((2 * m) • basepoint) ∧
      Rep (daddX U2 W2 U3 W3) (daddZ 9 U2 W2 U3 W3) ((2 * m + 1) • basepoint)) ∧
    (Rep (daddX U3 W3 U2 W2) (daddZ 9 U3 W3 U2 W2) ((2 * m + 1) • basepoint) ∧
      Rep (dblX U3 W3) (dblZ U3 W3) ((2 * m + 1 + 1) • basepoint)) := by
  have e1 : (2 * m) • basepoint = m • basepoint + m • basepoint := by rw [two_mul, add_smul]
  have e2 : (2 * m + 1) • basepoint = m • basepoint + (m + 1) • basepoint := by
    rw [← add_smul]; congr 1; ring
  have e3 : (2 * m + 1) • basepoint = (m + 1) • basepoint + m • basepoint := by
    rw [← add_smul]; congr 1; ring
  have e4 : (2 * m + 1 + 1) • basepoint = (m + 1) • basepoint + (m + 1) • basepoint := by
    rw [← add_smul]; congr 1; ring
  refine ⟨⟨?_, ?_⟩, ?_, ?_⟩
  · rw [e1]; exact h2.dbl
  · rw [e2]
    refine h2.dadd h3 ?_ c9_ne_zero ?_
    · rw [succ_sub]; exact nine_basepoint
    · rw [succ_sub]; exact basepoint_y_sq_ne_one
  · rw [e3]
    refine h3.dadd h2 ?_ c9_ne_zero ?_
    · rw [sub_succ_y]; exact nine_basepoint
    · rw [sub_succ_y]; exact basepoint_y_sq_ne_one
  · rw [e4]; exact h3.dbl

theorem step_inv {m : ℕ} {s : St} (h : Inv m s) (b : Bool) :
    Inv (2 * m + b.toNat) (ladderStep 9 s b) := by
  obtain ⟨x2, z2, x3, z3, sw⟩ := s
  obtain ⟨h2, h3⟩ := h
  cases sw <;> cases b
  · exact (step_core h2 h3).1
  · obtain ⟨a, b⟩ := (step_core h2 h3).2
    exact ⟨a, b⟩
  · exact (step_core h2 h3).1
  · obtain ⟨a, b⟩ := (step_core h2 h3).2
    exact ⟨a, b⟩

/-! ### the loop -/

theorem loop_inv (k : ℕ) : ∀ (t m : ℕ) (s : St), Inv m s →
    Inv (m * 2 ^ t + k % 2 ^ t) (ladderLoop 9 k t s)
  | 0, m, s, h => by simpa [ladderLoop, Nat.mod_one] using h
  | t + 1, m, s, h => by
    have ih := loop_inv k t _ _ (step_inv h (k.testBit t))
    have e : (2 * m + (k.testBit t).toNat) * 2 ^ t + k % 2 ^ t = m * 2 ^ (t + 1) + k % 2 ^ (t + 1) := by
      rw [Nat.toNat_testBit, Nat.mod_pow_succ (b := 2), pow_succ]; ring
    rw [e] at ih
    exact ih

theorem init_inv : Inv 0 { x2 := 1, z2 := 0, x3 := 9, z3 := 1, swap := false } := by
  refine ⟨?_, ?_⟩
  · rw [zero_smul]; exact rep_zero
  · rw [zero_add, one_smul]
    apply rep_of_cross (Or.inl c9_ne_zero)
    show (9 : F) * (1 - basepoint.y) = 1 * (1 + basepoint.y)
    rw [one_mul]; exact nine_basepoint

/-- `z^(p-2) = z⁻¹` in `ZMod p`, including `z = 0` -/
theorem pow_p_sub_two (z : F) : z ^ (EdVerif.P - 2) = z⁻¹ := by
  by_cases hz : z = 0
  · subst hz
    rw [inv_zero, zero_pow (by decide +kernel)]
  · apply eq_inv_of_mul_eq_one_left
    rw [← pow_succ]
    have e : EdVerif.P - 2 + 1 = EdVerif.P - 1 := by decide +kernel
    rw [e]
    exact ZMod.pow_card_sub_one_eq_one hz

/-- mathematics: the RFC ladder on `u = 9` computes the `u`-coordinate of `[k]B`, for every `k < 2^255`
(in particular for every clamped `k`; clamping is not needed) -/
theorem ladder_base (k : ℕ) (hk : k < 2 ^ 255) :
    X25519.ladder k 9 = (1 + (k • basepoint).y) * (1 - (k • basepoint).y)⁻¹ := by
  have h := loop_inv k 255 0 _ init_inv
  rw [zero_mul, zero_add, Nat.mod_eq_of_lt hk] at h
  unfold X25519.ladder
  simp only
  rw [pow_p_sub_two]
  exact h.1.u

end EdVerif.Proofs.X25519
