import EdVerif.Impl.FormulaPrims
/-!
# What each straight-line function above the kernels computes, in terms of the hand-written model

`EdVerif/Gen/Formulas.lean` is regenerated from `/repo` on every run (symbolic execution of the go/ssa
form of each function, once per aliasing pattern of its pointer parameters).  This file says, per Go
function, which `Impl` function of the argument *values* it is claimed to be; the first parameter is
the receiver's prior value.  `EdVerif/Gen/FormulaTies.lean` (generated) proves by `rfl`, for every
function and every aliasing pattern, that the regenerated definition equals the specification below —
so the theorems proved about `Impl` (C02, C05, C06, C13, C16, C17, C01) are theorems about what the
current Go source of these functions computes, whichever arguments share storage (C11 at this level).
-/
namespace EdVerif.FormulaSpec
open EdVerif.Impl EdVerif.Prims

-- field/fe.go (high layer)
def field_Element_Negate (_v a : Fe) : Fe := Fe.neg a
def field_Element_Absolute (_v u : Fe) : Fe := Fe.absolute u
def field_Element_Equal (v u : Fe) : Nat := Fe.equal v u
def field_Element_SqrtRatio (_r u v : Fe) : Fe × Nat := Fe.sqrtRatio u v

-- edwards25519.go: representations
def projP2_Zero (_v : P2) : P2 := Point.P2.zero
def projCached_Zero (_v : Cached) : Cached := Point.Cached.zero
def affineCached_Zero (_v : AffineCached) : AffineCached := Point.AffineCached.zero
def projP2_FromP1xP1 (_v : P2) (p : P1xP1) : P2 := Point.P2.fromP1xP1 p
def projP2_FromP3 (_v : P2) (p : P3) : P2 := Point.P2.fromP3 p
def Point_fromP1xP1 (_v : P3) (p : P1xP1) : P3 := Point.fromP1xP1 p
def Point_fromP2 (_v : P3) (p : P2) : P3 := Point.fromP2 p
def projCached_FromP3 (_v : Cached) (p : P3) : Cached := Point.Cached.fromP3 p
def affineCached_FromP3 (_v : AffineCached) (p : P3) : AffineCached := Point.AffineCached.fromP3 p

-- edwards25519.go: formulas
def projP1xP1_Add (_v : P1xP1) (p : P3) (q : Cached) : P1xP1 := Point.P1xP1.add p q
def projP1xP1_Sub (_v : P1xP1) (p : P3) (q : Cached) : P1xP1 := Point.P1xP1.sub p q
def projP1xP1_AddAffine (_v : P1xP1) (p : P3) (q : AffineCached) : P1xP1 := Point.P1xP1.addAffine p q
def projP1xP1_SubAffine (_v : P1xP1) (p : P3) (q : AffineCached) : P1xP1 := Point.P1xP1.subAffine p q
def projP1xP1_Double (_v : P1xP1) (p : P2) : P1xP1 := Point.P1xP1.double p
def projCached_Select (_v a b : Cached) (cond : Nat) : Cached := Point.Cached.select a b cond
def affineCached_Select (_v a b : AffineCached) (cond : Nat) : AffineCached := Point.AffineCached.select a b cond
def projCached_CondNeg (v : Cached) (cond : Nat) : Cached := Point.Cached.condNeg v cond
def affineCached_CondNeg (v : AffineCached) (cond : Nat) : AffineCached := Point.AffineCached.condNeg v cond

-- edwards25519.go / extra.go: the exported operations that are straight-line (after `checkInitialized`)
def Point_Add (_v p q : P3) : P3 := Point.add p q
def Point_Subtract (_v p q : P3) : P3 := Point.sub p q
def Point_Negate (_v p : P3) : P3 := Point.neg p
def Point_MultByCofactor (_v p : P3) : P3 := Point.multByCofactor p
def Point_Equal (v u : P3) : Nat := Point.equal v u
def Point_bytesMontgomery (v : P3) (_buf : Bytes) : Bytes := Point.bytesMontgomery v

-- encoders, copies, constructors, coordinate export
def Point_bytes (v : P3) (_buf : Bytes) : Bytes := Point.bytes v
def Point_Bytes (v : P3) : Bytes := Point.bytes v
def Point_BytesMontgomery (v : P3) : Bytes := Point.bytesMontgomery v
def Point_Set (_v u : P3) : P3 := u
def NewIdentityPoint : P3 := Point.identity
def NewGeneratorPoint : P3 := Point.generator
def Point_extendedCoordinates (v : P3) (_e : Array Fe) : Fe × Fe × Fe × Fe := (v.x, v.y, v.z, v.t)

-- tables.go: table construction (constant-trip loops, unrolled by the translator)
def projLookupTable_FromP3 (_v : Array Cached) (q : P3) : Array Cached := Point.projTable q
def affineLookupTable_FromP3 (_v : Array AffineCached) (q : P3) : Array AffineCached := Point.affineTable q
def nafLookupTable5_FromP3 (_v : Array Cached) (q : P3) : Array Cached := Point.naf5Table q

-- scalarmult.go: the two constant-time scalar multiplications (64 unrolled iterations each).  The digit recoding
-- (`Scalar.radix16Digits`, total version of `Scalar.signedRadix16`) and the table selections are primitives of the
-- translation; `Point.scalarMult x q = .ok (Point.scalarMultDigits d q)` whenever `Scalar.signedRadix16 x = .ok d` by definition.
def Point_ScalarMult (_v : P3) (x : W4) (q : P3) : P3 := Point.scalarMultDigits (Scalar.radix16Digits x) q
def Point_ScalarBaseMult (_v : P3) (x : W4) : P3 := Point.scalarBaseMultDigits (Scalar.radix16Digits x)

-- addition chains (constant-trip loops, unrolled by the translator)
def field_Element_Invert (_v z : Fe) : Fe := Fe.invert z
def field_Element_Pow22523 (_v x : Fe) : Fe := Fe.pow22523 x

-- extra.go / edwards25519.go: the decoders.  A fallible setter is specified by the pair
-- `(value returned, or none for (nil, error)`, `final value of the receiver)`.
def isOnCurve (X Y Z T : Fe) : Bool := Point.isOnCurve X Y Z T

def Point_SetExtendedCoordinates (v : P3) (X Y Z T : Fe) : Option P3 × P3 :=
  if Point.isOnCurve X Y Z T then (some ⟨X, Y, Z, T⟩, ⟨X, Y, Z, T⟩) else (none, v)

def Point_SetBytes (v : P3) (x : Bytes) : Option P3 × P3 :=
  match Fe.setBytes x with
  | none => (none, v)
  | some y =>
    let y2 := Fe.square y
    let u := Fe.sub y2 Point.feOne
    let vv := Fe.mul y2 Point.d
    let vv := Fe.add vv Point.feOne
    let r := Fe.sqrtRatio u vv
    if r.2 == 0 then (none, v) else
    let xxNeg := Fe.neg r.1
    let xx := Fe.select xxNeg r.1 (x[31]! >>> 7)
    (some ⟨xx, y, Fe.one, Fe.mul xx y⟩, ⟨xx, y, Fe.one, Fe.mul xx y⟩)

/-- the pair form agrees with the model's `Option` form; on failure the receiver is unchanged -/
theorem Point_SetExtendedCoordinates_eq (v : P3) (X Y Z T : Fe) :
    Point_SetExtendedCoordinates v X Y Z T =
      (Point.setExtendedCoordinates X Y Z T, (Point.setExtendedCoordinates X Y Z T).getD v) := by
  unfold Point_SetExtendedCoordinates Point.setExtendedCoordinates
  cases h : Point.isOnCurve X Y Z T <;> simp

theorem Point_SetBytes_eq (v : P3) (x : Bytes) :
    Point_SetBytes v x = (Point.setBytes x, (Point.setBytes x).getD v) := by
  unfold Point_SetBytes Point.setBytes
  cases h : Fe.setBytes x with
  | none => simp
  | some y =>
    simp only []
    by_cases hw : ((Fe.sqrtRatio (Fe.sub (Fe.square y) Point.feOne) (Fe.add (Fe.mul (Fe.square y) Point.d) Point.feOne)).2 == 0) = true
    · simp [hw]
    · simp [hw]

end EdVerif.FormulaSpec
