import EdVerif.Impl.FormulaPrims
/-!
# What each straight-line function above the kernels computes, in terms of the hand-written model

`EdVerif/Gen/Formulas.lean` is regenerated from `/repo` on every run (symbolic execution of the go/ssa
form of each function, once per aliasing pattern of its pointer parameters).  This file says, per Go
function, which `Impl` function of the argument *values* it is claimed to be; the first parameter is
the receiver's prior value.  `EdVerif/Gen/FormulaTies.lean` (generated) proves by `rfl`, for every
function and every aliasing pattern, that the regenerated definition equals the specification below —
so the theorems proved about `Impl` (C02, C05, C06, C13, C16, C17, C01) are theorems about what the
current Go source of these functions computes, whichever arguments share storage (C11 at this level).
-/
namespace EdVerif.FormulaSpec
open EdVerif.Impl EdVerif.Prims EdVerif.Gen

-- field/fe.go (high layer)
def field_Element_Negate (_v a : Fe) : Fe := Fe.neg a
def field_Element_Absolute (_v u : Fe) : Fe := Fe.absolute u
def field_Element_Equal (v u : Fe) : Nat := Fe.equal v u
def field_Element_SqrtRatio (_r u v : Fe) : Fe × Nat := Fe.sqrtRatio u v

-- edwards25519.go: representations
def projP2_Zero (_v : P2) : P2 := Point.P2.zero
def projCached_Zero (_v : Cached) : Cached := Point.Cached.zero
def affineCached_Zero (_v : AffineCached) : AffineCached := Point.AffineCached.zero
def projP2_FromP1xP1 (_v : P2) (p : P1xP1) : P2 := Point.P2.fromP1xP1 p
def projP2_FromP3 (_v : P2) (p : P3) : P2 := Point.P2.fromP3 p
def Point_fromP1xP1 (_v : P3) (p : P1xP1) : P3 := Point.fromP1xP1 p
def Point_fromP2 (_v : P3) (p : P2) : P3 := Point.fromP2 p
def projCached_FromP3 (_v : Cached) (p : P3) : Cached := Point.Cached.fromP3 p
def affineCached_FromP3 (_v : AffineCached) (p : P3) : AffineCached := Point.AffineCached.fromP3 p

-- edwards25519.go: formulas
def projP1xP1_Add (_v : P1xP1) (p : P3) (q : Cached) : P1xP1 := Point.P1xP1.add p q
def projP1xP1_Sub (_v : P1xP1) (p : P3) (q : Cached) : P1xP1 := Point.P1xP1.sub p q
def projP1xP1_AddAffine (_v : P1xP1) (p : P3) (q : AffineCached) : P1xP1 := Point.P1xP1.addAffine p q
def projP1xP1_SubAffine (_v : P1xP1) (p : P3) (q : AffineCached) : P1xP1 := Point.P1xP1.subAffine p q
def projP1xP1_Double (_v : P1xP1) (p : P2) : P1xP1 := Point.P1xP1.double p
def projCached_Select (_v a b : Cached) (cond : Nat) : Cached := Point.Cached.select a b cond
def affineCached_Select (_v a b : AffineCached) (cond : Nat) : AffineCached := Point.AffineCached.select a b cond
def projCached_CondNeg (v : Cached) (cond : Nat) : Cached := Point.Cached.condNeg v cond
def affineCached_CondNeg (v : AffineCached) (cond : Nat) : AffineCached := Point.AffineCached.condNeg v cond

-- edwards25519.go / extra.go: the exported operations that are straight-line (after `checkInitialized`)
def Point_Add (_v p q : P3) : P3 := Point.add p q
def Point_Subtract (_v p q : P3) : P3 := Point.sub p q
def Point_Negate (_v p : P3) : P3 := Point.neg p
def Point_MultByCofactor (_v p : P3) : P3 := Point.multByCofactor p
def Point_Equal (v u : P3) : Nat := Point.equal v u
def Point_bytesMontgomery (v : P3) (_buf : Bytes) : Bytes := Point.bytesMontgomery v

-- encoders, copies, constructors, coordinate export
def Point_bytes (v : P3) (_buf : Bytes) : Bytes := Point.bytes v
def Point_Bytes (v : P3) : Bytes := Point.bytes v
def Point_BytesMontgomery (v : P3) : Bytes := Point.bytesMontgomery v
def Point_Set (_v u : P3) : P3 := u
def NewIdentityPoint : P3 := Point.identity
def NewGeneratorPoint : P3 := Point.generator
def Point_extendedCoordinates (v : P3) (_e : Array Fe) : Fe × Fe × Fe × Fe := (v.x, v.y, v.z, v.t)

-- tables.go: table construction (constant-trip loops, unrolled by the translator)
def projLookupTable_FromP3 (_v : Array Cached) (q : P3) : Array Cached := Point.projTable q
def affineLookupTable_FromP3 (_v : Array AffineCached) (q : P3) : Array AffineCached := Point.affineTable q
def nafLookupTable5_FromP3 (_v : Array Cached) (q : P3) : Array Cached := Point.naf5Table q

-- tables.go: constant-time table selection.  `x int8` is modelled by the integer it denotes; the `int8` operations
-- are the wrapping operations of `EdVerif.Impl.I8`.  Written in the shape of the SSA; `projSelectI8_eq` /
-- `affineSelectI8_eq` below relate them to the model's `Point.projSelect` / `Point.affineSelect` for `-128 ≤ x ≤ 127`.
/-- `xabs := uint8((x + xmask) ^ xmask)` with `xmask := x >> 7` -/
def selectAbs (x : Int) : Nat := I8.toU8 (I8.xor (I8.add x (I8.sar x 7)) (I8.sar x 7))
/-- `int(xmask & 1)` -/
def selectNeg (x : Int) : Nat := I8.toU 64 (I8.and (I8.sar x 7) 1)

def projSelectI8 (t : Array Cached) (x : Int) : Cached :=
  let xabs := selectAbs x
  let dest := (List.range 8).foldl (fun dest j =>
    Point.Cached.select t[j]! dest (Point.ctByteEq xabs (j + 1))) Point.Cached.zero
  Point.Cached.condNeg dest (selectNeg x)

def affineSelectI8 (t : Array AffineCached) (x : Int) : AffineCached :=
  let xabs := selectAbs x
  let dest := (List.range 8).foldl (fun dest j =>
    Point.AffineCached.select t[j]! dest (Point.ctByteEq xabs (j + 1))) Point.AffineCached.zero
  Point.AffineCached.condNeg dest (selectNeg x)

def projLookupTable_SelectInto (v : Array Cached) (_dest : Cached) (x : Int) : Cached := projSelectI8 v x
def affineLookupTable_SelectInto (v : Array AffineCached) (_dest : AffineCached) (x : Int) : AffineCached := affineSelectI8 v x

-- scalarmult.go: the two constant-time scalar multiplications (64 unrolled iterations each).  The digit recoding
-- (`Scalar.radix16Digits`, total version of `Scalar.signedRadix16`) is a primitive of the translation; the table
-- selections are the translated `SelectInto`s.  `scalarMultDigitsI8` / `scalarBaseMultDigitsI8` are the model's
-- `Point.scalarMultDigits` / `Point.scalarBaseMultDigits` with the selections in SSA shape; they are equal to the model
-- when the digits are `int8` values (`scalarMultDigitsI8_eq`, `scalarBaseMultDigitsI8_eq` below), and
-- `Point.scalarMult x q = .ok (Point.scalarMultDigits d q)` whenever `Scalar.signedRadix16 x = .ok d` by definition.
def scalarMultDigitsI8 (digits : Array Int) (q : P3) : P3 :=
  let table := Point.projTable q
  let multiple := projSelectI8 table digits[63]!
  let v := Point.identity
  let tmp1 := Point.P1xP1.add v multiple
  let tmp1 := (List.range 63).foldl (fun tmp1 k =>
    let i := 62 - k
    let tmp1 := Point.mul16 tmp1
    let v := Point.fromP1xP1 tmp1
    let multiple := projSelectI8 table digits[i]!
    Point.P1xP1.add v multiple) tmp1
  Point.fromP1xP1 tmp1

def scalarBaseMultDigitsI8 (digits : Array Int) : P3 :=
  let bt := Point.basepointTable
  let v := Point.identity
  let v := (List.range 32).foldl (fun v k =>
    let i := 2 * k + 1
    let multiple := affineSelectI8 bt[i / 2]! digits[i]!
    Point.fromP1xP1 (Point.P1xP1.addAffine v multiple)) v
  let tmp2 := Point.P2.fromP3 v
  let tmp1 := Point.P1xP1.double tmp2
  let tmp2 := Point.P2.fromP1xP1 tmp1
  let tmp1 := Point.P1xP1.double tmp2
  let tmp2 := Point.P2.fromP1xP1 tmp1
  let tmp1 := Point.P1xP1.double tmp2
  let tmp2 := Point.P2.fromP1xP1 tmp1
  let tmp1 := Point.P1xP1.double tmp2
  let v := Point.fromP1xP1 tmp1
  (List.range 32).foldl (fun v k =>
    let i := 2 * k
    let multiple := affineSelectI8 bt[i / 2]! digits[i]!
    Point.fromP1xP1 (Point.P1xP1.addAffine v multiple)) v

def Point_ScalarMult (_v : P3) (x : W4) (q : P3) : P3 := scalarMultDigitsI8 (Scalar.radix16Digits x) q
def Point_ScalarBaseMult (_v : P3) (x : W4) : P3 := scalarBaseMultDigitsI8 (Scalar.radix16Digits x)

-- addition chains (constant-trip loops, unrolled by the translator)
def field_Element_Invert (_v z : Fe) : Fe := Fe.invert z
def field_Element_Pow22523 (_v x : Fe) : Fe := Fe.pow22523 x

-- extra.go / edwards25519.go: the decoders.  A fallible setter is specified by the pair
-- `(value returned, or none for (nil, error)`, `final value of the receiver)`.
def isOnCurve (X Y Z T : Fe) : Bool := Point.isOnCurve X Y Z T

def Point_SetExtendedCoordinates (v : P3) (X Y Z T : Fe) : Option P3 × P3 :=
  if Point.isOnCurve X Y Z T then (some ⟨X, Y, Z, T⟩, ⟨X, Y, Z, T⟩) else (none, v)

def Point_SetBytes (v : P3) (x : Bytes) : Option P3 × P3 :=
  match Fe.setBytes x with
  | none => (none, v)
  | some y =>
    let y2 := Fe.square y
    let u := Fe.sub y2 Point.feOne
    let vv := Fe.mul y2 Point.d
    let vv := Fe.add vv Point.feOne
    let r := Fe.sqrtRatio u vv
    if r.2 == 0 then (none, v) else
    let xxNeg := Fe.neg r.1
    let xx := Fe.select xxNeg r.1 (x[31]! >>> 7)
    (some ⟨xx, y, Fe.one, Fe.mul xx y⟩, ⟨xx, y, Fe.one, Fe.mul xx y⟩)

/-- the pair form agrees with the model's `Option` form; on failure the receiver is unchanged -/
theorem Point_SetExtendedCoordinates_eq (v : P3) (X Y Z T : Fe) :
    Point_SetExtendedCoordinates v X Y Z T =
      (Point.setExtendedCoordinates X Y Z T, (Point.setExtendedCoordinates X Y Z T).getD v) := by
  unfold Point_SetExtendedCoordinates Point.setExtendedCoordinates
  cases h : Point.isOnCurve X Y Z T <;> simp

theorem Point_SetBytes_eq (v : P3) (x : Bytes) :
    Point_SetBytes v x = (Point.setBytes x, (Point.setBytes x).getD v) := by
  unfold Point_SetBytes Point.setBytes
  cases h : Fe.setBytes x with
  | none => simp
  | some y =>
    simp only []
    by_cases hw : ((Fe.sqrtRatio (Fe.sub (Fe.square y) Point.feOne) (Fe.add (Fe.mul (Fe.square y) Point.d) Point.feOne)).2 == 0) = true
    · simp [hw]
    · simp [hw]

/-! ## scalar.go: the layer above the fiat kernels

The fiat kernels and `Scalar.Add/Subtract/Negate/Multiply/Equal` are primitives of T5 (they are translated by T1,
`EdVerif.Gen.Fiat`); their first argument is the prior value of the location that receives the result.  The
specifications below are written in the shape of the SSA (which location receives which result); the lemmas
`…_eq` relate them to the model `Impl.Scalar`, which always passes `Scalar.rz` as prior value. -/

def Scalar_Set (s x : W4) : W4 := Fiat.Set s x
def NewScalar : W4 := Scalar.rz

def Scalar_MultiplyAdd (s x y z : W4) : W4 :=
  let zCopy := Fiat.Set Scalar.rz z
  let s := Fiat.Multiply s x y
  Fiat.Add s s zCopy

def Scalar_bytes (s : W4) (out : Bytes) : Bytes :=
  Fiat.fiatScalarToBytes out (Fiat.fiatScalarFromMontgomery Scalar.rz s)
def Scalar_Bytes (s : W4) : Bytes := Scalar.bytes s

/-- `setShortBytes` on its non-panicking path (`len(x) < 32`); T5 executes it in place at its three call sites, where
the length of the argument is a constant -/
def Scalar_setShortBytes_body (s : W4) (x : Bytes) : W4 :=
  let buf := Scalar.copyInto 32 x
  let s := Fiat.fiatScalarFromBytes s buf
  Fiat.fiatScalarToMontgomery s s

/-- `setShortBytes` translated on its own: it panics on an input of 32 bytes or more -/
def Scalar_setShortBytes (s : W4) (x : Bytes) : Res W4 :=
  if decide (x.size ≥ 32) then .panic "internal" else .ok (Scalar_setShortBytes_body s x)

def Scalar_SetUniformBytes (s : W4) (x : Bytes) : Option W4 × W4 :=
  if x.size != 64 then (none, s) else
  let s := Scalar_setShortBytes_body s (Bin.slice x 0 21)
  let t := Scalar_setShortBytes_body Scalar.rz (Bin.slice x 21 42)
  let t := Fiat.Multiply t t Fiat.scalarTwo168
  let s := Fiat.Add s s t
  let t := Scalar_setShortBytes_body t (Bin.slice x 42 64)
  let t := Fiat.Multiply t t Fiat.scalarTwo336
  let s := Fiat.Add s s t
  (some s, s)

/-- the loop of `isReduced` from byte `i-1` downwards -/
def isReducedFrom (s : Bytes) : Nat → Bool
  | 0 => true
  | i+1 =>
    if decide (s[i]! > Fiat.scalarMinusOneBytes[i]!) then false
    else if decide (s[i]! < Fiat.scalarMinusOneBytes[i]!) then true
    else isReducedFrom s i

def isReduced (s : Bytes) : Bool :=
  if s.size != 32 then false else isReducedFrom s 32

def Scalar_SetCanonicalBytes (s : W4) (x : Bytes) : Option W4 × W4 :=
  if x.size != 32 then (none, s) else
  if isReduced x then
    let s := Fiat.fiatScalarFromBytes s x
    let s := Fiat.fiatScalarToMontgomery s s
    (some s, s)
  else (none, s)

def Scalar_SetBytesWithClamping (s : W4) (x : Bytes) : Option W4 × W4 :=
  if x.size != 32 then (none, s) else
  let wide := Scalar.copyInto 64 x
  let wide := wide.set! 0 (wide[0]! &&& 248)
  let wide := wide.set! 31 (wide[31]! &&& 63)
  let wide := wide.set! 31 (wide[31]! ||| 64)
  Scalar_SetUniformBytes s wide

/-- `pow2k` (extra.go): `k` times `s.Multiply(s, s)`; T5 executes it in place at its call sites (constant `k`) -/
def Scalar_pow2k : Nat → W4 → W4
  | 0, s => s
  | k+1, s => Scalar_pow2k k (Fiat.Multiply s s s)

/-- `Scalar.Invert` (extra.go): sliding window of width 4 over `l - 2`; the table entries and `tt` are fresh (zero) locals -/
def Scalar_Invert (_s t : W4) : W4 :=
  let tt := Fiat.Multiply Scalar.rz t t
  let t1 := t
  let t3 := Fiat.Multiply Scalar.rz t1 tt
  let t5 := Fiat.Multiply Scalar.rz t3 tt
  let t7 := Fiat.Multiply Scalar.rz t5 tt
  let t9 := Fiat.Multiply Scalar.rz t7 tt
  let t11 := Fiat.Multiply Scalar.rz t9 tt
  let t13 := Fiat.Multiply Scalar.rz t11 tt
  let t15 := Fiat.Multiply Scalar.rz t13 tt
  let step (s : W4) (k : Nat) (m : W4) : W4 := let s := Scalar_pow2k k s; Fiat.Multiply s s m
  let s := t1
  let s := step s (127 + 1) t1
  let s := step s (4 + 1) t9
  let s := step s (3 + 1) t11
  let s := step s (3 + 1) t13
  let s := step s (3 + 1) t15
  let s := step s (4 + 1) t7
  let s := step s (4 + 1) t15
  let s := step s (3 + 1) t5
  let s := step s (3 + 1) t1
  let s := step s (4 + 1) t15
  let s := step s (4 + 1) t15
  let s := step s (4 + 1) t7
  let s := step s (3 + 1) t3
  let s := step s (4 + 1) t11
  let s := step s (5 + 1) t11
  let s := step s (9 + 1) t9
  let s := step s (3 + 1) t3
  let s := step s (4 + 1) t3
  let s := step s (4 + 1) t3
  let s := step s (4 + 1) t9
  let s := step s (3 + 1) t7
  let s := step s (3 + 1) t3
  let s := step s (3 + 1) t13
  let s := step s (3 + 1) t7
  let s := step s (4 + 1) t9
  let s := step s (3 + 1) t15
  let s := step s (4 + 1) t11
  s

/-! `signedRadix16` (scalar.go).  `int8` values are modelled by the integers they denote, the `int8` operations are
those of `EdVerif.Impl.I8`.  The two loops are written as list recursions (which unfold by `rfl`); `Scalar_signedRadix16_eq`
below relates this to the model's `Scalar.signedRadix16` (array updates). -/

/-- the unsigned radix-16 digits of bytes `i, i+1, …` (`n` bytes): `int8(b[i] & 15)`, `int8((b[i] >> 4) & 15)` -/
def radix16Unsigned (b : Bytes) : Nat → Nat → List Int
  | 0, _ => []
  | n+1, i => I8.ofU8 (b[i]! &&& 15) :: I8.ofU8 ((b[i]! >>> 4) &&& 15) :: radix16Unsigned b n (i+1)

/-- the recentering loop: `d` is the current value of `digits[i]` (its unsigned digit plus the carry of the previous
step), the list holds the unsigned digits `i+1, …`; the last digit only receives the carry -/
def radix16Recenter : Int → List Int → List Int
  | d, [] => [d]
  | d, u :: us =>
    let carry := I8.sar (I8.add d 8) 4
    I8.sub d (I8.shl carry 4) :: radix16Recenter (I8.add u carry) us

def Scalar_signedRadix16 (s : W4) : Res (Array Int) :=
  let b := Scalar.bytes s
  if decide (b[31]! > 127) then .panic "highbit" else
  match radix16Unsigned b 32 0 with
  | [] => .ok #[]
  | u :: us => .ok (radix16Recenter u us).toArray

/-! ### the specifications above and the model `Impl.Scalar`

Receiver independence of the fiat kernels used here is a definitional fact (the kernels overwrite every word of the
result).  The lemmas are stated with `id rfl` so that `simp` uses them as ordinary rewrite rules with a proof term (as
`rfl`-lemmas the kernel would have to re-check the rewritten goal by unfolding the kernels). -/

theorem Multiply_recv (o x y : W4) : Fiat.Multiply o x y = Scalar.mul x y := id rfl
theorem Add_recv (o x y : W4) : Fiat.Add o x y = Scalar.add x y := id rfl
theorem fromBytes_recv (o : W4) (b : Bytes) : Fiat.fiatScalarFromBytes o b = Fiat.fiatScalarFromBytes Scalar.rz b := id rfl

theorem Scalar_Set_eq (s x : W4) : Scalar_Set s x = x := rfl

theorem Scalar_MultiplyAdd_eq (s x y z : W4) : Scalar_MultiplyAdd s x y z = Scalar.multiplyAdd x y z := by
  unfold Scalar_MultiplyAdd Scalar.multiplyAdd
  simp only [Multiply_recv, Add_recv]

theorem Scalar_bytes_eq (s : W4) : Scalar_bytes s (Bin.zeros 32) = Scalar.bytes s := rfl

/-- pair form of a fallible setter's outcome in the model -/
def pairOfRes (r : Res W4) (s : W4) : Option W4 × W4 :=
  match r with
  | .ok v => (some v, v)
  | _ => (none, s)

theorem Scalar_setShortBytes_eq (s : W4) (x : Bytes) : Scalar_setShortBytes s x = Scalar.setShortBytes x := by
  unfold Scalar_setShortBytes Scalar.setShortBytes Scalar_setShortBytes_body
  by_cases h : x.size ≥ 32
  · simp only [h, decide_true, if_true]
  · simp only [h, decide_false, Bool.false_eq_true, if_false, fromBytes_recv s]

theorem Scalar_setShortBytes_body_eq (s : W4) (x : Bytes) (h : x.size < 32) :
    Scalar.setShortBytes x = .ok (Scalar_setShortBytes_body s x) := by
  unfold Scalar.setShortBytes Scalar_setShortBytes_body
  have : ¬ (x.size ≥ 32) := by omega
  simp only [this, if_false, fromBytes_recv s]

theorem slice_size (x : Bytes) (a b : Nat) : (Bin.slice x a b).size = min b x.size - a := by
  simp [Bin.slice]

theorem setUniformBytes_ok (x : Bytes) (h : x.size = 64) (s : W4) :
    Scalar.setUniformBytes x = .ok (Scalar_SetUniformBytes s x).2 := by
  unfold Scalar_SetUniformBytes Scalar.setUniformBytes
  have h1 : (Bin.slice x 0 21).size < 32 := by rw [slice_size]; omega
  have h2 : (Bin.slice x 21 42).size < 32 := by rw [slice_size]; omega
  have h3 : (Bin.slice x 42 64).size < 32 := by rw [slice_size]; omega
  have hne : (x.size != 64) = false := by simp [h]
  simp only [hne, Bool.false_eq_true, if_false]
  simp only [h]
  rw [Scalar_setShortBytes_body_eq s _ h1, Scalar_setShortBytes_body_eq Scalar.rz _ h2]
  rw [Scalar_setShortBytes_body_eq (Fiat.Multiply (Scalar_setShortBytes_body Scalar.rz (Bin.slice x 21 42)) (Scalar_setShortBytes_body Scalar.rz (Bin.slice x 21 42)) Fiat.scalarTwo168) _ h3]
  simp only [Multiply_recv, Add_recv]

theorem Scalar_SetUniformBytes_eq (s : W4) (x : Bytes) :
    Scalar_SetUniformBytes s x = pairOfRes (Scalar.setUniformBytes x) s := by
  by_cases h : x.size = 64
  · rw [setUniformBytes_ok x h s]
    unfold Scalar_SetUniformBytes pairOfRes
    have hne : (x.size != 64) = false := by simp [h]
    simp only [hne, Bool.false_eq_true, if_false]
  · have hne : (x.size != 64) = true := by simp [h]
    unfold Scalar_SetUniformBytes Scalar.setUniformBytes pairOfRes
    simp only [hne, if_true]

/-- `SetUniformBytes` never panics: the three `setShortBytes` calls get fewer than 32 bytes -/
theorem setUniformBytes_no_panic (x : Bytes) (m : String) : Scalar.setUniformBytes x ≠ .panic m := by
  by_cases h : x.size = 64
  · rw [setUniformBytes_ok x h Scalar.rz]; intro hh; cases hh
  · have hne : (x.size != 64) = true := by simp [h]
    unfold Scalar.setUniformBytes
    simp only [hne, if_true]; intro hh; cases hh

theorem isReducedFrom_eq (s : Bytes) (n : Nat) : isReducedFrom s n = Scalar.isReduced.go s n := by
  induction n with
  | zero => rfl
  | succ i ih =>
    unfold isReducedFrom Scalar.isReduced.go
    rw [ih]
    by_cases h1 : s[i]! > Fiat.scalarMinusOneBytes[i]!
    · simp only [h1, decide_true, if_true]
    · by_cases h2 : s[i]! < Fiat.scalarMinusOneBytes[i]!
      · simp only [h1, h2, decide_true, decide_false, if_true, Bool.false_eq_true, if_false]
      · simp only [h1, h2, decide_false, Bool.false_eq_true, if_false]

theorem isReduced_eq (s : Bytes) : isReduced s = Scalar.isReduced s := by
  unfold isReduced Scalar.isReduced
  rw [isReducedFrom_eq]

theorem Scalar_SetCanonicalBytes_eq (s : W4) (x : Bytes) :
    Scalar_SetCanonicalBytes s x = pairOfRes (Scalar.setCanonicalBytes x) s := by
  unfold Scalar_SetCanonicalBytes Scalar.setCanonicalBytes
  rw [isReduced_eq]
  cases h : (x.size != 32)
  · cases h2 : Scalar.isReduced x
    · simp only [Bool.false_eq_true, if_false, Bool.not_false, if_true, pairOfRes]
    · simp only [Bool.false_eq_true, if_false, Bool.not_true, if_true, pairOfRes, fromBytes_recv s]
  · simp only [if_true, pairOfRes]

theorem Scalar_SetBytesWithClamping_eq (s : W4) (x : Bytes) :
    Scalar_SetBytesWithClamping s x = pairOfRes (Scalar.setBytesWithClamping x) s := by
  unfold Scalar_SetBytesWithClamping Scalar.setBytesWithClamping
  cases h : (x.size != 32)
  · simp only [Bool.false_eq_true, if_false, Scalar_SetUniformBytes_eq]
  · simp only [if_true, pairOfRes]

theorem Scalar_pow2k_eq (k : Nat) (s : W4) : Scalar_pow2k k s = Scalar.pow2k k s := by
  induction k generalizing s with
  | zero => rfl
  | succ k ih => unfold Scalar_pow2k Scalar.pow2k; rw [ih, Multiply_recv]


theorem Scalar_Invert_eq (s t : W4) : Scalar_Invert s t = Scalar.invert t := by
  unfold Scalar_Invert Scalar.invert
  simp only [Scalar_pow2k_eq, Multiply_recv]

/-! ### the table selections in SSA shape and the model's `Point.projSelect` / `Point.affineSelect` -/

set_option maxRecDepth 100000 in
/-- the scalar part of the selections, checked for each of the 256 `int8` values -/
theorem select_scalars_fin : ∀ n : Fin 256,
    selectAbs ((n.val : Int) - 128) = Point.xabsOf ((n.val : Int) - 128) ∧
    selectNeg ((n.val : Int) - 128) = (Point.xmaskOf ((n.val : Int) - 128) &&& 1) := by
  decide

theorem select_scalars (x : Int) (h1 : -128 ≤ x) (h2 : x ≤ 127) :
    selectAbs x = Point.xabsOf x ∧ selectNeg x = (Point.xmaskOf x &&& 1) := by
  have hn : (x + 128).toNat < 256 := by omega
  have hx : x = (((⟨(x + 128).toNat, hn⟩ : Fin 256).val : Int) - 128) := by
    show x = (((x + 128).toNat : Nat) : Int) - 128
    omega
  rw [hx]
  exact select_scalars_fin ⟨(x + 128).toNat, hn⟩

theorem projSelectI8_eq (t : Array Cached) (x : Int) (h1 : -128 ≤ x) (h2 : x ≤ 127) :
    projSelectI8 t x = Point.projSelect t x := by
  unfold projSelectI8 Point.projSelect
  rw [(select_scalars x h1 h2).1, (select_scalars x h1 h2).2]

theorem affineSelectI8_eq (t : Array AffineCached) (x : Int) (h1 : -128 ≤ x) (h2 : x ≤ 127) :
    affineSelectI8 t x = Point.affineSelect t x := by
  unfold affineSelectI8 Point.affineSelect
  rw [(select_scalars x h1 h2).1, (select_scalars x h1 h2).2]

/-- digits that are `int8` values -/
def DigitsI8 (digits : Array Int) : Prop := ∀ i : Nat, -128 ≤ digits[i]! ∧ digits[i]! ≤ 127

theorem scalarMultDigitsI8_eq (digits : Array Int) (q : P3) (h : DigitsI8 digits) :
    scalarMultDigitsI8 digits q = Point.scalarMultDigits digits q := by
  unfold scalarMultDigitsI8 Point.scalarMultDigits
  simp only [projSelectI8_eq _ _ (h _).1 (h _).2]

theorem scalarBaseMultDigitsI8_eq (digits : Array Int) (h : DigitsI8 digits) :
    scalarBaseMultDigitsI8 digits = Point.scalarBaseMultDigits digits := by
  unfold scalarBaseMultDigitsI8 Point.scalarBaseMultDigits
  simp only [affineSelectI8_eq _ _ (h _).1 (h _).2]

/-! ### `signedRadix16` in SSA shape (list recursions) and the model's `Scalar.signedRadix16` (array updates) -/

/-- one iteration of the model's recentering loop, with the `int8` operations of `I8` -/
def radix16Step (d : Array Int) (i : Nat) : Array Int :=
  let carry := I8.sar (I8.add d[i]! 8) 4
  let d := d.set! i (I8.sub d[i]! (I8.shl carry 4))
  d.set! (i+1) (I8.add d[i+1]! carry)

theorem radix16Step_append (pre : List Int) (d u : Int) (us : List Int) :
    radix16Step (pre ++ d :: u :: us).toArray pre.length =
      ((pre ++ [I8.sub d (I8.shl (I8.sar (I8.add d 8) 4) 4)]) ++ I8.add u (I8.sar (I8.add d 8) 4) :: us).toArray := by
  unfold radix16Step
  simp


theorem radix16_fold (us : List Int) : ∀ (pre : List Int) (d : Int),
    (List.range' pre.length us.length).foldl radix16Step (pre ++ d :: us).toArray =
      (pre ++ radix16Recenter d us).toArray := by
  induction us with
  | nil => intro pre d; rfl
  | cons u us ih =>
    intro pre d
    have hl : (pre ++ [I8.sub d (I8.shl (I8.sar (I8.add d 8) 4) 4)]).length = pre.length + 1 := by simp
    rw [List.length_cons, List.range'_succ, List.foldl_cons, radix16Step_append, ← hl, ih]
    simp [radix16Recenter]

/-- the model's step is `radix16Step` -/
theorem radix16Step_model (d : Array Int) (i : Nat) :
    (let carry := Scalar.wrap8 ((Scalar.wrap8 (d[i]! + 8)) / 16)
     let d' := d.set! i (Scalar.wrap8 (d[i]! - Scalar.wrap8 (carry * 16)))
     d'.set! (i+1) (Scalar.wrap8 (d'[i+1]! + carry))) = radix16Step d i := by
  have hc : ∀ y : Int, Scalar.wrap8 (Scalar.wrap8 y / 16) = I8.sar (I8.wrap y) 4 := by
    intro y
    unfold Scalar.wrap8 I8.sar I8.wrap
    show _ = ((y + 128) % 256 - 128) / 16
    omega
  unfold radix16Step
  simp only [hc]
  rfl


theorem radix16Unsigned_length (b : Bytes) (n i : Nat) : (radix16Unsigned b n i).length = 2 * n := by
  induction n generalizing i with
  | zero => rfl
  | succ n ih => simp only [radix16Unsigned, List.length_cons, ih]; omega

theorem ofU8_and15 (x : Nat) : I8.ofU8 (x &&& 15) = ((x &&& 15 : Nat) : Int) := by
  have h : x &&& 15 ≤ 15 := Nat.and_le_right
  unfold I8.ofU8
  rw [if_pos (by omega)]

theorem foldl_congr_fun {α β : Type} (f g : α → β → α) (h : ∀ a b, f a b = g a b) (l : List β) (a : α) :
    l.foldl f a = l.foldl g a := by
  have : f = g := funext fun a => funext (h a)
  rw [this]

/-- the unsigned digits as the model computes them -/
theorem radix16Unsigned_model (b : Bytes) :
    ((List.range 64).toArray.map fun k =>
      if k % 2 == 0 then ((b[k / 2]! &&& 15 : Nat) : Int) else (((b[k / 2]! >>> 4) &&& 15 : Nat) : Int)) =
    (radix16Unsigned b 32 0).toArray := by
  have hf : (fun k : Nat => if k % 2 == 0 then ((b[k / 2]! &&& 15 : Nat) : Int) else (((b[k / 2]! >>> 4) &&& 15 : Nat) : Int)) =
      (fun k : Nat => if k % 2 == 0 then I8.ofU8 (b[k / 2]! &&& 15) else I8.ofU8 ((b[k / 2]! >>> 4) &&& 15)) := by
    funext k
    simp only [ofU8_and15]
  rw [hf, List.map_toArray]
  rfl

theorem Scalar_signedRadix16_eq (s : W4) : Scalar_signedRadix16 s = Scalar.signedRadix16 s := by
  unfold Scalar_signedRadix16 Scalar.signedRadix16
  generalize Scalar.bytes s = b
  by_cases h : b[31]! > 127
  · simp only [h, decide_true, if_true]
  · simp only [h, decide_false, Bool.false_eq_true, if_false]
    rw [radix16Unsigned_model, foldl_congr_fun _ radix16Step (fun d i => radix16Step_model d i)]
    have hl := radix16Unsigned_length b 32 0
    generalize radix16Unsigned b 32 0 = U at hl ⊢
    match U, hl with
    | [], hl => simp at hl
    | u :: us, hl =>
      have hus : us.length = 63 := by simp only [List.length_cons] at hl; omega
      have := radix16_fold us [] u
      simp only [List.length_nil, List.nil_append, hus] at this
      simp only [List.range_eq_range', this]

/-- the digits primitive used by the regenerated scalar multiplications is what the regenerated `signedRadix16`
returns whenever it does not panic -/
theorem radix16Digits_of_ok (s : W4) (d : Array Int) (h : Scalar_signedRadix16 s = .ok d) :
    Scalar.radix16Digits s = d := by
  have h2 : Scalar.signedRadix16 s = .ok d := (Scalar_signedRadix16_eq s).symm.trans h
  delta Scalar.radix16Digits
  rw [h2]
  rfl

/-! ## Loops that are kept as loops (`Loop.iter`), run-time index checks, calls of functions that can panic

The functions below have result type `Res`: a loop that is not unrolled is a `Loop.iter` (it panics with class
`"fuel"` if the fuel chosen by the translator is exhausted — the lemmas below show that it is not), an index that the
translator cannot prove in range is checked by `Res.guard … "index"`, and everything is sequenced by `Res.bind`. -/

theorem Res.bind_ok {α β : Type} (v : α) (f : α → Res β) : Res.bind (.ok v) f = f v := rfl
theorem Res.bind_panic {α β : Type} (c : String) (f : α → Res β) : Res.bind (.panic c) f = .panic c := rfl
theorem Res.bind_err {α β : Type} (f : α → Res β) : Res.bind (.err : Res α) f = .err := rfl
theorem Res.guard_true (cls : String) : Res.guard true cls = .ok () := rfl
theorem Res.guard_of {c : Bool} (h : c = true) (cls : String) : Res.guard c cls = .ok () := by rw [h]; rfl

theorem Loop.iter_succ {σ : Type} (step : σ → Res (σ × Bool)) (n : Nat) (s : σ) :
    Loop.iter step (n+1) s = (step s).bind fun r => if r.2 then Loop.iter step n r.1 else .ok r.1 := rfl

/-- A loop that makes `n` iterations and leaves at the `n+1`-st evaluation of its header: `Inv k` holds of the state
after `k` iterations.  Any fuel larger than `n` suffices. -/
theorem Loop.iter_inv {σ : Type} (step : σ → Res (σ × Bool)) (Inv : Nat → σ → Prop) (Post : σ → Prop) (n : Nat)
    (hstep : ∀ k, k < n → ∀ s, Inv k s → ∃ s', step s = .ok (s', true) ∧ Inv (k+1) s')
    (hexit : ∀ s, Inv n s → ∃ e, step s = .ok (e, false) ∧ Post e) :
    ∀ (j : Nat) (s : σ), j ≤ n → Inv j s → ∀ fuel, n - j < fuel → ∃ e, Loop.iter step fuel s = .ok e ∧ Post e := by
  intro j s hj hinv fuel hf
  induction fuel generalizing j s with
  | zero => omega
  | succ fuel ih =>
    rw [Loop.iter_succ]
    by_cases hjn : j < n
    · obtain ⟨s', hs, hinv'⟩ := hstep j hjn s hinv
      rw [hs]
      simp only [Res.bind_ok, if_true]
      exact ih (j+1) s' (by omega) hinv' (by omega)
    · have : j = n := by omega
      subst this
      obtain ⟨e, he, hp⟩ := hexit s hinv
      rw [he]
      exact ⟨e, by simp [Res.bind_ok], hp⟩

/-! ### tables.go: variable-time table selection `*dest = v.points[x/2]` -/

/-- `*dest = v.points[x/2]` with the run-time index check (`n` entries); `x / 2` is `int8` division -/
def nafSelectI8 {α : Type} [Inhabited α] (n : Nat) (t : Array α) (x : Int) : Res α :=
  let i := I8.quo x 2
  Res.bind (Res.guard (decide (0 ≤ i ∧ i < n)) "index") fun _ => .ok t[Int.toNat i]!

def nafLookupTable5_SelectInto (v : Array Cached) (_dest : Cached) (x : Int) : Res Cached := nafSelectI8 8 v x
def nafLookupTable8_SelectInto (v : Array AffineCached) (_dest : AffineCached) (x : Int) : Res AffineCached := nafSelectI8 64 v x

/-- for a digit `0 < x < 2n` (`x ≤ 127`) the index is in range and the selection is the model's `Point.nafSelect` -/
theorem nafSelectI8_eq {α : Type} [Inhabited α] (n : Nat) (t : Array α) (x : Int) (h0 : 0 < x) (h1 : x < 2 * n) (h2 : x ≤ 127) :
    nafSelectI8 n t x = .ok (Point.nafSelect t x) := by
  have hd : Int.tdiv x 2 = x / 2 := Int.tdiv_eq_ediv_of_nonneg (by omega)
  have hq : I8.quo x 2 = Int.tdiv x 2 := by
    unfold I8.quo I8.wrap
    omega
  unfold nafSelectI8 Point.nafSelect
  simp only [hq]
  have hg : decide (0 ≤ Int.tdiv x 2 ∧ Int.tdiv x 2 < (n : Int)) = true := by
    rw [hd]; apply decide_eq_true; omega
  rw [hg]
  rfl

/-! ### scalar.go: `nonAdjacentForm`

The loop `for pos < 256` in the shape of the SSA: state `(pos, carry, naf)`; two back edges (`continue` after an even
window, end of the body); the window is computed on two paths (`indexBit < 64-w` or not) that join again, which the
translator executes separately (`nafSsaTail` is the common rest).  `Scalar_nonAdjacentForm_eq` below: this is the
model's `Scalar.nonAdjacentForm` (which runs `nafLoop` with fuel 256). -/

abbrev NafSsaState := Nat × Nat × Array Int

def nafSsaTail (w pos carry : Nat) (naf : Array Int) (window : Nat) : Res (NafSsaState × Bool) :=
  if (window &&& 1) == 0 then .ok ((U.add 64 pos 1, carry, naf), true)
  else if decide (window < (U.shl 64 1 w) / 2) then
    .ok ((U.add 64 pos w, 0, naf.set! pos (I8.ofU8 (U.trunc 8 window))), true)
  else
    .ok ((U.add 64 pos w, 1, naf.set! pos (I8.sub (I8.ofU8 (U.trunc 8 window)) (I8.ofU8 (U.trunc 8 (U.shl 64 1 w))))), true)

def nafSsaStep (w : Nat) (digits : Array Nat) (s : NafSsaState) : Res (NafSsaState × Bool) :=
  if decide (s.1 < 256) then
    if decide (s.1 % 64 < U.sub 64 64 w) then
      nafSsaTail w s.1 s.2.1 s.2.2
        (U.add 64 s.2.1 ((digits[s.1 / 64]! >>> (s.1 % 64)) &&& U.sub 64 (U.shl 64 1 w) 1))
    else
      nafSsaTail w s.1 s.2.1 s.2.2
        (U.add 64 s.2.1 (((digits[s.1 / 64]! >>> (s.1 % 64)) ||| U.shl 64 digits[U.add 64 1 (s.1 / 64)]! (U.sub 64 64 (s.1 % 64)))
          &&& U.sub 64 (U.shl 64 1 w) 1))
  else .ok (s, false)


def Scalar_nonAdjacentForm (s : W4) (w : Nat) : Res (Array Int) :=
  let b := Scalar.bytes s
  if decide (b[31]! > 127) then .panic "highbit" else
  if decide (w < 2) then .panic "naf-w" else
  if decide (w > 8) then .panic "naf-w" else
  let digits : Array Nat := #[Scalar.le64 b, Scalar.le64 (Bin.slice b 8 32), Scalar.le64 (Bin.slice b 16 32), Scalar.le64 (Bin.slice b 24 32), 0]
  Res.bind (Loop.iter (nafSsaStep w digits) 258 (0, 0, Array.replicate 256 0)) fun r => .ok r.2.2

theorem extract_get (b : Bytes) (k j : Nat) (h : k + j < 32) : (b.extract k 32)[j]! = b[k+j]! := by
  rw [getElem!_def, getElem!_def, Array.getElem?_extract]
  by_cases h1 : k + j < b.size
  · have : j < min 32 b.size - k := by omega
    simp [this]
  · have : ¬ j < min 32 b.size - k := by omega
    simp [this]
    rw [Array.getElem?_eq_none (by omega)]

theorem le64_slice (b : Bytes) (k : Nat) (hk : k + 8 ≤ 32) : Scalar.le64 (Bin.slice b k 32) = Bin.le64 b k := by
  unfold Scalar.le64 Bin.le64 Bin.slice
  have h0 := extract_get b k 0 (by omega)
  rw [Nat.add_zero] at h0
  simp only [Nat.zero_add, h0, extract_get b k _ (show k + 1 < 32 by omega), extract_get b k _ (show k + 2 < 32 by omega),
    extract_get b k _ (show k + 3 < 32 by omega), extract_get b k _ (show k + 4 < 32 by omega),
    extract_get b k _ (show k + 5 < 32 by omega), extract_get b k _ (show k + 6 < 32 by omega), extract_get b k _ (show k + 7 < 32 by omega)]

theorem ofU8_trunc (n : Nat) : I8.ofU8 (U.trunc 8 n) = Scalar.wrap8 (n : Int) := by
  unfold I8.ofU8 U.trunc Scalar.wrap8
  split <;> omega

def nafTuple (st : Scalar.NafState) : NafSsaState := (st.pos, st.carry, st.naf)

theorem nafSsaStep_eq (w : Nat) (hw : w ≤ 8) (digits : Array Nat) (st : Scalar.NafState) (hpos : st.pos < 256) :
    nafSsaStep w digits (nafTuple st) = .ok (nafTuple (Scalar.nafStep w digits st), true) := by
  have e1 : U.sub 64 64 w = 64 - w := by unfold U.sub; omega
  have e2 : U.add 64 1 (st.pos / 64) = 1 + st.pos / 64 := by unfold U.add; omega
  have e3 : U.sub 64 64 (st.pos % 64) = 64 - st.pos % 64 := by unfold U.sub; omega
  have e4 : U.add 64 st.pos 1 = st.pos + 1 := by unfold U.add; omega
  have e5 : U.add 64 st.pos w = st.pos + w := by unfold U.add; omega
  have e6 : ∀ a b : Int, I8.sub a b = Scalar.wrap8 (a - b) := fun _ _ => rfl
  unfold nafSsaStep nafSsaTail Scalar.nafStep nafTuple
  simp only [e1, e2, e3, e4, e5, e6, hpos, decide_true, if_true, ofU8_trunc, decide_eq_true_eq]
  by_cases hb : st.pos % 64 < 64 - w
  · simp only [hb, if_true]
    split
    · rfl
    · split <;> rfl
  · simp only [hb, if_false]
    split
    · rfl
    · split <;> rfl

theorem nafSsaStep_exit (w : Nat) (digits : Array Nat) (s : NafSsaState) (hpos : ¬ s.1 < 256) :
    nafSsaStep w digits s = .ok (s, false) := by
  unfold nafSsaStep
  simp only [hpos, decide_false, Bool.false_eq_true, if_false]

theorem nafStep_pos (w : Nat) (hw : 1 ≤ w) (digits : Array Nat) (st : Scalar.NafState) : st.pos < (Scalar.nafStep w digits st).pos := by
  unfold Scalar.nafStep
  simp only []
  repeat' split
  all_goals (first | (show st.pos < st.pos + 1; omega) | (show st.pos < st.pos + w; omega))

theorem nafSsaLoop_eq (w : Nat) (hw : 1 ≤ w ∧ w ≤ 8) (digits : Array Nat) (fuel : Nat) :
    ∀ (st : Scalar.NafState) (F : Nat), 256 ≤ fuel + st.pos → fuel < F →
      Loop.iter (nafSsaStep w digits) F (nafTuple st) = .ok (nafTuple (Scalar.nafLoop w digits fuel st)) := by
  induction fuel with
  | zero =>
    intro st F h hF
    obtain ⟨F, rfl⟩ : ∃ F', F = F' + 1 := ⟨F - 1, by omega⟩
    rw [Loop.iter_succ, nafSsaStep_exit w digits _ (by show ¬ st.pos < 256; omega)]
    rfl
  | succ fuel ih =>
    intro st F h hF
    obtain ⟨F, rfl⟩ : ∃ F', F = F' + 1 := ⟨F - 1, by omega⟩
    rw [Loop.iter_succ]
    unfold Scalar.nafLoop
    by_cases hpos : st.pos < 256
    · rw [nafSsaStep_eq w hw.2 digits st hpos, if_pos hpos]
      simp only [Res.bind_ok, if_true]
      have := nafStep_pos w hw.1 digits st
      exact ih _ F (by omega) (by omega)
    · rw [nafSsaStep_exit w digits _ (by exact hpos), if_neg hpos]
      rfl

theorem Scalar_nonAdjacentForm_eq (s : W4) (w : Nat) : Scalar_nonAdjacentForm s w = Scalar.nonAdjacentForm s w := by
  unfold Scalar_nonAdjacentForm Scalar.nonAdjacentForm
  generalize Scalar.bytes s = b
  simp only [decide_eq_true_eq]
  by_cases h1 : b[31]! > 127
  · simp only [h1, if_true]
  · by_cases h2 : w < 2
    · simp only [h1, h2, if_true, if_false]
    · by_cases h3 : w > 8
      · simp only [h1, h2, h3, if_true, if_false]
      · simp only [h1, h2, h3, if_false]
        have hd : (#[Scalar.le64 b, Scalar.le64 (Bin.slice b 8 32), Scalar.le64 (Bin.slice b 16 32), Scalar.le64 (Bin.slice b 24 32), 0] : Array Nat)
            = #[Scalar.le64at b 0, Scalar.le64at b 1, Scalar.le64at b 2, Scalar.le64at b 3, 0] := by
          rw [le64_slice b 8 (by omega), le64_slice b 16 (by omega), le64_slice b 24 (by omega)]
          rfl
        rw [hd]
        have := nafSsaLoop_eq w ⟨by omega, by omega⟩ #[Scalar.le64at b 0, Scalar.le64at b 1, Scalar.le64at b 2, Scalar.le64at b 3, 0] 256
          { naf := Array.replicate 256 0, pos := 0, carry := 0 } 258 (by show 256 ≤ 256 + 0; omega) (by omega)
        unfold nafTuple at this
        rw [this]
        rfl

theorem nonAdjacentForm_ne_err (s : W4) (w : Nat) : Scalar.nonAdjacentForm s w ≠ .err := by
  unfold Scalar.nonAdjacentForm
  simp only []
  repeat' split
  all_goals (intro h; cases h)

/-! ### scalarmult.go: `VarTimeDoubleScalarBaseMult`

Two loops: the search for the first nonzero coefficient (its counter `j` is not used afterwards: `i` stays 255) and the
main loop, whose state is `(i, v, multA, multB, tmp1, tmp2)`; the translator executes the nine paths through the body
separately (`vtdStepB` is the part for `bNaf[i]`).  `vtdDigits_eq`: for digits in the range of the tables this is the
model's `Point.varTimeDoubleDigits` (a fold over `tmp2` alone). -/

def vtdSkipStep (aNaf bNaf : Array Int) (j : Nat) : Res (Nat × Bool) :=
  if S.le 64 0 j then
    Res.bind (Res.guard (decide (j < 256)) "index") fun _ =>
    if aNaf[j]! != 0 then .ok (j, false)
    else if bNaf[j]! != 0 then .ok (j, false)
    else .ok (U.sub 64 j 1, true)
  else .ok (j, false)

abbrev VtdState := Nat × P3 × Cached × AffineCached × P1xP1 × P2

def vtdStepB (bTable : Array AffineCached) (bNaf : Array Int) (i : Nat) (v : P3) (multA : Cached) (multB : AffineCached)
    (tmp1 : P1xP1) : Res (VtdState × Bool) :=
  if decide (bNaf[i]! > 0) then
    let v := Point.fromP1xP1 tmp1
    Res.bind (nafSelectI8 64 bTable bNaf[i]!) fun multB =>
    let tmp1 := Point.P1xP1.addAffine v multB
    .ok ((U.sub 64 i 1, v, multA, multB, tmp1, Point.P2.fromP1xP1 tmp1), true)
  else if decide (bNaf[i]! < 0) then
    let v := Point.fromP1xP1 tmp1
    Res.bind (nafSelectI8 64 bTable (I8.neg bNaf[i]!)) fun multB =>
    let tmp1 := Point.P1xP1.subAffine v multB
    .ok ((U.sub 64 i 1, v, multA, multB, tmp1, Point.P2.fromP1xP1 tmp1), true)
  else .ok ((U.sub 64 i 1, v, multA, multB, tmp1, Point.P2.fromP1xP1 tmp1), true)

def vtdStep (aTable : Array Cached) (bTable : Array AffineCached) (aNaf bNaf : Array Int) (s : VtdState) : Res (VtdState × Bool) :=
  if S.le 64 0 s.1 then
    let tmp1 := Point.P1xP1.double s.2.2.2.2.2
    Res.bind (Res.guard (decide (s.1 < 256)) "index") fun _ =>
    if decide (aNaf[s.1]! > 0) then
      let v := Point.fromP1xP1 tmp1
      Res.bind (nafSelectI8 8 aTable aNaf[s.1]!) fun multA =>
      vtdStepB bTable bNaf s.1 v multA s.2.2.2.1 (Point.P1xP1.add v multA)
    else if decide (aNaf[s.1]! < 0) then
      let v := Point.fromP1xP1 tmp1
      Res.bind (nafSelectI8 8 aTable (I8.neg aNaf[s.1]!)) fun multA =>
      vtdStepB bTable bNaf s.1 v multA s.2.2.2.1 (Point.P1xP1.sub v multA)
    else vtdStepB bTable bNaf s.1 s.2.1 s.2.2.1 s.2.2.2.1 tmp1
  else .ok (s, false)

def vtdDigits (v : P3) (aNaf bNaf : Array Int) (A : P3) : Res P3 :=
  let aTable := Point.naf5Table A
  Res.bind (Loop.iter (vtdSkipStep aNaf bNaf) 257 255) fun _ =>
  Res.bind (Loop.iter (vtdStep aTable Point.basepointNafTable aNaf bNaf) 257
    (255, v, (⟨Fe.rz, Fe.rz, Fe.rz, Fe.rz⟩ : Cached), (⟨Fe.rz, Fe.rz, Fe.rz⟩ : AffineCached), (⟨Fe.rz, Fe.rz, Fe.rz, Fe.rz⟩ : P1xP1), Point.P2.zero)) fun r =>
  .ok (Point.fromP2 r.2.2.2.2.2)

/-- digits `d` with `|d| < 2n`: the range in which `v.points[d/2]` / `v.points[(-d)/2]` is inside a table of `n` entries -/
def NafRange (n : Nat) (d : Array Int) : Prop := ∀ i, i < 256 → -(2 * (n : Int)) < d[i]! ∧ d[i]! < 2 * (n : Int)

/-- one iteration of the model's loop (`Point.varTimeDoubleDigits`) -/
def vtdModelStep (aTable : Array Cached) (bTable : Array AffineCached) (aNaf bNaf : Array Int) (tmp2 : P2) (k : Nat) : P2 :=
  let i := 255 - k
  let tmp1 := Point.P1xP1.double tmp2
  let tmp1 :=
    if aNaf[i]! > 0 then
      let v := Point.fromP1xP1 tmp1
      Point.P1xP1.add v (Point.nafSelect aTable aNaf[i]!)
    else if aNaf[i]! < 0 then
      let v := Point.fromP1xP1 tmp1
      Point.P1xP1.sub v (Point.nafSelect aTable (Scalar.wrap8 (-aNaf[i]!)))
    else tmp1
  let tmp1 :=
    if bNaf[i]! > 0 then
      let v := Point.fromP1xP1 tmp1
      Point.P1xP1.addAffine v (Point.nafSelect bTable bNaf[i]!)
    else if bNaf[i]! < 0 then
      let v := Point.fromP1xP1 tmp1
      Point.P1xP1.subAffine v (Point.nafSelect bTable (Scalar.wrap8 (-bNaf[i]!)))
    else tmp1
  Point.P2.fromP1xP1 tmp1

theorem varTimeDoubleDigits_fold (aNaf bNaf : Array Int) (A : P3) :
    Point.varTimeDoubleDigits aNaf bNaf A =
      Point.fromP2 ((List.range 256).foldl (vtdModelStep (Point.naf5Table A) Point.basepointNafTable aNaf bNaf) Point.P2.zero) := rfl

theorem foldl_range_succ {α : Type} (f : α → Nat → α) (a : α) (n : Nat) :
    (List.range (n+1)).foldl f a = f ((List.range n).foldl f a) n := by
  rw [List.range_succ, List.foldl_append]; rfl

theorem sle_small (i : Nat) (h : i < 256) : S.le 64 0 i = true := by
  unfold S.le S.toInt
  have h1 : (0 : Nat) < 2 ^ (64 - 1) := by omega
  have h2 : i < 2 ^ (64 - 1) := by omega
  simp only [h1, h2, if_true]
  apply decide_eq_true; omega

theorem sle_minus1 : S.le 64 0 (2 ^ 64 - 1) = false := by decide

theorem sub1 (i : Nat) (h : i < 256) : U.sub 64 i 1 = if i = 0 then 2 ^ 64 - 1 else i - 1 := by
  unfold U.sub
  split <;> omega

theorem neg_select {α : Type} [Inhabited α] (n : Nat) (hn : n ≤ 64) (t : Array α) (x : Int) (h0 : x < 0) (h1 : -(2 * (n : Int)) < x) :
    nafSelectI8 n t (I8.neg x) = .ok (Point.nafSelect t (Scalar.wrap8 (-x))) := by
  have : I8.neg x = Scalar.wrap8 (-x) := rfl
  rw [this]
  have hw : Scalar.wrap8 (-x) = -x := by unfold Scalar.wrap8; omega
  rw [hw]
  exact nafSelectI8_eq n t (-x) (by omega) (by omega) (by omega)

theorem vtdStepB_eq (bTable : Array AffineCached) (bNaf : Array Int) (hb : NafRange 64 bNaf) (i : Nat) (hi : i < 256)
    (v : P3) (multA : Cached) (multB : AffineCached) (tmp1 : P1xP1) :
    ∃ v' mA mB t1, vtdStepB bTable bNaf i v multA multB tmp1 =
      .ok ((U.sub 64 i 1, v', mA, mB, t1, Point.P2.fromP1xP1
        (if bNaf[i]! > 0 then
          let v := Point.fromP1xP1 tmp1
          Point.P1xP1.addAffine v (Point.nafSelect bTable bNaf[i]!)
        else if bNaf[i]! < 0 then
          let v := Point.fromP1xP1 tmp1
          Point.P1xP1.subAffine v (Point.nafSelect bTable (Scalar.wrap8 (-bNaf[i]!)))
        else tmp1)), true) := by
  unfold vtdStepB
  have hr := hb i hi
  by_cases h1 : bNaf[i]! > 0
  · simp only [h1, decide_true, if_true, nafSelectI8_eq 64 bTable _ h1 (by omega) (by omega), Res.bind_ok]
    exact ⟨_, _, _, _, rfl⟩
  · by_cases h2 : bNaf[i]! < 0
    · simp only [h1, h2, decide_true, decide_false, if_true, Bool.false_eq_true, if_false, neg_select 64 (by omega) bTable _ h2 (by omega), Res.bind_ok]
      exact ⟨_, _, _, _, rfl⟩
    · simp only [h1, h2, decide_false, Bool.false_eq_true, if_false]
      exact ⟨_, _, _, _, rfl⟩

theorem vtdStep_eq (aTable : Array Cached) (bTable : Array AffineCached) (aNaf bNaf : Array Int)
    (ha : NafRange 8 aNaf) (hb : NafRange 64 bNaf) (k : Nat) (hk : k < 256) (s : VtdState) (hs : s.1 = 255 - k) :
    ∃ v' mA mB t1, vtdStep aTable bTable aNaf bNaf s =
      .ok ((U.sub 64 (255 - k) 1, v', mA, mB, t1, vtdModelStep aTable bTable aNaf bNaf s.2.2.2.2.2 k), true) := by
  obtain ⟨i, v, mA, mB, t1, t2⟩ := s
  simp only at hs
  subst hs
  unfold vtdStep vtdModelStep
  have hi : 255 - k < 256 := by omega
  have hr := ha (255 - k) hi
  simp only [sle_small _ hi, if_true, hi, decide_true, Res.guard_true, Res.bind_ok]
  by_cases h1 : aNaf[255 - k]! > 0
  · simp only [h1, decide_true, if_true, nafSelectI8_eq 8 aTable _ h1 (by omega) (by omega), Res.bind_ok]
    exact vtdStepB_eq bTable bNaf hb _ hi _ _ _ _
  · by_cases h2 : aNaf[255 - k]! < 0
    · simp only [h1, h2, decide_true, decide_false, if_true, Bool.false_eq_true, if_false, neg_select 8 (by omega) aTable _ h2 (by omega), Res.bind_ok]
      exact vtdStepB_eq bTable bNaf hb _ hi _ _ _ _
    · simp only [h1, h2, decide_false, Bool.false_eq_true, if_false]
      exact vtdStepB_eq bTable bNaf hb _ hi _ _ _ _

theorem vtdSkip_terminates (aNaf bNaf : Array Int) : ∀ (j : Nat), j < 256 → ∀ fuel, j + 1 < fuel →
    ∃ e, Loop.iter (vtdSkipStep aNaf bNaf) fuel j = .ok e := by
  have hlast : ∀ fuel, 0 < fuel → ∃ e, Loop.iter (vtdSkipStep aNaf bNaf) fuel (2 ^ 64 - 1) = .ok e := by
    intro fuel hf
    obtain ⟨F, rfl⟩ : ∃ F', fuel = F' + 1 := ⟨fuel - 1, by omega⟩
    rw [Loop.iter_succ]
    unfold vtdSkipStep
    simp only [sle_minus1, Bool.false_eq_true, if_false, Res.bind_ok]
    exact ⟨_, rfl⟩
  intro j
  induction j with
  | zero =>
    intro _ fuel hf
    obtain ⟨F, rfl⟩ : ∃ F', fuel = F' + 1 := ⟨fuel - 1, by omega⟩
    rw [Loop.iter_succ]
    unfold vtdSkipStep
    simp only [sle_small 0 (by omega), if_true, show decide (0 < 256) = true from rfl, Res.guard_true, Res.bind_ok]
    split
    · exact ⟨_, rfl⟩
    · split
      · exact ⟨_, rfl⟩
      · simp only [Res.bind_ok, if_true]
        exact hlast F (by omega)
  | succ j ih =>
    intro hj fuel hf
    obtain ⟨F, rfl⟩ : ∃ F', fuel = F' + 1 := ⟨fuel - 1, by omega⟩
    rw [Loop.iter_succ]
    unfold vtdSkipStep
    simp only [sle_small (j+1) hj, if_true, hj, decide_true, Res.guard_true, Res.bind_ok]
    split
    · exact ⟨_, rfl⟩
    · split
      · exact ⟨_, rfl⟩
      · simp only [Res.bind_ok, if_true]
        have : U.sub 64 (j + 1) 1 = j := by unfold U.sub; omega
        rw [this]
        exact ih (by omega) F (by omega)

theorem vtdDigits_eq (v : P3) (aNaf bNaf : Array Int) (A : P3) (ha : NafRange 8 aNaf) (hb : NafRange 64 bNaf) :
    vtdDigits v aNaf bNaf A = .ok (Point.varTimeDoubleDigits aNaf bNaf A) := by
  unfold vtdDigits
  obtain ⟨e, he⟩ := vtdSkip_terminates aNaf bNaf 255 (by omega) 257 (by omega)
  simp only [he, Res.bind_ok]
  let f := vtdModelStep (Point.naf5Table A) Point.basepointNafTable aNaf bNaf
  have key := Loop.iter_inv (vtdStep (Point.naf5Table A) Point.basepointNafTable aNaf bNaf)
    (fun k s => s.1 = (if k < 256 then 255 - k else 2 ^ 64 - 1) ∧ s.2.2.2.2.2 = (List.range k).foldl f Point.P2.zero)
    (fun e => e.2.2.2.2.2 = (List.range 256).foldl f Point.P2.zero) 256
    (by
      intro k hk s ⟨h1, h2⟩
      rw [if_pos hk] at h1
      obtain ⟨v', mA, mB, t1, hstep⟩ := vtdStep_eq (Point.naf5Table A) Point.basepointNafTable aNaf bNaf ha hb k hk s h1
      refine ⟨_, hstep, ?_, ?_⟩
      · show U.sub 64 (255 - k) 1 = _
        rw [sub1 _ (by omega)]
        by_cases hk2 : k + 1 < 256
        · rw [if_pos hk2, if_neg (by omega)]; omega
        · rw [if_neg hk2, if_pos (by omega)]
      · show vtdModelStep _ _ _ _ s.2.2.2.2.2 k = _
        rw [foldl_range_succ, h2])
    (by
      intro s ⟨h1, h2⟩
      rw [if_neg (by omega)] at h1
      refine ⟨s, ?_, h2⟩
      unfold vtdStep
      rw [h1, sle_minus1]
      rfl)
    0 (255, v, (⟨Fe.rz, Fe.rz, Fe.rz, Fe.rz⟩ : Cached), (⟨Fe.rz, Fe.rz, Fe.rz⟩ : AffineCached), (⟨Fe.rz, Fe.rz, Fe.rz, Fe.rz⟩ : P1xP1), Point.P2.zero)
      (by omega) ⟨rfl, rfl⟩ 257 (by omega)
  obtain ⟨e2, he2, hp⟩ := key
  rw [he2, Res.bind_ok, hp, varTimeDoubleDigits_fold]

def Point_VarTimeDoubleScalarBaseMult (v : P3) (a : W4) (A : P3) (b : W4) : Res P3 :=
  Res.bind (Scalar_nonAdjacentForm a 5) fun aNaf =>
  Res.bind (Scalar_nonAdjacentForm b 8) fun bNaf =>
  vtdDigits v aNaf bNaf A


/-- the model's case analysis on the two digit recodings -/
def vtdMatch (ra rb : Res (Array Int)) (A : P3) : Res P3 :=
  match ra, rb with
  | .ok aNaf, .ok bNaf => .ok (Point.varTimeDoubleDigits aNaf bNaf A)
  | .panic c, _ => .panic c
  | _, .panic c => .panic c
  | _, _ => .err

theorem varTimeDoubleScalarBaseMult_match (a : W4) (A : P3) (b : W4) :
    Point.varTimeDoubleScalarBaseMult a A b = vtdMatch (Scalar.nonAdjacentForm a 5) (Scalar.nonAdjacentForm b 8) A := by
  -- (unfolded at the level of the function: a goal that applies the model to symbolic scalars must not be unfolded,
  -- the kernel would evaluate the digit recoding symbolically)
  obtain ⟨F, hF, h⟩ : ∃ F : W4 → P3 → W4 → Res P3, @Point.varTimeDoubleScalarBaseMult = F ∧
      ∀ a A b, F a A b = vtdMatch (Scalar.nonAdjacentForm a 5) (Scalar.nonAdjacentForm b 8) A := by
    refine ⟨_, by delta Point.varTimeDoubleScalarBaseMult; exact rfl, ?_⟩
    intro a A b
    generalize Scalar.nonAdjacentForm a 5 = ra
    generalize Scalar.nonAdjacentForm b 8 = rb
    cases ra <;> cases rb <;> rfl
  rw [hF]; exact h a A b

theorem Point_VarTimeDoubleScalarBaseMult_eq (v : P3) (a : W4) (A : P3) (b : W4)
    (ha : ∀ d, Scalar.nonAdjacentForm a 5 = .ok d → NafRange 8 d)
    (hb : ∀ d, Scalar.nonAdjacentForm b 8 = .ok d → NafRange 64 d) :
    Point_VarTimeDoubleScalarBaseMult v a A b = Point.varTimeDoubleScalarBaseMult a A b := by
  rw [varTimeDoubleScalarBaseMult_match]
  unfold Point_VarTimeDoubleScalarBaseMult
  rw [Scalar_nonAdjacentForm_eq, Scalar_nonAdjacentForm_eq]
  have ea := nonAdjacentForm_ne_err a 5
  have eb := nonAdjacentForm_ne_err b 8
  generalize Scalar.nonAdjacentForm a 5 = ra at *
  generalize Scalar.nonAdjacentForm b 8 = rb at *
  cases ra with
  | err => exact absurd rfl ea
  | panic c => rfl
  | ok aNaf =>
    cases rb with
    | err => exact absurd rfl eb
    | panic c => rfl
    | ok bNaf =>
      simp only [Res.bind_ok]
      exact vtdDigits_eq v aNaf bNaf A (ha _ rfl) (hb _ rfl)
/-! ### extra.go: `MultiScalarMult`, `VarTimeMultiScalarMult` -/

/-- `for i := range xs` (`len(xs) = n`) in the shape of the SSA: the phi `i` starts at `-1`, the header computes `i+1`,
tests it against the length, and the body begins with the index check of its first access `xs[i+1]`.  The rest of the
state is `σ`; the body is given the continuation that takes the new state to the back edge (so that a body that calls
functions that can panic, or branches, has the shape of the generated code) -/
def rangeStep {σ : Type} (n : Nat) (body : Nat → σ → (σ → Res ((Nat × σ) × Bool)) → Res ((Nat × σ) × Bool)) (s : Nat × σ) :
    Res ((Nat × σ) × Bool) :=
  if S.lt 64 (U.add 64 s.1 1) n then
    Res.bind (Res.guard (decide (U.add 64 s.1 1 < n)) "index") fun _ =>
    body (U.add 64 s.1 1) s.2 fun s' => .ok ((U.add 64 s.1 1, s'), true)
  else .ok (s, false)

def rangeLoop {σ : Type} (n : Nat) (body : Nat → σ → (σ → Res ((Nat × σ) × Bool)) → Res ((Nat × σ) × Bool)) (s0 : σ) : Res (Nat × σ) :=
  Loop.iter (rangeStep n body) (n + 2) (18446744073709551615, s0)

/-- the zero values of the locals -/
def zeroCached : Cached := ⟨Fe.rz, Fe.rz, Fe.rz, Fe.rz⟩
def zeroP1xP1 : P1xP1 := ⟨Fe.rz, Fe.rz, Fe.rz, Fe.rz⟩
def zeroTable : Array Cached := #[zeroCached, zeroCached, zeroCached, zeroCached, zeroCached, zeroCached, zeroCached, zeroCached]

/-- `tables[j].SelectInto(multiple, digits[j][i]); tmp1.Add(v, multiple); v.fromP1xP1(tmp1)` (state `v, multiple, tmp1`) -/
def msmAddStep {ρ : Type} (tables : Array (Array Cached)) (digits : Array (Array Int)) (i j : Nat) (s : P3 × Cached × P1xP1)
    (k : P3 × Cached × P1xP1 → ρ) : ρ :=
  let multiple := projSelectI8 tables[j]! digits[j]![i]!
  let tmp1 := Point.P1xP1.add s.1 multiple
  k (Point.fromP1xP1 tmp1, multiple, tmp1)

/-- state of the loop `for i := 62; i >= 0; i--`: `i, v, multiple, tmp1, tmp2` -/
abbrev MsmState := Nat × P3 × Cached × P1xP1 × P2

def msmStep (n : Nat) (tables : Array (Array Cached)) (digits : Array (Array Int)) (s : MsmState) : Res (MsmState × Bool) :=
  if S.le 64 0 s.1 then
    let tmp1 := Point.P1xP1.double s.2.2.2.2
    let tmp2 := Point.P2.fromP1xP1 tmp1
    let tmp1 := Point.P1xP1.double tmp2
    let tmp2 := Point.P2.fromP1xP1 tmp1
    let tmp1 := Point.P1xP1.double tmp2
    let tmp2 := Point.P2.fromP1xP1 tmp1
    let tmp1 := Point.P1xP1.double tmp2
    let v := Point.fromP1xP1 tmp1
    Res.bind (rangeLoop n (fun j st k => Res.bind (Res.guard (decide (s.1 < 64)) "index") fun _ => msmAddStep tables digits s.1 j st k)
      (v, s.2.2.1, tmp1)) fun r =>
    .ok ((U.sub 64 s.1 1, r.2.1, r.2.2.1, r.2.2.2, Point.P2.fromP3 r.2.1), true)
  else .ok (s, false)

/-- `MultiScalarMult` after the tables and the digits have been computed -/
def msmDigits (n : Nat) (tables : Array (Array Cached)) (digits : Array (Array Int)) : Res P3 :=
  Res.bind (rangeLoop n (msmAddStep tables digits 63) (Point.identity, zeroCached, zeroP1xP1)) fun r2 =>
  Res.bind (Loop.iter (msmStep n tables digits) 64 (62, r2.2.1, r2.2.2.1, r2.2.2.2, Point.P2.fromP3 r2.2.1)) fun r3 =>
  .ok r3.2.1

def Point_MultiScalarMult (_v : P3) (scalars : Array W4) (points : Array P3) : Res P3 :=
  if scalars.size != points.size then .panic "length" else
  Res.bind (rangeLoop points.size (fun i (tabs : Array (Array Cached)) k => k (tabs.set! i (Point.projTable points[i]!)))
    (Array.replicate points.size zeroTable)) fun r0 =>
  Res.bind (rangeLoop points.size (fun i (ds : Array (Array Int)) k => Res.bind (Scalar_signedRadix16 scalars[i]!) fun d => k (ds.set! i d))
    (Array.replicate points.size (Array.replicate 64 0))) fun r1 =>
  msmDigits points.size r0.2 r1.2

/-- the body of `for j := range nafs` in `VarTimeMultiScalarMult` (state `v, multiple, tmp1`) -/
def vtmAddStep {ρ : Type} (tables : Array (Array Cached)) (nafs : Array (Array Int)) (i j : Nat) (s : P3 × Cached × P1xP1)
    (k : P3 × Cached × P1xP1 → Res ρ) : Res ρ :=
  Res.bind (Res.guard (decide (i < 256)) "index") fun _ =>
  if decide (nafs[j]![i]! > 0) then
    let v := Point.fromP1xP1 s.2.2
    Res.bind (nafSelectI8 8 tables[j]! nafs[j]![i]!) fun multiple =>
    k (v, multiple, Point.P1xP1.add v multiple)
  else if decide (nafs[j]![i]! < 0) then
    let v := Point.fromP1xP1 s.2.2
    Res.bind (nafSelectI8 8 tables[j]! (I8.neg nafs[j]![i]!)) fun multiple =>
    k (v, multiple, Point.P1xP1.sub v multiple)
  else k s

def vtmStep (n : Nat) (tables : Array (Array Cached)) (nafs : Array (Array Int)) (s : MsmState) : Res (MsmState × Bool) :=
  if S.le 64 0 s.1 then
    let tmp1 := Point.P1xP1.double s.2.2.2.2
    Res.bind (rangeLoop n (vtmAddStep tables nafs s.1) (s.2.1, s.2.2.1, tmp1)) fun r =>
    .ok ((U.sub 64 s.1 1, r.2.1, r.2.2.1, r.2.2.2, Point.P2.fromP1xP1 r.2.2.2), true)
  else .ok (s, false)

/-- `VarTimeMultiScalarMult` after the tables and the digits have been computed -/
def vtmDigits (n : Nat) (v : P3) (tables : Array (Array Cached)) (nafs : Array (Array Int)) : Res P3 :=
  Res.bind (Loop.iter (vtmStep n tables nafs) 257 (255, v, zeroCached, zeroP1xP1, Point.P2.zero)) fun r2 =>
  .ok (Point.fromP2 r2.2.2.2.2)

def Point_VarTimeMultiScalarMult (v : P3) (scalars : Array W4) (points : Array P3) : Res P3 :=
  if scalars.size != points.size then .panic "length" else
  Res.bind (rangeLoop points.size (fun i (tabs : Array (Array Cached)) k => k (tabs.set! i (Point.naf5Table points[i]!)))
    (Array.replicate points.size zeroTable)) fun r0 =>
  Res.bind (rangeLoop points.size (fun i (ds : Array (Array Int)) k => Res.bind (Scalar_nonAdjacentForm scalars[i]! 5) fun d => k (ds.set! i d))
    (Array.replicate points.size (Array.replicate 256 0))) fun r1 =>
  vtmDigits points.size v r0.2 r1.2

/-! #### generic facts about `range` loops, `Point.collect`, arrays

All facts about counters assume `n < 2^63` (the length of a Go slice is an `int`). -/

theorem slt_small (a b : Nat) (ha : a < 2 ^ 63) (hb : b < 2 ^ 63) : S.lt 64 a b = decide (a < b) := by
  unfold S.lt S.toInt
  have h1 : a < 2 ^ (64 - 1) := by omega
  have h2 : b < 2 ^ (64 - 1) := by omega
  simp only [h1, h2, if_true]
  by_cases h : a < b
  · rw [decide_eq_true h]; apply decide_eq_true; omega
  · rw [decide_eq_false h]; apply decide_eq_false; omega

/-- the counter of a `range` loop after `k` iterations (`-1` at the start) -/
def rangeCtr (k : Nat) : Nat := if k = 0 then 18446744073709551615 else k - 1

theorem rangeCtr_next (k : Nat) (hk : k < 2 ^ 63) : U.add 64 (rangeCtr k) 1 = k := by
  unfold U.add rangeCtr
  split <;> omega

/-- the outcomes other than `.ok` -/
inductive Fail where
  | err
  | panic (c : String)

def Fail.toRes {α : Type} : Fail → Res α
  | .err => .err
  | .panic c => .panic c

theorem Fail.bind {α β : Type} (fl : Fail) (f : α → Res β) : Res.bind (fl.toRes : Res α) f = fl.toRes := by
  cases fl <;> rfl

theorem Res.ok_or_fail {α : Type} (r : Res α) : (∃ v, r = .ok v) ∨ ∃ fl : Fail, r = fl.toRes := by
  cases r with
  | ok v => exact .inl ⟨v, rfl⟩
  | err => exact .inr ⟨.err, rfl⟩
  | panic c => exact .inr ⟨.panic c, rfl⟩

/-- a loop whose `m+1`-st evaluation of the header fails -/
theorem Loop.iter_fail {σ : Type} (step : σ → Res (σ × Bool)) (Inv : Nat → σ → Prop) (m : Nat) (fl : Fail)
    (hstep : ∀ k, k < m → ∀ s, Inv k s → ∃ s', step s = .ok (s', true) ∧ Inv (k+1) s')
    (hfail : ∀ s, Inv m s → step s = fl.toRes) :
    ∀ (j : Nat) (s : σ), j ≤ m → Inv j s → ∀ fuel, m - j < fuel → Loop.iter step fuel s = fl.toRes := by
  intro j s hj hinv fuel hf
  induction fuel generalizing j s with
  | zero => omega
  | succ fuel ih =>
    rw [Loop.iter_succ]
    by_cases hjm : j < m
    · obtain ⟨s', hs, hinv'⟩ := hstep j hjm s hinv
      rw [hs]
      simp only [Res.bind_ok, if_true]
      exact ih (j+1) s' (by omega) hinv' (by omega)
    · have : j = m := by omega
      subst this
      rw [hfail s hinv, Fail.bind]

variable {σ : Type}

/-- the header of a `range` loop after `k < n` iterations: the body is entered with index `k` -/
theorem rangeStep_enter (n : Nat) (hn : n < 2 ^ 63) (body : Nat → σ → (σ → Res ((Nat × σ) × Bool)) → Res ((Nat × σ) × Bool))
    (k : Nat) (hk : k < n) (s : σ) :
    rangeStep n body (rangeCtr k, s) = body k s fun s' => .ok ((k, s'), true) := by
  unfold rangeStep
  simp only [rangeCtr_next k (by omega), slt_small k n (by omega) hn, hk, decide_true, if_true, Res.guard_true, Res.bind_ok]

theorem rangeStep_exit (n : Nat) (hn : n < 2 ^ 63) (body : Nat → σ → (σ → Res ((Nat × σ) × Bool)) → Res ((Nat × σ) × Bool))
    (s : σ) : rangeStep n body (rangeCtr n, s) = .ok ((rangeCtr n, s), false) := by
  unfold rangeStep
  simp only [rangeCtr_next n hn, slt_small n n hn hn, Nat.lt_irrefl, decide_false, Bool.false_eq_true, if_false]

/-- a `range` loop whose body always reaches the back edge, with new state `f i s` (under the invariant `P`) -/
theorem rangeLoop_pure (n : Nat) (hn : n < 2 ^ 63) (body : Nat → σ → (σ → Res ((Nat × σ) × Bool)) → Res ((Nat × σ) × Bool))
    (f : σ → Nat → σ) (P : Nat → σ → Prop)
    (hbody : ∀ i, i < n → ∀ s, P i s → (∀ k, body i s k = k (f s i)) ∧ P (i+1) (f s i))
    (s0 : σ) (h0 : P 0 s0) :
    rangeLoop n body s0 = .ok (rangeCtr n, (List.range n).foldl f s0) ∧ P n ((List.range n).foldl f s0) := by
  have key := Loop.iter_inv (rangeStep n body)
    (fun k s => s.1 = rangeCtr k ∧ s.2 = (List.range k).foldl f s0 ∧ P k s.2)
    (fun e => e = (rangeCtr n, (List.range n).foldl f s0) ∧ P n e.2) n
    (by
      intro k hk s ⟨h1, h2, h3⟩
      obtain ⟨c, st⟩ := s
      simp only at h1 h2 h3
      subst h1
      obtain ⟨hb, hp⟩ := hbody k hk st h3
      refine ⟨_, by rw [rangeStep_enter n hn body k hk st, hb], ?_, ?_, hp⟩
      · show k = rangeCtr (k+1)
        unfold rangeCtr; simp
      · show f st k = _
        rw [foldl_range_succ, h2])
    (by
      intro s ⟨h1, h2, h3⟩
      obtain ⟨c, st⟩ := s
      simp only at h1 h2 h3
      subst h1
      refine ⟨_, rangeStep_exit n hn body st, ?_, h3⟩
      rw [h2])
    0 (18446744073709551615, s0) (by omega) ⟨rfl, rfl, h0⟩ (n + 2) (by omega)
  obtain ⟨e, he, hp1, hp2⟩ := key
  unfold rangeLoop
  rw [he, hp1]
  exact ⟨rfl, by rw [hp1] at hp2; exact hp2⟩


/-! arrays -/
theorem get_set!' {α : Type} [Inhabited α] (a : Array α) (i j : Nat) (v : α) (hi : i < a.size) :
    (a.set! i v)[j]! = if j = i then v else a[j]! := by
  by_cases h : j = i
  · subst h; simp [hi]
  · have h' : ¬ i = j := fun e => h e.symm
    simp [h, h', Array.getElem!_eq_getD]

theorem size_set!' {α : Type} (a : Array α) (i : Nat) (v : α) : (a.set! i v).size = a.size := by simp

theorem getElem!_map' {α β : Type} [Inhabited α] [Inhabited β] (f : α → β) (a : Array α) (j : Nat)
    (h : j < a.size) : (a.map f)[j]! = f a[j]! := by
  rw [getElem!_pos (a.map f) j (by simpa using h), getElem!_pos a j h, Array.getElem_map]

theorem array_ext! {α : Type} [Inhabited α] (a b : Array α) (hs : a.size = b.size) (h : ∀ j, j < a.size → a[j]! = b[j]!) : a = b := by
  apply Array.ext hs
  intro j h1 h2
  have := h j h1
  rwa [getElem!_pos a j h1, getElem!_pos b j h2] at this

/-- filling an array entry by entry: `ds[i] = g i` for `i = 0 … n-1` -/
theorem fill_fold {α : Type} [Inhabited α] (n : Nat) (g : Nat → α) (init : Array α) (hi : init.size = n) :
    ∀ k, k ≤ n → ((List.range k).foldl (fun (ds : Array α) i => ds.set! i (g i)) init).size = n ∧
      ∀ j, j < k → ((List.range k).foldl (fun (ds : Array α) i => ds.set! i (g i)) init)[j]! = g j := by
  intro k
  induction k with
  | zero => intro _; exact ⟨hi, fun j hj => by omega⟩
  | succ k ih =>
    intro hk
    obtain ⟨h1, h2⟩ := ih (by omega)
    rw [foldl_range_succ]
    refine ⟨by rw [size_set!']; exact h1, ?_⟩
    intro j hj
    rw [get_set!' _ _ _ _ (by omega)]
    by_cases hjk : j = k
    · rw [if_pos hjk, hjk]
    · rw [if_neg hjk]; exact h2 j (by omega)

theorem fill_fold_eq_map {α β : Type} [Inhabited α] [Inhabited β] (xs : Array α) (g : α → β) (init : Array β) (hi : init.size = xs.size) :
    (List.range xs.size).foldl (fun (ds : Array β) i => ds.set! i (g xs[i]!)) init = xs.map g := by
  obtain ⟨h1, h2⟩ := fill_fold xs.size (fun i => g xs[i]!) init hi xs.size (Nat.le_refl _)
  apply array_ext! _ _ (by rw [h1]; simp)
  intro j hj
  rw [h2 j (by omega), getElem!_map' g xs j (by omega)]

/-! `Point.collect` -/
def collectStep {α : Type} (acc : Res (Array α)) (r : Res α) : Res (Array α) :=
  match acc, r with
  | .ok a, .ok x => .ok (a.push x)
  | .ok _, .err => .err
  | .ok _, .panic c => .panic c
  | e, _ => e

theorem collect_def {α : Type} (xs : List (Res α)) : Point.collect xs = xs.foldl collectStep (.ok #[]) := rfl

theorem collect_fail_absorb {α : Type} (fl : Fail) (l : List (Res α)) : l.foldl collectStep (fl.toRes) = fl.toRes := by
  induction l with
  | nil => rfl
  | cons r l ih =>
    rw [List.foldl_cons]
    have : collectStep (fl.toRes : Res (Array α)) r = fl.toRes := by cases fl <;> rfl
    rw [this, ih]

theorem collect_ok_list {α β : Type} (R : α → Res β) (g : α → β) (l : List α) (h : ∀ x, x ∈ l → R x = .ok (g x)) (acc : Array β) :
    (l.map R).foldl collectStep (.ok acc) = .ok (acc ++ (l.map g).toArray) := by
  induction l generalizing acc with
  | nil => simp
  | cons x l ih =>
    rw [List.map_cons, List.foldl_cons, h x (List.mem_cons_self ..)]
    show List.foldl collectStep (.ok (acc.push (g x))) _ = _
    rw [ih (fun y hy => h y (List.mem_cons_of_mem _ hy))]
    simp

theorem collect_ok' {α β : Type} [Inhabited α] (R : α → Res β) (g : α → β) (xs : Array α)
    (h : ∀ i, i < xs.size → R xs[i]! = .ok (g xs[i]!)) : Point.collect (xs.toList.map R) = .ok (xs.map g) := by
  rw [collect_def, collect_ok_list R g xs.toList ?_ #[]]
  · congr 1
    apply Array.ext'
    simp
  · intro x hx
    obtain ⟨i, hi, rfl⟩ := List.mem_iff_getElem.mp hx
    have hi' : i < xs.size := by simpa using hi
    have := h i hi'
    rw [getElem!_pos xs i hi'] at this
    simpa using this

theorem collect_fail' {α β : Type} [Inhabited α] (R : α → Res β) (g : α → β) (xs : Array α) (m : Nat) (hm : m < xs.size) (fl : Fail)
    (h : ∀ i, i < m → R xs[i]! = .ok (g xs[i]!)) (hf : R xs[m]! = fl.toRes) : Point.collect (xs.toList.map R) = fl.toRes := by
  have hsplit : xs.toList = xs.toList.take m ++ xs[m]! :: xs.toList.drop (m+1) := by
    rw [getElem!_pos xs m hm]
    have : xs[m] = xs.toList[m]'(by simpa using hm) := by simp
    rw [this, List.getElem_cons_drop, List.take_append_drop]
  rw [collect_def, hsplit, List.map_append, List.foldl_append, collect_ok_list R g _ ?_ #[], List.map_cons, List.foldl_cons, hf]
  · have : collectStep (.ok (#[] ++ (List.map g (List.take m xs.toList)).toArray)) (fl.toRes : Res β) = fl.toRes := by cases fl <;> rfl
    rw [this, collect_fail_absorb]
  · intro x hx
    obtain ⟨i, hi, rfl⟩ := List.mem_iff_getElem.mp hx
    have hi' : i < m := by simp at hi; omega
    have := h i hi'
    rw [getElem!_pos xs i (by omega)] at this
    simpa using this

/-- either every element is accepted, or there is a first one that is not -/
theorem first_fail {α β : Type} [Inhabited α] (R : α → Res β) (xs : Array α) : ∀ n, n ≤ xs.size →
    (∀ i, i < n → ∃ v, R xs[i]! = .ok v) ∨ ∃ m fl, m < n ∧ (∀ i, i < m → ∃ v, R xs[i]! = .ok v) ∧ R xs[m]! = Fail.toRes fl := by
  intro n
  induction n with
  | zero => intro _; exact .inl (fun i hi => by omega)
  | succ n ih =>
    intro hn
    rcases ih (by omega) with h | ⟨m, fl, hm, h1, h2⟩
    · rcases Res.ok_or_fail (R xs[n]!) with ⟨v, hv⟩ | ⟨fl, hfl⟩
      · left
        intro i hi
        by_cases hin : i = n
        · exact ⟨v, by rw [hin, hv]⟩
        · exact h i (by omega)
      · exact .inr ⟨n, fl, by omega, h, hfl⟩
    · exact .inr ⟨m, fl, by omega, h1, h2⟩

/-- the loop `for i := range ds { ds[i] = R(xs[i]) }` is `Point.collect` -/
theorem rangeLoop_collect {β : Type} [Inhabited β] (R : W4 → Res β) (xs : Array W4) (n : Nat) (hx : xs.size = n) (hn : n < 2 ^ 63)
    (init : Array β) (hi : init.size = n) :
    rangeLoop n (fun i (ds : Array β) k => Res.bind (R xs[i]!) fun d => k (ds.set! i d)) init
      = Res.bind (Point.collect (xs.toList.map R)) fun ds => .ok (rangeCtr n, ds) := by
  subst hx
  let g : W4 → β := fun x => (R x).getD default
  have hg : ∀ x v, R x = .ok v → R x = .ok (g x) := by
    intro x v hv; show R x = .ok ((R x).getD default); rw [hv]; rfl
  rcases first_fail R xs xs.size (Nat.le_refl _) with h | ⟨m, fl, hm, h1, h2⟩
  · have h' : ∀ i, i < xs.size → R xs[i]! = .ok (g xs[i]!) := fun i hi => by obtain ⟨v, hv⟩ := h i hi; exact hg _ v hv
    rw [collect_ok' R g xs h', Res.bind_ok]
    have := (rangeLoop_pure xs.size hn (fun i (ds : Array β) k => Res.bind (R xs[i]!) fun d => k (ds.set! i d))
      (fun ds i => ds.set! i (g xs[i]!)) (fun _ _ => True)
      (by
        intro i hi s _
        refine ⟨?_, trivial⟩
        intro k
        show Res.bind (R xs[i]!) _ = _
        rw [h' i hi, Res.bind_ok]) init trivial).1
    rw [this, fill_fold_eq_map xs g init hi]
  · have h' : ∀ i, i < m → R xs[i]! = .ok (g xs[i]!) := fun i hi => by obtain ⟨v, hv⟩ := h1 i hi; exact hg _ v hv
    rw [collect_fail' R g xs m hm fl h' h2, Fail.bind]
    unfold rangeLoop
    exact Loop.iter_fail (rangeStep xs.size _) (fun k s => s.1 = rangeCtr k) m fl
      (by
        intro k hk s hs
        obtain ⟨c, st⟩ := s
        simp only at hs
        subst hs
        refine ⟨(k, st.set! k (g xs[k]!)), ?_, ?_⟩
        · rw [rangeStep_enter xs.size hn _ k (by omega) st]
          show Res.bind (R xs[k]!) _ = _
          rw [h' k hk, Res.bind_ok]
        · show k = rangeCtr (k+1)
          unfold rangeCtr; simp)
      (by
        intro s hs
        obtain ⟨c, st⟩ := s
        simp only at hs
        subst hs
        rw [rangeStep_enter xs.size hn _ m hm st]
        show Res.bind (R xs[m]!) _ = _
        rw [h2, Fail.bind])
      0 _ (by omega) rfl (xs.size + 2) (by omega)


/-! #### `MultiScalarMult` and the model -/

/-- the model's `addAll` -/
def msmAddAll (tables : Array (Array Cached)) (digits : Array (Array Int)) (v : P3) (i : Nat) : P3 :=
  (List.range tables.size).foldl (fun v j =>
    let multiple := Point.projSelect tables[j]! (digits[j]!)[i]!
    Point.fromP1xP1 (Point.P1xP1.add v multiple)) v

/-- one iteration of the model's main loop -/
def msmModelStep (tables : Array (Array Cached)) (digits : Array (Array Int)) (st : P3 × P2) (k : Nat) : P3 × P2 :=
  let i := 62 - k
  let tmp2 := st.2
  let tmp1 := Point.P1xP1.double tmp2
  let tmp2 := Point.P2.fromP1xP1 tmp1
  let tmp1 := Point.P1xP1.double tmp2
  let tmp2 := Point.P2.fromP1xP1 tmp1
  let tmp1 := Point.P1xP1.double tmp2
  let tmp2 := Point.P2.fromP1xP1 tmp1
  let tmp1 := Point.P1xP1.double tmp2
  let v := Point.fromP1xP1 tmp1
  let v := msmAddAll tables digits v i
  (v, Point.P2.fromP3 v)

theorem multiScalarMultDigits_fold (digits : Array (Array Int)) (points : Array P3) :
    Point.multiScalarMultDigits digits points =
      ((List.range 63).foldl (msmModelStep (points.map Point.projTable) digits)
        (msmAddAll (points.map Point.projTable) digits Point.identity 63,
         Point.P2.fromP3 (msmAddAll (points.map Point.projTable) digits Point.identity 63))).1 := by
  unfold Point.multiScalarMultDigits
  simp only []
  rfl

theorem foldl_fst {α β γ : Type} (F : α × β → γ → α × β) (G : α → γ → α) (h : ∀ s j, (F s j).1 = G s.1 j) (l : List γ) (s : α × β) :
    (l.foldl F s).1 = l.foldl G s.1 := by
  induction l generalizing s with
  | nil => rfl
  | cons x l ih => rw [List.foldl_cons, List.foldl_cons, ih, h]

/-- the loop `for j := range tables { SelectInto; Add; fromP1xP1 }` computes the model's `addAll` in `v` -/
theorem msmAddLoop_eq (n : Nat) (hn : n < 2 ^ 63) (tables : Array (Array Cached)) (ht : tables.size = n) (digits : Array (Array Int))
    (hd : ∀ j : Nat, DigitsI8 digits[j]!) (i : Nat) (hi : i < 64) (s0 : P3 × Cached × P1xP1) :
    ∃ m t, rangeLoop n (fun j st k => Res.bind (Res.guard (decide (i < 64)) "index") fun _ => msmAddStep tables digits i j st k) s0
        = .ok (rangeCtr n, msmAddAll tables digits s0.1 i, m, t) ∧
      rangeLoop n (msmAddStep tables digits i) s0 = .ok (rangeCtr n, msmAddAll tables digits s0.1 i, m, t) := by
  let f : P3 × Cached × P1xP1 → Nat → P3 × Cached × P1xP1 := fun s j =>
    (Point.fromP1xP1 (Point.P1xP1.add s.1 (projSelectI8 tables[j]! digits[j]![i]!)), projSelectI8 tables[j]! digits[j]![i]!,
      Point.P1xP1.add s.1 (projSelectI8 tables[j]! digits[j]![i]!))
  have h1 := (rangeLoop_pure n hn (fun j st k => Res.bind (Res.guard (decide (i < 64)) "index") fun _ => msmAddStep tables digits i j st k)
    f (fun _ _ => True) (by
      intro j _ s _
      refine ⟨?_, trivial⟩
      intro k
      simp only [hi, decide_true, Res.guard_true, Res.bind_ok]
      rfl) s0 trivial).1
  have h2 := (rangeLoop_pure n hn (msmAddStep tables digits i) f (fun _ _ => True) (by
      intro j _ s _
      exact ⟨fun k => rfl, trivial⟩) s0 trivial).1
  have hfst : ((List.range n).foldl f s0).1 = msmAddAll tables digits s0.1 i := by
    unfold msmAddAll
    rw [ht]
    apply foldl_fst
    intro s j
    show Point.fromP1xP1 (Point.P1xP1.add s.1 (projSelectI8 tables[j]! digits[j]![i]!)) = _
    rw [projSelectI8_eq _ _ (hd j i).1 (hd j i).2]
  refine ⟨((List.range n).foldl f s0).2.1, ((List.range n).foldl f s0).2.2, ?_, ?_⟩
  · rw [h1, ← hfst]
  · rw [h2, ← hfst]

theorem sle_small' (i : Nat) (h : i < 2 ^ 63) : S.le 64 0 i = true := by
  unfold S.le S.toInt
  have h1 : (0 : Nat) < 2 ^ (64 - 1) := by omega
  have h2 : i < 2 ^ (64 - 1) := by omega
  simp only [h1, h2, if_true]
  apply decide_eq_true; omega

theorem sub1' (i : Nat) (h : i < 2 ^ 63) : U.sub 64 i 1 = if i = 0 then 2 ^ 64 - 1 else i - 1 := by
  unfold U.sub
  split <;> omega

theorem msmDigits_eq (points : Array P3) (hn : points.size < 2 ^ 63) (digits : Array (Array Int)) (hd : ∀ j : Nat, DigitsI8 digits[j]!) :
    msmDigits points.size (points.map Point.projTable) digits = .ok (Point.multiScalarMultDigits digits points) := by
  have ht : (points.map Point.projTable).size = points.size := by simp
  generalize hT : points.map Point.projTable = tables at ht
  unfold msmDigits
  obtain ⟨m0, t0, _, h0⟩ := msmAddLoop_eq points.size hn tables ht digits hd 63 (by omega) (Point.identity, zeroCached, zeroP1xP1)
  rw [h0, Res.bind_ok]
  let st0 : P3 × P2 := (msmAddAll tables digits Point.identity 63, Point.P2.fromP3 (msmAddAll tables digits Point.identity 63))
  have key := Loop.iter_inv (msmStep points.size tables digits)
    (fun k s => s.1 = (if k < 63 then 62 - k else 2 ^ 64 - 1) ∧
      (s.2.1, s.2.2.2.2) = (List.range k).foldl (msmModelStep tables digits) st0)
    (fun e => e.2.1 = ((List.range 63).foldl (msmModelStep tables digits) st0).1) 63
    (by
      intro k hk s ⟨h1, h2⟩
      obtain ⟨i, v, mm, t1, t2⟩ := s
      simp only at h1 h2
      rw [if_pos hk] at h1
      subst h1
      unfold msmStep
      simp only [sle_small' (62 - k) (by omega), if_true]
      obtain ⟨m', t', hl, _⟩ := msmAddLoop_eq points.size hn tables ht digits hd (62 - k) (by omega)
        (Point.fromP1xP1 (Point.P1xP1.double (Point.P2.fromP1xP1 (Point.P1xP1.double (Point.P2.fromP1xP1 (Point.P1xP1.double
          (Point.P2.fromP1xP1 (Point.P1xP1.double t2))))))), mm,
          Point.P1xP1.double (Point.P2.fromP1xP1 (Point.P1xP1.double (Point.P2.fromP1xP1 (Point.P1xP1.double
          (Point.P2.fromP1xP1 (Point.P1xP1.double t2)))))))
      rw [hl, Res.bind_ok]
      refine ⟨_, rfl, ?_, ?_⟩
      · show U.sub 64 (62 - k) 1 = _
        rw [sub1' _ (by omega)]
        by_cases hk2 : k + 1 < 63
        · rw [if_pos hk2, if_neg (by omega)]; omega
        · rw [if_neg hk2, if_pos (by omega)]
      · rw [foldl_range_succ, ← h2]
        rfl)
    (by
      intro s ⟨h1, h2⟩
      rw [if_neg (by omega)] at h1
      refine ⟨s, ?_, ?_⟩
      · unfold msmStep
        rw [h1, sle_minus1]
        rfl
      · rw [← h2])
    0 (62, msmAddAll tables digits Point.identity 63, m0, t0, Point.P2.fromP3 (msmAddAll tables digits Point.identity 63))
    (by omega) ⟨rfl, rfl⟩ 64 (by omega)
  obtain ⟨e, he, hp⟩ := key
  rw [he, Res.bind_ok, hp, multiScalarMultDigits_fold, hT]

/-- the loop `for i := range tables { tables[i].FromP3(points[i]) }` -/
theorem tablesLoop_eq (points : Array P3) (hn : points.size < 2 ^ 63) (T : P3 → Array Cached) (init : Array (Array Cached))
    (hi : init.size = points.size) :
    rangeLoop points.size (fun i (tabs : Array (Array Cached)) k => k (tabs.set! i (T points[i]!))) init
      = .ok (rangeCtr points.size, points.map T) := by
  have := (rangeLoop_pure points.size hn (fun i (tabs : Array (Array Cached)) k => k (tabs.set! i (T points[i]!)))
    (fun tabs i => tabs.set! i (T points[i]!)) (fun _ _ => True) (fun i _ s _ => ⟨fun k => rfl, trivial⟩) init trivial).1
  rw [this, fill_fold_eq_map points T init hi]

theorem multiScalarMult_bind (scalars : Array W4) (points : Array P3) :
    Point.multiScalarMult scalars points =
      Res.bind (Point.collect (scalars.toList.map Scalar.signedRadix16)) fun ds => .ok (Point.multiScalarMultDigits ds points) := by
  obtain ⟨F, hF, h⟩ : ∃ F : Array W4 → Array P3 → Res P3, @Point.multiScalarMult = F ∧
      ∀ ss ps, F ss ps = Res.bind (Point.collect (ss.toList.map Scalar.signedRadix16)) fun ds => .ok (Point.multiScalarMultDigits ds ps) := by
    refine ⟨_, by delta Point.multiScalarMult; exact rfl, ?_⟩
    intro ss ps
    generalize Point.collect (ss.toList.map Scalar.signedRadix16) = c
    cases c <;> rfl
  rw [hF]; exact h scalars points

theorem Point_MultiScalarMult_eq (v : P3) (scalars : Array W4) (points : Array P3) (hn : points.size < 2 ^ 63)
    (hd : ∀ ds, Point.collect (scalars.toList.map Scalar.signedRadix16) = .ok ds → ∀ j : Nat, DigitsI8 ds[j]!) :
    Point_MultiScalarMult v scalars points =
      if scalars.size != points.size then .panic "length" else Point.multiScalarMult scalars points := by
  unfold Point_MultiScalarMult
  by_cases hs : scalars.size = points.size
  · have hne : (scalars.size != points.size) = false := by simp [hs]
    simp only [hne, Bool.false_eq_true, if_false]
    rw [tablesLoop_eq points hn Point.projTable _ (by simp), Res.bind_ok, multiScalarMult_bind]
    simp only [Scalar_signedRadix16_eq]
    rw [rangeLoop_collect Scalar.signedRadix16 scalars points.size hs hn _ (by simp)]
    generalize Point.collect (scalars.toList.map Scalar.signedRadix16) = c at hd
    cases c with
    | err => rfl
    | panic c => rfl
    | ok ds =>
      simp only [Res.bind_ok]
      exact msmDigits_eq points hn ds (hd ds rfl)
  · have hne : (scalars.size != points.size) = true := by simp [hs]
    simp only [hne, if_true]

/-! #### `VarTimeMultiScalarMult` and the model -/

/-- the model's inner loop over the terms, for the coefficient `i` -/
def vtmModelInner (tables : Array (Array Cached)) (nafs : Array (Array Int)) (i : Nat) (tmp1 : P1xP1) (j : Nat) : P1xP1 :=
  let dgt : Int := (nafs[j]!)[i]!
  if dgt > 0 then
    let v := Point.fromP1xP1 tmp1
    Point.P1xP1.add v (Point.nafSelect tables[j]! dgt)
  else if dgt < 0 then
    let v := Point.fromP1xP1 tmp1
    Point.P1xP1.sub v (Point.nafSelect tables[j]! (Scalar.wrap8 (-dgt)))
  else tmp1

def vtmModelStep (tables : Array (Array Cached)) (nafs : Array (Array Int)) (tmp2 : P2) (k : Nat) : P2 :=
  let i := 255 - k
  let tmp1 := Point.P1xP1.double tmp2
  let tmp1 := (List.range nafs.size).foldl (vtmModelInner tables nafs i) tmp1
  Point.P2.fromP1xP1 tmp1

theorem varTimeMultiDigits_fold (nafs : Array (Array Int)) (points : Array P3) :
    Point.varTimeMultiDigits nafs points =
      Point.fromP2 ((List.range 256).foldl (vtmModelStep (points.map Point.naf5Table) nafs) Point.P2.zero) := by
  unfold Point.varTimeMultiDigits
  simp only []
  rfl

theorem foldl_proj {σ τ γ : Type} (π : σ → τ) (F : σ → γ → σ) (G : τ → γ → τ) (h : ∀ s j, π (F s j) = G (π s) j) (l : List γ) (s : σ) :
    π (l.foldl F s) = l.foldl G (π s) := by
  induction l generalizing s with
  | nil => rfl
  | cons x l ih => rw [List.foldl_cons, List.foldl_cons, ih, h]

theorem vtmAddLoop_eq (n : Nat) (hn : n < 2 ^ 63) (tables : Array (Array Cached)) (nafs : Array (Array Int)) (hs : nafs.size = n)
    (hd : ∀ j : Nat, NafRange 8 nafs[j]!) (i : Nat) (hi : i < 256) (s0 : P3 × Cached × P1xP1) :
    ∃ v m, rangeLoop n (vtmAddStep tables nafs i) s0 =
      .ok (rangeCtr n, v, m, (List.range nafs.size).foldl (vtmModelInner tables nafs i) s0.2.2) := by
  let f : P3 × Cached × P1xP1 → Nat → P3 × Cached × P1xP1 := fun s j =>
    if nafs[j]![i]! > 0 then
      (Point.fromP1xP1 s.2.2, Point.nafSelect tables[j]! nafs[j]![i]!,
        Point.P1xP1.add (Point.fromP1xP1 s.2.2) (Point.nafSelect tables[j]! nafs[j]![i]!))
    else if nafs[j]![i]! < 0 then
      (Point.fromP1xP1 s.2.2, Point.nafSelect tables[j]! (Scalar.wrap8 (-nafs[j]![i]!)),
        Point.P1xP1.sub (Point.fromP1xP1 s.2.2) (Point.nafSelect tables[j]! (Scalar.wrap8 (-nafs[j]![i]!))))
    else s
  have h1 := (rangeLoop_pure n hn (vtmAddStep tables nafs i) f (fun _ _ => True) (by
      intro j _ s _
      refine ⟨?_, trivial⟩
      intro k
      have hr := hd j i hi
      unfold vtmAddStep
      simp only [hi, decide_true, Res.guard_true, Res.bind_ok]
      show _ = k (if nafs[j]![i]! > 0 then _ else if nafs[j]![i]! < 0 then _ else s)
      by_cases h1 : nafs[j]![i]! > 0
      · simp only [h1, decide_true, if_true, nafSelectI8_eq 8 tables[j]! _ h1 (by omega) (by omega), Res.bind_ok]
      · by_cases h2 : nafs[j]![i]! < 0
        · simp only [h1, h2, decide_true, decide_false, if_true, Bool.false_eq_true, if_false,
            neg_select 8 (by omega) tables[j]! _ h2 (by omega), Res.bind_ok]
        · simp only [h1, h2, decide_false, Bool.false_eq_true, if_false]) s0 trivial).1
  have hthd : ((List.range n).foldl f s0).2.2 = (List.range nafs.size).foldl (vtmModelInner tables nafs i) s0.2.2 := by
    rw [hs]
    apply foldl_proj (fun s : P3 × Cached × P1xP1 => s.2.2)
    intro s j
    show (if nafs[j]![i]! > 0 then _ else if nafs[j]![i]! < 0 then _ else s).2.2 = vtmModelInner tables nafs i s.2.2 j
    unfold vtmModelInner
    by_cases h1 : nafs[j]![i]! > 0
    · simp only [h1, if_true]
    · by_cases h2 : nafs[j]![i]! < 0
      · simp only [h1, h2, if_true, if_false]
      · simp only [h1, h2, if_false]
  refine ⟨((List.range n).foldl f s0).1, ((List.range n).foldl f s0).2.1, ?_⟩
  rw [h1, ← hthd]

theorem vtmDigits_eq (v : P3) (points : Array P3) (hn : points.size < 2 ^ 63) (nafs : Array (Array Int)) (hs : nafs.size = points.size)
    (hd : ∀ j : Nat, NafRange 8 nafs[j]!) :
    vtmDigits points.size v (points.map Point.naf5Table) nafs = .ok (Point.varTimeMultiDigits nafs points) := by
  generalize hT : points.map Point.naf5Table = tables
  unfold vtmDigits
  have key := Loop.iter_inv (vtmStep points.size tables nafs)
    (fun k s => s.1 = (if k < 256 then 255 - k else 2 ^ 64 - 1) ∧
      s.2.2.2.2 = (List.range k).foldl (vtmModelStep tables nafs) Point.P2.zero)
    (fun e => e.2.2.2.2 = (List.range 256).foldl (vtmModelStep tables nafs) Point.P2.zero) 256
    (by
      intro k hk s ⟨h1, h2⟩
      obtain ⟨i, vv, mm, t1, t2⟩ := s
      simp only at h1 h2
      rw [if_pos hk] at h1
      subst h1
      unfold vtmStep
      simp only [sle_small' (255 - k) (by omega), if_true]
      obtain ⟨v', m', hl⟩ := vtmAddLoop_eq points.size hn tables nafs hs hd (255 - k) (by omega) (vv, mm, Point.P1xP1.double t2)
      rw [hl, Res.bind_ok]
      refine ⟨_, rfl, ?_, ?_⟩
      · show U.sub 64 (255 - k) 1 = _
        rw [sub1' _ (by omega)]
        by_cases hk2 : k + 1 < 256
        · rw [if_pos hk2, if_neg (by omega)]; omega
        · rw [if_neg hk2, if_pos (by omega)]
      · rw [foldl_range_succ, ← h2]
        rfl)
    (by
      intro s ⟨h1, h2⟩
      rw [if_neg (by omega)] at h1
      refine ⟨s, ?_, h2⟩
      unfold vtmStep
      rw [h1, sle_minus1]
      rfl)
    0 (255, v, zeroCached, zeroP1xP1, Point.P2.zero) (by omega) ⟨rfl, rfl⟩ 257 (by omega)
  obtain ⟨e, he, hp⟩ := key
  rw [he, Res.bind_ok, hp, varTimeMultiDigits_fold, hT]

theorem collect_size_list {β : Type} (l : List (Res β)) : ∀ (acc ds : Array β),
    l.foldl collectStep (.ok acc) = .ok ds → ds.size = acc.size + l.length := by
  induction l with
  | nil => intro acc ds h; cases h; rfl
  | cons r l ih =>
    intro acc ds h
    rw [List.foldl_cons] at h
    cases r with
    | ok x =>
      have := ih (acc.push x) ds h
      simp at this ⊢; omega
    | err =>
      have e : collectStep (.ok acc) (.err : Res β) = (Fail.err).toRes := rfl
      rw [e, collect_fail_absorb] at h; cases h
    | panic c =>
      have e : collectStep (.ok acc) (.panic c : Res β) = (Fail.panic c).toRes := rfl
      rw [e, collect_fail_absorb] at h; cases h

theorem collect_size {α β : Type} (R : α → Res β) (xs : Array α) (ds : Array β)
    (h : Point.collect (xs.toList.map R) = .ok ds) : ds.size = xs.size := by
  rw [collect_def] at h
  have := collect_size_list _ _ _ h
  simpa using this

theorem varTimeMultiScalarMult_bind (scalars : Array W4) (points : Array P3) :
    Point.varTimeMultiScalarMult scalars points =
      Res.bind (Point.collect (scalars.toList.map (Scalar.nonAdjacentForm · 5))) fun ds => .ok (Point.varTimeMultiDigits ds points) := by
  obtain ⟨F, hF, h⟩ : ∃ F : Array W4 → Array P3 → Res P3, @Point.varTimeMultiScalarMult = F ∧
      ∀ ss ps, F ss ps = Res.bind (Point.collect (ss.toList.map (Scalar.nonAdjacentForm · 5))) fun ds => .ok (Point.varTimeMultiDigits ds ps) := by
    refine ⟨_, by delta Point.varTimeMultiScalarMult; exact rfl, ?_⟩
    intro ss ps
    generalize Point.collect (ss.toList.map (Scalar.nonAdjacentForm · 5)) = c
    cases c <;> rfl
  rw [hF]; exact h scalars points

theorem Point_VarTimeMultiScalarMult_eq (v : P3) (scalars : Array W4) (points : Array P3) (hn : points.size < 2 ^ 63)
    (hd : ∀ ds, Point.collect (scalars.toList.map (Scalar.nonAdjacentForm · 5)) = .ok ds → ∀ j : Nat, NafRange 8 ds[j]!) :
    Point_VarTimeMultiScalarMult v scalars points =
      if scalars.size != points.size then .panic "length" else Point.varTimeMultiScalarMult scalars points := by
  unfold Point_VarTimeMultiScalarMult
  by_cases hs : scalars.size = points.size
  · have hne : (scalars.size != points.size) = false := by simp [hs]
    simp only [hne, Bool.false_eq_true, if_false]
    rw [tablesLoop_eq points hn Point.naf5Table _ (by simp), Res.bind_ok, varTimeMultiScalarMult_bind]
    simp only [Scalar_nonAdjacentForm_eq]
    rw [rangeLoop_collect (Scalar.nonAdjacentForm · 5) scalars points.size hs hn _ (by simp)]
    have hsz := collect_size (Scalar.nonAdjacentForm · 5) scalars
    generalize Point.collect (scalars.toList.map (Scalar.nonAdjacentForm · 5)) = c at hd hsz
    cases c with
    | err => rfl
    | panic c => rfl
    | ok ds =>
      simp only [Res.bind_ok]
      exact vtmDigits_eq v points hn ds (by rw [hsz ds rfl, hs]) (hd ds rfl)
  · have hne : (scalars.size != points.size) = true := by simp [hs]
    simp only [hne, if_true]
/-! ### field/fe.go: `Element.bytes`, `Bytes`, `IsNegative`

The callers of `Bytes` / `IsNegative` keep the primitives `Fe.bytes` / `Fe.isNegative` (hand-written in `Impl/Fe.lean`);
the three functions are also translated on their own, and `field_Element_Bytes_eq` / `field_Element_IsNegative_eq` show
that the primitives are what the Go code computes (above the kernel `reduce` and `binary.LittleEndian.PutUint64`). -/

/-- `for i, bb := range buf { out[base+i] |= bb }` for the indices `i` of the list (the loop is unrolled by the
translator, up to the `break` at `base+i >= 32`) -/
def orBytesSsa (out : Bytes) (base : Nat) (buf : Bytes) : List Nat → Bytes
  | [] => out
  | j :: js => orBytesSsa (Bin.orAt out (base + j) buf[j]!) base buf js

def field_Element_bytes (v : Fe) (out : Bytes) : Bytes :=
  let t := Fe.reduce v
  let out := orBytesSsa out 0 (Fe.putLE64A (U.shl 64 t.l0 0)) (List.range' 0 8)
  let out := orBytesSsa out 6 (Fe.putLE64A (U.shl 64 t.l1 3)) (List.range' 0 8)
  let out := orBytesSsa out 12 (Fe.putLE64A (U.shl 64 t.l2 6)) (List.range' 0 8)
  let out := orBytesSsa out 19 (Fe.putLE64A (U.shl 64 t.l3 1)) (List.range' 0 8)
  orBytesSsa out 25 (Fe.putLE64A (U.shl 64 t.l4 4)) (List.range' 0 7)

def field_Element_Bytes (v : Fe) : Bytes := field_Element_bytes v (Bin.zeros 32)
def field_Element_IsNegative (v : Fe) : Nat := (Fe.bytes v)[0]! &&& 1

theorem orBytesSsa_size (base : Nat) (buf : Bytes) (js : List Nat) : ∀ out : Bytes, (orBytesSsa out base buf js).size = out.size := by
  induction js with
  | nil => intro out; rfl
  | cons j js ih => intro out; unfold orBytesSsa; rw [ih]; simp [Bin.orAt]

theorem orBytes_fold (B : List Nat) (base : Nat) : ∀ (l : List Nat) (k : Nat) (out : Bytes), l = B.drop k →
    ((l.zipIdx k).foldl (fun (out : Bytes) (x : Nat × Nat) =>
        match x with
        | (bb, j) =>
          let off := base + j
          if off ≥ out.size then out else out.set! off (out[off]! ||| bb)) out)
      = orBytesSsa out base B.toArray (List.range' k (min l.length (out.size - (base + k)))) := by
  intro l
  induction l with
  | nil => intro k out _; rfl
  | cons x l ih =>
    intro k out hl
    have hk : k < B.length := by
      have := congrArg List.length hl
      simp at this; omega
    have hx : x = B[k]'hk := by
      have := List.drop_eq_getElem_cons hk
      rw [this] at hl
      exact (List.cons.inj hl).1
    have hl' : l = B.drop (k+1) := by
      have := List.drop_eq_getElem_cons hk
      rw [this] at hl
      exact (List.cons.inj hl).2
    rw [List.zipIdx_cons, List.foldl_cons]
    simp only []
    by_cases hin : base + k ≥ out.size
    · rw [if_pos hin, ih (k+1) out hl']
      have e1 : min l.length (out.size - (base + (k + 1))) = 0 := by omega
      have e2 : min (x :: l).length (out.size - (base + k)) = 0 := by omega
      rw [e1, e2]
      rfl
    · rw [if_neg hin, ih (k+1) _ hl']
      have e : min (x :: l).length (out.size - (base + k)) = min l.length (out.size - (base + (k+1))) + 1 := by
        simp only [List.length_cons]; omega
      rw [e, List.range'_succ]
      have hb : B.toArray[k]! = x := by rw [hx]; simp [hk]
      conv => rhs; unfold orBytesSsa
      rw [hb]
      simp [Bin.orAt]

theorem orBytesAt_eq (out : Bytes) (base : Nat) (w : Nat) (n : Nat) (hn : n = min 8 (out.size - base)) :
    Fe.orBytesAt out base (Fe.putLE64 w) = orBytesSsa out base (Fe.putLE64A w) (List.range' 0 n) := by
  unfold Fe.orBytesAt
  have := orBytes_fold (Fe.putLE64 w) base (Fe.putLE64 w) 0 out rfl
  have hl : (Fe.putLE64 w).length = 8 := by simp [Fe.putLE64]
  rw [hl, Nat.add_zero, ← hn] at this
  exact this

theorem field_Element_Bytes_eq (v : Fe) : field_Element_Bytes v = Fe.bytes v := by
  unfold field_Element_Bytes field_Element_bytes Fe.bytes
  simp only [List.zipIdx_cons, List.zipIdx_nil, List.foldl_cons, List.foldl_nil, Nat.zero_add, Nat.reduceMul, Nat.reduceDiv,
    Nat.reduceMod, Nat.reduceAdd]
  have h0 : (Bin.zeros 32).size = 32 := by simp [Bin.zeros]
  rw [orBytesAt_eq _ 0 _ 8 (by rw [h0]; decide)]
  rw [orBytesAt_eq _ 6 _ 8 (by rw [orBytesSsa_size, h0]; decide)]
  rw [orBytesAt_eq _ 12 _ 8 (by rw [orBytesSsa_size, orBytesSsa_size, h0]; decide)]
  rw [orBytesAt_eq _ 19 _ 8 (by rw [orBytesSsa_size, orBytesSsa_size, orBytesSsa_size, h0]; decide)]
  rw [orBytesAt_eq _ 25 _ 7 (by rw [orBytesSsa_size, orBytesSsa_size, orBytesSsa_size, orBytesSsa_size, h0]; decide)]

theorem field_Element_IsNegative_eq (v : Fe) : field_Element_IsNegative v = Fe.isNegative v := rfl
/-! ### tables.go: `nafLookupTable8.FromP3` (63 iterations, kept as a loop) -/

/-- state of the loop: `i`, `v.points`, `tmpP3`, `tmpP1xP1` -/
abbrev Naf8State := Nat × Array AffineCached × P3 × P1xP1

def naf8Step (q2 : P3) (s : Naf8State) : Res (Naf8State × Bool) :=
  if S.lt 64 s.1 63 then
    Res.bind (Res.guard (decide (U.add 64 s.1 1 < 64)) "index") fun _ =>
    Res.bind (Res.guard (decide (s.1 < 64)) "index") fun _ =>
    let tmp1 := Point.P1xP1.addAffine q2 s.2.1[s.1]!
    let tmp3 := Point.fromP1xP1 tmp1
    .ok ((U.add 64 s.1 1, s.2.1.set! (U.add 64 s.1 1) (Point.AffineCached.fromP3 tmp3), tmp3, tmp1), true)
  else .ok (s, false)

def nafLookupTable8_FromP3 (v : Array AffineCached) (q : P3) : Res (Array AffineCached) :=
  Res.bind (Loop.iter (naf8Step (Point.add q q)) 65
    (0, (Point.AffineCached.fromP3 q :: (List.range' 1 63).map (fun i => v[i]!)).toArray, (⟨Fe.rz, Fe.rz, Fe.rz, Fe.rz⟩ : P3), zeroP1xP1)) fun r =>
  .ok r.2.1

/-- one step of the model's `naf8Table` -/
def naf8ModelStep (q2 : P3) (t : Array AffineCached) (i : Nat) : Array AffineCached :=
  t.push (Point.AffineCached.fromP3 (Point.fromP1xP1 (Point.P1xP1.addAffine q2 t[i]!)))

theorem naf8Table_fold (q : P3) :
    Point.naf8Table q = (List.range 63).foldl (naf8ModelStep (Point.add q q)) #[Point.AffineCached.fromP3 q] := rfl

theorem naf8Model_size (q2 : P3) (t0 : Array AffineCached) (k : Nat) :
    ((List.range k).foldl (naf8ModelStep q2) t0).size = t0.size + k := by
  induction k with
  | zero => rfl
  | succ k ih =>
    rw [foldl_range_succ]
    show (Array.push _ _).size = _
    rw [Array.size_push, ih]; omega

theorem getElem!_push_lt {α : Type} [Inhabited α] (t : Array α) (x : α) (j : Nat) (h : j < t.size) : (t.push x)[j]! = t[j]! := by
  rw [getElem!_pos (t.push x) j (by simp; omega), getElem!_pos t j h, Array.getElem_push_lt]

theorem getElem!_push_eq {α : Type} [Inhabited α] (t : Array α) (x : α) : (t.push x)[t.size]! = x := by
  rw [getElem!_pos (t.push x) t.size (by simp)]; simp

theorem slt_63 (i : Nat) (h : i < 2 ^ 63) : S.lt 64 i 63 = decide (i < 63) := slt_small i 63 h (by omega)

theorem nafLookupTable8_FromP3_eq (v : Array AffineCached) (q : P3) :
    nafLookupTable8_FromP3 v q = .ok (Point.naf8Table q) := by
  unfold nafLookupTable8_FromP3
  let q2 := Point.add q q
  let M : Nat → Array AffineCached := fun k => (List.range k).foldl (naf8ModelStep q2) #[Point.AffineCached.fromP3 q]
  have hM : ∀ k, (M k).size = k + 1 := by
    intro k
    have := naf8Model_size q2 #[Point.AffineCached.fromP3 q] k
    simp at this
    show ((List.range k).foldl (naf8ModelStep q2) #[Point.AffineCached.fromP3 q]).size = k + 1
    omega
  have hinit : ((Point.AffineCached.fromP3 q :: (List.range' 1 63).map (fun i => v[i]!)).toArray).size = 64 := by simp
  have key := Loop.iter_inv (naf8Step q2)
    (fun k s => s.1 = k ∧ s.2.1.size = 64 ∧ ∀ j, j ≤ k → s.2.1[j]! = (M k)[j]!)
    (fun e => e.2.1 = M 63) 63
    (by
      intro k hk s ⟨h1, h2, h3⟩
      obtain ⟨i, tab, t3, t1⟩ := s
      simp only at h1 h2 h3
      subst h1
      unfold naf8Step
      have e1 : U.add 64 i 1 = i + 1 := by unfold U.add; omega
      simp only [slt_63 i (by omega), hk, decide_true, if_true, e1, show i + 1 < 64 by omega, show i < 64 by omega, Res.guard_true, Res.bind_ok]
      refine ⟨_, rfl, rfl, by simp [h2], ?_⟩
      intro j hj
      show (tab.set! (i + 1) _)[j]! = (M (i+1))[j]!
      have hMs : M (i+1) = naf8ModelStep q2 (M i) i := foldl_range_succ _ _ _
      rw [get_set!' _ _ _ _ (by omega), hMs]
      unfold naf8ModelStep
      by_cases hji : j = i + 1
      · rw [if_pos hji, hji]
        have : i + 1 = (M i).size := (hM i).symm
        rw [this, getElem!_push_eq, h3 i (Nat.le_refl _)]
      · rw [if_neg hji, getElem!_push_lt _ _ _ (by rw [hM]; omega)]
        exact h3 j (by omega))
    (by
      intro s ⟨h1, h2, h3⟩
      refine ⟨s, ?_, ?_⟩
      · unfold naf8Step
        rw [h1, slt_63 63 (by omega)]
        rfl
      · apply array_ext! _ _ (by rw [h2, hM])
        intro j hj
        exact h3 j (by omega))
    0 (0, (Point.AffineCached.fromP3 q :: (List.range' 1 63).map (fun i => v[i]!)).toArray, (⟨Fe.rz, Fe.rz, Fe.rz, Fe.rz⟩ : P3), zeroP1xP1)
    (by omega) ⟨rfl, hinit, by
      intro j hj
      have : j = 0 := by omega
      subst this
      rfl⟩ 65 (by omega)
  obtain ⟨e, he, hp⟩ := key
  rw [he, Res.bind_ok, hp, naf8Table_fold]
end EdVerif.FormulaSpec
