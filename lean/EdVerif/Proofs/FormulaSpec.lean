import EdVerif.Impl.FormulaPrims
/-!
# What each straight-line function above the kernels computes, in terms of the hand-written model

`EdVerif/Gen/Formulas.lean` is regenerated from `/repo` on every run (symbolic execution of the go/ssa
form of each function, once per aliasing pattern of its pointer parameters).  This file says, per Go
function, which `Impl` function of the argument *values* it is claimed to be; the first parameter is
the receiver's prior value.  `EdVerif/Gen/FormulaTies.lean` (generated) proves by `rfl`, for every
function and every aliasing pattern, that the regenerated definition equals the specification below —
so the theorems proved about `Impl` (C02, C05, C06, C13, C16, C17, C01) are theorems about what the
current Go source of these functions computes, whichever arguments share storage (C11 at this level).
-/
namespace EdVerif.FormulaSpec
open EdVerif.Impl EdVerif.Prims EdVerif.Gen

-- field/fe.go (high layer)
def field_Element_Negate (_v a : Fe) : Fe := Fe.neg a
def field_Element_Absolute (_v u : Fe) : Fe := Fe.absolute u
def field_Element_Equal (v u : Fe) : Nat := Fe.equal v u
def field_Element_SqrtRatio (_r u v : Fe) : Fe × Nat := Fe.sqrtRatio u v

-- edwards25519.go: representations
def projP2_Zero (_v : P2) : P2 := Point.P2.zero
def projCached_Zero (_v : Cached) : Cached := Point.Cached.zero
def affineCached_Zero (_v : AffineCached) : AffineCached := Point.AffineCached.zero
def projP2_FromP1xP1 (_v : P2) (p : P1xP1) : P2 := Point.P2.fromP1xP1 p
def projP2_FromP3 (_v : P2) (p : P3) : P2 := Point.P2.fromP3 p
def Point_fromP1xP1 (_v : P3) (p : P1xP1) : P3 := Point.fromP1xP1 p
def Point_fromP2 (_v : P3) (p : P2) : P3 := Point.fromP2 p
def projCached_FromP3 (_v : Cached) (p : P3) : Cached := Point.Cached.fromP3 p
def affineCached_FromP3 (_v : AffineCached) (p : P3) : AffineCached := Point.AffineCached.fromP3 p

-- edwards25519.go: formulas
def projP1xP1_Add (_v : P1xP1) (p : P3) (q : Cached) : P1xP1 := Point.P1xP1.add p q
def projP1xP1_Sub (_v : P1xP1) (p : P3) (q : Cached) : P1xP1 := Point.P1xP1.sub p q
def projP1xP1_AddAffine (_v : P1xP1) (p : P3) (q : AffineCached) : P1xP1 := Point.P1xP1.addAffine p q
def projP1xP1_SubAffine (_v : P1xP1) (p : P3) (q : AffineCached) : P1xP1 := Point.P1xP1.subAffine p q
def projP1xP1_Double (_v : P1xP1) (p : P2) : P1xP1 := Point.P1xP1.double p
def projCached_Select (_v a b : Cached) (cond : Nat) : Cached := Point.Cached.select a b cond
def affineCached_Select (_v a b : AffineCached) (cond : Nat) : AffineCached := Point.AffineCached.select a b cond
def projCached_CondNeg (v : Cached) (cond : Nat) : Cached := Point.Cached.condNeg v cond
def affineCached_CondNeg (v : AffineCached) (cond : Nat) : AffineCached := Point.AffineCached.condNeg v cond

-- edwards25519.go / extra.go: the exported operations that are straight-line (after `checkInitialized`)
def Point_Add (_v p q : P3) : P3 := Point.add p q
def Point_Subtract (_v p q : P3) : P3 := Point.sub p q
def Point_Negate (_v p : P3) : P3 := Point.neg p
def Point_MultByCofactor (_v p : P3) : P3 := Point.multByCofactor p
def Point_Equal (v u : P3) : Nat := Point.equal v u
def Point_bytesMontgomery (v : P3) (_buf : Bytes) : Bytes := Point.bytesMontgomery v

-- encoders, copies, constructors, coordinate export
def Point_bytes (v : P3) (_buf : Bytes) : Bytes := Point.bytes v
def Point_Bytes (v : P3) : Bytes := Point.bytes v
def Point_BytesMontgomery (v : P3) : Bytes := Point.bytesMontgomery v
def Point_Set (_v u : P3) : P3 := u
def NewIdentityPoint : P3 := Point.identity
def NewGeneratorPoint : P3 := Point.generator
def Point_extendedCoordinates (v : P3) (_e : Array Fe) : Fe × Fe × Fe × Fe := (v.x, v.y, v.z, v.t)

-- tables.go: table construction (constant-trip loops, unrolled by the translator)
def projLookupTable_FromP3 (_v : Array Cached) (q : P3) : Array Cached := Point.projTable q
def affineLookupTable_FromP3 (_v : Array AffineCached) (q : P3) : Array AffineCached := Point.affineTable q
def nafLookupTable5_FromP3 (_v : Array Cached) (q : P3) : Array Cached := Point.naf5Table q

-- tables.go: constant-time table selection.  `x int8` is modelled by the integer it denotes; the `int8` operations
-- are the wrapping operations of `EdVerif.Impl.I8`.  Written in the shape of the SSA; `projSelectI8_eq` /
-- `affineSelectI8_eq` below relate them to the model's `Point.projSelect` / `Point.affineSelect` for `-128 ≤ x ≤ 127`.
/-- `xabs := uint8((x + xmask) ^ xmask)` with `xmask := x >> 7` -/
def selectAbs (x : Int) : Nat := I8.toU8 (I8.xor (I8.add x (I8.sar x 7)) (I8.sar x 7))
/-- `int(xmask & 1)` -/
def selectNeg (x : Int) : Nat := I8.toU 64 (I8.and (I8.sar x 7) 1)

def projSelectI8 (t : Array Cached) (x : Int) : Cached :=
  let xabs := selectAbs x
  let dest := (List.range 8).foldl (fun dest j =>
    Point.Cached.select t[j]! dest (Point.ctByteEq xabs (j + 1))) Point.Cached.zero
  Point.Cached.condNeg dest (selectNeg x)

def affineSelectI8 (t : Array AffineCached) (x : Int) : AffineCached :=
  let xabs := selectAbs x
  let dest := (List.range 8).foldl (fun dest j =>
    Point.AffineCached.select t[j]! dest (Point.ctByteEq xabs (j + 1))) Point.AffineCached.zero
  Point.AffineCached.condNeg dest (selectNeg x)

def projLookupTable_SelectInto (v : Array Cached) (_dest : Cached) (x : Int) : Cached := projSelectI8 v x
def affineLookupTable_SelectInto (v : Array AffineCached) (_dest : AffineCached) (x : Int) : AffineCached := affineSelectI8 v x

-- scalarmult.go: the two constant-time scalar multiplications (64 unrolled iterations each).  The digit recoding
-- (`Scalar.radix16Digits`, total version of `Scalar.signedRadix16`) is a primitive of the translation; the table
-- selections are the translated `SelectInto`s.  `scalarMultDigitsI8` / `scalarBaseMultDigitsI8` are the model's
-- `Point.scalarMultDigits` / `Point.scalarBaseMultDigits` with the selections in SSA shape; they are equal to the model
-- when the digits are `int8` values (`scalarMultDigitsI8_eq`, `scalarBaseMultDigitsI8_eq` below), and
-- `Point.scalarMult x q = .ok (Point.scalarMultDigits d q)` whenever `Scalar.signedRadix16 x = .ok d` by definition.
def scalarMultDigitsI8 (digits : Array Int) (q : P3) : P3 :=
  let table := Point.projTable q
  let multiple := projSelectI8 table digits[63]!
  let v := Point.identity
  let tmp1 := Point.P1xP1.add v multiple
  let tmp1 := (List.range 63).foldl (fun tmp1 k =>
    let i := 62 - k
    let tmp1 := Point.mul16 tmp1
    let v := Point.fromP1xP1 tmp1
    let multiple := projSelectI8 table digits[i]!
    Point.P1xP1.add v multiple) tmp1
  Point.fromP1xP1 tmp1

def scalarBaseMultDigitsI8 (digits : Array Int) : P3 :=
  let bt := Point.basepointTable
  let v := Point.identity
  let v := (List.range 32).foldl (fun v k =>
    let i := 2 * k + 1
    let multiple := affineSelectI8 bt[i / 2]! digits[i]!
    Point.fromP1xP1 (Point.P1xP1.addAffine v multiple)) v
  let tmp2 := Point.P2.fromP3 v
  let tmp1 := Point.P1xP1.double tmp2
  let tmp2 := Point.P2.fromP1xP1 tmp1
  let tmp1 := Point.P1xP1.double tmp2
  let tmp2 := Point.P2.fromP1xP1 tmp1
  let tmp1 := Point.P1xP1.double tmp2
  let tmp2 := Point.P2.fromP1xP1 tmp1
  let tmp1 := Point.P1xP1.double tmp2
  let v := Point.fromP1xP1 tmp1
  (List.range 32).foldl (fun v k =>
    let i := 2 * k
    let multiple := affineSelectI8 bt[i / 2]! digits[i]!
    Point.fromP1xP1 (Point.P1xP1.addAffine v multiple)) v

def Point_ScalarMult (_v : P3) (x : W4) (q : P3) : P3 := scalarMultDigitsI8 (Scalar.radix16Digits x) q
def Point_ScalarBaseMult (_v : P3) (x : W4) : P3 := scalarBaseMultDigitsI8 (Scalar.radix16Digits x)

-- addition chains (constant-trip loops, unrolled by the translator)
def field_Element_Invert (_v z : Fe) : Fe := Fe.invert z
def field_Element_Pow22523 (_v x : Fe) : Fe := Fe.pow22523 x

-- extra.go / edwards25519.go: the decoders.  A fallible setter is specified by the pair
-- `(value returned, or none for (nil, error)`, `final value of the receiver)`.
def isOnCurve (X Y Z T : Fe) : Bool := Point.isOnCurve X Y Z T

def Point_SetExtendedCoordinates (v : P3) (X Y Z T : Fe) : Option P3 × P3 :=
  if Point.isOnCurve X Y Z T then (some ⟨X, Y, Z, T⟩, ⟨X, Y, Z, T⟩) else (none, v)

def Point_SetBytes (v : P3) (x : Bytes) : Option P3 × P3 :=
  match Fe.setBytes x with
  | none => (none, v)
  | some y =>
    let y2 := Fe.square y
    let u := Fe.sub y2 Point.feOne
    let vv := Fe.mul y2 Point.d
    let vv := Fe.add vv Point.feOne
    let r := Fe.sqrtRatio u vv
    if r.2 == 0 then (none, v) else
    let xxNeg := Fe.neg r.1
    let xx := Fe.select xxNeg r.1 (x[31]! >>> 7)
    (some ⟨xx, y, Fe.one, Fe.mul xx y⟩, ⟨xx, y, Fe.one, Fe.mul xx y⟩)

/-- the pair form agrees with the model's `Option` form; on failure the receiver is unchanged -/
theorem Point_SetExtendedCoordinates_eq (v : P3) (X Y Z T : Fe) :
    Point_SetExtendedCoordinates v X Y Z T =
      (Point.setExtendedCoordinates X Y Z T, (Point.setExtendedCoordinates X Y Z T).getD v) := by
  unfold Point_SetExtendedCoordinates Point.setExtendedCoordinates
  cases h : Point.isOnCurve X Y Z T <;> simp

theorem Point_SetBytes_eq (v : P3) (x : Bytes) :
    Point_SetBytes v x = (Point.setBytes x, (Point.setBytes x).getD v) := by
  unfold Point_SetBytes Point.setBytes
  cases h : Fe.setBytes x with
  | none => simp
  | some y =>
    simp only []
    by_cases hw : ((Fe.sqrtRatio (Fe.sub (Fe.square y) Point.feOne) (Fe.add (Fe.mul (Fe.square y) Point.d) Point.feOne)).2 == 0) = true
    · simp [hw]
    · simp [hw]

/-! ## scalar.go: the layer above the fiat kernels

The fiat kernels and `Scalar.Add/Subtract/Negate/Multiply/Equal` are primitives of T5 (they are translated by T1,
`EdVerif.Gen.Fiat`); their first argument is the prior value of the location that receives the result.  The
specifications below are written in the shape of the SSA (which location receives which result); the lemmas
`…_eq` relate them to the model `Impl.Scalar`, which always passes `Scalar.rz` as prior value. -/

def Scalar_Set (s x : W4) : W4 := Fiat.Set s x
def NewScalar : W4 := Scalar.rz

def Scalar_MultiplyAdd (s x y z : W4) : W4 :=
  let zCopy := Fiat.Set Scalar.rz z
  let s := Fiat.Multiply s x y
  Fiat.Add s s zCopy

def Scalar_bytes (s : W4) (out : Bytes) : Bytes :=
  Fiat.fiatScalarToBytes out (Fiat.fiatScalarFromMontgomery Scalar.rz s)
def Scalar_Bytes (s : W4) : Bytes := Scalar.bytes s

/-- `setShortBytes` on its non-panicking path (`len(x) < 32`); T5 executes it in place at its three call sites, where
the length of the argument is a constant -/
def Scalar_setShortBytes_body (s : W4) (x : Bytes) : W4 :=
  let buf := Scalar.copyInto 32 x
  let s := Fiat.fiatScalarFromBytes s buf
  Fiat.fiatScalarToMontgomery s s

/-- `setShortBytes` translated on its own: it panics on an input of 32 bytes or more -/
def Scalar_setShortBytes (s : W4) (x : Bytes) : Res W4 :=
  if decide (x.size ≥ 32) then .panic "internal" else .ok (Scalar_setShortBytes_body s x)

def Scalar_SetUniformBytes (s : W4) (x : Bytes) : Option W4 × W4 :=
  if x.size != 64 then (none, s) else
  let s := Scalar_setShortBytes_body s (Bin.slice x 0 21)
  let t := Scalar_setShortBytes_body Scalar.rz (Bin.slice x 21 42)
  let t := Fiat.Multiply t t Fiat.scalarTwo168
  let s := Fiat.Add s s t
  let t := Scalar_setShortBytes_body t (Bin.slice x 42 64)
  let t := Fiat.Multiply t t Fiat.scalarTwo336
  let s := Fiat.Add s s t
  (some s, s)

/-- the loop of `isReduced` from byte `i-1` downwards -/
def isReducedFrom (s : Bytes) : Nat → Bool
  | 0 => true
  | i+1 =>
    if decide (s[i]! > Fiat.scalarMinusOneBytes[i]!) then false
    else if decide (s[i]! < Fiat.scalarMinusOneBytes[i]!) then true
    else isReducedFrom s i

def isReduced (s : Bytes) : Bool :=
  if s.size != 32 then false else isReducedFrom s 32

def Scalar_SetCanonicalBytes (s : W4) (x : Bytes) : Option W4 × W4 :=
  if x.size != 32 then (none, s) else
  if isReduced x then
    let s := Fiat.fiatScalarFromBytes s x
    let s := Fiat.fiatScalarToMontgomery s s
    (some s, s)
  else (none, s)

def Scalar_SetBytesWithClamping (s : W4) (x : Bytes) : Option W4 × W4 :=
  if x.size != 32 then (none, s) else
  let wide := Scalar.copyInto 64 x
  let wide := wide.set! 0 (wide[0]! &&& 248)
  let wide := wide.set! 31 (wide[31]! &&& 63)
  let wide := wide.set! 31 (wide[31]! ||| 64)
  Scalar_SetUniformBytes s wide

/-- `pow2k` (extra.go): `k` times `s.Multiply(s, s)`; T5 executes it in place at its call sites (constant `k`) -/
def Scalar_pow2k : Nat → W4 → W4
  | 0, s => s
  | k+1, s => Scalar_pow2k k (Fiat.Multiply s s s)

/-- `Scalar.Invert` (extra.go): sliding window of width 4 over `l - 2`; the table entries and `tt` are fresh (zero) locals -/
def Scalar_Invert (_s t : W4) : W4 :=
  let tt := Fiat.Multiply Scalar.rz t t
  let t1 := t
  let t3 := Fiat.Multiply Scalar.rz t1 tt
  let t5 := Fiat.Multiply Scalar.rz t3 tt
  let t7 := Fiat.Multiply Scalar.rz t5 tt
  let t9 := Fiat.Multiply Scalar.rz t7 tt
  let t11 := Fiat.Multiply Scalar.rz t9 tt
  let t13 := Fiat.Multiply Scalar.rz t11 tt
  let t15 := Fiat.Multiply Scalar.rz t13 tt
  let step (s : W4) (k : Nat) (m : W4) : W4 := let s := Scalar_pow2k k s; Fiat.Multiply s s m
  let s := t1
  let s := step s (127 + 1) t1
  let s := step s (4 + 1) t9
  let s := step s (3 + 1) t11
  let s := step s (3 + 1) t13
  let s := step s (3 + 1) t15
  let s := step s (4 + 1) t7
  let s := step s (4 + 1) t15
  let s := step s (3 + 1) t5
  let s := step s (3 + 1) t1
  let s := step s (4 + 1) t15
  let s := step s (4 + 1) t15
  let s := step s (4 + 1) t7
  let s := step s (3 + 1) t3
  let s := step s (4 + 1) t11
  let s := step s (5 + 1) t11
  let s := step s (9 + 1) t9
  let s := step s (3 + 1) t3
  let s := step s (4 + 1) t3
  let s := step s (4 + 1) t3
  let s := step s (4 + 1) t9
  let s := step s (3 + 1) t7
  let s := step s (3 + 1) t3
  let s := step s (3 + 1) t13
  let s := step s (3 + 1) t7
  let s := step s (4 + 1) t9
  let s := step s (3 + 1) t15
  let s := step s (4 + 1) t11
  s

/-! `signedRadix16` (scalar.go).  `int8` values are modelled by the integers they denote, the `int8` operations are
those of `EdVerif.Impl.I8`.  The two loops are written as list recursions (which unfold by `rfl`); `Scalar_signedRadix16_eq`
below relates this to the model's `Scalar.signedRadix16` (array updates). -/

/-- the unsigned radix-16 digits of bytes `i, i+1, …` (`n` bytes): `int8(b[i] & 15)`, `int8((b[i] >> 4) & 15)` -/
def radix16Unsigned (b : Bytes) : Nat → Nat → List Int
  | 0, _ => []
  | n+1, i => I8.ofU8 (b[i]! &&& 15) :: I8.ofU8 ((b[i]! >>> 4) &&& 15) :: radix16Unsigned b n (i+1)

/-- the recentering loop: `d` is the current value of `digits[i]` (its unsigned digit plus the carry of the previous
step), the list holds the unsigned digits `i+1, …`; the last digit only receives the carry -/
def radix16Recenter : Int → List Int → List Int
  | d, [] => [d]
  | d, u :: us =>
    let carry := I8.sar (I8.add d 8) 4
    I8.sub d (I8.shl carry 4) :: radix16Recenter (I8.add u carry) us

def Scalar_signedRadix16 (s : W4) : Res (Array Int) :=
  let b := Scalar.bytes s
  if decide (b[31]! > 127) then .panic "highbit" else
  match radix16Unsigned b 32 0 with
  | [] => .ok #[]
  | u :: us => .ok (radix16Recenter u us).toArray

/-! ### the specifications above and the model `Impl.Scalar`

Receiver independence of the fiat kernels used here is a definitional fact (the kernels overwrite every word of the
result).  The lemmas are stated with `id rfl` so that `simp` uses them as ordinary rewrite rules with a proof term (as
`rfl`-lemmas the kernel would have to re-check the rewritten goal by unfolding the kernels). -/

theorem Multiply_recv (o x y : W4) : Fiat.Multiply o x y = Scalar.mul x y := id rfl
theorem Add_recv (o x y : W4) : Fiat.Add o x y = Scalar.add x y := id rfl
theorem fromBytes_recv (o : W4) (b : Bytes) : Fiat.fiatScalarFromBytes o b = Fiat.fiatScalarFromBytes Scalar.rz b := id rfl

theorem Scalar_Set_eq (s x : W4) : Scalar_Set s x = x := rfl

theorem Scalar_MultiplyAdd_eq (s x y z : W4) : Scalar_MultiplyAdd s x y z = Scalar.multiplyAdd x y z := by
  unfold Scalar_MultiplyAdd Scalar.multiplyAdd
  simp only [Multiply_recv, Add_recv]

theorem Scalar_bytes_eq (s : W4) : Scalar_bytes s (Bin.zeros 32) = Scalar.bytes s := rfl

/-- pair form of a fallible setter's outcome in the model -/
def pairOfRes (r : Res W4) (s : W4) : Option W4 × W4 :=
  match r with
  | .ok v => (some v, v)
  | _ => (none, s)

theorem Scalar_setShortBytes_eq (s : W4) (x : Bytes) : Scalar_setShortBytes s x = Scalar.setShortBytes x := by
  unfold Scalar_setShortBytes Scalar.setShortBytes Scalar_setShortBytes_body
  by_cases h : x.size ≥ 32
  · simp only [h, decide_true, if_true]
  · simp only [h, decide_false, Bool.false_eq_true, if_false, fromBytes_recv s]

theorem Scalar_setShortBytes_body_eq (s : W4) (x : Bytes) (h : x.size < 32) :
    Scalar.setShortBytes x = .ok (Scalar_setShortBytes_body s x) := by
  unfold Scalar.setShortBytes Scalar_setShortBytes_body
  have : ¬ (x.size ≥ 32) := by omega
  simp only [this, if_false, fromBytes_recv s]

theorem slice_size (x : Bytes) (a b : Nat) : (Bin.slice x a b).size = min b x.size - a := by
  simp [Bin.slice]

theorem setUniformBytes_ok (x : Bytes) (h : x.size = 64) (s : W4) :
    Scalar.setUniformBytes x = .ok (Scalar_SetUniformBytes s x).2 := by
  unfold Scalar_SetUniformBytes Scalar.setUniformBytes
  have h1 : (Bin.slice x 0 21).size < 32 := by rw [slice_size]; omega
  have h2 : (Bin.slice x 21 42).size < 32 := by rw [slice_size]; omega
  have h3 : (Bin.slice x 42 64).size < 32 := by rw [slice_size]; omega
  have hne : (x.size != 64) = false := by simp [h]
  simp only [hne, Bool.false_eq_true, if_false]
  simp only [h]
  rw [Scalar_setShortBytes_body_eq s _ h1, Scalar_setShortBytes_body_eq Scalar.rz _ h2]
  rw [Scalar_setShortBytes_body_eq (Fiat.Multiply (Scalar_setShortBytes_body Scalar.rz (Bin.slice x 21 42)) (Scalar_setShortBytes_body Scalar.rz (Bin.slice x 21 42)) Fiat.scalarTwo168) _ h3]
  simp only [Multiply_recv, Add_recv]

theorem Scalar_SetUniformBytes_eq (s : W4) (x : Bytes) :
    Scalar_SetUniformBytes s x = pairOfRes (Scalar.setUniformBytes x) s := by
  by_cases h : x.size = 64
  · rw [setUniformBytes_ok x h s]
    unfold Scalar_SetUniformBytes pairOfRes
    have hne : (x.size != 64) = false := by simp [h]
    simp only [hne, Bool.false_eq_true, if_false]
  · have hne : (x.size != 64) = true := by simp [h]
    unfold Scalar_SetUniformBytes Scalar.setUniformBytes pairOfRes
    simp only [hne, if_true]

/-- `SetUniformBytes` never panics: the three `setShortBytes` calls get fewer than 32 bytes -/
theorem setUniformBytes_no_panic (x : Bytes) (m : String) : Scalar.setUniformBytes x ≠ .panic m := by
  by_cases h : x.size = 64
  · rw [setUniformBytes_ok x h Scalar.rz]; intro hh; cases hh
  · have hne : (x.size != 64) = true := by simp [h]
    unfold Scalar.setUniformBytes
    simp only [hne, if_true]; intro hh; cases hh

theorem isReducedFrom_eq (s : Bytes) (n : Nat) : isReducedFrom s n = Scalar.isReduced.go s n := by
  induction n with
  | zero => rfl
  | succ i ih =>
    unfold isReducedFrom Scalar.isReduced.go
    rw [ih]
    by_cases h1 : s[i]! > Fiat.scalarMinusOneBytes[i]!
    · simp only [h1, decide_true, if_true]
    · by_cases h2 : s[i]! < Fiat.scalarMinusOneBytes[i]!
      · simp only [h1, h2, decide_true, decide_false, if_true, Bool.false_eq_true, if_false]
      · simp only [h1, h2, decide_false, Bool.false_eq_true, if_false]

theorem isReduced_eq (s : Bytes) : isReduced s = Scalar.isReduced s := by
  unfold isReduced Scalar.isReduced
  rw [isReducedFrom_eq]

theorem Scalar_SetCanonicalBytes_eq (s : W4) (x : Bytes) :
    Scalar_SetCanonicalBytes s x = pairOfRes (Scalar.setCanonicalBytes x) s := by
  unfold Scalar_SetCanonicalBytes Scalar.setCanonicalBytes
  rw [isReduced_eq]
  cases h : (x.size != 32)
  · cases h2 : Scalar.isReduced x
    · simp only [Bool.false_eq_true, if_false, Bool.not_false, if_true, pairOfRes]
    · simp only [Bool.false_eq_true, if_false, Bool.not_true, if_true, pairOfRes, fromBytes_recv s]
  · simp only [if_true, pairOfRes]

theorem Scalar_SetBytesWithClamping_eq (s : W4) (x : Bytes) :
    Scalar_SetBytesWithClamping s x = pairOfRes (Scalar.setBytesWithClamping x) s := by
  unfold Scalar_SetBytesWithClamping Scalar.setBytesWithClamping
  cases h : (x.size != 32)
  · simp only [Bool.false_eq_true, if_false, Scalar_SetUniformBytes_eq]
  · simp only [if_true, pairOfRes]

theorem Scalar_pow2k_eq (k : Nat) (s : W4) : Scalar_pow2k k s = Scalar.pow2k k s := by
  induction k generalizing s with
  | zero => rfl
  | succ k ih => unfold Scalar_pow2k Scalar.pow2k; rw [ih, Multiply_recv]


theorem Scalar_Invert_eq (s t : W4) : Scalar_Invert s t = Scalar.invert t := by
  unfold Scalar_Invert Scalar.invert
  simp only [Scalar_pow2k_eq, Multiply_recv]

/-! ### the table selections in SSA shape and the model's `Point.projSelect` / `Point.affineSelect` -/

set_option maxRecDepth 100000 in
/-- the scalar part of the selections, checked for each of the 256 `int8` values -/
theorem select_scalars_fin : ∀ n : Fin 256,
    selectAbs ((n.val : Int) - 128) = Point.xabsOf ((n.val : Int) - 128) ∧
    selectNeg ((n.val : Int) - 128) = (Point.xmaskOf ((n.val : Int) - 128) &&& 1) := by
  decide

theorem select_scalars (x : Int) (h1 : -128 ≤ x) (h2 : x ≤ 127) :
    selectAbs x = Point.xabsOf x ∧ selectNeg x = (Point.xmaskOf x &&& 1) := by
  have hn : (x + 128).toNat < 256 := by omega
  have hx : x = (((⟨(x + 128).toNat, hn⟩ : Fin 256).val : Int) - 128) := by
    show x = (((x + 128).toNat : Nat) : Int) - 128
    omega
  rw [hx]
  exact select_scalars_fin ⟨(x + 128).toNat, hn⟩

theorem projSelectI8_eq (t : Array Cached) (x : Int) (h1 : -128 ≤ x) (h2 : x ≤ 127) :
    projSelectI8 t x = Point.projSelect t x := by
  unfold projSelectI8 Point.projSelect
  rw [(select_scalars x h1 h2).1, (select_scalars x h1 h2).2]

theorem affineSelectI8_eq (t : Array AffineCached) (x : Int) (h1 : -128 ≤ x) (h2 : x ≤ 127) :
    affineSelectI8 t x = Point.affineSelect t x := by
  unfold affineSelectI8 Point.affineSelect
  rw [(select_scalars x h1 h2).1, (select_scalars x h1 h2).2]

/-- digits that are `int8` values -/
def DigitsI8 (digits : Array Int) : Prop := ∀ i : Nat, -128 ≤ digits[i]! ∧ digits[i]! ≤ 127

theorem scalarMultDigitsI8_eq (digits : Array Int) (q : P3) (h : DigitsI8 digits) :
    scalarMultDigitsI8 digits q = Point.scalarMultDigits digits q := by
  unfold scalarMultDigitsI8 Point.scalarMultDigits
  simp only [projSelectI8_eq _ _ (h _).1 (h _).2]

theorem scalarBaseMultDigitsI8_eq (digits : Array Int) (h : DigitsI8 digits) :
    scalarBaseMultDigitsI8 digits = Point.scalarBaseMultDigits digits := by
  unfold scalarBaseMultDigitsI8 Point.scalarBaseMultDigits
  simp only [affineSelectI8_eq _ _ (h _).1 (h _).2]

/-! ### `signedRadix16` in SSA shape (list recursions) and the model's `Scalar.signedRadix16` (array updates) -/

/-- one iteration of the model's recentering loop, with the `int8` operations of `I8` -/
def radix16Step (d : Array Int) (i : Nat) : Array Int :=
  let carry := I8.sar (I8.add d[i]! 8) 4
  let d := d.set! i (I8.sub d[i]! (I8.shl carry 4))
  d.set! (i+1) (I8.add d[i+1]! carry)

theorem radix16Step_append (pre : List Int) (d u : Int) (us : List Int) :
    radix16Step (pre ++ d :: u :: us).toArray pre.length =
      ((pre ++ [I8.sub d (I8.shl (I8.sar (I8.add d 8) 4) 4)]) ++ I8.add u (I8.sar (I8.add d 8) 4) :: us).toArray := by
  unfold radix16Step
  simp


theorem radix16_fold (us : List Int) : ∀ (pre : List Int) (d : Int),
    (List.range' pre.length us.length).foldl radix16Step (pre ++ d :: us).toArray =
      (pre ++ radix16Recenter d us).toArray := by
  induction us with
  | nil => intro pre d; rfl
  | cons u us ih =>
    intro pre d
    have hl : (pre ++ [I8.sub d (I8.shl (I8.sar (I8.add d 8) 4) 4)]).length = pre.length + 1 := by simp
    rw [List.length_cons, List.range'_succ, List.foldl_cons, radix16Step_append, ← hl, ih]
    simp [radix16Recenter]

/-- the model's step is `radix16Step` -/
theorem radix16Step_model (d : Array Int) (i : Nat) :
    (let carry := Scalar.wrap8 ((Scalar.wrap8 (d[i]! + 8)) / 16)
     let d' := d.set! i (Scalar.wrap8 (d[i]! - Scalar.wrap8 (carry * 16)))
     d'.set! (i+1) (Scalar.wrap8 (d'[i+1]! + carry))) = radix16Step d i := by
  have hc : ∀ y : Int, Scalar.wrap8 (Scalar.wrap8 y / 16) = I8.sar (I8.wrap y) 4 := by
    intro y
    unfold Scalar.wrap8 I8.sar I8.wrap
    show _ = ((y + 128) % 256 - 128) / 16
    omega
  unfold radix16Step
  simp only [hc]
  rfl


theorem radix16Unsigned_length (b : Bytes) (n i : Nat) : (radix16Unsigned b n i).length = 2 * n := by
  induction n generalizing i with
  | zero => rfl
  | succ n ih => simp only [radix16Unsigned, List.length_cons, ih]; omega

theorem ofU8_and15 (x : Nat) : I8.ofU8 (x &&& 15) = ((x &&& 15 : Nat) : Int) := by
  have h : x &&& 15 ≤ 15 := Nat.and_le_right
  unfold I8.ofU8
  rw [if_pos (by omega)]

theorem foldl_congr_fun {α β : Type} (f g : α → β → α) (h : ∀ a b, f a b = g a b) (l : List β) (a : α) :
    l.foldl f a = l.foldl g a := by
  have : f = g := funext fun a => funext (h a)
  rw [this]

/-- the unsigned digits as the model computes them -/
theorem radix16Unsigned_model (b : Bytes) :
    ((List.range 64).toArray.map fun k =>
      if k % 2 == 0 then ((b[k / 2]! &&& 15 : Nat) : Int) else (((b[k / 2]! >>> 4) &&& 15 : Nat) : Int)) =
    (radix16Unsigned b 32 0).toArray := by
  have hf : (fun k : Nat => if k % 2 == 0 then ((b[k / 2]! &&& 15 : Nat) : Int) else (((b[k / 2]! >>> 4) &&& 15 : Nat) : Int)) =
      (fun k : Nat => if k % 2 == 0 then I8.ofU8 (b[k / 2]! &&& 15) else I8.ofU8 ((b[k / 2]! >>> 4) &&& 15)) := by
    funext k
    simp only [ofU8_and15]
  rw [hf, List.map_toArray]
  rfl

theorem Scalar_signedRadix16_eq (s : W4) : Scalar_signedRadix16 s = Scalar.signedRadix16 s := by
  unfold Scalar_signedRadix16 Scalar.signedRadix16
  generalize Scalar.bytes s = b
  by_cases h : b[31]! > 127
  · simp only [h, decide_true, if_true]
  · simp only [h, decide_false, Bool.false_eq_true, if_false]
    rw [radix16Unsigned_model, foldl_congr_fun _ radix16Step (fun d i => radix16Step_model d i)]
    have hl := radix16Unsigned_length b 32 0
    generalize radix16Unsigned b 32 0 = U at hl ⊢
    match U, hl with
    | [], hl => simp at hl
    | u :: us, hl =>
      have hus : us.length = 63 := by simp only [List.length_cons] at hl; omega
      have := radix16_fold us [] u
      simp only [List.length_nil, List.nil_append, hus] at this
      simp only [List.range_eq_range', this]

/-- the digits primitive used by the regenerated scalar multiplications is what the regenerated `signedRadix16`
returns whenever it does not panic -/
theorem radix16Digits_of_ok (s : W4) (d : Array Int) (h : Scalar_signedRadix16 s = .ok d) :
    Scalar.radix16Digits s = d := by
  have h2 : Scalar.signedRadix16 s = .ok d := (Scalar_signedRadix16_eq s).symm.trans h
  delta Scalar.radix16Digits
  rw [h2]
  rfl

end EdVerif.FormulaSpec
