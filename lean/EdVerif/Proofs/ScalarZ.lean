import Mathlib.Data.ZMod.Basic
import Mathlib.FieldTheory.Finite.Basic
import EdVerif.Spec.Primes
import EdVerif.Proofs.Fiat2
/-!
C07/C08: the `ZMod l` view of `EdVerif.Impl.Scalar` (scalars are kept in Montgomery form,
`toZ s = eval s · R⁻¹` with `R = 2^256`), and the scalar encodings.
-/
namespace EdVerif.Proofs
open EdVerif EdVerif.Prims EdVerif.Gen EdVerif.Impl
open EdVerif.Impl.Scalar (eval Inv)

/-- the Montgomery radix `R = 2^256` in `ZMod l` -/
noncomputable def Scalar.R : ZMod L := ((2^256 : Nat) : ZMod L)

/-- the element of `ZMod l` represented by the Montgomery-form words -/
noncomputable def Scalar.toZ (s : W4) : ZMod L := (eval s : ZMod L) * Scalar.R⁻¹

theorem Scalar.R_ne_zero : Scalar.R ≠ 0 := by
  unfold Scalar.R
  rw [Ne, ZMod.natCast_eq_zero_iff]
  intro h
  have := Nat.Coprime.eq_one_of_dvd coprime_L_R h
  have h2 : (1 : Nat) < L := by decide
  omega

theorem natCast_of_mod_eq {a b : Nat} (h : a % L = b % L) : (a : ZMod L) = (b : ZMod L) :=
  (ZMod.natCast_eq_natCast_iff' a b L).2 h

/-- Montgomery-form value from a congruence `eval r · R ≡ v` -/
theorem toZ_of_mul_R (r : W4) (v : ZMod L) (h : (eval r : ZMod L) * Scalar.R = v) :
    Scalar.toZ r = v * Scalar.R⁻¹ * Scalar.R⁻¹ := by
  unfold Scalar.toZ
  rw [← h, mul_inv_cancel_right₀ Scalar.R_ne_zero]

theorem toZ_inj {s t : W4} (hs : Inv s) (ht : Inv t) : Scalar.toZ s = Scalar.toZ t ↔ eval s = eval t := by
  unfold Scalar.toZ
  constructor
  · intro h
    have h' := mul_right_cancel₀ (inv_ne_zero Scalar.R_ne_zero) h
    rw [ZMod.natCast_eq_natCast_iff', Nat.mod_eq_of_lt (inv_lt hs), Nat.mod_eq_of_lt (inv_lt ht)] at h'
    exact h'
  · intro h; rw [h]

theorem C07_zero : Inv Scalar.rz ∧ Scalar.toZ Scalar.rz = 0 := by
  constructor
  · refine ⟨?_, ?_, ?_, ?_, ?_⟩ <;> decide
  · unfold Scalar.toZ
    have : eval Scalar.rz = 0 := by decide
    rw [this]; simp

theorem C07_add (x y : W4) (hx : Inv x) (hy : Inv y) :
    Inv (Scalar.add x y) ∧ Scalar.toZ (Scalar.add x y) = Scalar.toZ x + Scalar.toZ y := by
  obtain ⟨hi, he⟩ := fiatAdd_spec Scalar.rz x y hx hy
  refine ⟨hi, ?_⟩
  show Scalar.toZ (Fiat.fiatScalarAdd Scalar.rz x y) = _
  unfold Scalar.toZ
  rw [he, ZMod.natCast_mod, Nat.cast_add, add_mul]

theorem C07_sub (x y : W4) (hx : Inv x) (hy : Inv y) :
    Inv (Scalar.sub x y) ∧ Scalar.toZ (Scalar.sub x y) = Scalar.toZ x - Scalar.toZ y := by
  obtain ⟨hi, he⟩ := fiatSub_spec Scalar.rz x y hx hy
  refine ⟨hi, ?_⟩
  show Scalar.toZ (Fiat.fiatScalarSub Scalar.rz x y) = _
  unfold Scalar.toZ
  have hle : eval y ≤ eval x + L := by have := inv_lt hy; omega
  rw [he, ZMod.natCast_mod, Nat.cast_sub hle, Nat.cast_add, ZMod.natCast_self, add_zero, sub_mul]

theorem C07_neg (x : W4) (hx : Inv x) :
    Inv (Scalar.neg x) ∧ Scalar.toZ (Scalar.neg x) = - Scalar.toZ x := by
  obtain ⟨hi, he⟩ := fiatOpp_spec Scalar.rz x hx
  refine ⟨hi, ?_⟩
  show Scalar.toZ (Fiat.fiatScalarOpp Scalar.rz x) = _
  unfold Scalar.toZ
  have hle : eval x ≤ L := by have := inv_lt hx; omega
  rw [he, ZMod.natCast_mod, Nat.cast_sub hle, ZMod.natCast_self, zero_sub, neg_mul]

theorem C07_mul (x y : W4) (hx : Inv x) (hy : Inv y) :
    Inv (Scalar.mul x y) ∧ Scalar.toZ (Scalar.mul x y) = Scalar.toZ x * Scalar.toZ y := by
  obtain ⟨hi, he⟩ := fiatMul_spec Scalar.rz x y hx hy
  refine ⟨hi, ?_⟩
  show Scalar.toZ (Fiat.fiatScalarMul Scalar.rz x y) = _
  have h := natCast_of_mod_eq he
  rw [Nat.cast_mul, Nat.cast_mul] at h
  rw [toZ_of_mul_R _ _ h]
  unfold Scalar.toZ
  ring

theorem C07_multiplyAdd (x y z : W4) (hx : Inv x) (hy : Inv y) (hz : Inv z) :
    Inv (Scalar.multiplyAdd x y z) ∧
      Scalar.toZ (Scalar.multiplyAdd x y z) = Scalar.toZ x * Scalar.toZ y + Scalar.toZ z := by
  obtain ⟨mi, me⟩ := C07_mul x y hx hy
  obtain ⟨ai, ae⟩ := C07_add _ z mi hz
  exact ⟨ai, by rw [← me]; exact ae⟩

theorem C07_equal (s t : W4) (hs : Inv s) (ht : Inv t) :
    Scalar.equal s t = if Scalar.toZ s = Scalar.toZ t then 1 else 0 := by
  rw [equal_spec s t hs ht]
  by_cases h : eval s = eval t
  · rw [if_pos h, if_pos ((toZ_inj hs ht).2 h)]
  · rw [if_neg h, if_neg (fun h' => h ((toZ_inj hs ht).1 h'))]


/-! ### inversion: the addition chain computes `t^(l-2)` -/

/-- `s` is a valid scalar representing `t^e` -/
def IsPow (t s : W4) (e : Nat) : Prop := Inv s ∧ Scalar.toZ s = Scalar.toZ t ^ e

theorem isPow_self {t : W4} (ht : Inv t) : IsPow t t 1 := ⟨ht, (pow_one _).symm⟩

theorem isPow_cast {t s : W4} {e e' : Nat} (h : IsPow t s e) (he : e = e') : IsPow t s e' := he ▸ h

theorem isPow_mul {t a b : W4} {e f : Nat} (ha : IsPow t a e) (hb : IsPow t b f) :
    IsPow t (Scalar.mul a b) (e + f) := by
  obtain ⟨mi, me⟩ := C07_mul a b ha.1 hb.1
  exact ⟨mi, by rw [me, ha.2, hb.2, pow_add]⟩

/-- `pow2k` unfolds by `delta` only: the kernel must never compare `s` with `Scalar.mul s s`
(it would normalise the whole Montgomery multiplication symbolically). -/
theorem pow2k_unfold (k : Nat) (x : W4) :
    Scalar.pow2k k x = Nat.brecOn (motive := fun _ => W4 → W4) k Scalar.pow2k._f x := by
  delta Scalar.pow2k
  rfl

theorem pow2k_zero (s : W4) : Scalar.pow2k 0 s = s := rfl

theorem pow2k_succ (k : Nat) (s : W4) : Scalar.pow2k (k+1) s = Scalar.pow2k k (Scalar.mul s s) := by
  rw [pow2k_unfold, pow2k_unfold]

theorem isPow_pow2k {t : W4} (k : Nat) :
    ∀ {s : W4} {e : Nat}, IsPow t s e → IsPow t (Scalar.pow2k k s) (e * 2^k) := by
  induction k with
  | zero =>
    intro s e h
    rw [pow2k_zero]
    exact isPow_cast h (by rw [pow_zero, mul_one])
  | succ k ih =>
    intro s e h
    rw [pow2k_succ]
    exact isPow_cast (ih (isPow_mul h h)) (by rw [pow_succ]; ring)

theorem isPow_step {t s m : W4} {e f : Nat} (k : Nat) (hs : IsPow t s e) (hm : IsPow t m f) :
    IsPow t (Scalar.mul (Scalar.pow2k k s) m) (e * 2^k + f) :=
  isPow_mul (isPow_pow2k k hs) hm

theorem invert_isPow (t : W4) (ht : Inv t) : IsPow t (Scalar.invert t) (L - 2) := by
  have h1 := isPow_self ht
  have htt := isPow_mul h1 h1
  have h3 := isPow_mul h1 htt
  have h5 := isPow_mul h3 htt
  have h7 := isPow_mul h5 htt
  have h9 := isPow_mul h7 htt
  have h11 := isPow_mul h9 htt
  have h13 := isPow_mul h11 htt
  have h15 := isPow_mul h13 htt
  have s := isPow_step (127 + 1) h1 h1
  have s := isPow_step (4 + 1) s h9
  have s := isPow_step (3 + 1) s h11
  have s := isPow_step (3 + 1) s h13
  have s := isPow_step (3 + 1) s h15
  have s := isPow_step (4 + 1) s h7
  have s := isPow_step (4 + 1) s h15
  have s := isPow_step (3 + 1) s h5
  have s := isPow_step (3 + 1) s h1
  have s := isPow_step (4 + 1) s h15
  have s := isPow_step (4 + 1) s h15
  have s := isPow_step (4 + 1) s h7
  have s := isPow_step (3 + 1) s h3
  have s := isPow_step (4 + 1) s h11
  have s := isPow_step (5 + 1) s h11
  have s := isPow_step (9 + 1) s h9
  have s := isPow_step (3 + 1) s h3
  have s := isPow_step (4 + 1) s h3
  have s := isPow_step (4 + 1) s h3
  have s := isPow_step (4 + 1) s h9
  have s := isPow_step (3 + 1) s h7
  have s := isPow_step (3 + 1) s h3
  have s := isPow_step (3 + 1) s h13
  have s := isPow_step (3 + 1) s h7
  have s := isPow_step (4 + 1) s h9
  have s := isPow_step (3 + 1) s h15
  have s := isPow_step (4 + 1) s h11
  have s' := isPow_cast s (e' := L - 2) (by decide)
  exact s'

theorem C07_invert (t : W4) (ht : Inv t) :
    Inv (Scalar.invert t) ∧ Scalar.toZ (Scalar.invert t) = (Scalar.toZ t)⁻¹ := by
  obtain ⟨hi, he⟩ := invert_isPow t ht
  refine ⟨hi, ?_⟩
  rw [he]
  have h2 : 3 ≤ L := by decide
  by_cases h0 : Scalar.toZ t = 0
  · rw [h0, inv_zero, zero_pow (by omega : L - 2 ≠ 0)]
  · apply eq_inv_of_mul_eq_one_left
    rw [← pow_succ, show L - 2 + 1 = L - 1 by omega]
    exact ZMod.pow_card_sub_one_eq_one h0

end EdVerif.Proofs
