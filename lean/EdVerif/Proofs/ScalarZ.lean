import Mathlib.Data.ZMod.Basic
import Mathlib.FieldTheory.Finite.Basic
import EdVerif.Spec.Primes
import EdVerif.Proofs.Fiat2
/-!
C07/C08: the `ZMod l` view of `EdVerif.Impl.Scalar` (scalars are kept in Montgomery form,
`toZ s = eval s · R⁻¹` with `R = 2^256`), and the scalar encodings.
-/
namespace EdVerif.Proofs
open EdVerif EdVerif.Prims EdVerif.Gen EdVerif.Impl
open EdVerif.Impl.Scalar (eval Inv)

/-- the Montgomery radix `R = 2^256` in `ZMod l` -/
noncomputable def Scalar.R : ZMod L := ((2^256 : Nat) : ZMod L)

/-- the element of `ZMod l` represented by the Montgomery-form words -/
noncomputable def Scalar.toZ (s : W4) : ZMod L := (eval s : ZMod L) * Scalar.R⁻¹

theorem Scalar.R_ne_zero : Scalar.R ≠ 0 := by
  unfold Scalar.R
  rw [Ne, ZMod.natCast_eq_zero_iff]
  intro h
  have := Nat.Coprime.eq_one_of_dvd Scalar.coprime_L_R h
  have h2 : (1 : Nat) < L := by decide
  omega

theorem sc_natCast_of_mod_eq {a b : Nat} (h : a % L = b % L) : (a : ZMod L) = (b : ZMod L) :=
  (ZMod.natCast_eq_natCast_iff' a b L).2 h

/-- Montgomery-form value from a congruence `eval r · R ≡ v` -/
theorem Scalar.toZ_of_mul_R (r : W4) (v : ZMod L) (h : (eval r : ZMod L) * Scalar.R = v) :
    Scalar.toZ r = v * Scalar.R⁻¹ * Scalar.R⁻¹ := by
  unfold Scalar.toZ
  rw [← h, mul_inv_cancel_right₀ Scalar.R_ne_zero]

theorem Scalar.toZ_inj {s t : W4} (hs : Inv s) (ht : Inv t) : Scalar.toZ s = Scalar.toZ t ↔ eval s = eval t := by
  unfold Scalar.toZ
  constructor
  · intro h
    have h' := mul_right_cancel₀ (inv_ne_zero Scalar.R_ne_zero) h
    rw [ZMod.natCast_eq_natCast_iff', Nat.mod_eq_of_lt (Scalar.inv_lt hs), Nat.mod_eq_of_lt (Scalar.inv_lt ht)] at h'
    exact h'
  · intro h; rw [h]

theorem C07_zero : Inv Scalar.rz ∧ Scalar.toZ Scalar.rz = 0 := by
  constructor
  · refine ⟨?_, ?_, ?_, ?_, ?_⟩ <;> decide
  · unfold Scalar.toZ
    have : eval Scalar.rz = 0 := by decide
    rw [this]; simp

theorem C07_add (x y : W4) (hx : Inv x) (hy : Inv y) :
    Inv (Scalar.add x y) ∧ Scalar.toZ (Scalar.add x y) = Scalar.toZ x + Scalar.toZ y := by
  obtain ⟨hi, he⟩ := fiatAdd_spec Scalar.rz x y hx hy
  refine ⟨hi, ?_⟩
  show Scalar.toZ (Fiat.fiatScalarAdd Scalar.rz x y) = _
  unfold Scalar.toZ
  rw [he, ZMod.natCast_mod, Nat.cast_add, add_mul]

theorem C07_sub (x y : W4) (hx : Inv x) (hy : Inv y) :
    Inv (Scalar.sub x y) ∧ Scalar.toZ (Scalar.sub x y) = Scalar.toZ x - Scalar.toZ y := by
  obtain ⟨hi, he⟩ := fiatSub_spec Scalar.rz x y hx hy
  refine ⟨hi, ?_⟩
  show Scalar.toZ (Fiat.fiatScalarSub Scalar.rz x y) = _
  unfold Scalar.toZ
  have hle : eval y ≤ eval x + L := by have := Scalar.inv_lt hy; omega
  rw [he, ZMod.natCast_mod, Nat.cast_sub hle, Nat.cast_add, ZMod.natCast_self, add_zero, sub_mul]

theorem C07_neg (x : W4) (hx : Inv x) :
    Inv (Scalar.neg x) ∧ Scalar.toZ (Scalar.neg x) = - Scalar.toZ x := by
  obtain ⟨hi, he⟩ := fiatOpp_spec Scalar.rz x hx
  refine ⟨hi, ?_⟩
  show Scalar.toZ (Fiat.fiatScalarOpp Scalar.rz x) = _
  unfold Scalar.toZ
  have hle : eval x ≤ L := by have := Scalar.inv_lt hx; omega
  rw [he, ZMod.natCast_mod, Nat.cast_sub hle, ZMod.natCast_self, zero_sub, neg_mul]

theorem C07_mul (x y : W4) (hx : Inv x) (hy : Inv y) :
    Inv (Scalar.mul x y) ∧ Scalar.toZ (Scalar.mul x y) = Scalar.toZ x * Scalar.toZ y := by
  obtain ⟨hi, he⟩ := fiatMul_spec Scalar.rz x y hx hy
  refine ⟨hi, ?_⟩
  show Scalar.toZ (Fiat.fiatScalarMul Scalar.rz x y) = _
  have h := sc_natCast_of_mod_eq he
  rw [Nat.cast_mul, Nat.cast_mul] at h
  rw [Scalar.toZ_of_mul_R _ _ h]
  unfold Scalar.toZ
  ring

theorem C07_multiplyAdd (x y z : W4) (hx : Inv x) (hy : Inv y) (hz : Inv z) :
    Inv (Scalar.multiplyAdd x y z) ∧
      Scalar.toZ (Scalar.multiplyAdd x y z) = Scalar.toZ x * Scalar.toZ y + Scalar.toZ z := by
  obtain ⟨mi, me⟩ := C07_mul x y hx hy
  obtain ⟨ai, ae⟩ := C07_add _ z mi hz
  exact ⟨ai, by rw [← me]; exact ae⟩

theorem C07_equal (s t : W4) (hs : Inv s) (ht : Inv t) :
    Scalar.equal s t = if Scalar.toZ s = Scalar.toZ t then 1 else 0 := by
  rw [equal_spec s t hs ht]
  by_cases h : eval s = eval t
  · rw [if_pos h, if_pos ((Scalar.toZ_inj hs ht).2 h)]
  · rw [if_neg h, if_neg (fun h' => h ((Scalar.toZ_inj hs ht).1 h'))]


/-! ### inversion: the addition chain computes `t^(l-2)` -/

/-- `s` is a valid scalar representing `t^e` -/
def Scalar.IsPow (t s : W4) (e : Nat) : Prop := Inv s ∧ Scalar.toZ s = Scalar.toZ t ^ e

theorem Scalar.isPow_self {t : W4} (ht : Inv t) : Scalar.IsPow t t 1 := ⟨ht, (pow_one _).symm⟩

theorem Scalar.isPow_cast {t s : W4} {e e' : Nat} (h : Scalar.IsPow t s e) (he : e = e') : Scalar.IsPow t s e' := he ▸ h

theorem Scalar.isPow_mul {t a b : W4} {e f : Nat} (ha : Scalar.IsPow t a e) (hb : Scalar.IsPow t b f) :
    Scalar.IsPow t (Scalar.mul a b) (e + f) := by
  obtain ⟨mi, me⟩ := C07_mul a b ha.1 hb.1
  exact ⟨mi, by rw [me, ha.2, hb.2, pow_add]⟩

/-- `pow2k` unfolds by `delta` only: the kernel must never compare `s` with `Scalar.mul s s`
(it would normalise the whole Montgomery multiplication symbolically). -/
theorem pow2k_unfold (k : Nat) (x : W4) :
    Scalar.pow2k k x = Nat.brecOn (motive := fun _ => W4 → W4) k Scalar.pow2k._f x := by
  delta Scalar.pow2k
  rfl

theorem pow2k_zero (s : W4) : Scalar.pow2k 0 s = s := rfl

theorem pow2k_succ (k : Nat) (s : W4) : Scalar.pow2k (k+1) s = Scalar.pow2k k (Scalar.mul s s) := by
  rw [pow2k_unfold, pow2k_unfold]

theorem Scalar.isPow_pow2k {t : W4} (k : Nat) :
    ∀ {s : W4} {e : Nat}, Scalar.IsPow t s e → Scalar.IsPow t (Scalar.pow2k k s) (e * 2^k) := by
  induction k with
  | zero =>
    intro s e h
    rw [pow2k_zero]
    exact Scalar.isPow_cast h (by rw [pow_zero, mul_one])
  | succ k ih =>
    intro s e h
    rw [pow2k_succ]
    exact Scalar.isPow_cast (ih (Scalar.isPow_mul h h)) (by rw [pow_succ]; ring)

theorem Scalar.isPow_step {t s m : W4} {e f : Nat} (k : Nat) (hs : Scalar.IsPow t s e) (hm : Scalar.IsPow t m f) :
    Scalar.IsPow t (Scalar.mul (Scalar.pow2k k s) m) (e * 2^k + f) :=
  Scalar.isPow_mul (Scalar.isPow_pow2k k hs) hm

theorem invert_isPow (t : W4) (ht : Inv t) : Scalar.IsPow t (Scalar.invert t) (L - 2) := by
  have h1 := Scalar.isPow_self ht
  have htt := Scalar.isPow_mul h1 h1
  have h3 := Scalar.isPow_mul h1 htt
  have h5 := Scalar.isPow_mul h3 htt
  have h7 := Scalar.isPow_mul h5 htt
  have h9 := Scalar.isPow_mul h7 htt
  have h11 := Scalar.isPow_mul h9 htt
  have h13 := Scalar.isPow_mul h11 htt
  have h15 := Scalar.isPow_mul h13 htt
  have s := Scalar.isPow_step (127 + 1) h1 h1
  have s := Scalar.isPow_step (4 + 1) s h9
  have s := Scalar.isPow_step (3 + 1) s h11
  have s := Scalar.isPow_step (3 + 1) s h13
  have s := Scalar.isPow_step (3 + 1) s h15
  have s := Scalar.isPow_step (4 + 1) s h7
  have s := Scalar.isPow_step (4 + 1) s h15
  have s := Scalar.isPow_step (3 + 1) s h5
  have s := Scalar.isPow_step (3 + 1) s h1
  have s := Scalar.isPow_step (4 + 1) s h15
  have s := Scalar.isPow_step (4 + 1) s h15
  have s := Scalar.isPow_step (4 + 1) s h7
  have s := Scalar.isPow_step (3 + 1) s h3
  have s := Scalar.isPow_step (4 + 1) s h11
  have s := Scalar.isPow_step (5 + 1) s h11
  have s := Scalar.isPow_step (9 + 1) s h9
  have s := Scalar.isPow_step (3 + 1) s h3
  have s := Scalar.isPow_step (4 + 1) s h3
  have s := Scalar.isPow_step (4 + 1) s h3
  have s := Scalar.isPow_step (4 + 1) s h9
  have s := Scalar.isPow_step (3 + 1) s h7
  have s := Scalar.isPow_step (3 + 1) s h3
  have s := Scalar.isPow_step (3 + 1) s h13
  have s := Scalar.isPow_step (3 + 1) s h7
  have s := Scalar.isPow_step (4 + 1) s h9
  have s := Scalar.isPow_step (3 + 1) s h15
  have s := Scalar.isPow_step (4 + 1) s h11
  have s' := Scalar.isPow_cast s (e' := L - 2) (by decide)
  exact s'

theorem C07_invert (t : W4) (ht : Inv t) :
    Inv (Scalar.invert t) ∧ Scalar.toZ (Scalar.invert t) = (Scalar.toZ t)⁻¹ := by
  obtain ⟨hi, he⟩ := invert_isPow t ht
  refine ⟨hi, ?_⟩
  rw [he]
  have h2 : 3 ≤ L := by decide
  by_cases h0 : Scalar.toZ t = 0
  · rw [h0, inv_zero, zero_pow (by omega : L - 2 ≠ 0)]
  · apply eq_inv_of_mul_eq_one_left
    rw [← pow_succ, show L - 2 + 1 = L - 1 by omega]
    exact ZMod.pow_card_sub_one_eq_one h0

/-! ### byte strings: little-endian values -/

/-- every entry is a byte -/
def Scalar.IsBytes (b : Bytes) : Prop := ∀ i, i < b.size → b[i]! < 256

theorem Scalar.isBytes_all {b : Bytes} (h : Scalar.IsBytes b) (i : Nat) : b[i]! < 256 := by
  by_cases hi : i < b.size
  · exact h i hi
  · have : b[i]! = 0 := by
      rw [getElem!_def]
      simp [Array.getElem?_eq_none (Nat.le_of_not_lt hi)]
    rw [this]; norm_num

theorem sc_getElem!_beyond (b : Bytes) (i : Nat) (hi : b.size ≤ i) : b[i]! = 0 := by
  rw [getElem!_def]
  simp [Array.getElem?_eq_none hi]

/-- little-endian value of the `n` bytes starting at `off` -/
def Scalar.leFrom (b : Bytes) (off : Nat) : Nat → Nat
  | 0 => 0
  | n+1 => Scalar.leFrom b off n + b[off + n]! * 256^n

theorem Scalar.leFrom_eq_sum (b : Bytes) (n : Nat) : Scalar.leFrom b 0 n = ∑ i ∈ Finset.range n, b[i]! * 256^i := by
  induction n with
  | zero => simp [Scalar.leFrom]
  | succ n ih => rw [Scalar.leFrom, ih, Finset.sum_range_succ, Nat.zero_add]

theorem Scalar.LE_eq_leFrom (b : Bytes) : Scalar.LE b = Scalar.leFrom b 0 b.size := by
  rw [Scalar.LE_eq_sum, Scalar.leFrom_eq_sum]

theorem Scalar.leFrom_congr (a b : Bytes) (oa ob n : Nat) (h : ∀ i, i < n → a[oa + i]! = b[ob + i]!) :
    Scalar.leFrom a oa n = Scalar.leFrom b ob n := by
  induction n with
  | zero => rfl
  | succ n ih =>
    rw [Scalar.leFrom, Scalar.leFrom, ih (fun i hi => h i (Nat.lt_succ_of_lt hi)), h n (Nat.lt_succ_self n)]

theorem Scalar.leFrom_split (b : Bytes) (off n k : Nat) :
    Scalar.leFrom b off (n + k) = Scalar.leFrom b off n + 256^n * Scalar.leFrom b (off + n) k := by
  induction k with
  | zero => simp [Scalar.leFrom]
  | succ k ih =>
    rw [← Nat.add_assoc, Scalar.leFrom, ih, Scalar.leFrom, pow_add, Nat.add_assoc off n k]
    ring

theorem Scalar.leFrom_succ' (b : Bytes) (off n : Nat) :
    Scalar.leFrom b off (n + 1) = b[off]! + 256 * Scalar.leFrom b (off + 1) n := by
  have := Scalar.leFrom_split b off 1 n
  rw [Nat.add_comm 1 n] at this
  rw [this]
  simp [Scalar.leFrom]

theorem Scalar.leFrom_lt (b : Bytes) (hb : Scalar.IsBytes b) (off n : Nat) : Scalar.leFrom b off n < 256^n := by
  induction n with
  | zero => simp [Scalar.leFrom]
  | succ n ih =>
    rw [Scalar.leFrom, pow_succ]
    have h1 := Scalar.isBytes_all hb (off + n)
    have h2 : b[off + n]! * 256^n ≤ 255 * 256^n := Nat.mul_le_mul_right _ (by omega)
    generalize b[off + n]! * 256^n = X at *
    generalize 256^n = P at *
    generalize Scalar.leFrom b off n = A at *
    omega

theorem Scalar.leFrom_beyond (b : Bytes) (off n : Nat) (h : b.size ≤ off) : Scalar.leFrom b off n = 0 := by
  induction n with
  | zero => rfl
  | succ n ih => rw [Scalar.leFrom, ih, sc_getElem!_beyond b _ (by omega)]; simp

/-- extending past the end adds nothing -/
theorem Scalar.leFrom_extend (b : Bytes) (n : Nat) (h : b.size ≤ n) : Scalar.leFrom b 0 n = Scalar.leFrom b 0 b.size := by
  obtain ⟨k, rfl⟩ := Nat.exists_eq_add_of_le h
  rw [Scalar.leFrom_split, Scalar.leFrom_beyond b (0 + b.size) k (by omega)]
  simp

/-- byte `i` of the value -/
theorem Scalar.leFrom_byte (b : Bytes) (hb : Scalar.IsBytes b) (n i : Nat) (hi : i < n) :
    Scalar.leFrom b 0 n / 256^i % 256 = b[i]! := by
  obtain ⟨k, rfl⟩ := Nat.exists_eq_add_of_lt hi
  rw [show i + k + 1 = i + (k + 1) by omega, Scalar.leFrom_split, Scalar.leFrom_succ', Nat.zero_add]
  have h1 := Scalar.leFrom_lt b hb 0 i
  have h2 := Scalar.isBytes_all hb i
  have hP : 0 < 256^i := Nat.pow_pos (by norm_num)
  rw [Nat.add_comm, Nat.mul_add_div hP, Nat.div_eq_of_lt h1, Nat.add_zero, Nat.add_mul_mod_self_left,
    Nat.mod_eq_of_lt h2]


/-! ### C08: `bytes` -/

/-- a word vector `r` with `eval r · R ≡ eval s` and `eval r < l` is the canonical value of `toZ s` -/
theorem val_of_fromMont (r s : W4) (hr : Inv r) (h : (eval r * 2^256) % L = eval s % L) :
    (Scalar.toZ s).val = eval r := by
  have h' := sc_natCast_of_mod_eq h
  rw [Nat.cast_mul] at h'
  have : Scalar.toZ s = (eval r : ZMod L) := by
    unfold Scalar.toZ
    rw [← h']
    exact mul_inv_cancel_right₀ Scalar.R_ne_zero _
  rw [this, ZMod.val_natCast, Nat.mod_eq_of_lt (Scalar.inv_lt hr)]

theorem sc_zeros_size (n : Nat) : (Bin.zeros n).size = n := by simp [Bin.zeros]

theorem C08_bytes (s : W4) (hs : Inv s) : Scalar.bytes s = Scalar.LEbytes (Scalar.toZ s).val 32 := by
  obtain ⟨ri, re⟩ := fromMontgomery_spec Scalar.rz s hs
  rw [val_of_fromMont _ s ri re]
  exact toBytes_eq _ _ (sc_zeros_size 32) (Scalar.inv_words ri)

theorem Scalar.LEbytes_isBytes (n k : Nat) : Scalar.IsBytes (Scalar.LEbytes n k) := by
  intro i hi
  rw [Scalar.LEbytes_size] at hi
  rw [Scalar.LEbytes_get _ _ _ hi]
  exact Nat.mod_lt _ (by norm_num)

theorem C08_bytes_isBytes (s : W4) (hs : Inv s) :
    (Scalar.bytes s).size = 32 ∧ Scalar.IsBytes (Scalar.bytes s) := by
  rw [C08_bytes s hs]
  exact ⟨Scalar.LEbytes_size _ _, Scalar.LEbytes_isBytes _ _⟩

theorem Scalar.LE_LEbytes (n k : Nat) (hn : n < 256^k) : Scalar.LE (Scalar.LEbytes n k) = n := by
  rw [Scalar.LE_eq_leFrom, Scalar.LEbytes_size]
  have key : ∀ j, j ≤ k → Scalar.leFrom (Scalar.LEbytes n k) 0 j = n % 256^j := by
    intro j
    induction j with
    | zero => intro _; simp [Scalar.leFrom, Nat.mod_one]
    | succ j ih =>
      intro hj
      rw [Scalar.leFrom, ih (by omega), Nat.zero_add, Scalar.LEbytes_get _ _ _ (by omega), pow_succ,
        Nat.mod_mul, Nat.mul_comm]
  rw [key k (Nat.le_refl k), Nat.mod_eq_of_lt hn]

/-- the value of `bytes s` is the canonical representative (in particular `< l`) -/
theorem C08_bytes_LE (s : W4) (hs : Inv s) : Scalar.LE (Scalar.bytes s) = (Scalar.toZ s).val := by
  rw [C08_bytes s hs]
  apply Scalar.LE_LEbytes
  have h1 : (Scalar.toZ s).val < L := ZMod.val_lt _
  have h2 : L < 256^32 := by decide
  omega

/-- a 32-byte string is the little-endian encoding of its value -/
theorem Scalar.LEbytes_LE (x : Bytes) (hs : x.size = 32) (hb : Scalar.IsBytes x) :
    Scalar.LEbytes (Scalar.LE x) 32 = x := by
  apply sc_bytes_ext _ _ 32 (Scalar.LEbytes_size _ _) hs
  intro i hi
  rw [Scalar.LEbytes_get _ _ _ hi, Scalar.LE_eq_leFrom, hs, Scalar.leFrom_byte x hb 32 i hi]

/-! ### C08: `isReduced`, `SetCanonicalBytes` -/

theorem Scalar.minusOne_isBytes : Scalar.IsBytes Fiat.scalarMinusOneBytes := by
  intro i hi
  have hi' : i < 32 := hi
  interval_cases i <;> decide

theorem Scalar.minusOne_value : Scalar.leFrom Fiat.scalarMinusOneBytes 0 32 = L - 1 := by
  decide +kernel

theorem isReduced_go_spec (x : Bytes) (hx : Scalar.IsBytes x) (i : Nat) :
    Scalar.isReduced.go x i = true ↔ Scalar.leFrom x 0 i ≤ Scalar.leFrom Fiat.scalarMinusOneBytes 0 i := by
  induction i with
  | zero => simp [Scalar.isReduced.go, Scalar.leFrom]
  | succ i ih =>
    rw [Scalar.isReduced.go, Scalar.leFrom, Scalar.leFrom, Nat.zero_add]
    have hX := Scalar.leFrom_lt x hx 0 i
    have hM := Scalar.leFrom_lt _ Scalar.minusOne_isBytes 0 i
    generalize Scalar.leFrom x 0 i = X at *
    generalize Scalar.leFrom Fiat.scalarMinusOneBytes 0 i = M at *
    generalize x[i]! = a at *
    generalize Fiat.scalarMinusOneBytes[i]! = m at *
    generalize 256^i = P at *
    by_cases h1 : a > m
    · rw [if_pos h1]
      have : (m + 1) * P ≤ a * P := Nat.mul_le_mul_right _ h1
      rw [Nat.add_mul, Nat.one_mul] at this
      constructor
      · intro h; exact Bool.noConfusion h
      · intro h; omega
    · rw [if_neg h1]
      by_cases h2 : a < m
      · rw [if_pos h2]
        have : (a + 1) * P ≤ m * P := Nat.mul_le_mul_right _ h2
        rw [Nat.add_mul, Nat.one_mul] at this
        constructor
        · intro _; omega
        · intro _; rfl
      · rw [if_neg h2, ih]
        have : a = m := by omega
        subst this
        omega

theorem C08_isReduced (x : Bytes) (hx : x.size = 32) (hb : Scalar.IsBytes x) :
    Scalar.isReduced x = true ↔ Scalar.LE x < L := by
  have h1 : Scalar.isReduced x = Scalar.isReduced.go x 32 := by
    unfold Scalar.isReduced
    simp [hx]
  rw [h1, isReduced_go_spec x hb 32, Scalar.minusOne_value, Scalar.LE_eq_leFrom, hx]
  have : 1 ≤ L := by decide
  omega

/-- `toZ` after `to_montgomery` is the plain value -/
theorem toMont_toZ (o w : W4) (hw : Scalar.Words w) :
    Inv (Fiat.fiatScalarToMontgomery o w) ∧
      Scalar.toZ (Fiat.fiatScalarToMontgomery o w) = (eval w : ZMod L) := by
  obtain ⟨ri, re⟩ := toMontgomery_spec' o w hw
  refine ⟨ri, ?_⟩
  have h' := sc_natCast_of_mod_eq re
  rw [Nat.cast_mul] at h'
  unfold Scalar.toZ
  rw [h']
  exact mul_inv_cancel_right₀ Scalar.R_ne_zero _

theorem C08_canonical_ok (x : Bytes) (hs : x.size = 32) (hb : Scalar.IsBytes x) (hlt : Scalar.LE x < L) :
    ∃ s, Scalar.setCanonicalBytes x = .ok s ∧ Inv s ∧ Scalar.toZ s = (Scalar.LE x : ZMod L) ∧
      Scalar.bytes s = x := by
  obtain ⟨fw, fe⟩ := fromBytes_spec Scalar.rz x hs (by rw [← hs]; exact hb)
  obtain ⟨ti, te⟩ := toMont_toZ (Fiat.fiatScalarFromBytes Scalar.rz x) _ fw
  refine ⟨_, ?_, ti, by rw [te, fe], ?_⟩
  · unfold Scalar.setCanonicalBytes
    simp [hs, (C08_isReduced x hs hb).2 hlt]
  · rw [C08_bytes _ ti, te, fe, ZMod.val_natCast, Nat.mod_eq_of_lt hlt]
    exact Scalar.LEbytes_LE x hs hb

theorem C08_canonical_err (x : Bytes) (hb : Scalar.IsBytes x) (h : ¬ (x.size = 32 ∧ Scalar.LE x < L)) :
    Scalar.setCanonicalBytes x = .err := by
  unfold Scalar.setCanonicalBytes
  by_cases hs : x.size = 32
  · have hr : ¬ (Scalar.isReduced x = true) := fun hr => h ⟨hs, (C08_isReduced x hs hb).1 hr⟩
    simp [hs, hr]
  · simp [hs]

theorem C08_canonical (x : Bytes) (hb : Scalar.IsBytes x) :
    (∃ s, Scalar.setCanonicalBytes x = .ok s) ↔ x.size = 32 ∧ Scalar.LE x < L := by
  constructor
  · rintro ⟨s, hs⟩
    by_contra h
    rw [C08_canonical_err x hb h] at hs
    cases hs
  · rintro ⟨hs, hlt⟩
    obtain ⟨s, h, _⟩ := C08_canonical_ok x hs hb hlt
    exact ⟨s, h⟩


/-! ### C08: `SetUniformBytes` -/

theorem sc_copyInto_size (n : Nat) (x : Bytes) : (Scalar.copyInto n x).size = n := by
  simp [Scalar.copyInto]

theorem sc_copyInto_get (n : Nat) (x : Bytes) (i : Nat) (hi : i < n) : (Scalar.copyInto n x)[i]! = x[i]! := by
  have h : i < (Scalar.copyInto n x).size := by rw [sc_copyInto_size]; exact hi
  rw [getElem!_pos _ i h]
  simp only [Scalar.copyInto, Array.getElem_map, List.getElem_toArray, List.getElem_range]
  split
  · rfl
  · rw [sc_getElem!_beyond x i (by omega)]

theorem sc_copyInto_isBytes (n : Nat) (x : Bytes) (hb : Scalar.IsBytes x) : Scalar.IsBytes (Scalar.copyInto n x) := by
  intro i hi
  rw [sc_copyInto_size] at hi
  rw [sc_copyInto_get n x i hi]
  exact Scalar.isBytes_all hb i

theorem sc_copyInto_LE (n : Nat) (x : Bytes) (h : x.size ≤ n) : Scalar.LE (Scalar.copyInto n x) = Scalar.LE x := by
  rw [Scalar.LE_eq_leFrom, Scalar.LE_eq_leFrom, sc_copyInto_size, ← Scalar.leFrom_extend x n h]
  apply Scalar.leFrom_congr
  intro i hi
  rw [Nat.zero_add]
  exact sc_copyInto_get n x i hi

theorem sc_slice_size (x : Bytes) (a b : Nat) (hb : b ≤ x.size) : (Bin.slice x a b).size = b - a := by
  simp [Bin.slice, Nat.min_eq_left hb]

theorem sc_slice_get (x : Bytes) (a b i : Nat) (hb : b ≤ x.size) (hi : a + i < b) :
    (Bin.slice x a b)[i]! = x[a + i]! := by
  have h : i < (Bin.slice x a b).size := by rw [sc_slice_size x a b hb]; omega
  rw [getElem!_pos _ i h, getElem!_pos x (a + i) (by omega)]
  simp [Bin.slice]

theorem sc_slice_isBytes (x : Bytes) (a b : Nat) (hb : b ≤ x.size) (hx : Scalar.IsBytes x) :
    Scalar.IsBytes (Bin.slice x a b) := by
  intro i hi
  rw [sc_slice_size x a b hb] at hi
  rw [sc_slice_get x a b i hb (by omega)]
  exact Scalar.isBytes_all hx _

theorem sc_slice_LE (x : Bytes) (a b : Nat) (hb : b ≤ x.size) :
    Scalar.LE (Bin.slice x a b) = Scalar.leFrom x a (b - a) := by
  rw [Scalar.LE_eq_leFrom, sc_slice_size x a b hb]
  apply Scalar.leFrom_congr
  intro i hi
  rw [Nat.zero_add]
  exact sc_slice_get x a b i hb (by omega)

theorem setShortBytes_spec (y : Bytes) (hy : y.size < 32) (hb : Scalar.IsBytes y) :
    ∃ s, Scalar.setShortBytes y = .ok s ∧ Inv s ∧ Scalar.toZ s = (Scalar.LE y : ZMod L) := by
  have hc := sc_copyInto_isBytes 32 y hb
  obtain ⟨fw, fe⟩ := fromBytes_spec Scalar.rz (Scalar.copyInto 32 y) (sc_copyInto_size _ _)
    (by have := hc; rw [Scalar.IsBytes, sc_copyInto_size] at this; exact this)
  obtain ⟨ti, te⟩ := toMont_toZ (Fiat.fiatScalarFromBytes Scalar.rz (Scalar.copyInto 32 y)) _ fw
  refine ⟨_, ?_, ti, by rw [te, fe, sc_copyInto_LE 32 y (by omega)]⟩
  unfold Scalar.setShortBytes
  simp [Nat.not_le.2 hy]

theorem two168_spec : Inv Fiat.scalarTwo168 ∧ Scalar.toZ Fiat.scalarTwo168 = ((2^168 : Nat) : ZMod L) := by
  have hi : Inv Fiat.scalarTwo168 := by
    refine ⟨?_, ?_, ?_, ?_, ?_⟩ <;> decide
  refine ⟨hi, ?_⟩
  have h : eval Fiat.scalarTwo168 % L = (2^168 * 2^256) % L := by decide
  have h' := sc_natCast_of_mod_eq h
  rw [Nat.cast_mul] at h'
  unfold Scalar.toZ
  rw [h']
  exact mul_inv_cancel_right₀ Scalar.R_ne_zero _

set_option exponentiation.threshold 600 in
theorem two336_spec : Inv Fiat.scalarTwo336 ∧ Scalar.toZ Fiat.scalarTwo336 = ((2^336 : Nat) : ZMod L) := by
  have hi : Inv Fiat.scalarTwo336 := by
    refine ⟨?_, ?_, ?_, ?_, ?_⟩ <;> decide
  refine ⟨hi, ?_⟩
  have h : eval Fiat.scalarTwo336 % L = (2^336 * 2^256) % L := by decide
  have h' := sc_natCast_of_mod_eq h
  rw [Nat.cast_mul] at h'
  unfold Scalar.toZ
  rw [h']
  exact mul_inv_cancel_right₀ Scalar.R_ne_zero _

set_option exponentiation.threshold 600 in
theorem C08_uniform (x : Bytes) (hx : x.size = 64) (hb : Scalar.IsBytes x) :
    ∃ s, Scalar.setUniformBytes x = .ok s ∧ Inv s ∧ Scalar.toZ s = (Scalar.LE x : ZMod L) := by
  obtain ⟨s0, e0, i0, z0⟩ := setShortBytes_spec (Bin.slice x 0 21)
    (by rw [sc_slice_size x 0 21 (by omega)]; norm_num) (sc_slice_isBytes x 0 21 (by omega) hb)
  obtain ⟨s1, e1, i1, z1⟩ := setShortBytes_spec (Bin.slice x 21 42)
    (by rw [sc_slice_size x 21 42 (by omega)]; norm_num) (sc_slice_isBytes x 21 42 (by omega) hb)
  obtain ⟨s2, e2, i2, z2⟩ := setShortBytes_spec (Bin.slice x 42 x.size)
    (by rw [sc_slice_size x 42 x.size (by omega), hx]; norm_num) (sc_slice_isBytes x 42 x.size (by omega) hb)
  obtain ⟨m1i, m1e⟩ := C07_mul s1 _ i1 two168_spec.1
  obtain ⟨a1i, a1e⟩ := C07_add s0 _ i0 m1i
  obtain ⟨m2i, m2e⟩ := C07_mul s2 _ i2 two336_spec.1
  obtain ⟨a2i, a2e⟩ := C07_add _ _ a1i m2i
  refine ⟨_, ?_, a2i, ?_⟩
  · unfold Scalar.setUniformBytes
    simp only [hx, bne_self_eq_false, Bool.false_eq_true, if_false]
    rw [← hx, e0, e1, e2]
  · rw [a2e, a1e, m1e, m2e, z0, z1, z2, two168_spec.2, two336_spec.2,
      sc_slice_LE x 0 21 (by omega), sc_slice_LE x 21 42 (by omega), sc_slice_LE x 42 x.size (by omega),
      Scalar.LE_eq_leFrom, hx]
    have e : Scalar.leFrom x 0 64 =
        Scalar.leFrom x 0 (21 - 0) + Scalar.leFrom x 21 (42 - 21) * 2^168 + Scalar.leFrom x 42 (64 - 42) * 2^336 := by
      have h1 : Scalar.leFrom x 0 64 = Scalar.leFrom x 0 21 + 256^21 * Scalar.leFrom x 21 43 := Scalar.leFrom_split x 0 21 43
      have h2 : Scalar.leFrom x 21 43 = Scalar.leFrom x 21 21 + 256^21 * Scalar.leFrom x 42 22 := Scalar.leFrom_split x 21 21 22
      have p1 : (256 : Nat)^21 = 2^168 := by decide
      have p2 : (2 : Nat)^336 = 2^168 * 2^168 := by rw [← pow_add]
      show _ = Scalar.leFrom x 0 21 + Scalar.leFrom x 21 21 * 2^168 + Scalar.leFrom x 42 22 * 2^336
      rw [h1, h2, p1, p2]
      ring
    rw [e]
    push_cast
    ring

theorem C08_uniform_err (x : Bytes) : Scalar.setUniformBytes x = .err ↔ x.size ≠ 64 := by
  constructor
  · intro h hx
    -- for 64 bytes the three chunks are short, so the result is `ok` or `panic`-free
    unfold Scalar.setUniformBytes at h
    simp only [hx, bne_self_eq_false, Bool.false_eq_true, if_false] at h
    have l0 : (Bin.slice x 0 21).size < 32 := by rw [sc_slice_size x 0 21 (by omega)]; norm_num
    have l1 : (Bin.slice x 21 42).size < 32 := by rw [sc_slice_size x 21 42 (by omega)]; norm_num
    have l2 : (Bin.slice x 42 64).size < 32 := by rw [sc_slice_size x 42 64 (by omega)]; norm_num
    simp only [Scalar.setShortBytes, Nat.not_le.2 l0, Nat.not_le.2 l1, Nat.not_le.2 l2, if_false] at h
    cases h
  · intro hx
    unfold Scalar.setUniformBytes
    simp [hx]


/-! ### C08: `SetBytesWithClamping` -/

/-- RFC 8032 clamping on the 32 input bytes -/
def Scalar.clampBytes (x : Bytes) : Bytes :=
  (x.set! 0 (x[0]! &&& 248)).set! 31 ((x[31]! &&& 63) ||| 64)

/-- clamping as arithmetic on the little-endian value: clear bits 0,1,2 and 255, set bit 254 -/
def Scalar.clamp (n : Nat) : Nat := n % 2^254 - n % 8 + 2^254

theorem Scalar.clamp_formula (n : Nat) (hn : n < 2^256) :
    Scalar.clamp n = n - n % 8 - (n / 2^254 % 4) * 2^254 + 2^254 := by
  unfold Scalar.clamp
  omega

/-- the 64-byte buffer handed to `SetUniformBytes` -/
def Scalar.clampWide (x : Bytes) : Bytes :=
  let wide := Scalar.copyInto 64 x
  let wide := wide.set! 0 (wide[0]! &&& 248)
  let wide := wide.set! 31 (wide[31]! &&& 63)
  wide.set! 31 (wide[31]! ||| 64)

theorem setBytesWithClamping_eq (x : Bytes) (hx : x.size = 32) :
    Scalar.setBytesWithClamping x = Scalar.setUniformBytes (Scalar.clampWide x) := by
  unfold Scalar.setBytesWithClamping Scalar.clampWide
  simp [hx]

theorem sc_and248 : ∀ b, b < 256 → b &&& 248 = b - b % 8 := by decide +kernel
theorem sc_and63or64 : ∀ b, b < 256 → (b &&& 63) ||| 64 = b % 64 + 64 := by decide +kernel

theorem Scalar.clampWide_size (x : Bytes) : (Scalar.clampWide x).size = 64 := by
  simp [Scalar.clampWide, sc_copyInto_size]

theorem Scalar.clampWide_get (x : Bytes) (j : Nat) :
    (Scalar.clampWide x)[j]! =
      if j = 0 then x[0]! &&& 248 else if j = 31 then (x[31]! &&& 63) ||| 64
      else if j < 64 then x[j]! else 0 := by
  have hs := sc_copyInto_size 64 x
  simp only [Scalar.clampWide, sc_getElem!_set!, sc_size_set!, hs]
  have c0 := sc_copyInto_get 64 x 0 (by norm_num)
  have c31 := sc_copyInto_get 64 x 31 (by norm_num)
  by_cases h0 : j = 0
  · subst h0; simp [c0]
  · by_cases h31 : j = 31
    · subst h31; simp [c31]
    · have e1 : ¬ (31 = j ∧ 31 < 64) := fun h => h31 h.1.symm
      have e2 : ¬ (0 = j ∧ 0 < 64) := fun h => h0 h.1.symm
      simp only [e1, e2, if_false, h0, h31]
      by_cases hj : j < 64
      · rw [if_pos hj, sc_copyInto_get 64 x j hj]
      · rw [if_neg hj, sc_getElem!_beyond _ j (by rw [hs]; omega)]

theorem Scalar.clampWide_isBytes (x : Bytes) (hb : Scalar.IsBytes x) : Scalar.IsBytes (Scalar.clampWide x) := by
  intro j _
  rw [Scalar.clampWide_get]
  have b0 := Scalar.isBytes_all hb 0
  have b31 := Scalar.isBytes_all hb 31
  have bj := Scalar.isBytes_all hb j
  split
  · rw [sc_and248 _ b0]; omega
  · split
    · rw [sc_and63or64 _ b31]; omega
    · split
      · exact bj
      · norm_num

theorem Scalar.clamp_arith (x0 M x31 P : Nat) (hP : P = 1766847064778384329583297500742918515827483896875618958121606201292619776)
    (h0 : x0 < 256) (hM : M < P) (_h31 : x31 < 256) :
    (x0 - x0 % 8) + 256 * (M + (x31 % 64 + 64) * P) =
      (x0 + 256 * (M + x31 * P)) % 2^254 - (x0 + 256 * (M + x31 * P)) % 8 + 2^254 := by
  subst hP
  omega

theorem Scalar.le32_decomp (b : Bytes) : Scalar.leFrom b 0 32 = b[0]! + 256 * (Scalar.leFrom b 1 30 + b[31]! * 256^30) := by
  have h1 : Scalar.leFrom b 0 (31 + 1) = b[0]! + 256 * Scalar.leFrom b (0 + 1) 31 := Scalar.leFrom_succ' b 0 31
  have h2 : Scalar.leFrom b 1 (30 + 1) = Scalar.leFrom b 1 30 + b[1 + 30]! * 256^30 := rfl
  exact h1.trans (by rw [Nat.zero_add, h2])

/-- any 32 bytes `w` obtained from `x` by the three clamping operations -/
theorem Scalar.clamp_core (x w : Bytes) (hb : Scalar.IsBytes x) (g0 : w[0]! = x[0]! &&& 248)
    (g31 : w[31]! = (x[31]! &&& 63) ||| 64) (gm : ∀ i, i < 30 → w[1 + i]! = x[1 + i]!) :
    Scalar.leFrom w 0 32 = Scalar.clamp (Scalar.leFrom x 0 32) := by
  rw [Scalar.le32_decomp, Scalar.le32_decomp x, Scalar.leFrom_congr w x 1 1 30 gm]
  have b0 := Scalar.isBytes_all hb 0
  have b31 := Scalar.isBytes_all hb 31
  rw [g0, g31, sc_and248 _ b0, sc_and63or64 _ b31]
  exact Scalar.clamp_arith _ _ _ _ (by norm_num) b0 (Scalar.leFrom_lt x hb 1 30) b31

theorem Scalar.clampWide_LE (x : Bytes) (hx : x.size = 32) (hb : Scalar.IsBytes x) :
    Scalar.LE (Scalar.clampWide x) = Scalar.clamp (Scalar.LE x) := by
  rw [Scalar.LE_eq_leFrom, Scalar.LE_eq_leFrom, Scalar.clampWide_size, hx]
  have hsplit : Scalar.leFrom (Scalar.clampWide x) 0 (32 + 32) =
      Scalar.leFrom (Scalar.clampWide x) 0 32 + 256^32 * Scalar.leFrom (Scalar.clampWide x) (0 + 32) 32 :=
    Scalar.leFrom_split _ 0 32 32
  have hz : Scalar.leFrom (Scalar.clampWide x) (0 + 32) 32 = 0 := by
    have : ∀ n, n ≤ 32 → Scalar.leFrom (Scalar.clampWide x) (0 + 32) n = 0 := by
      intro n
      induction n with
      | zero => intro _; rfl
      | succ n ih =>
        intro hn
        rw [Scalar.leFrom, ih (by omega), Scalar.clampWide_get]
        have h1 : ¬ (0 + 32 + n = 0) := by omega
        have h2 : ¬ (0 + 32 + n = 31) := by omega
        have h3 : 0 + 32 + n < 64 := by omega
        rw [if_neg h1, if_neg h2, if_pos h3, sc_getElem!_beyond x _ (by omega), Nat.zero_mul]
    exact this 32 (Nat.le_refl 32)
  have h64 : Scalar.leFrom (Scalar.clampWide x) 0 64 = Scalar.leFrom (Scalar.clampWide x) 0 32 := by
    rw [show (64 : Nat) = 32 + 32 from rfl, hsplit, hz, Nat.mul_zero, Nat.add_zero]
  rw [h64]
  apply Scalar.clamp_core x _ hb
  · rw [Scalar.clampWide_get]; simp
  · rw [Scalar.clampWide_get]; simp
  · intro i hi
    rw [Scalar.clampWide_get]
    have h1 : ¬ (1 + i = 0) := by omega
    have h2 : ¬ (1 + i = 31) := by omega
    have h3 : 1 + i < 64 := by omega
    rw [if_neg h1, if_neg h2, if_pos h3]

theorem Scalar.clampBytes_LE (x : Bytes) (hx : x.size = 32) (hb : Scalar.IsBytes x) :
    Scalar.LE (Scalar.clampBytes x) = Scalar.clamp (Scalar.LE x) := by
  have hs : (Scalar.clampBytes x).size = 32 := by simp [Scalar.clampBytes, hx]
  rw [Scalar.LE_eq_leFrom, Scalar.LE_eq_leFrom, hs, hx]
  apply Scalar.clamp_core x _ hb
  · simp [Scalar.clampBytes, hx]
  · simp [Scalar.clampBytes, hx]
  · intro i hi
    have h1 : ¬ (0 = 1 + i) := by omega
    have h2 : ¬ (31 = 1 + i) := by omega
    simp only [Scalar.clampBytes, sc_getElem!_set!]
    rw [if_neg (fun h => h2 h.1), if_neg (fun h => h1 h.1)]

theorem C08_clamp (x : Bytes) (hx : x.size = 32) (hb : Scalar.IsBytes x) :
    ∃ s, Scalar.setBytesWithClamping x = .ok s ∧ Inv s ∧
      Scalar.toZ s = (Scalar.clamp (Scalar.LE x) : ZMod L) := by
  obtain ⟨s, e, i, z⟩ := C08_uniform (Scalar.clampWide x) (Scalar.clampWide_size x) (Scalar.clampWide_isBytes x hb)
  exact ⟨s, by rw [setBytesWithClamping_eq x hx]; exact e, i, by rw [z, Scalar.clampWide_LE x hx hb]⟩

theorem C08_clamp_bytes (x : Bytes) (hx : x.size = 32) (hb : Scalar.IsBytes x) :
    ∃ s, Scalar.setBytesWithClamping x = .ok s ∧ Inv s ∧
      Scalar.toZ s = (Scalar.LE (Scalar.clampBytes x) : ZMod L) := by
  rw [Scalar.clampBytes_LE x hx hb]
  exact C08_clamp x hx hb

theorem C08_clamp_err (x : Bytes) (hx : x.size ≠ 32) : Scalar.setBytesWithClamping x = .err := by
  unfold Scalar.setBytesWithClamping
  simp [hx]


/-! ### interface for the API layer (`Inv` closure of every scalar operation) -/

theorem ScalarFacts_rz : Inv Scalar.rz := C07_zero.1
theorem ScalarFacts_add (x y : W4) (hx : Inv x) (hy : Inv y) : Inv (Scalar.add x y) := (C07_add x y hx hy).1
theorem ScalarFacts_sub (x y : W4) (hx : Inv x) (hy : Inv y) : Inv (Scalar.sub x y) := (C07_sub x y hx hy).1
theorem ScalarFacts_neg (x : W4) (hx : Inv x) : Inv (Scalar.neg x) := (C07_neg x hx).1
theorem ScalarFacts_mul (x y : W4) (hx : Inv x) (hy : Inv y) : Inv (Scalar.mul x y) := (C07_mul x y hx hy).1
theorem ScalarFacts_multiplyAdd (x y z : W4) (hx : Inv x) (hy : Inv y) (hz : Inv z) :
    Inv (Scalar.multiplyAdd x y z) := (C07_multiplyAdd x y z hx hy hz).1
theorem ScalarFacts_invert (x : W4) (hx : Inv x) : Inv (Scalar.invert x) := (C07_invert x hx).1
theorem ScalarFacts_bytes (x : W4) (hx : Inv x) : Scalar.IsBytes (Scalar.bytes x) := (C08_bytes_isBytes x hx).2
theorem ScalarFacts_setUniformBytes_err (x : Bytes) : Scalar.setUniformBytes x = .err ↔ x.size ≠ 64 :=
  C08_uniform_err x
theorem ScalarFacts_setUniformBytes_ok (x : Bytes) (hx : x.size = 64) (hb : Scalar.IsBytes x) :
    ∃ s, Scalar.setUniformBytes x = .ok s ∧ Inv s := by
  obtain ⟨s, e, i, _⟩ := C08_uniform x hx hb
  exact ⟨s, e, i⟩
theorem ScalarFacts_setCanonicalBytes (x : Bytes) (hb : Scalar.IsBytes x) :
    (∃ s, Scalar.setCanonicalBytes x = .ok s ∧ Inv s) ∨ Scalar.setCanonicalBytes x = .err := by
  by_cases h : x.size = 32 ∧ Scalar.LE x < L
  · obtain ⟨s, e, i, _⟩ := C08_canonical_ok x h.1 hb h.2
    exact Or.inl ⟨s, e, i⟩
  · exact Or.inr (C08_canonical_err x hb h)
theorem ScalarFacts_setBytesWithClamping (x : Bytes) (hb : Scalar.IsBytes x) :
    (∃ s, Scalar.setBytesWithClamping x = .ok s ∧ Inv s) ∨ Scalar.setBytesWithClamping x = .err := by
  by_cases h : x.size = 32
  · obtain ⟨s, e, i, _⟩ := C08_clamp x h hb
    exact Or.inl ⟨s, e, i⟩
  · exact Or.inr (C08_clamp_err x h)

end EdVerif.Proofs
