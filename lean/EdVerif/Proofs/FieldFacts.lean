import Mathlib.Data.ZMod.Basic
import EdVerif.Impl.Fe
import EdVerif.Spec.Curve25519
/-!
Interfaces between the proof layers, so that they can be developed independently:

* `KernelFacts` — what the kernel layer (`Proofs/FeKernels*.lean`, over `Nat` on the regenerated
  wrap-around kernels) provides;
* `FieldFacts`  — the `ZMod p` view of every `field.Element` operation of the model, which the
  point layer consumes.

Both are `Prop`-valued structures; the final property theorems are closed by
`kernelFacts : KernelFacts` and `fieldFacts : FieldFacts` (no hypotheses left).
-/
namespace EdVerif.Proofs
open EdVerif.Impl EdVerif.Prims EdVerif.Spec

/-- the field element represented by the limbs -/
noncomputable def toZ (e : Fe) : F := ((Fe.val e : Nat) : F)

/-- all five limbs are `uint64` values -/
def Fe.U64 (e : Fe) : Prop := e.l0 < 2^64 ∧ e.l1 < 2^64 ∧ e.l2 < 2^64 ∧ e.l3 < 2^64 ∧ e.l4 < 2^64

/-- little-endian value of a byte string -/
def LE (b : Bytes) : Nat := b.foldr (fun x acc => x + 256 * acc) 0

/-- the `k` little-endian bytes of `n` -/
def LEbytes (n k : Nat) : Bytes := Array.ofFn (n := k) fun i => n / 256 ^ i.val % 256

/-- every entry is a byte -/
def IsBytes (b : Bytes) : Prop := ∀ i, i < b.size → b[i]! < 256

/-- Kernel layer: statements over `Nat` about the regenerated kernels (through the `Fe.*` wrappers). -/
structure KernelFacts : Prop where
  tight_inv : ∀ e, Fe.Tight e → Fe.Inv e
  carry : ∀ v, Fe.U64 v → Fe.Tight (Fe.carryPropagate v) ∧ Fe.val (Fe.carryPropagate v) ≡ Fe.val v [MOD P]
  add : ∀ a b, Fe.Inv a → Fe.Inv b → Fe.Tight (Fe.add a b) ∧ Fe.val (Fe.add a b) ≡ Fe.val a + Fe.val b [MOD P]
  sub : ∀ a b, Fe.Inv a → Fe.Inv b → Fe.Tight (Fe.sub a b) ∧ Fe.val (Fe.sub a b) + Fe.val b ≡ Fe.val a [MOD P]
  neg : ∀ a, Fe.Inv a → Fe.Tight (Fe.neg a) ∧ Fe.val (Fe.neg a) + Fe.val a ≡ 0 [MOD P]
  mul : ∀ a b, Fe.Inv a → Fe.Inv b → Fe.Tight (Fe.mul a b) ∧ Fe.val (Fe.mul a b) ≡ Fe.val a * Fe.val b [MOD P]
  square : ∀ a, Fe.Inv a → Fe.Tight (Fe.square a) ∧ Fe.val (Fe.square a) ≡ Fe.val a * Fe.val a [MOD P]
  mult32 : ∀ a y, Fe.Inv a → y < 2^32 → Fe.Inv (Fe.mult32 a y) ∧ Fe.val (Fe.mult32 a y) ≡ Fe.val a * y [MOD P]
  reduce : ∀ a, Fe.Inv a →
    (Fe.reduce a).l0 < 2^51 ∧ (Fe.reduce a).l1 < 2^51 ∧ (Fe.reduce a).l2 < 2^51 ∧ (Fe.reduce a).l3 < 2^51 ∧
    (Fe.reduce a).l4 < 2^51 ∧ Fe.val (Fe.reduce a) = Fe.val a % P
  select : ∀ a b, Fe.U64 a → Fe.U64 b → Fe.select a b 1 = a ∧ Fe.select a b 0 = b
  swap : ∀ a b, Fe.U64 a → Fe.U64 b → Fe.swap a b 1 = (b, a) ∧ Fe.swap a b 0 = (a, b)
  zero : Fe.zero = ⟨0, 0, 0, 0, 0⟩
  one : Fe.one = ⟨1, 0, 0, 0, 0⟩
  setBytes : ∀ x, x.size = 32 → IsBytes x →
    ∃ e, Fe.setBytes x = some e ∧ e.l0 < 2^51 ∧ e.l1 < 2^51 ∧ e.l2 < 2^51 ∧ e.l3 < 2^51 ∧ e.l4 < 2^51 ∧
      Fe.val e = LE x % 2^255
  setBytes_len : ∀ x, x.size ≠ 32 → Fe.setBytes x = none
  setWideBytes : ∀ x, x.size = 64 → IsBytes x →
    ∃ e, Fe.setWideBytes x = some e ∧ Fe.Tight e ∧ Fe.val e ≡ LE x [MOD P]
  setWideBytes_len : ∀ x, x.size ≠ 64 → Fe.setWideBytes x = none
  bytes : ∀ a, Fe.Inv a → Fe.bytes a = LEbytes (Fe.val a % P) 32

/-- Field layer: the `ZMod p` view consumed by the point layer. -/
structure FieldFacts : Prop where
  zero : Fe.Inv Fe.zero ∧ toZ Fe.zero = 0
  one : Fe.Inv Fe.one ∧ toZ Fe.one = 1
  rz : Fe.Inv Fe.rz ∧ toZ Fe.rz = 0
  sqrtM1 : Fe.Inv Fe.sqrtM1 ∧ toZ Fe.sqrtM1 = Spec.sqrtM1
  add : ∀ a b, Fe.Inv a → Fe.Inv b → Fe.Inv (Fe.add a b) ∧ toZ (Fe.add a b) = toZ a + toZ b
  sub : ∀ a b, Fe.Inv a → Fe.Inv b → Fe.Inv (Fe.sub a b) ∧ toZ (Fe.sub a b) = toZ a - toZ b
  neg : ∀ a, Fe.Inv a → Fe.Inv (Fe.neg a) ∧ toZ (Fe.neg a) = - toZ a
  mul : ∀ a b, Fe.Inv a → Fe.Inv b → Fe.Inv (Fe.mul a b) ∧ toZ (Fe.mul a b) = toZ a * toZ b
  square : ∀ a, Fe.Inv a → Fe.Inv (Fe.square a) ∧ toZ (Fe.square a) = toZ a ^ 2
  mult32 : ∀ a y, Fe.Inv a → y < 2^32 → Fe.Inv (Fe.mult32 a y) ∧ toZ (Fe.mult32 a y) = toZ a * (y : F)
  invert : ∀ a, Fe.Inv a → Fe.Inv (Fe.invert a) ∧ toZ (Fe.invert a) = (toZ a)⁻¹
  pow22523 : ∀ a, Fe.Inv a → Fe.Inv (Fe.pow22523 a) ∧ toZ (Fe.pow22523 a) = toZ a ^ (2^252 - 3)
  select : ∀ a b, Fe.Inv a → Fe.Inv b → Fe.select a b 1 = a ∧ Fe.select a b 0 = b
  swap : ∀ a b, Fe.Inv a → Fe.Inv b → Fe.swap a b 1 = (b, a) ∧ Fe.swap a b 0 = (a, b)
  bytes : ∀ a, Fe.Inv a → Fe.bytes a = LEbytes (toZ a).val 32
  equal : ∀ a b, Fe.Inv a → Fe.Inv b → Fe.equal a b = if toZ a = toZ b then 1 else 0
  isNegative : ∀ a, Fe.Inv a → Fe.isNegative a = (toZ a).val % 2
  absolute : ∀ a, Fe.Inv a → Fe.Inv (Fe.absolute a) ∧
    toZ (Fe.absolute a) = if (toZ a).val % 2 = 1 then - toZ a else toZ a
  setBytes : ∀ x, x.size = 32 → IsBytes x →
    ∃ e, Fe.setBytes x = some e ∧ Fe.Inv e ∧ toZ e = ((LE x % 2^255 : Nat) : F)
  setBytes_len : ∀ x, x.size ≠ 32 → Fe.setBytes x = none
  setWideBytes : ∀ x, x.size = 64 → IsBytes x →
    ∃ e, Fe.setWideBytes x = some e ∧ Fe.Inv e ∧ toZ e = ((LE x : Nat) : F)
  setWideBytes_len : ∀ x, x.size ≠ 64 → Fe.setWideBytes x = none

end EdVerif.Proofs
