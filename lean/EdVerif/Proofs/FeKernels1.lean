import Mathlib.Tactic.Ring
import Mathlib.Tactic.Linarith
import Mathlib.Tactic.LinearCombination
import Mathlib.Tactic.NormNum
import Mathlib.Data.Nat.ModEq
import EdVerif.Impl.Fe
/-!
C09/C10 kernel layer, part 1: carry chain, add/sub/neg, select/swap, constants, receiver
independence. All statements are about the GENERATED kernels (`EdVerif.Gen.Field`) through the
wrappers of `EdVerif.Impl.Fe`, on the faithful wrap-around `uint64` model of `EdVerif.Prims`.
Congruences are stated with `Nat.ModEq` (`a ≡ b [MOD P]`).
-/
namespace EdVerif.Proofs
open EdVerif EdVerif.Prims EdVerif.Gen EdVerif.Impl

abbrev P : Nat := EdVerif.P
abbrev val := Fe.val
abbrev Inv := Fe.Inv
abbrev Tight := Fe.Tight

/-- all five limbs are `uint64` values -/
def U64 (e : Prims.Fe) : Prop :=
  e.l0 < 2^64 ∧ e.l1 < 2^64 ∧ e.l2 < 2^64 ∧ e.l3 < 2^64 ∧ e.l4 < 2^64

theorem P_eq : P = 2^255 - 19 := rfl

theorem mask51_eq : (2251799813685247 : Nat) = 2^51 - 1 := by norm_num

theorem and_mask51 (x : Nat) : x &&& 2251799813685247 = x % 2^51 := by
  rw [mask51_eq, Nat.and_two_pow_sub_one_eq_mod]

/-! ### carry chain -/

/-- exact form: the carry out of the top limb is folded back as `19`, i.e. `c4 * P` is dropped -/
theorem carryGeneric_eq (v : Prims.Fe) (h : U64 v) :
    val (Field.carryPropagateGeneric v) + (v.l4 / 2^51) * P = val v ∧
      Tight (Field.carryPropagateGeneric v) := by
  obtain ⟨l0, l1, l2, l3, l4⟩ := v
  obtain ⟨h0, h1, h2, h3, h4⟩ := h
  simp only [Field.carryPropagateGeneric, Fe.val, Fe.Tight, P, EdVerif.P, U.shr, U.add, U.and, U.mul,
    and_mask51, Nat.shiftRight_eq_div_pow] at *
  have e0 : (l0 % 2^51 + l4 / 2^51 * 19 % 2^64) % 2^64 = l0 % 2^51 + l4 / 2^51 * 19 := by omega
  have e1 : (l1 % 2^51 + l0 / 2^51) % 2^64 = l1 % 2^51 + l0 / 2^51 := by omega
  have e2 : (l2 % 2^51 + l1 / 2^51) % 2^64 = l2 % 2^51 + l1 / 2^51 := by omega
  have e3 : (l3 % 2^51 + l2 / 2^51) % 2^64 = l3 % 2^51 + l2 / 2^51 := by omega
  have e4 : (l4 % 2^51 + l3 / 2^51) % 2^64 = l4 % 2^51 + l3 / 2^51 := by omega
  rw [e0, e1, e2, e3, e4]
  refine ⟨?_, ?_⟩ <;> omega

theorem carryPropagate_eq_generic (v : Prims.Fe) :
    Field.carryPropagate v = Field.carryPropagateGeneric v := rfl

theorem carryGeneric_spec (v : Prims.Fe) (h : U64 v) :
    Tight (Field.carryPropagateGeneric v) ∧ val (Field.carryPropagateGeneric v) ≡ val v [MOD P] := by
  obtain ⟨h1, h2⟩ := carryGeneric_eq v h
  refine ⟨h2, ?_⟩
  unfold Nat.ModEq
  rw [← h1, Nat.add_mul_mod_self_right]

theorem carry_eq (v : Prims.Fe) (h : U64 v) :
    val (Fe.carryPropagate v) + (v.l4 / 2^51) * P = val v ∧ Tight (Fe.carryPropagate v) :=
  carryGeneric_eq v h

theorem carry_spec (v : Prims.Fe) (h : U64 v) :
    Tight (Fe.carryPropagate v) ∧ val (Fe.carryPropagate v) ≡ val v [MOD P] :=
  carryGeneric_spec v h

theorem tight_inv {e : Prims.Fe} (h : Tight e) : Inv e := by
  obtain ⟨l0, l1, l2, l3, l4⟩ := e
  simp only [Tight, Inv, Fe.Tight, Fe.Inv] at *
  omega

theorem inv_U64 {e : Prims.Fe} (h : Inv e) : U64 e := by
  obtain ⟨l0, l1, l2, l3, l4⟩ := e
  simp only [U64, Inv, Fe.Inv] at *
  omega

theorem tight_u64 {e : Prims.Fe} (h : Tight e) : U64 e := inv_U64 (tight_inv h)

/-! ### Add / Subtract / Negate -/

theorem add_spec {a b : Prims.Fe} (ha : Inv a) (hb : Inv b) :
    Tight (Fe.add a b) ∧ val (Fe.add a b) ≡ val a + val b [MOD P] := by
  obtain ⟨a0, a1, a2, a3, a4⟩ := a
  obtain ⟨b0, b1, b2, b3, b4⟩ := b
  simp only [Inv, Fe.Inv] at ha hb
  have hc := carryGeneric_spec ⟨(a0 + b0) % 2^64, (a1 + b1) % 2^64, (a2 + b2) % 2^64,
    (a3 + b3) % 2^64, (a4 + b4) % 2^64⟩ (by simp only [U64]; omega)
  simp only [Fe.add, Field.Add, U.add]
  refine ⟨hc.1, hc.2.trans ?_⟩
  simp only [Fe.val]
  have e0 : (a0 + b0) % 2^64 = a0 + b0 := by omega
  have e1 : (a1 + b1) % 2^64 = a1 + b1 := by omega
  have e2 : (a2 + b2) % 2^64 = a2 + b2 := by omega
  have e3 : (a3 + b3) % 2^64 = a3 + b3 := by omega
  have e4 : (a4 + b4) % 2^64 = a4 + b4 := by omega
  rw [e0, e1, e2, e3, e4]
  unfold Nat.ModEq
  congr 1
  ring

/-- `2 * P` limb-wise, the constant added by `Subtract` -/
theorem twoP_limbs : 4503599627370458 + 4503599627370494 * 2^51 + 4503599627370494 * 2^102 +
    4503599627370494 * 2^153 + 4503599627370494 * 2^204 = 2 * P := by
  norm_num [P, EdVerif.P]

theorem sub_spec {a b : Prims.Fe} (ha : Inv a) (hb : Inv b) :
    Tight (Fe.sub a b) ∧ val (Fe.sub a b) + val b ≡ val a [MOD P] := by
  obtain ⟨a0, a1, a2, a3, a4⟩ := a
  obtain ⟨b0, b1, b2, b3, b4⟩ := b
  simp only [Inv, Fe.Inv] at ha hb
  have e0 : ((a0 + 4503599627370458) % 2^64 + 2^64 - b0 % 2^64) % 2^64 = a0 + 4503599627370458 - b0 := by omega
  have e1 : ((a1 + 4503599627370494) % 2^64 + 2^64 - b1 % 2^64) % 2^64 = a1 + 4503599627370494 - b1 := by omega
  have e2 : ((a2 + 4503599627370494) % 2^64 + 2^64 - b2 % 2^64) % 2^64 = a2 + 4503599627370494 - b2 := by omega
  have e3 : ((a3 + 4503599627370494) % 2^64 + 2^64 - b3 % 2^64) % 2^64 = a3 + 4503599627370494 - b3 := by omega
  have e4 : ((a4 + 4503599627370494) % 2^64 + 2^64 - b4 % 2^64) % 2^64 = a4 + 4503599627370494 - b4 := by omega
  have hc := carryGeneric_spec ⟨a0 + 4503599627370458 - b0, a1 + 4503599627370494 - b1,
    a2 + 4503599627370494 - b2, a3 + 4503599627370494 - b3, a4 + 4503599627370494 - b4⟩
    (by simp only [U64]; omega)
  simp only [Fe.sub, Field.Subtract, U.add, U.sub, carryPropagate_eq_generic]
  rw [e0, e1, e2, e3, e4]
  refine ⟨hc.1, ?_⟩
  have h2 := Nat.ModEq.add_right (b0 + b1 * 2^51 + b2 * 2^102 + b3 * 2^153 + b4 * 2^204) hc.2
  simp only [Fe.val] at h2 ⊢
  refine h2.trans ?_
  have key : a0 + 4503599627370458 - b0 + (a1 + 4503599627370494 - b1) * 2^51 +
      (a2 + 4503599627370494 - b2) * 2^102 + (a3 + 4503599627370494 - b3) * 2^153 +
      (a4 + 4503599627370494 - b4) * 2^204 +
      (b0 + b1 * 2^51 + b2 * 2^102 + b3 * 2^153 + b4 * 2^204) =
      (a0 + a1 * 2^51 + a2 * 2^102 + a3 * 2^153 + a4 * 2^204) + 2 * P := by
    simp only [P, EdVerif.P]
    omega
  rw [key]
  unfold Nat.ModEq
  rw [Nat.add_mul_mod_self_right]

theorem inv_zero : Inv Fe.zero := by decide
theorem inv_one : Inv Fe.one := by decide
theorem tight_zero : Tight Fe.zero := by
  simp only [Tight, Fe.Tight, Fe.zero, Field.Zero, Field.feZero]; omega
theorem tight_one : Tight Fe.one := by
  simp only [Tight, Fe.Tight, Fe.one, Field.One, Field.feOne]; omega
theorem zero_val : val Fe.zero = 0 := by decide
theorem one_val : val Fe.one = 1 := by decide

theorem neg_eq_sub (a : Prims.Fe) : Fe.neg a = Fe.sub Fe.zero a := rfl

theorem neg_spec {a : Prims.Fe} (ha : Inv a) :
    Tight (Fe.neg a) ∧ val (Fe.neg a) + val a ≡ 0 [MOD P] := by
  have h := sub_spec inv_zero ha
  rw [neg_eq_sub]
  rw [zero_val] at h
  exact h


/-- boundary: with limbs of `b` merely `< 2^52` (the source comment's bound) `Subtract` wraps -/
theorem sub_needs_inv : ∃ a b : Prims.Fe, Inv a ∧
    (b.l0 < 2^52 ∧ b.l1 < 2^52 ∧ b.l2 < 2^52 ∧ b.l3 < 2^52 ∧ b.l4 < 2^52) ∧
    ¬ (val (Fe.sub a b) + val b ≡ val a [MOD P]) :=
  ⟨⟨0, 0, 0, 0, 0⟩, ⟨2^52 - 1, 0, 0, 0, 0⟩, by decide, by decide, by decide +kernel⟩

/-! ### Select / Swap -/

theorem mask_one : Field.mask64Bits 1 = 2^64 - 1 := by decide +kernel
theorem mask_zero : Field.mask64Bits 0 = 0 := by decide +kernel
theorem not_ones : U.not 64 (2^64 - 1) = 0 := by decide +kernel
theorem not_zero : U.not 64 0 = 2^64 - 1 := by decide +kernel

theorem ones_and {x : Nat} (h : x < 2^64) : (2^64 - 1) &&& x = x := by
  rw [Nat.and_comm, Nat.and_two_pow_sub_one_eq_mod, Nat.mod_eq_of_lt h]

theorem sel_one {x : Nat} (y : Nat) (h : x < 2^64) :
    ((2^64 - 1) &&& x) ||| (0 &&& y) = x := by
  rw [ones_and h, Nat.zero_and, Nat.or_zero]

theorem sel_zero (x : Nat) {y : Nat} (h : y < 2^64) :
    (0 &&& x) ||| ((2^64 - 1) &&& y) = y := by
  rw [ones_and h, Nat.zero_and, Nat.zero_or]

theorem select_one {a : Prims.Fe} (b : Prims.Fe) (ha : U64 a) : Fe.select a b 1 = a := by
  obtain ⟨a0, a1, a2, a3, a4⟩ := a
  obtain ⟨h0, h1, h2, h3, h4⟩ := ha
  simp only [Fe.select, Field.Select, mask_one, not_ones, U.or, U.and,
    sel_one _ h0, sel_one _ h1, sel_one _ h2, sel_one _ h3, sel_one _ h4]

theorem select_zero (a : Prims.Fe) {b : Prims.Fe} (hb : U64 b) : Fe.select a b 0 = b := by
  obtain ⟨b0, b1, b2, b3, b4⟩ := b
  obtain ⟨h0, h1, h2, h3, h4⟩ := hb
  simp only [Fe.select, Field.Select, mask_zero, not_zero, U.or, U.and,
    sel_zero _ h0, sel_zero _ h1, sel_zero _ h2, sel_zero _ h3, sel_zero _ h4]

theorem select_spec {a b : Prims.Fe} (ha : U64 a) (hb : U64 b) :
    Fe.select a b 1 = a ∧ Fe.select a b 0 = b :=
  ⟨select_one b ha, select_zero a hb⟩

theorem swp_one_l {x y : Nat} (hx : x < 2^64) (hy : y < 2^64) :
    x ^^^ ((2^64 - 1) &&& (x ^^^ y)) = y := by
  rw [ones_and (Nat.xor_lt_two_pow hx hy), ← Nat.xor_assoc, Nat.xor_self, Nat.zero_xor]

theorem swp_one_r {x y : Nat} (hx : x < 2^64) (hy : y < 2^64) :
    y ^^^ ((2^64 - 1) &&& (x ^^^ y)) = x := by
  rw [Nat.xor_comm x y, swp_one_l hy hx]

theorem swp_zero (x z : Nat) : x ^^^ (0 &&& z) = x := by
  rw [Nat.zero_and, Nat.xor_zero]

theorem swap_one {a b : Prims.Fe} (ha : U64 a) (hb : U64 b) : Fe.swap a b 1 = (b, a) := by
  obtain ⟨a0, a1, a2, a3, a4⟩ := a
  obtain ⟨b0, b1, b2, b3, b4⟩ := b
  obtain ⟨h0, h1, h2, h3, h4⟩ := ha
  obtain ⟨k0, k1, k2, k3, k4⟩ := hb
  simp only [Fe.swap, Field.Swap, mask_one, U.xor, U.and,
    swp_one_l h0 k0, swp_one_l h1 k1, swp_one_l h2 k2, swp_one_l h3 k3, swp_one_l h4 k4,
    swp_one_r h0 k0, swp_one_r h1 k1, swp_one_r h2 k2, swp_one_r h3 k3, swp_one_r h4 k4]

theorem swap_zero (a b : Prims.Fe) : Fe.swap a b 0 = (a, b) := by
  simp only [Fe.swap, Field.Swap, mask_zero, U.xor, U.and, swp_zero]

theorem swap_spec {a b : Prims.Fe} (ha : U64 a) (hb : U64 b) :
    Fe.swap a b 1 = (b, a) ∧ Fe.swap a b 0 = (a, b) :=
  ⟨swap_one ha hb, swap_zero a b⟩

/-! ### Receiver independence of the generated kernels -/

theorem Zero_recv (v v' : Prims.Fe) : Field.Zero v = Field.Zero v' := rfl
theorem One_recv (v v' : Prims.Fe) : Field.One v = Field.One v' := rfl
theorem Set_recv (v v' a : Prims.Fe) : Field.Set v a = Field.Set v' a := rfl
theorem Add_recv (v v' a b : Prims.Fe) : Field.Add v a b = Field.Add v' a b := rfl
theorem Subtract_recv (v v' a b : Prims.Fe) : Field.Subtract v a b = Field.Subtract v' a b := rfl
theorem Negate_recv (v v' a : Prims.Fe) : Field.Negate v a = Field.Negate v' a := rfl
theorem Select_recv (v v' a b : Prims.Fe) (c : Nat) : Field.Select v a b c = Field.Select v' a b c := rfl
theorem feMulGeneric_recv (v v' a b : Prims.Fe) : Field.feMulGeneric v a b = Field.feMulGeneric v' a b := rfl
theorem feSquareGeneric_recv (v v' a : Prims.Fe) : Field.feSquareGeneric v a = Field.feSquareGeneric v' a := rfl
theorem feMul_recv (v v' a b : Prims.Fe) : Field.feMul v a b = Field.feMul v' a b := rfl
theorem feSquare_recv (v v' a : Prims.Fe) : Field.feSquare v a = Field.feSquare v' a := rfl
theorem Multiply_recv (v v' a b : Prims.Fe) : Field.Multiply v a b = Field.Multiply v' a b := rfl
theorem Square_recv (v v' a : Prims.Fe) : Field.Square v a = Field.Square v' a := rfl
theorem Mult32_recv (v v' a : Prims.Fe) (y : Nat) : Field.Mult32 v a y = Field.Mult32 v' a y := rfl
theorem SetBytes_recv (v v' : Prims.Fe) (x : Bytes) : Field.SetBytes v x = Field.SetBytes v' x := rfl
theorem SetWideBytes_recv (v v' : Prims.Fe) (x : Bytes) :
    Field.SetWideBytes v x = Field.SetWideBytes v' x := rfl

end EdVerif.Proofs
