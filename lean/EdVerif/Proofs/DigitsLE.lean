import EdVerif.Proofs.Digits
import EdVerif.Proofs.FieldFacts
/-!
Bridge between the two little-endian value functions: `LE` of `FieldFacts` (a `foldr` over the whole
array) and `LE32` of `Digits` (`∑ i ∈ Finset.range 32, b[i]! * 256 ^ i`). They agree on 32-byte
strings. Kept in a separate file so that `Digits`/`Naf` do not depend on `FieldFacts`.
-/
namespace EdVerif.Proofs
open EdVerif.Prims
open Finset

theorem foldr_LE_list (l : List Nat) :
    l.foldr (fun x acc => x + 256 * acc) 0 = ∑ i ∈ range l.length, l[i]! * 256 ^ i := by
  induction l with
  | nil => simp
  | cons x xs ih =>
    rw [List.foldr_cons, ih, List.length_cons, sum_range_succ', mul_sum]
    simp only [List.getElem!_cons_succ, List.getElem!_cons_zero, pow_zero, mul_one]
    rw [add_comm]
    congr 1
    apply sum_congr rfl
    intro i _
    rw [pow_succ]; ring

theorem LE_eq_sum (b : Bytes) : LE b = ∑ i ∈ range b.size, b[i]! * 256 ^ i := by
  unfold LE
  rw [← Array.foldr_toList, foldr_LE_list]
  simp [Array.getElem!_eq_getD]

theorem LE_eq_LE32 (b : Bytes) (h : b.size = 32) : LE b = LE32 b := by
  rw [LE_eq_sum, h]; rfl

theorem IsBytes.lt32 {b : Bytes} (hb : IsBytes b) (h : b.size = 32) : ∀ i < 32, b[i]! < 256 :=
  fun i hi => hb i (by omega)

end EdVerif.Proofs
