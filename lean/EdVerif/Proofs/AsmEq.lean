import EdVerif.Asm.Exec
import EdVerif.Gen.FieldKernels
/-!
C20, proof layer (core Lean only): the assembly routines, executed by the opcode semantics of
`EdVerif.Asm` on the generated instruction lists, compute exactly the generated Go kernels — for
*every* limb value (not only under the representation invariant), on an arbitrary memory and for every
aliasing pattern of the pointer arguments.

Method: symbolic execution of the instruction list (`asm_exec`, `EdVerif/Asm/Exec.lean`); the Go side is
unfolded to the same `uint64` primitives, with `addMul64` presented in the operand order of
`ADDQ AX, lo; ADCQ DX, hi`. Both sides are then syntactically equal. This proof follows the Go code
operation by operation; the route through the column specification, which does not look at the Go code
and survives e.g. a reordering of the partial products, is `EdVerif/Proofs/AsmCols.lean`.
-/
namespace EdVerif.Proofs.AsmEq
open EdVerif.Asm EdVerif.Prims EdVerif.Gen EdVerif.Gen.Asm

/-- `addMul64` in the operand order of `ADDQ AX, lo; ADCQ DX, hi` -/
theorem addMul64_alt (v : U128) (x y : Nat) : Field.addMul64 v x y =
    ⟨(Bits.Add64 v.lo (Bits.Mul64 x y).snd 0).fst,
     (Bits.Add64 v.hi (Bits.Mul64 x y).fst (Bits.Add64 v.lo (Bits.Mul64 x y).snd 0).snd).fst⟩ := by
  simp only [Field.addMul64, Add64_comm v.lo, Add64_comm v.hi]

/-! ### the routines on an arbitrary memory, arbitrary aliasing of the arguments -/

set_option maxRecDepth 1000000 in
set_option maxHeartbeats 4000000 in
/-- `fe_amd64.s` `feMul(out, a, b)` with `out = &mem[i]`, `a = &mem[j]`, `b = &mem[k]` (any of them may
coincide): object `i` becomes `feMulGeneric _ mem[j] mem[k]`, nothing else changes. All limb values. -/
theorem feMul_mem (mem : Mem) (i j k : Nat) (v : Fe) :
    feMulAsmMem mem i j k = some (upd mem i (Field.feMulGeneric v (mem j) (mem k))) := by
  asm_exec
  simp only [Field.feMulGeneric, Field.mul64, addMul64_alt, Field.shiftRightBy51, Field.carryPropagate,
    Field.carryPropagateGeneric, uadd_eq]

set_option maxRecDepth 1000000 in
set_option maxHeartbeats 4000000 in
/-- `fe_amd64.s` `feSquare(out, a)` with `out = &mem[i]`, `a = &mem[j]` (possibly `i = j`). -/
theorem feSquare_mem (mem : Mem) (i j : Nat) (v : Fe) :
    feSquareAsmMem mem i j = some (upd mem i (Field.feSquareGeneric v (mem j))) := by
  asm_exec
  simp only [Field.feSquareGeneric, Field.mul64, addMul64_alt, Field.shiftRightBy51, Field.carryPropagate,
    Field.carryPropagateGeneric, uadd_eq, shl1_eq]

set_option maxRecDepth 100000 in
/-- `fe_arm64.s` `carryPropagate(v)` with `v = &mem[i]`. -/
theorem carry_arm64_mem (mem : Mem) (i : Nat) :
    carryPropagateArm64Mem mem i = some (upd mem i (Field.carryPropagateGeneric (mem i))) := by
  asm_exec
  simp only [Field.carryPropagateGeneric]

/-! ### separate objects (the functional wrappers) -/

/-- `fe_amd64.s` `feMul` = `feMulGeneric`, all inputs, any prior `*out` / receiver. -/
theorem feMul_exact (o v a b : Fe) : feMulAsmFrom o a b = some (Field.feMulGeneric v a b) := by
  simp only [feMulAsmFrom, feMul_mem _ 0 1 2 v, Option.map, upd_same]; rfl

/-- `fe_amd64.s` `feSquare` = `feSquareGeneric`, all inputs. -/
theorem feSquare_exact (o v a : Fe) : feSquareAsmFrom o a = some (Field.feSquareGeneric v a) := by
  simp only [feSquareAsmFrom, feSquare_mem _ 0 1 v, Option.map, upd_same]; rfl

/-- `fe_arm64.s` `carryPropagate` = `carryPropagateGeneric`, all inputs. -/
theorem carry_arm64_exact (v : Fe) : carryPropagateArm64 v = some (Field.carryPropagateGeneric v) := by
  simp only [carryPropagateArm64, carry_arm64_mem, Option.map, upd_same]; rfl

end EdVerif.Proofs.AsmEq
