import EdVerif.Proofs.FeKernelFacts
import EdVerif.Proofs.FeHigh
import EdVerif.Proofs.SqrtRatioImpl
import EdVerif.Proofs.PointDefs
/-!
Closes the layer interfaces: the kernel facts are proved about the kernels regenerated from
`/repo` on this run (`Gen/FieldKernels.lean`), so everything below holds of today's source text
(up to the translator and the hand-written model above the kernels, which the executed
correspondence ties to the code).
-/
namespace EdVerif.Proofs

/-- the `ZMod p` view of every field operation of the model -/
theorem fieldFacts : FieldFacts := fieldFacts_of_kernelFacts kernelFacts

/-- decoder-side behaviour of `SqrtRatio` -/
theorem sqrtFacts : SqrtRatioDecodeFacts := fun u v hu hv => sqrtRatio_decode fieldFacts u v hu hv

end EdVerif.Proofs
