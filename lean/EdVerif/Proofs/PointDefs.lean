import EdVerif.Impl.Point
import EdVerif.Proofs.FieldFacts
import EdVerif.Spec.Projective
import EdVerif.Spec.SqrtRatio
/-!
Point layer, definitions: abstraction relations between the executable point model
(`EdVerif.Impl.Point`, structures `P3 P1xP1 P2 Cached AffineCached`) and the affine Edwards group
`Spec.Ed25519`, obtained by composing the limb abstraction `toZ : Fe → F` with the purely
field-level relations of `Spec/Projective.lean`.

For every representation there is
* `….Rep v q`   : all limbs satisfy `Fe.Inv` and the `toZ`-images represent `q : Ed25519`;
* `….Valid v`   : all limbs satisfy `Fe.Inv` and the `toZ`-images are a valid coordinate tuple;
* `….toEd v`    : the represented point (`0` on invalid input);
with `v.Rep q ↔ v.Valid ∧ v.toEd = q`.

The declarations live in the namespaces of the model structures (`EdVerif.Impl.P3.Valid`, …) so that
dot notation (`P.Valid`, `P.toEd`) works.
-/
namespace EdVerif.Proofs
open EdVerif.Impl EdVerif.Prims EdVerif.Spec

/-- What the point decoder needs from `Fe.sqrtRatio` (proved from `FieldFacts` elsewhere). -/
def SqrtRatioDecodeFacts : Prop :=
  ∀ u v : Fe, Fe.Inv u → Fe.Inv v →
    Fe.Inv (Fe.sqrtRatio u v).1 ∧ (toZ (Fe.sqrtRatio u v).1).val % 2 = 0 ∧
    ((Fe.sqrtRatio u v).2 = 0 ∨ (Fe.sqrtRatio u v).2 = 1) ∧
    ((Fe.sqrtRatio u v).2 = 1 ↔ ∃ x : F, toZ v * x ^ 2 = toZ u) ∧
    ((Fe.sqrtRatio u v).2 = 1 → toZ v * toZ (Fe.sqrtRatio u v).1 ^ 2 = toZ u)

/-! ### `Good a v` : the limbs `a` satisfy the invariant and represent `v` -/

/-- the field element `a` satisfies the limb invariant and has value `v` -/
structure Good (a : Fe) (v : F) : Prop where
  inv : Fe.Inv a
  val : toZ a = v

theorem Good.of_inv {a : Fe} (h : Fe.Inv a) : Good a (toZ a) := ⟨h, rfl⟩

theorem Good.congr {a : Fe} {v w : F} (h : Good a v) (e : v = w) : Good a w := e ▸ h

section
variable (ff : FieldFacts) {a b : Fe} {x y : F}
include ff

theorem Good.zero : Good Fe.zero 0 := ⟨ff.zero.1, ff.zero.2⟩
theorem Good.one : Good Fe.one 1 := ⟨ff.one.1, ff.one.2⟩
theorem Good.rz : Good Fe.rz 0 := ⟨ff.rz.1, ff.rz.2⟩

theorem Good.add (ha : Good a x) (hb : Good b y) : Good (Fe.add a b) (x + y) :=
  ⟨(ff.add a b ha.inv hb.inv).1, by rw [(ff.add a b ha.inv hb.inv).2, ha.val, hb.val]⟩

theorem Good.sub (ha : Good a x) (hb : Good b y) : Good (Fe.sub a b) (x - y) :=
  ⟨(ff.sub a b ha.inv hb.inv).1, by rw [(ff.sub a b ha.inv hb.inv).2, ha.val, hb.val]⟩

theorem Good.mul (ha : Good a x) (hb : Good b y) : Good (Fe.mul a b) (x * y) :=
  ⟨(ff.mul a b ha.inv hb.inv).1, by rw [(ff.mul a b ha.inv hb.inv).2, ha.val, hb.val]⟩

theorem Good.neg (ha : Good a x) : Good (Fe.neg a) (-x) :=
  ⟨(ff.neg a ha.inv).1, by rw [(ff.neg a ha.inv).2, ha.val]⟩

theorem Good.square (ha : Good a x) : Good (Fe.square a) (x ^ 2) :=
  ⟨(ff.square a ha.inv).1, by rw [(ff.square a ha.inv).2, ha.val]⟩

theorem Good.invert (ha : Good a x) : Good (Fe.invert a) x⁻¹ :=
  ⟨(ff.invert a ha.inv).1, by rw [(ff.invert a ha.inv).2, ha.val]⟩

theorem Good.select_one (ha : Good a x) (hb : Good b y) : Good (Fe.select a b 1) x := by
  rw [(ff.select a b ha.inv hb.inv).1]; exact ha

theorem Good.select_zero (ha : Good a x) (hb : Good b y) : Good (Fe.select a b 0) y := by
  rw [(ff.select a b ha.inv hb.inv).2]; exact hb

theorem Good.equal (ha : Good a x) (hb : Good b y) : Fe.equal a b = if x = y then 1 else 0 := by
  rw [ff.equal a b ha.inv hb.inv, ha.val, hb.val]

theorem Good.bytes (ha : Good a x) : Fe.bytes a = LEbytes x.val 32 := by
  rw [ff.bytes a ha.inv, ha.val]

theorem Good.isNegative (ha : Good a x) : Fe.isNegative a = x.val % 2 := by
  rw [ff.isNegative a ha.inv, ha.val]

end

end EdVerif.Proofs

/-! ### the abstraction relations (in the namespaces of the model structures) -/
namespace EdVerif.Impl
open EdVerif.Prims EdVerif.Spec EdVerif.Proofs

/-- a valid `Point`: limb invariants and valid extended coordinates -/
def P3.Valid (p : P3) : Prop :=
  Fe.Inv p.x ∧ Fe.Inv p.y ∧ Fe.Inv p.z ∧ Fe.Inv p.t ∧
    Spec.ExtValid (toZ p.x) (toZ p.y) (toZ p.z) (toZ p.t)

/-- the affine point represented by a `Point` (`0` if invalid) -/
noncomputable def P3.toEd (p : P3) : Ed25519 := Spec.toEd (toZ p.x) (toZ p.y) (toZ p.z) (toZ p.t)

/-- the `Point` `p` represents `q` -/
structure P3.Rep (p : P3) (q : Ed25519) : Prop where
  ix : Fe.Inv p.x
  iy : Fe.Inv p.y
  iz : Fe.Inv p.z
  it : Fe.Inv p.t
  rep : ExtRep (toZ p.x) (toZ p.y) (toZ p.z) (toZ p.t) q

/-- limb invariants of a `projP1xP1` -/
structure P1xP1.Rep (p : P1xP1) (q : Ed25519) : Prop where
  ix : Fe.Inv p.X
  iy : Fe.Inv p.Y
  iz : Fe.Inv p.Z
  it : Fe.Inv p.T
  rep : P1xP1Rep (toZ p.X) (toZ p.Y) (toZ p.Z) (toZ p.T) q

structure P2.Rep (p : P2) (q : Ed25519) : Prop where
  ix : Fe.Inv p.X
  iy : Fe.Inv p.Y
  iz : Fe.Inv p.Z
  rep : P2Rep (toZ p.X) (toZ p.Y) (toZ p.Z) q

structure Cached.Rep (c : Cached) (q : Ed25519) : Prop where
  ip : Fe.Inv c.YplusX
  im : Fe.Inv c.YminusX
  iz : Fe.Inv c.Z
  it : Fe.Inv c.T2d
  rep : CachedRep (toZ c.YplusX) (toZ c.YminusX) (toZ c.Z) (toZ c.T2d) q

structure AffineCached.Rep (c : AffineCached) (q : Ed25519) : Prop where
  ip : Fe.Inv c.YplusX
  im : Fe.Inv c.YminusX
  it : Fe.Inv c.T2d
  rep : AffCachedRep (toZ c.YplusX) (toZ c.YminusX) (toZ c.T2d) q

def P1xP1.Valid (p : P1xP1) : Prop :=
  Fe.Inv p.X ∧ Fe.Inv p.Y ∧ Fe.Inv p.Z ∧ Fe.Inv p.T ∧
    Spec.P1xP1Valid (toZ p.X) (toZ p.Y) (toZ p.Z) (toZ p.T)
noncomputable def P1xP1.toEd (p : P1xP1) : Ed25519 :=
  Spec.p1xp1ToEd (toZ p.X) (toZ p.Y) (toZ p.Z) (toZ p.T)

def P2.Valid (p : P2) : Prop :=
  Fe.Inv p.X ∧ Fe.Inv p.Y ∧ Fe.Inv p.Z ∧ Spec.P2Valid (toZ p.X) (toZ p.Y) (toZ p.Z)
noncomputable def P2.toEd (p : P2) : Ed25519 := Spec.p2ToEd (toZ p.X) (toZ p.Y) (toZ p.Z)

def Cached.Valid (c : Cached) : Prop :=
  Fe.Inv c.YplusX ∧ Fe.Inv c.YminusX ∧ Fe.Inv c.Z ∧ Fe.Inv c.T2d ∧
    Spec.CachedValid (toZ c.YplusX) (toZ c.YminusX) (toZ c.Z) (toZ c.T2d)
noncomputable def Cached.toEd (c : Cached) : Ed25519 :=
  Spec.cachedToEd (toZ c.YplusX) (toZ c.YminusX) (toZ c.Z) (toZ c.T2d)

def AffineCached.Valid (c : AffineCached) : Prop :=
  Fe.Inv c.YplusX ∧ Fe.Inv c.YminusX ∧ Fe.Inv c.T2d ∧
    Spec.AffCachedValid (toZ c.YplusX) (toZ c.YminusX) (toZ c.T2d)
noncomputable def AffineCached.toEd (c : AffineCached) : Ed25519 :=
  Spec.affCachedToEd (toZ c.YplusX) (toZ c.YminusX) (toZ c.T2d)

theorem P3.rep_iff {p : P3} {q : Ed25519} : p.Rep q ↔ p.Valid ∧ p.toEd = q := by
  constructor
  · rintro ⟨hx, hy, hz, ht, hr⟩
    exact ⟨⟨hx, hy, hz, ht, (extRep_iff.mp hr).1⟩, (extRep_iff.mp hr).2⟩
  · rintro ⟨⟨hx, hy, hz, ht, hv⟩, he⟩
    exact ⟨hx, hy, hz, ht, extRep_iff.mpr ⟨hv, he⟩⟩

theorem P3.Valid.rep {p : P3} (h : p.Valid) : p.Rep p.toEd := P3.rep_iff.mpr ⟨h, rfl⟩
theorem P3.Rep.valid {p : P3} {q : Ed25519} (h : p.Rep q) : p.Valid := (P3.rep_iff.mp h).1
theorem P3.Rep.toEd_eq {p : P3} {q : Ed25519} (h : p.Rep q) : p.toEd = q := (P3.rep_iff.mp h).2
theorem P3.Rep.unique {p : P3} {q q' : Ed25519} (h : p.Rep q) (h' : p.Rep q') : q = q' :=
  h.rep.unique h'.rep

theorem P1xP1.rep_iff {p : P1xP1} {q : Ed25519} : p.Rep q ↔ p.Valid ∧ p.toEd = q := by
  constructor
  · rintro ⟨hx, hy, hz, ht, hr⟩
    exact ⟨⟨hx, hy, hz, ht, (p1xp1Rep_iff.mp hr).1⟩, (p1xp1Rep_iff.mp hr).2⟩
  · rintro ⟨⟨hx, hy, hz, ht, hv⟩, he⟩
    exact ⟨hx, hy, hz, ht, p1xp1Rep_iff.mpr ⟨hv, he⟩⟩

theorem P1xP1.Valid.rep {p : P1xP1} (h : p.Valid) : p.Rep p.toEd := P1xP1.rep_iff.mpr ⟨h, rfl⟩
theorem P1xP1.Rep.valid {p : P1xP1} {q : Ed25519} (h : p.Rep q) : p.Valid := (P1xP1.rep_iff.mp h).1
theorem P1xP1.Rep.toEd_eq {p : P1xP1} {q : Ed25519} (h : p.Rep q) : p.toEd = q :=
  (P1xP1.rep_iff.mp h).2

theorem P2.rep_iff {p : P2} {q : Ed25519} : p.Rep q ↔ p.Valid ∧ p.toEd = q := by
  constructor
  · rintro ⟨hx, hy, hz, hr⟩
    exact ⟨⟨hx, hy, hz, (p2Rep_iff.mp hr).1⟩, (p2Rep_iff.mp hr).2⟩
  · rintro ⟨⟨hx, hy, hz, hv⟩, he⟩
    exact ⟨hx, hy, hz, p2Rep_iff.mpr ⟨hv, he⟩⟩

theorem P2.Valid.rep {p : P2} (h : p.Valid) : p.Rep p.toEd := P2.rep_iff.mpr ⟨h, rfl⟩
theorem P2.Rep.valid {p : P2} {q : Ed25519} (h : p.Rep q) : p.Valid := (P2.rep_iff.mp h).1
theorem P2.Rep.toEd_eq {p : P2} {q : Ed25519} (h : p.Rep q) : p.toEd = q := (P2.rep_iff.mp h).2

theorem Cached.rep_iff {c : Cached} {q : Ed25519} : c.Rep q ↔ c.Valid ∧ c.toEd = q := by
  constructor
  · rintro ⟨hx, hy, hz, ht, hr⟩
    exact ⟨⟨hx, hy, hz, ht, (cachedRep_iff.mp hr).1⟩, (cachedRep_iff.mp hr).2⟩
  · rintro ⟨⟨hx, hy, hz, ht, hv⟩, he⟩
    exact ⟨hx, hy, hz, ht, cachedRep_iff.mpr ⟨hv, he⟩⟩

theorem Cached.Valid.rep {c : Cached} (h : c.Valid) : c.Rep c.toEd := Cached.rep_iff.mpr ⟨h, rfl⟩
theorem Cached.Rep.valid {c : Cached} {q : Ed25519} (h : c.Rep q) : c.Valid := (Cached.rep_iff.mp h).1
theorem Cached.Rep.toEd_eq {c : Cached} {q : Ed25519} (h : c.Rep q) : c.toEd = q :=
  (Cached.rep_iff.mp h).2

theorem AffineCached.rep_iff {c : AffineCached} {q : Ed25519} : c.Rep q ↔ c.Valid ∧ c.toEd = q := by
  constructor
  · rintro ⟨hx, hy, ht, hr⟩
    exact ⟨⟨hx, hy, ht, (affCachedRep_iff.mp hr).1⟩, (affCachedRep_iff.mp hr).2⟩
  · rintro ⟨⟨hx, hy, ht, hv⟩, he⟩
    exact ⟨hx, hy, ht, affCachedRep_iff.mpr ⟨hv, he⟩⟩

theorem AffineCached.Valid.rep {c : AffineCached} (h : c.Valid) : c.Rep c.toEd :=
  AffineCached.rep_iff.mpr ⟨h, rfl⟩
theorem AffineCached.Rep.valid {c : AffineCached} {q : Ed25519} (h : c.Rep q) : c.Valid :=
  (AffineCached.rep_iff.mp h).1
theorem AffineCached.Rep.toEd_eq {c : AffineCached} {q : Ed25519} (h : c.Rep q) : c.toEd = q :=
  (AffineCached.rep_iff.mp h).2

end EdVerif.Impl

namespace EdVerif.Spec
open EdVerif.Proofs EdVerif.Prims

/-- RFC 8032 point encoding: the 32 little-endian bytes of `y + 2^255 · (x mod 2)`, i.e. the
little-endian bytes of the canonical `y` with bit 255 (bit 7 of byte 31) set to the parity of the
canonical `x`. -/
noncomputable def encode (q : Ed25519) : Bytes := LEbytes (q.y.val + 2 ^ 255 * (q.x.val % 2)) 32

end EdVerif.Spec
