import Lean
import Mathlib.Tactic.Ring
import Mathlib.Tactic.Linarith
import Mathlib.Tactic.NormNum
import Mathlib.Tactic.IntervalCases
import Mathlib.Algebra.BigOperators.Group.Finset.Basic
import Mathlib.Algebra.BigOperators.Ring.Finset
import EdVerif.Impl.Scalar
/-!
C07/C08 kernel layer, part 1: the "easy" fiat kernels (`add sub opp cmovznz nonzero to_bytes
from_bytes`), receiver independence, and `Scalar.equal`.

All statements are about the GENERATED kernels (`EdVerif.Gen.Fiat`). Each kernel is first tied, by a
kernel-checked `rfl` (`kernel_rfl`), to a composition of small structured blocks (`addChain`,
`csub`, …) whose contracts are then proved from equation-style core lemmas.
-/
namespace EdVerif.Proofs
open EdVerif EdVerif.Prims EdVerif.Gen EdVerif.Impl
open EdVerif.Impl.Scalar (eval Inv)

open Lean Elab Tactic Meta in
/-- close a goal `a = b` by `Eq.refl a`, leaving the definitional check to the kernel
(the elaborator's `isDefEq` has no sharing-aware cache and times out on 280-`let` kernels) -/
elab "kernel_rfl" : tactic => do
  let g ← getMainGoal
  let t ← instantiateMVars (← g.getType)
  let some (_, lhs, _) := t.eq? | throwError "kernel_rfl: not an equality"
  g.assign (← mkEqRefl lhs)

/-- five words (a 4-word value plus a carry/overflow word) -/
structure Scalar.W5 where
  v0 : Nat
  v1 : Nat
  v2 : Nat
  v3 : Nat
  v4 : Nat

def Scalar.eval5 (t : Scalar.W5) : Nat := t.v0 + t.v1 * 2^64 + t.v2 * 2^128 + t.v3 * 2^192 + t.v4 * 2^256

def Scalar.Words (s : W4) : Prop := s.w0 < 2^64 ∧ s.w1 < 2^64 ∧ s.w2 < 2^64 ∧ s.w3 < 2^64
def Scalar.Words5 (t : Scalar.W5) : Prop := t.v0 < 2^64 ∧ t.v1 < 2^64 ∧ t.v2 < 2^64 ∧ t.v3 < 2^64 ∧ t.v4 < 2^64

theorem Scalar.inv_words {s : W4} (h : Inv s) : Scalar.Words s := ⟨h.1, h.2.1, h.2.2.1, h.2.2.2.1⟩
theorem Scalar.inv_lt {s : W4} (h : Inv s) : eval s < L := h.2.2.2.2

theorem Scalar.L_words : L = 6346243789798364141 + 1503914060200516822 * 2^64 + 0 * 2^128 + 1152921504606846976 * 2^192 := by
  decide

/-! ### cmovznz -/

theorem cmovznz_spec (o c a b : Nat) (hc : c ≤ 1) (ha : a < 2^64) (hb : b < 2^64) :
    Fiat.fiatScalarCmovznzU64 o c a b = if c = 0 then a else b := by
  have hc' : c = 0 ∨ c = 1 := by omega
  rcases hc' with rfl | rfl
  · show (U.mul 64 0 18446744073709551615 &&& b) |||
      (U.not 64 (U.mul 64 0 18446744073709551615) &&& a) = _
    have e1 : U.mul 64 0 18446744073709551615 = 0 := by decide
    have e2 : U.not 64 0 = 2^64 - 1 := by decide
    rw [e1, e2, Nat.zero_and, Nat.zero_or, Nat.and_comm, Nat.and_two_pow_sub_one_eq_mod,
      Nat.mod_eq_of_lt ha, if_pos rfl]
  · show (U.mul 64 1 18446744073709551615 &&& b) |||
      (U.not 64 (U.mul 64 1 18446744073709551615) &&& a) = _
    have e1 : U.mul 64 1 18446744073709551615 = 2^64 - 1 := by decide
    have e2 : U.not 64 (2^64 - 1) = 0 := by decide
    rw [e1, e2, Nat.zero_and, Nat.or_zero, Nat.and_comm, Nat.and_two_pow_sub_one_eq_mod,
      Nat.mod_eq_of_lt hb, if_neg (by decide)]

theorem cmovznz_receiver (o o' c a b : Nat) :
    Fiat.fiatScalarCmovznzU64 o c a b = Fiat.fiatScalarCmovznzU64 o' c a b := rfl


/-! ### primitive facts -/

theorem sub64_spec (x y b : Nat) (hx : x < 2^64) (hy : y < 2^64) (hb : b ≤ 1) :
    (Bits.Sub64 x y b).1 + y + b = x + (Bits.Sub64 x y b).2 * 2^64 ∧
      (Bits.Sub64 x y b).1 < 2^64 ∧ (Bits.Sub64 x y b).2 ≤ 1 := by
  simp only [Bits.Sub64]
  split <;> omega

theorem add64_spec (x y c : Nat) :
    (Bits.Add64 x y c).1 + (Bits.Add64 x y c).2 * 2^64 = x + y + c ∧ (Bits.Add64 x y c).1 < 2^64 := by
  simp only [Bits.Add64]
  omega

theorem add64_carry (x y c : Nat) (hx : x < 2^64) (hy : y < 2^64) (hc : c ≤ 1) :
    (Bits.Add64 x y c).2 ≤ 1 := by
  simp only [Bits.Add64]
  omega

/-! ### the final conditional subtraction of `l` (shared by add, mul, to/from_montgomery) -/

def csub (t : Scalar.W5) : W4 :=
  let s0 := Bits.Sub64 t.v0 6346243789798364141 0
  let s1 := Bits.Sub64 t.v1 1503914060200516822 s0.2
  let s2 := Bits.Sub64 t.v2 0 s1.2
  let s3 := Bits.Sub64 t.v3 1152921504606846976 s2.2
  let s4 := Bits.Sub64 t.v4 0 s3.2
  ⟨Fiat.fiatScalarCmovznzU64 0 s4.2 s0.1 t.v0, Fiat.fiatScalarCmovznzU64 0 s4.2 s1.1 t.v1,
   Fiat.fiatScalarCmovznzU64 0 s4.2 s2.1 t.v2, Fiat.fiatScalarCmovznzU64 0 s4.2 s3.1 t.v3⟩

/-- arithmetic core of `csub` on atoms -/
theorem csub_core (t0 t1 t2 t3 t4 d0 d1 d2 d3 d4 b0 b1 b2 b3 b4 : Nat)
    (h0 : t0 < 2^64) (h1 : t1 < 2^64) (h2 : t2 < 2^64) (h3 : t3 < 2^64)
    (hlt : t0 + t1 * 2^64 + t2 * 2^128 + t3 * 2^192 + t4 * 2^256 <
      2 * (6346243789798364141 + 1503914060200516822 * 2^64 + 0 * 2^128 + 1152921504606846976 * 2^192))
    (e0 : d0 + 6346243789798364141 + 0 = t0 + b0 * 2^64) (l0 : d0 < 2^64)
    (e1 : d1 + 1503914060200516822 + b0 = t1 + b1 * 2^64) (l1 : d1 < 2^64)
    (e2 : d2 + 0 + b1 = t2 + b2 * 2^64) (l2 : d2 < 2^64)
    (e3 : d3 + 1152921504606846976 + b2 = t3 + b3 * 2^64) (l3 : d3 < 2^64)
    (e4 : d4 + 0 + b3 = t4 + b4 * 2^64) (l4 : d4 < 2^64) (c4 : b4 ≤ 1) :
    (b4 = 0 → d0 + d1 * 2^64 + d2 * 2^128 + d3 * 2^192 + 
        (6346243789798364141 + 1503914060200516822 * 2^64 + 0 * 2^128 + 1152921504606846976 * 2^192) =
        t0 + t1 * 2^64 + t2 * 2^128 + t3 * 2^192 + t4 * 2^256) ∧
    (b4 ≠ 0 → t0 + t1 * 2^64 + t2 * 2^128 + t3 * 2^192 + t4 * 2^256 < 
        (6346243789798364141 + 1503914060200516822 * 2^64 + 0 * 2^128 + 1152921504606846976 * 2^192) ∧ t4 = 0) := by
  constructor
  · intro hb; subst hb; omega
  · intro hb
    have : b4 = 1 := by omega
    subst this; omega

theorem sc_mod_of_sub (T d m : Nat) (h : d + m = T) (hd : d < m) : T % m = d := by
  subst h
  rw [Nat.add_mod_right, Nat.mod_eq_of_lt hd]

theorem csub_spec (t : Scalar.W5) (hw : Scalar.Words5 t) (hlt : Scalar.eval5 t < 2 * L) :
    Inv (csub t) ∧ eval (csub t) = Scalar.eval5 t % L := by
  obtain ⟨t0, t1, t2, t3, t4⟩ := t
  obtain ⟨h0, h1, h2, h3, h4⟩ := hw
  simp only at h0 h1 h2 h3 h4
  simp only [Scalar.eval5, csub, Scalar.Inv, Scalar.eval] at hlt ⊢
  rw [Scalar.L_words] at hlt ⊢
  obtain ⟨e0, l0, c0⟩ := sub64_spec t0 6346243789798364141 0 h0 (by norm_num) (by norm_num)
  obtain ⟨e1, l1, c1⟩ := sub64_spec t1 1503914060200516822 _ h1 (by norm_num) c0
  obtain ⟨e2, l2, c2⟩ := sub64_spec t2 0 _ h2 (by norm_num) c1
  obtain ⟨e3, l3, c3⟩ := sub64_spec t3 1152921504606846976 _ h3 (by norm_num) c2
  obtain ⟨e4, l4, c4⟩ := sub64_spec t4 0 _ h4 (by norm_num) c3
  obtain ⟨k0, k1⟩ := csub_core t0 t1 t2 t3 t4 _ _ _ _ _ _ _ _ _ _ h0 h1 h2 h3 hlt e0 l0 e1 l1 e2 l2 e3 l3 e4 l4 c4
  rw [cmovznz_spec _ _ _ _ c4 l0 h0, cmovznz_spec _ _ _ _ c4 l1 h1, cmovznz_spec _ _ _ _ c4 l2 h2,
    cmovznz_spec _ _ _ _ c4 l3 h3]
  by_cases hb : (Bits.Sub64 t4 0 (Bits.Sub64 t3 1152921504606846976 (Bits.Sub64 t2 0 (Bits.Sub64 t1 1503914060200516822 (Bits.Sub64 t0 6346243789798364141 0).2).2).2).2).2 = 0
  · have k := k0 hb
    simp only [if_pos hb]
    clear k0 k1 e0 e1 e2 e3 e4 c0 c1 c2 c3 c4 hb
    generalize (Bits.Sub64 t0 6346243789798364141 0).1 = d0 at *
    generalize (Bits.Sub64 t1 1503914060200516822 _).1 = d1 at *
    generalize (Bits.Sub64 t2 0 _).1 = d2 at *
    generalize (Bits.Sub64 t3 1152921504606846976 _).1 = d3 at *
    have hd : d0 + d1 * 2^64 + d2 * 2^128 + d3 * 2^192 <
        6346243789798364141 + 1503914060200516822 * 2^64 + 0 * 2^128 + 1152921504606846976 * 2^192 := by
      omega
    exact ⟨⟨l0, l1, l2, l3, hd⟩, (sc_mod_of_sub _ _ _ k hd).symm⟩
  · obtain ⟨k, k4⟩ := k1 hb
    simp only [if_neg hb]
    clear k0 k1 e0 e1 e2 e3 e4 c0 c1 c2 c3 c4 hb l0 l1 l2 l3 l4
    have hd : t0 + t1 * 2^64 + t2 * 2^128 + t3 * 2^192 <
        6346243789798364141 + 1503914060200516822 * 2^64 + 0 * 2^128 + 1152921504606846976 * 2^192 := by
      omega
    refine ⟨⟨h0, h1, h2, h3, hd⟩, ?_⟩
    rw [Nat.mod_eq_of_lt k, k4, Nat.zero_mul, Nat.add_zero]

/-! ### add -/

def addChain (x y : W4) : Scalar.W5 :=
  let a0 := Bits.Add64 x.w0 y.w0 0
  let a1 := Bits.Add64 x.w1 y.w1 a0.2
  let a2 := Bits.Add64 x.w2 y.w2 a1.2
  let a3 := Bits.Add64 x.w3 y.w3 a2.2
  ⟨a0.1, a1.1, a2.1, a3.1, a3.2⟩

theorem fiatScalarAdd_eq (o x y : W4) : Fiat.fiatScalarAdd o x y = csub (addChain x y) := by
  kernel_rfl

theorem addChain_spec (x y : W4) (hx : Scalar.Words x) (hy : Scalar.Words y) :
    Scalar.Words5 (addChain x y) ∧ Scalar.eval5 (addChain x y) = eval x + eval y := by
  obtain ⟨x0, x1, x2, x3⟩ := x
  obtain ⟨y0, y1, y2, y3⟩ := y
  obtain ⟨hx0, hx1, hx2, hx3⟩ := hx
  obtain ⟨hy0, hy1, hy2, hy3⟩ := hy
  simp only at hx0 hx1 hx2 hx3 hy0 hy1 hy2 hy3
  obtain ⟨e0, l0⟩ := add64_spec x0 y0 0
  have c0 := add64_carry x0 y0 0 hx0 hy0 (by norm_num)
  obtain ⟨e1, l1⟩ := add64_spec x1 y1 (Bits.Add64 x0 y0 0).2
  have c1 := add64_carry x1 y1 _ hx1 hy1 c0
  obtain ⟨e2, l2⟩ := add64_spec x2 y2 (Bits.Add64 x1 y1 (Bits.Add64 x0 y0 0).2).2
  have c2 := add64_carry x2 y2 _ hx2 hy2 c1
  obtain ⟨e3, l3⟩ := add64_spec x3 y3 (Bits.Add64 x2 y2 (Bits.Add64 x1 y1 (Bits.Add64 x0 y0 0).2).2).2
  have c3 := add64_carry x3 y3 _ hx3 hy3 c2
  simp only [addChain, Scalar.Words5, Scalar.eval5, Scalar.eval]
  generalize Bits.Add64 x3 y3 _ = a3 at *
  generalize Bits.Add64 x2 y2 _ = a2 at *
  generalize Bits.Add64 x1 y1 _ = a1 at *
  generalize Bits.Add64 x0 y0 0 = a0 at *
  refine ⟨⟨l0, l1, l2, l3, by omega⟩, ?_⟩
  omega

theorem fiatAdd_spec (o x y : W4) (hx : Inv x) (hy : Inv y) :
    Inv (Fiat.fiatScalarAdd o x y) ∧ eval (Fiat.fiatScalarAdd o x y) = (eval x + eval y) % L := by
  rw [fiatScalarAdd_eq]
  obtain ⟨hw, he⟩ := addChain_spec x y (Scalar.inv_words hx) (Scalar.inv_words hy)
  have := csub_spec (addChain x y) hw (by rw [he]; have := Scalar.inv_lt hx; have := Scalar.inv_lt hy; omega)
  rwa [he] at this

theorem fiatAdd_receiver (o o' x y : W4) : Fiat.fiatScalarAdd o x y = Fiat.fiatScalarAdd o' x y := by
  rw [fiatScalarAdd_eq, fiatScalarAdd_eq]

/-! ### sub, opp -/

def subChain (x y : W4) : Scalar.W5 :=
  let s0 := Bits.Sub64 x.w0 y.w0 0
  let s1 := Bits.Sub64 x.w1 y.w1 s0.2
  let s2 := Bits.Sub64 x.w2 y.w2 s1.2
  let s3 := Bits.Sub64 x.w3 y.w3 s2.2
  ⟨s0.1, s1.1, s2.1, s3.1, s3.2⟩

/-- add `l` back if the borrow `t.v4` is set -/
def maskAdd (t : Scalar.W5) : W4 :=
  let x9 := Fiat.fiatScalarCmovznzU64 0 t.v4 0 18446744073709551615
  let a0 := Bits.Add64 t.v0 (U.and 64 x9 6346243789798364141) 0
  let a1 := Bits.Add64 t.v1 (U.and 64 x9 1503914060200516822) a0.2
  let a2 := Bits.Add64 t.v2 0 a1.2
  let a3 := Bits.Add64 t.v3 (U.and 64 x9 1152921504606846976) a2.2
  ⟨a0.1, a1.1, a2.1, a3.1⟩

theorem fiatScalarSub_eq (o x y : W4) : Fiat.fiatScalarSub o x y = maskAdd (subChain x y) := by
  kernel_rfl

theorem fiatScalarOpp_eq (o x : W4) : Fiat.fiatScalarOpp o x = Fiat.fiatScalarSub o ⟨0, 0, 0, 0⟩ x := by
  kernel_rfl

theorem subChain_spec (x y : W4) (hx : Scalar.Words x) (hy : Scalar.Words y) :
    Scalar.Words5 (subChain x y) ∧ (subChain x y).v4 ≤ 1 ∧
      (subChain x y).v0 + (subChain x y).v1 * 2^64 + (subChain x y).v2 * 2^128 + (subChain x y).v3 * 2^192
        + eval y = eval x + (subChain x y).v4 * 2^256 := by
  obtain ⟨x0, x1, x2, x3⟩ := x
  obtain ⟨y0, y1, y2, y3⟩ := y
  obtain ⟨hx0, hx1, hx2, hx3⟩ := hx
  obtain ⟨hy0, hy1, hy2, hy3⟩ := hy
  simp only at hx0 hx1 hx2 hx3 hy0 hy1 hy2 hy3
  obtain ⟨e0, l0, c0⟩ := sub64_spec x0 y0 0 hx0 hy0 (by norm_num)
  obtain ⟨e1, l1, c1⟩ := sub64_spec x1 y1 _ hx1 hy1 c0
  obtain ⟨e2, l2, c2⟩ := sub64_spec x2 y2 _ hx2 hy2 c1
  obtain ⟨e3, l3, c3⟩ := sub64_spec x3 y3 _ hx3 hy3 c2
  simp only [subChain, Scalar.Words5, Scalar.eval]
  generalize Bits.Sub64 x3 y3 _ = a3 at *
  generalize Bits.Sub64 x2 y2 _ = a2 at *
  generalize Bits.Sub64 x1 y1 _ = a1 at *
  generalize Bits.Sub64 x0 y0 0 = a0 at *
  refine ⟨⟨l0, l1, l2, l3, by omega⟩, c3, ?_⟩
  omega

theorem maskAdd_spec (t : Scalar.W5) (hw : Scalar.Words5 t) (hb : t.v4 ≤ 1) :
    Scalar.Words (maskAdd t) ∧
      eval (maskAdd t) = (t.v0 + t.v1 * 2^64 + t.v2 * 2^128 + t.v3 * 2^192 + t.v4 * L) % 2^256 := by
  obtain ⟨t0, t1, t2, t3, t4⟩ := t
  obtain ⟨h0, h1, h2, h3, h4⟩ := hw
  simp only at h0 h1 h2 h3 h4 hb
  simp only [maskAdd, Scalar.Words, Scalar.eval]
  rw [cmovznz_spec _ _ _ _ hb (by norm_num) (by norm_num), Scalar.L_words]
  have hb' : t4 = 0 ∨ t4 = 1 := by omega
  rcases hb' with rfl | rfl
  · have z0 : U.and 64 0 6346243789798364141 = 0 := by decide
    have z1 : U.and 64 0 1503914060200516822 = 0 := by decide
    have z3 : U.and 64 0 1152921504606846976 = 0 := by decide
    simp only [if_pos, z0, z1, z3, Bits.Add64]
    omega
  · have z0 : U.and 64 18446744073709551615 6346243789798364141 = 6346243789798364141 := by decide
    have z1 : U.and 64 18446744073709551615 1503914060200516822 = 1503914060200516822 := by decide
    have z3 : U.and 64 18446744073709551615 1152921504606846976 = 1152921504606846976 := by decide
    have ne : ¬ (1 = 0) := by decide
    simp only [if_neg ne, z0, z1, z3, Bits.Add64]
    omega

theorem fiatSub_spec (o x y : W4) (hx : Inv x) (hy : Inv y) :
    Inv (Fiat.fiatScalarSub o x y) ∧ eval (Fiat.fiatScalarSub o x y) = (eval x + L - eval y) % L := by
  rw [fiatScalarSub_eq]
  obtain ⟨hw, hb, he⟩ := subChain_spec x y (Scalar.inv_words hx) (Scalar.inv_words hy)
  obtain ⟨mw, me⟩ := maskAdd_spec _ hw hb
  have hxl := Scalar.inv_lt hx
  have hyl := Scalar.inv_lt hy
  have hL : L = 2^252 + 27742317777372353535851937790883648493 := rfl
  have hDlt : (subChain x y).v0 + (subChain x y).v1 * 2^64 + (subChain x y).v2 * 2^128 +
      (subChain x y).v3 * 2^192 < 2^256 := by
    obtain ⟨a0, a1, a2, a3, _⟩ := hw
    omega
  simp only [Scalar.Inv]
  generalize eval x = X at *
  generalize eval y = Y at *
  generalize L = l at *
  generalize eval (maskAdd (subChain x y)) = Z at *
  have key : Z < l ∧ Z = (X + l - Y) % l := by
    clear mw hw
    generalize (subChain x y).v0 + (subChain x y).v1 * 2^64 + (subChain x y).v2 * 2^128 +
      (subChain x y).v3 * 2^192 = D at *
    generalize (subChain x y).v4 = b at *
    have hb' : b = 0 ∨ b = 1 := by omega
    rcases hb' with rfl | rfl
    · have hD : D = X - Y := by omega
      have hle : Y ≤ X := by omega
      have e : X + l - Y = (X - Y) + l := by omega
      rw [e, Nat.add_mod_right, Nat.mod_eq_of_lt (by omega)]
      subst hD
      rw [me]
      constructor
      · rw [Nat.mod_eq_of_lt (by omega)]; omega
      · rw [Nat.mod_eq_of_lt (by omega)]; omega
    · have hlt : X < Y := by omega
      have hD : D + 1 * l = (X + l - Y) + 2^256 := by omega
      have hlt2 : X + l - Y < l := by omega
      have hlt3 : X + l - Y < 2^256 := by omega
      rw [hD, Nat.add_mod_right, Nat.mod_eq_of_lt hlt3] at me
      rw [Nat.mod_eq_of_lt hlt2, me]
      exact ⟨hlt2, rfl⟩
  exact ⟨⟨mw.1, mw.2.1, mw.2.2.1, mw.2.2.2, key.1⟩, key.2⟩

theorem fiatOpp_spec (o x : W4) (hx : Inv x) :
    Inv (Fiat.fiatScalarOpp o x) ∧ eval (Fiat.fiatScalarOpp o x) = (L - eval x) % L := by
  rw [fiatScalarOpp_eq]
  have h0 : Inv (⟨0, 0, 0, 0⟩ : W4) := by
    refine ⟨by norm_num, by norm_num, by norm_num, by norm_num, ?_⟩
    show 0 + 0 * 2^64 + 0 * 2^128 + 0 * 2^192 < L
    decide
  have := fiatSub_spec o ⟨0, 0, 0, 0⟩ x h0 hx
  have e : eval (⟨0, 0, 0, 0⟩ : W4) = 0 := by decide
  rwa [e, Nat.zero_add] at this

theorem fiatSub_receiver (o o' x y : W4) : Fiat.fiatScalarSub o x y = Fiat.fiatScalarSub o' x y := by
  rw [fiatScalarSub_eq, fiatScalarSub_eq]

theorem fiatOpp_receiver (o o' x : W4) : Fiat.fiatScalarOpp o x = Fiat.fiatScalarOpp o' x := by
  rw [fiatScalarOpp_eq, fiatScalarOpp_eq, fiatSub_receiver]

/-! ### nonzero, equal -/

theorem fiatScalarNonzero_eq (o : Nat) (x : W4) :
    Fiat.fiatScalarNonzero o x = x.w0 ||| (x.w1 ||| (x.w2 ||| x.w3)) := rfl

theorem fiatNonzero_receiver (o o' : Nat) (x : W4) :
    Fiat.fiatScalarNonzero o x = Fiat.fiatScalarNonzero o' x := rfl

theorem fiatNonzero_lt (o : Nat) (x : W4) (hx : Scalar.Words x) : Fiat.fiatScalarNonzero o x < 2^64 := by
  rw [fiatScalarNonzero_eq]
  exact Nat.or_lt_two_pow hx.1 (Nat.or_lt_two_pow hx.2.1 (Nat.or_lt_two_pow hx.2.2.1 hx.2.2.2))

theorem fiatNonzero_spec (o : Nat) (x : W4) : Fiat.fiatScalarNonzero o x = 0 ↔ eval x = 0 := by
  rw [fiatScalarNonzero_eq]
  simp only [Nat.or_eq_zero_iff, Scalar.eval]
  constructor
  · rintro ⟨h0, h1, h2, h3⟩; rw [h0, h1, h2, h3]
  · intro h; omega

/-- one folding step: a set bit below `2*s` moves below `s` -/
theorem fold_step (x s i : Nat) (hi : i < 2 * s) (h : x.testBit i = true) :
    ∃ j, j < s ∧ (x ||| x >>> s).testBit j = true := by
  by_cases hs : i < s
  · exact ⟨i, hs, by rw [Nat.testBit_or, h]; rfl⟩
  · refine ⟨i - s, by omega, ?_⟩
    rw [Nat.testBit_or, Nat.testBit_shiftRight]
    have : s + (i - s) = i := by omega
    rw [this, h]; simp

/-- the `nonzero |= nonzero >> k` cascade of `Scalar.Equal` -/
theorem fold_or (x : Nat) (hx : x < 2^64) :
    (let x := U.or 64 x (U.shr 64 x 32)
     let x := U.or 64 x (U.shr 64 x 16)
     let x := U.or 64 x (U.shr 64 x 8)
     let x := U.or 64 x (U.shr 64 x 4)
     let x := U.or 64 x (U.shr 64 x 2)
     let x := U.or 64 x (U.shr 64 x 1)
     U.and 64 (U.not 64 x) 1) = if x = 0 then 1 else 0 := by
  simp only [U.or, U.shr, U.and, U.not]
  by_cases h0 : x = 0
  · subst h0; decide
  · rw [if_neg h0]
    obtain ⟨i, hi⟩ := Nat.exists_testBit_of_ne_zero h0
    have hi64 : i < 2 * 32 := by
      by_contra hge
      have : x < 2^i := Nat.lt_of_lt_of_le hx (Nat.pow_le_pow_right (by norm_num) (by omega))
      rw [Nat.testBit_lt_two_pow this] at hi
      exact Bool.noConfusion hi
    obtain ⟨i1, h1, b1⟩ := fold_step x 32 i hi64 hi
    obtain ⟨i2, h2, b2⟩ := fold_step _ 16 i1 h1 b1
    obtain ⟨i3, h3, b3⟩ := fold_step _ 8 i2 h2 b2
    obtain ⟨i4, h4, b4⟩ := fold_step _ 4 i3 h3 b3
    obtain ⟨i5, h5, b5⟩ := fold_step _ 2 i4 h4 b4
    obtain ⟨i6, h6, b6⟩ := fold_step _ 1 i5 h5 b5
    have : i6 = 0 := by omega
    subst this
    rw [Nat.testBit_zero] at b6
    have hodd := of_decide_eq_true b6
    rw [Nat.and_one_is_mod]
    generalize (_ ||| _ >>> 1 : Nat) = n at hodd ⊢
    omega

theorem equal_spec (s t : W4) (hs : Inv s) (ht : Inv t) :
    Scalar.equal s t = if eval s = eval t then 1 else 0 := by
  obtain ⟨hi, he⟩ := fiatSub_spec ⟨0, 0, 0, 0⟩ s t hs ht
  have hfold := fold_or _ (fiatNonzero_lt 0 _ (Scalar.inv_words hi))
  show Fiat.Equal s t = _
  unfold Fiat.Equal
  simp only at hfold ⊢
  rw [hfold]
  have hsl := Scalar.inv_lt hs
  have htl := Scalar.inv_lt ht
  have iff : Fiat.fiatScalarNonzero 0 (Fiat.fiatScalarSub ⟨0, 0, 0, 0⟩ s t) = 0 ↔ eval s = eval t := by
    rw [fiatNonzero_spec, he]
    generalize eval s = S at *
    generalize eval t = T at *
    generalize L = l at *
    constructor
    · intro h
      by_contra hne
      rcases Nat.lt_or_gt_of_ne hne with hlt | hgt
      · rw [Nat.mod_eq_of_lt (by omega)] at h; omega
      · have e : S + l - T = (S - T) + l := by omega
        rw [e, Nat.add_mod_right, Nat.mod_eq_of_lt (by omega)] at h; omega
    · intro h; subst h
      have e : S + l - S = l := by omega
      rw [e, Nat.mod_self]
  by_cases h : eval s = eval t
  · rw [if_pos h, if_pos (iff.2 h)]
  · rw [if_neg h, if_neg (fun h' => h (iff.1 h'))]

/-! ### byte strings -/

/-- little-endian value of a byte string -/
def Scalar.LE (b : Bytes) : Nat := b.foldr (fun x acc => x + 256 * acc) 0

theorem sc_leL_eq (l : List Nat) :
    l.foldr (fun x acc => x + 256 * acc) 0 = ∑ i ∈ Finset.range l.length, l[i]! * 256^i := by
  induction l with
  | nil => simp
  | cons a l ih =>
    rw [List.foldr_cons, ih, List.length_cons, Finset.sum_range_succ', Finset.mul_sum]
    simp only [List.getElem!_cons_succ, List.getElem!_cons_zero, pow_zero, mul_one]
    rw [Nat.add_comm]
    congr 1
    apply Finset.sum_congr rfl
    intro i _
    rw [pow_succ]; ring

theorem Scalar.LE_eq_sum (b : Bytes) : Scalar.LE b = ∑ i ∈ Finset.range b.size, b[i]! * 256^i := by
  unfold Scalar.LE
  rw [← Array.foldr_toList, sc_leL_eq]
  simp only [Array.length_toList]
  apply Finset.sum_congr rfl
  intro i _
  first
    | rfl
    | simp [getElem!_def]


/-! ### to_bytes -/

theorem sc_getElem!_set! (a : Array Nat) (i j v : Nat) :
    (a.set! i v)[j]! = if i = j ∧ i < a.size then v else a[j]! := by
  simp only [Array.set!_eq_setIfInBounds, getElem!_def, Array.getElem?_setIfInBounds]
  by_cases h : i = j
  · subst h
    by_cases h2 : i < a.size
    · simp [h2]
    · simp [h2]
  · simp [h]

theorem sc_size_set! (a : Array Nat) (i v : Nat) : (a.set! i v).size = a.size := by
  simp

theorem sc_and255 (a : Nat) : (a % 2^8) &&& 255 = a % 256 := by
  have : (255 : Nat) = 2^8 - 1 := by norm_num
  rw [this, Nat.and_two_pow_sub_one_eq_mod, Nat.mod_mod]
  norm_num

theorem toBytes_spec (o : Bytes) (x : W4) (ho : o.size = 32) (hx : Scalar.Words x) :
    (Fiat.fiatScalarToBytes o x).size = 32 ∧
      ∀ i, i < 32 → (Fiat.fiatScalarToBytes o x)[i]! = eval x / 256^i % 256 := by
  obtain ⟨x0, x1, x2, x3⟩ := x
  obtain ⟨h0, h1, h2, h3⟩ := hx
  simp only at h0 h1 h2 h3
  constructor
  · simp only [Fiat.fiatScalarToBytes, sc_size_set!, ho]
  · intro i hi
    simp only [Fiat.fiatScalarToBytes, Scalar.eval, U.and, U.trunc, U.shr, sc_and255, Nat.shiftRight_eq_div_pow]
    interval_cases i <;>
    · simp only [sc_getElem!_set!, sc_size_set!, ho]
      norm_num
      omega


/-! ### from_bytes -/

/-- one output word of `from_bytes` -/
theorem fromBytes_word (b0 b1 b2 b3 b4 b5 b6 b7 : Nat)
    (h0 : b0 < 256) (h1 : b1 < 256) (h2 : b2 < 256) (h3 : b3 < 256)
    (h4 : b4 < 256) (h5 : b5 < 256) (h6 : b6 < 256) (h7 : b7 < 256) :
    U.add 64 (U.shl 64 b7 56) (U.add 64 (U.shl 64 b6 48) (U.add 64 (U.shl 64 b5 40)
      (U.add 64 (U.shl 64 b4 32) (U.add 64 (U.shl 64 b3 24) (U.add 64 (U.shl 64 b2 16)
      (U.add 64 (U.shl 64 b1 8) b0)))))) =
    b0 + b1 * 2^8 + b2 * 2^16 + b3 * 2^24 + b4 * 2^32 + b5 * 2^40 + b6 * 2^48 + b7 * 2^56 := by
  simp only [U.add, U.shl, Nat.shiftLeft_eq]
  omega

theorem fromBytes_receiver (o o' : W4) (b : Bytes) :
    Fiat.fiatScalarFromBytes o b = Fiat.fiatScalarFromBytes o' b := rfl

theorem fromBytes_spec (o : W4) (b : Bytes) (hs : b.size = 32) (hb : ∀ i, i < 32 → b[i]! < 256) :
    Scalar.Words (Fiat.fiatScalarFromBytes o b) ∧ eval (Fiat.fiatScalarFromBytes o b) = Scalar.LE b := by
  have e : Fiat.fiatScalarFromBytes o b = ⟨
      b[0]! + b[1]! * 2^8 + b[2]! * 2^16 + b[3]! * 2^24 + b[4]! * 2^32 + b[5]! * 2^40 + b[6]! * 2^48 + b[7]! * 2^56,
      b[8]! + b[9]! * 2^8 + b[10]! * 2^16 + b[11]! * 2^24 + b[12]! * 2^32 + b[13]! * 2^40 + b[14]! * 2^48 + b[15]! * 2^56,
      b[16]! + b[17]! * 2^8 + b[18]! * 2^16 + b[19]! * 2^24 + b[20]! * 2^32 + b[21]! * 2^40 + b[22]! * 2^48 + b[23]! * 2^56,
      b[24]! + b[25]! * 2^8 + b[26]! * 2^16 + b[27]! * 2^24 + b[28]! * 2^32 + b[29]! * 2^40 + b[30]! * 2^48 + b[31]! * 2^56⟩ := by
    rw [← fromBytes_word _ _ _ _ _ _ _ _ (hb 0 (by norm_num)) (hb 1 (by norm_num)) (hb 2 (by norm_num)) (hb 3 (by norm_num))
        (hb 4 (by norm_num)) (hb 5 (by norm_num)) (hb 6 (by norm_num)) (hb 7 (by norm_num)),
      ← fromBytes_word _ _ _ _ _ _ _ _ (hb 8 (by norm_num)) (hb 9 (by norm_num)) (hb 10 (by norm_num)) (hb 11 (by norm_num))
        (hb 12 (by norm_num)) (hb 13 (by norm_num)) (hb 14 (by norm_num)) (hb 15 (by norm_num)),
      ← fromBytes_word _ _ _ _ _ _ _ _ (hb 16 (by norm_num)) (hb 17 (by norm_num)) (hb 18 (by norm_num)) (hb 19 (by norm_num))
        (hb 20 (by norm_num)) (hb 21 (by norm_num)) (hb 22 (by norm_num)) (hb 23 (by norm_num)),
      ← fromBytes_word _ _ _ _ _ _ _ _ (hb 24 (by norm_num)) (hb 25 (by norm_num)) (hb 26 (by norm_num)) (hb 27 (by norm_num))
        (hb 28 (by norm_num)) (hb 29 (by norm_num)) (hb 30 (by norm_num)) (hb 31 (by norm_num))]
    rfl
  rw [e, Scalar.LE_eq_sum, hs]
  simp only [Finset.sum_range_succ, Finset.range_zero, Finset.sum_empty, Scalar.Words, Scalar.eval]
  have := hb 0 (by norm_num); have := hb 1 (by norm_num); have := hb 2 (by norm_num); have := hb 3 (by norm_num)
  have := hb 4 (by norm_num); have := hb 5 (by norm_num); have := hb 6 (by norm_num); have := hb 7 (by norm_num)
  have := hb 8 (by norm_num); have := hb 9 (by norm_num); have := hb 10 (by norm_num); have := hb 11 (by norm_num)
  have := hb 12 (by norm_num); have := hb 13 (by norm_num); have := hb 14 (by norm_num); have := hb 15 (by norm_num)
  have := hb 16 (by norm_num); have := hb 17 (by norm_num); have := hb 18 (by norm_num); have := hb 19 (by norm_num)
  have := hb 20 (by norm_num); have := hb 21 (by norm_num); have := hb 22 (by norm_num); have := hb 23 (by norm_num)
  have := hb 24 (by norm_num); have := hb 25 (by norm_num); have := hb 26 (by norm_num); have := hb 27 (by norm_num)
  have := hb 28 (by norm_num); have := hb 29 (by norm_num); have := hb 30 (by norm_num); have := hb 31 (by norm_num)
  clear hb e
  refine ⟨⟨by omega, by omega, by omega, by omega⟩, ?_⟩
  omega


/-- the `k` little-endian bytes of `n` -/
def Scalar.LEbytes (n k : Nat) : Bytes := Array.ofFn (n := k) fun i => n / 256 ^ i.val % 256

theorem Scalar.LEbytes_size (n k : Nat) : (Scalar.LEbytes n k).size = k := by
  simp [Scalar.LEbytes]

theorem Scalar.LEbytes_get (n k i : Nat) (hi : i < k) : (Scalar.LEbytes n k)[i]! = n / 256^i % 256 := by
  have h : i < (Scalar.LEbytes n k).size := by rw [Scalar.LEbytes_size]; exact hi
  rw [getElem!_pos _ i h]
  simp [Scalar.LEbytes]

/-- a byte string is determined by its size and its entries -/
theorem sc_bytes_ext (a b : Bytes) (n : Nat) (ha : a.size = n) (hb : b.size = n)
    (h : ∀ i, i < n → a[i]! = b[i]!) : a = b := by
  apply Array.ext (by rw [ha, hb])
  intro i h1 h2
  have := h i (by rw [← ha]; exact h1)
  rwa [getElem!_pos a i h1, getElem!_pos b i h2] at this

theorem toBytes_eq (o : Bytes) (x : W4) (ho : o.size = 32) (hx : Scalar.Words x) :
    Fiat.fiatScalarToBytes o x = Scalar.LEbytes (eval x) 32 := by
  obtain ⟨hs, hg⟩ := toBytes_spec o x ho hx
  apply sc_bytes_ext _ _ 32 hs (Scalar.LEbytes_size _ _)
  intro i hi
  rw [hg i hi, Scalar.LEbytes_get _ _ _ hi]

theorem toBytes_receiver (o o' : Bytes) (x : W4) (ho : o.size = 32) (ho' : o'.size = 32) (hx : Scalar.Words x) :
    Fiat.fiatScalarToBytes o x = Fiat.fiatScalarToBytes o' x := by
  rw [toBytes_eq o x ho hx, toBytes_eq o' x ho' hx]

end EdVerif.Proofs
