import Mathlib.Tactic.LinearCombination
import Mathlib.Tactic.Zify
import Mathlib.Data.Nat.ModEq
import Mathlib.Data.Nat.Prime.Defs
import EdVerif.Proofs.Fiat1
/-!
C07 kernel layer, part 2: the Montgomery kernels `fiatScalarMul`, `fiatScalarToMontgomery`,
`fiatScalarFromMontgomery`.

Each generated kernel is tied by a kernel-checked `rfl` to a composition of word-iteration steps
(`mulStep0/mulStep`, `tmStep0/tmStep`, `fmStep0/fmStep1/fmStep`) built from shared blocks
(`rowF` product row, `qF`/`qrowF` the `q·l` row, `acc4/acc5` accumulate, `red4/red5` add-and-shift).
Every step satisfies `T'·2^64 = T + aᵢ·B + q·l`; four steps and the conditional subtraction give the
contracts.
-/
namespace EdVerif.Proofs
open EdVerif EdVerif.Prims EdVerif.Gen EdVerif.Impl
open EdVerif.Impl.Scalar (eval Inv)
set_option maxRecDepth 8000

/-! ### generic row lemmas (equation style, minimal contexts for `omega`) -/
namespace Mont

/-- 4-word × 1-word product row as emitted by fiat (products abstracted as atoms) -/
theorem mulRow (P0 P1 P2 P3 x5 x6 x7 x8 x9 x10 x11 x12 x13 x14 x15 x16 x17 x18 x19 : Nat)
    (p0 : P0 ≤ (2^64-1)*(2^64-1)) (p1 : P1 ≤ (2^64-1)*(2^64-1)) (p2 : P2 ≤ (2^64-1)*(2^64-1)) (p3 : P3 ≤ (2^64-1)*(2^64-1))
    (h6 : x6 = P3 / 2^64) (h5 : x5 = P3 % 2^64) (h8 : x8 = P2 / 2^64) (h7 : x7 = P2 % 2^64)
    (h10 : x10 = P1 / 2^64) (h9 : x9 = P1 % 2^64) (h12 : x12 = P0 / 2^64) (h11 : x11 = P0 % 2^64)
    (h13 : x13 = (x12 + x9 + 0) % 2^64) (h14 : x14 = (x12 + x9 + 0) / 2^64)
    (h15 : x15 = (x10 + x7 + x14) % 2^64) (h16 : x16 = (x10 + x7 + x14) / 2^64)
    (h17 : x17 = (x8 + x5 + x16) % 2^64) (h18 : x18 = (x8 + x5 + x16) / 2^64)
    (h19 : x19 = (x18 + x6) % 2^64) :
    x11 + x13 * 2^64 + x15 * 2^128 + x17 * 2^192 + x19 * 2^256 =
      P0 + P1 * 2^64 + P2 * 2^128 + P3 * 2^192 ∧
    x11 < 2^64 ∧ x13 < 2^64 ∧ x15 < 2^64 ∧ x17 < 2^64 ∧ x19 < 2^64 := by
  refine ⟨by omega, by omega, by omega, by omega, by omega, by omega⟩

/-- q × l row (l = m0 + m1·2^64 + m3·2^192) -/
theorem qRow (q x22 x23 x24 x25 x26 x27 x28 x29 x30 : Nat) (hq : q < 2^64)
    (h23 : x23 = (q * 1152921504606846976) / 2^64) (h22 : x22 = (q * 1152921504606846976) % 2^64)
    (h25 : x25 = (q * 1503914060200516822) / 2^64) (h24 : x24 = (q * 1503914060200516822) % 2^64)
    (h27 : x27 = (q * 6346243789798364141) / 2^64) (h26 : x26 = (q * 6346243789798364141) % 2^64)
    (h28 : x28 = (x27 + x24 + 0) % 2^64) (h29 : x29 = (x27 + x24 + 0) / 2^64)
    (h30 : x30 = (x29 + x25) % 2^64) :
    x26 + x28 * 2^64 + x30 * 2^128 + x22 * 2^192 + x23 * 2^256 = q * 7237005577332262213973186563042994240857116359379907606001950938285454250989 ∧
    x26 < 2^64 ∧ x28 < 2^64 ∧ x30 < 2^64 ∧ x22 < 2^64 ∧ x23 < 2^60 := by
  refine ⟨by omega, by omega, by omega, by omega, by omega, by omega⟩

/-- the third word of the q × l row is small -/
theorem qRow_v2 (q x24 x25 x27 x29 x30 : Nat) (hq : q < 2^64)
    (h25 : x25 = (q * 1503914060200516822) / 2^64) (h24 : x24 = (q * 1503914060200516822) % 2^64)
    (h27 : x27 = (q * 6346243789798364141) / 2^64)
    (h29 : x29 = (x27 + x24 + 0) / 2^64) (h30 : x30 = (x29 + x25) % 2^64) :
    x30 ≤ 1503914060200516822 := by
  have a : x25 ≤ 1503914060200516821 := by omega
  have b : x29 ≤ 1 := by omega
  clear h25 h24 h27 h29 hq
  omega

theorem montCancel (x q l : Nat) (hq : q = (x * 15183074304973897243) % 2^64) (hl : l = (q * 6346243789798364141) % 2^64) :
    (x + l) % 2^64 = 0 := by
  have h : (1 + 15183074304973897243 * 6346243789798364141) % 2^64 = 0 := by decide
  subst hq hl
  have : (x + (x * 15183074304973897243 % 2^64) * 6346243789798364141 % 2^64) % 2^64 = (x * (1 + 15183074304973897243 * 6346243789798364141)) % 2^64 := by
    rw [Nat.add_mod, Nat.mod_mod, ← Nat.add_mod, Nat.add_mod, Nat.mul_mod, Nat.mod_mod, ← Nat.mul_mod, ← Nat.add_mod]
    congr 1; ring
  rw [this, Nat.mul_mod, h]; simp

/-- 5-word accumulate -/
theorem accAdd (c0 c1 c2 c3 c4 t0 t1 t2 t3 t4 x56 x57 x58 x59 x60 x61 x62 x63 x64 x65 : Nat)
    (b0 : c0 < 2^64) (b1 : c1 < 2^64) (b2 : c2 < 2^64) (b3 : c3 < 2^64) (b4 : c4 < 2^64)
    (d0 : t0 < 2^64) (d1 : t1 < 2^64) (d2 : t2 < 2^64) (d3 : t3 < 2^64) (d4 : t4 < 2^64)
    (h56 : x56 = (c0 + t0 + 0) % 2^64) (h57 : x57 = (c0 + t0 + 0) / 2^64)
    (h58 : x58 = (c1 + t1 + x57) % 2^64) (h59 : x59 = (c1 + t1 + x57) / 2^64)
    (h60 : x60 = (c2 + t2 + x59) % 2^64) (h61 : x61 = (c2 + t2 + x59) / 2^64)
    (h62 : x62 = (c3 + t3 + x61) % 2^64) (h63 : x63 = (c3 + t3 + x61) / 2^64)
    (h64 : x64 = (c4 + t4 + x63) % 2^64) (h65 : x65 = (c4 + t4 + x63) / 2^64) :
    x56 + x58 * 2^64 + x60 * 2^128 + x62 * 2^192 + x64 * 2^256 + x65 * 2^320 =
      (c0 + c1 * 2^64 + c2 * 2^128 + c3 * 2^192 + c4 * 2^256) + (t0 + t1 * 2^64 + t2 * 2^128 + t3 * 2^192 + t4 * 2^256) ∧
    x56 < 2^64 ∧ x58 < 2^64 ∧ x60 < 2^64 ∧ x62 < 2^64 ∧ x64 < 2^64 ∧ x65 ≤ 1 := by
  refine ⟨by omega, by omega, by omega, by omega, by omega, by omega, by omega⟩

/-- 4-word accumulate -/
theorem accAdd4 (c0 c1 c2 c3 t0 t1 t2 t3 x56 x57 x58 x59 x60 x61 x62 x63 : Nat)
    (b0 : c0 < 2^64) (b1 : c1 < 2^64) (b2 : c2 < 2^64) (b3 : c3 < 2^64)
    (d0 : t0 < 2^64) (d1 : t1 < 2^64) (d2 : t2 < 2^64) (d3 : t3 < 2^64)
    (h56 : x56 = (c0 + t0 + 0) % 2^64) (h57 : x57 = (c0 + t0 + 0) / 2^64)
    (h58 : x58 = (c1 + t1 + x57) % 2^64) (h59 : x59 = (c1 + t1 + x57) / 2^64)
    (h60 : x60 = (c2 + t2 + x59) % 2^64) (h61 : x61 = (c2 + t2 + x59) / 2^64)
    (h62 : x62 = (c3 + t3 + x61) % 2^64) (h63 : x63 = (c3 + t3 + x61) / 2^64) :
    x56 + x58 * 2^64 + x60 * 2^128 + x62 * 2^192 + x63 * 2^256 =
      (c0 + c1 * 2^64 + c2 * 2^128 + c3 * 2^192) + (t0 + t1 * 2^64 + t2 * 2^128 + t3 * 2^192) ∧
    x56 < 2^64 ∧ x58 < 2^64 ∧ x60 < 2^64 ∧ x62 < 2^64 ∧ x63 ≤ 1 := by
  refine ⟨by omega, by omega, by omega, by omega, by omega, by omega⟩

/-- add the q·l row and drop the (zero) low word, 5 words -/
theorem redAdd (s0 s1 s2 s3 s4 m0 m1 m2 m3 m4 x78 x79 x80 x81 x82 x83 x84 x85 x86 : Nat)
    (b0 : s0 < 2^64) (b1 : s1 < 2^64) (b2 : s2 < 2^64) (b3 : s3 < 2^64) (b4 : s4 < 2^64)
    (d0 : m0 < 2^64) (d1 : m1 < 2^64) (d2 : m2 < 2^64) (d3 : m3 < 2^64) (d4 : m4 < 2^64)
    (hz : (s0 + m0) % 2^64 = 0)
    (h78 : x78 = (s0 + m0 + 0) / 2^64)
    (h79 : x79 = (s1 + m1 + x78) % 2^64) (h80 : x80 = (s1 + m1 + x78) / 2^64)
    (h81 : x81 = (s2 + m2 + x80) % 2^64) (h82 : x82 = (s2 + m2 + x80) / 2^64)
    (h83 : x83 = (s3 + m3 + x82) % 2^64) (h84 : x84 = (s3 + m3 + x82) / 2^64)
    (h85 : x85 = (s4 + m4 + x84) % 2^64) (h86 : x86 = (s4 + m4 + x84) / 2^64) :
    (x79 + x81 * 2^64 + x83 * 2^128 + x85 * 2^192 + x86 * 2^256) * 2^64 =
      (s0 + s1 * 2^64 + s2 * 2^128 + s3 * 2^192 + s4 * 2^256) + (m0 + m1 * 2^64 + m2 * 2^128 + m3 * 2^192 + m4 * 2^256) ∧
    x79 < 2^64 ∧ x81 < 2^64 ∧ x83 < 2^64 ∧ x85 < 2^64 ∧ x86 ≤ 1 := by
  refine ⟨by omega, by omega, by omega, by omega, by omega, by omega⟩

/-- add the q·l row and drop the (zero) low word, 4 words -/
theorem redAdd4 (s0 s1 s2 s3 m0 m1 m2 m3 x78 x79 x80 x81 x82 x83 x84 : Nat)
    (b0 : s0 < 2^64) (b1 : s1 < 2^64) (b2 : s2 < 2^64) (b3 : s3 < 2^64)
    (d0 : m0 < 2^64) (d1 : m1 < 2^64) (d2 : m2 < 2^64) (d3 : m3 < 2^64)
    (hz : (s0 + m0) % 2^64 = 0)
    (h78 : x78 = (s0 + m0 + 0) / 2^64)
    (h79 : x79 = (s1 + m1 + x78) % 2^64) (h80 : x80 = (s1 + m1 + x78) / 2^64)
    (h81 : x81 = (s2 + m2 + x80) % 2^64) (h82 : x82 = (s2 + m2 + x80) / 2^64)
    (h83 : x83 = (s3 + m3 + x82) % 2^64) (h84 : x84 = (s3 + m3 + x82) / 2^64) :
    (x79 + x81 * 2^64 + x83 * 2^128 + x84 * 2^192) * 2^64 =
      (s0 + s1 * 2^64 + s2 * 2^128 + s3 * 2^192) + (m0 + m1 * 2^64 + m2 * 2^128 + m3 * 2^192) ∧
    x79 < 2^64 ∧ x81 < 2^64 ∧ x83 < 2^64 ∧ x84 ≤ 1 := by
  refine ⟨by omega, by omega, by omega, by omega, by omega⟩

theorem prodBnd (a b : Nat) (ha : a < 2^64) (hb : b < 2^64) : a * b ≤ (2^64-1)*(2^64-1) :=
  Nat.mul_le_mul (by omega) (by omega)

end Mont

/-! ### structured blocks -/

/-- `a × b` product row: five words -/
def rowF (a : Nat) (b : W4) : Scalar.W5 :=
  let p3 := Bits.Mul64 a b.w3
  let p2 := Bits.Mul64 a b.w2
  let p1 := Bits.Mul64 a b.w1
  let p0 := Bits.Mul64 a b.w0
  let a1 := Bits.Add64 p0.1 p1.2 0
  let a2 := Bits.Add64 p1.1 p2.2 a1.2
  let a3 := Bits.Add64 p2.1 p3.2 a2.2
  ⟨p0.2, a1.1, a2.1, a3.1, U.add 64 a3.2 p3.1⟩

/-- the Montgomery quotient digit `q = x · (−l⁻¹) mod 2^64` -/
def qF (x : Nat) : Nat := (Bits.Mul64 x 15183074304973897243).2

/-- `q × l` row: five words -/
def qrowF (q : Nat) : Scalar.W5 :=
  let p3 := Bits.Mul64 q 1152921504606846976
  let p1 := Bits.Mul64 q 1503914060200516822
  let p0 := Bits.Mul64 q 6346243789798364141
  let a1 := Bits.Add64 p0.1 p1.2 0
  ⟨p0.2, a1.1, U.add 64 a1.2 p1.1, p3.2, p3.1⟩

/-- 5-word accumulate: sum words and carry out -/
def acc5 (c r : Scalar.W5) : Scalar.W5 × Nat :=
  let a0 := Bits.Add64 c.v0 r.v0 0
  let a1 := Bits.Add64 c.v1 r.v1 a0.2
  let a2 := Bits.Add64 c.v2 r.v2 a1.2
  let a3 := Bits.Add64 c.v3 r.v3 a2.2
  let a4 := Bits.Add64 c.v4 r.v4 a3.2
  (⟨a0.1, a1.1, a2.1, a3.1, a4.1⟩, a4.2)

/-- 4-word accumulate (the fifth word of `r` is not added here) -/
def acc4 (c : W4) (r : Scalar.W5) : W4 × Nat :=
  let a0 := Bits.Add64 c.w0 r.v0 0
  let a1 := Bits.Add64 c.w1 r.v1 a0.2
  let a2 := Bits.Add64 c.w2 r.v2 a1.2
  let a3 := Bits.Add64 c.w3 r.v3 a2.2
  (⟨a0.1, a1.1, a2.1, a3.1⟩, a3.2)

/-- add the `q·l` row and shift one word down (5 words; `v4` is the carry out) -/
def red5 (s m : Scalar.W5) : Scalar.W5 :=
  let c0 := (Bits.Add64 s.v0 m.v0 0).2
  let a1 := Bits.Add64 s.v1 m.v1 c0
  let a2 := Bits.Add64 s.v2 m.v2 a1.2
  let a3 := Bits.Add64 s.v3 m.v3 a2.2
  let a4 := Bits.Add64 s.v4 m.v4 a3.2
  ⟨a1.1, a2.1, a3.1, a4.1, a4.2⟩

/-- add the low four words of the `q·l` row and shift one word down (`w3` is the carry out) -/
def red4 (s : W4) (m : Scalar.W5) : W4 :=
  let c0 := (Bits.Add64 s.w0 m.v0 0).2
  let a1 := Bits.Add64 s.w1 m.v1 c0
  let a2 := Bits.Add64 s.w2 m.v2 a1.2
  let a3 := Bits.Add64 s.w3 m.v3 a2.2
  ⟨a1.1, a2.1, a3.1, a3.2⟩

theorem rowF_spec (a : Nat) (b : W4) (ha : a < 2^64) (hb : Scalar.Words b) :
    Scalar.Words5 (rowF a b) ∧ Scalar.eval5 (rowF a b) = a * eval b := by
  obtain ⟨b0, b1, b2, b3⟩ := b
  obtain ⟨h0, h1, h2, h3⟩ := hb
  simp only at h0 h1 h2 h3
  obtain ⟨row, r0, r1, r2, r3, r4⟩ := Mont.mulRow (a*b0) (a*b1) (a*b2) (a*b3) _ _ _ _ _ _ _ _ _ _ _ _ _ _ _
    (Mont.prodBnd _ _ ha h0) (Mont.prodBnd _ _ ha h1) (Mont.prodBnd _ _ ha h2) (Mont.prodBnd _ _ ha h3)
    rfl rfl rfl rfl rfl rfl rfl rfl rfl rfl rfl rfl rfl rfl rfl
  refine ⟨⟨r0, r1, r2, r3, r4⟩, ?_⟩
  show _ = a * (b0 + b1 * 2^64 + b2 * 2^128 + b3 * 2^192)
  rw [show a * (b0 + b1 * 2^64 + b2 * 2^128 + b3 * 2^192) = a*b0 + (a*b1) * 2^64 + (a*b2) * 2^128 + (a*b3) * 2^192 by ring]
  exact row


theorem Scalar.L_lit : L = 7237005577332262213973186563042994240857116359379907606001950938285454250989 := by
  decide

theorem qF_lt (x : Nat) : qF x < 2^64 := Nat.mod_lt _ (by norm_num)

theorem qrowF_spec (q : Nat) (hq : q < 2^64) :
    Scalar.Words5 (qrowF q) ∧ (qrowF q).v4 < 2^60 ∧ Scalar.eval5 (qrowF q) = q * L := by
  obtain ⟨row, r0, r1, r2, r3, r4⟩ := Mont.qRow q _ _ _ _ _ _ _ _ _ hq rfl rfl rfl rfl rfl rfl rfl rfl rfl
  refine ⟨⟨r0, r1, r2, r3, Nat.lt_trans r4 (by norm_num)⟩, r4, ?_⟩
  rw [Scalar.L_lit]
  exact row

theorem qrowF_v2 (q : Nat) (hq : q < 2^64) : (qrowF q).v2 ≤ 1503914060200516822 := by
  exact Mont.qRow_v2 q _ _ _ _ _ hq rfl rfl rfl rfl rfl

/-- the low word cancels -/
theorem qcancel (x : Nat) : (x + (qrowF (qF x)).v0) % 2^64 = 0 :=
  Mont.montCancel x (qF x) _ rfl rfl

theorem acc5_spec (c r : Scalar.W5) (hc : Scalar.Words5 c) (hr : Scalar.Words5 r) :
    Scalar.Words5 (acc5 c r).1 ∧ (acc5 c r).2 ≤ 1 ∧
      Scalar.eval5 (acc5 c r).1 + (acc5 c r).2 * 2^320 = Scalar.eval5 c + Scalar.eval5 r := by
  obtain ⟨c0, c1, c2, c3, c4⟩ := c
  obtain ⟨r0, r1, r2, r3, r4⟩ := r
  obtain ⟨hc0, hc1, hc2, hc3, hc4⟩ := hc
  obtain ⟨hr0, hr1, hr2, hr3, hr4⟩ := hr
  simp only at hc0 hc1 hc2 hc3 hc4 hr0 hr1 hr2 hr3 hr4
  obtain ⟨e, s0, s1, s2, s3, s4, s5⟩ := Mont.accAdd c0 c1 c2 c3 c4 r0 r1 r2 r3 r4 _ _ _ _ _ _ _ _ _ _
    hc0 hc1 hc2 hc3 hc4 hr0 hr1 hr2 hr3 hr4 rfl rfl rfl rfl rfl rfl rfl rfl rfl rfl
  exact ⟨⟨s0, s1, s2, s3, s4⟩, s5, e⟩

theorem acc4_spec (c : W4) (r : Scalar.W5) (hc : Scalar.Words c) (hr : Scalar.Words5 r) :
    Scalar.Words (acc4 c r).1 ∧ (acc4 c r).2 ≤ 1 ∧
      eval (acc4 c r).1 + (acc4 c r).2 * 2^256 =
        eval c + (r.v0 + r.v1 * 2^64 + r.v2 * 2^128 + r.v3 * 2^192) := by
  obtain ⟨c0, c1, c2, c3⟩ := c
  obtain ⟨r0, r1, r2, r3, r4⟩ := r
  obtain ⟨hc0, hc1, hc2, hc3⟩ := hc
  obtain ⟨hr0, hr1, hr2, hr3, hr4⟩ := hr
  simp only at hc0 hc1 hc2 hc3 hr0 hr1 hr2 hr3 hr4
  obtain ⟨e, s0, s1, s2, s3, s4⟩ := Mont.accAdd4 c0 c1 c2 c3 r0 r1 r2 r3 _ _ _ _ _ _ _ _
    hc0 hc1 hc2 hc3 hr0 hr1 hr2 hr3 rfl rfl rfl rfl rfl rfl rfl rfl
  exact ⟨⟨s0, s1, s2, s3⟩, s4, e⟩

theorem red5_spec (s m : Scalar.W5) (hs : Scalar.Words5 s) (hm : Scalar.Words5 m) (hz : (s.v0 + m.v0) % 2^64 = 0) :
    (red5 s m).v0 < 2^64 ∧ (red5 s m).v1 < 2^64 ∧ (red5 s m).v2 < 2^64 ∧ (red5 s m).v3 < 2^64 ∧
      (red5 s m).v4 ≤ 1 ∧ Scalar.eval5 (red5 s m) * 2^64 = Scalar.eval5 s + Scalar.eval5 m := by
  obtain ⟨c0, c1, c2, c3, c4⟩ := s
  obtain ⟨r0, r1, r2, r3, r4⟩ := m
  obtain ⟨hc0, hc1, hc2, hc3, hc4⟩ := hs
  obtain ⟨hr0, hr1, hr2, hr3, hr4⟩ := hm
  simp only at hc0 hc1 hc2 hc3 hc4 hr0 hr1 hr2 hr3 hr4 hz
  obtain ⟨e, s0, s1, s2, s3, s4⟩ := Mont.redAdd c0 c1 c2 c3 c4 r0 r1 r2 r3 r4 _ _ _ _ _ _ _ _ _
    hc0 hc1 hc2 hc3 hc4 hr0 hr1 hr2 hr3 hr4 hz rfl rfl rfl rfl rfl rfl rfl rfl rfl
  exact ⟨s0, s1, s2, s3, s4, e⟩

theorem red4_spec (s : W4) (m : Scalar.W5) (hs : Scalar.Words s) (hm : Scalar.Words5 m) (hz : (s.w0 + m.v0) % 2^64 = 0) :
    (red4 s m).w0 < 2^64 ∧ (red4 s m).w1 < 2^64 ∧ (red4 s m).w2 < 2^64 ∧ (red4 s m).w3 ≤ 1 ∧
      eval (red4 s m) * 2^64 = eval s + (m.v0 + m.v1 * 2^64 + m.v2 * 2^128 + m.v3 * 2^192) := by
  obtain ⟨c0, c1, c2, c3⟩ := s
  obtain ⟨r0, r1, r2, r3, r4⟩ := m
  obtain ⟨hc0, hc1, hc2, hc3⟩ := hs
  obtain ⟨hr0, hr1, hr2, hr3, hr4⟩ := hm
  simp only at hc0 hc1 hc2 hc3 hr0 hr1 hr2 hr3 hr4 hz
  obtain ⟨e, s0, s1, s2, s3⟩ := Mont.redAdd4 c0 c1 c2 c3 r0 r1 r2 r3 _ _ _ _ _ _ _
    hc0 hc1 hc2 hc3 hr0 hr1 hr2 hr3 hz rfl rfl rfl rfl rfl rfl rfl
  exact ⟨s0, s1, s2, s3, e⟩


/-! ### `fiatScalarMul` -/

def mulStep0 (a : Nat) (b : W4) : Scalar.W5 :=
  let r := rowF a b
  red5 r (qrowF (qF r.v0))

def mulStep (a : Nat) (b : W4) (c : Scalar.W5) : Scalar.W5 :=
  let r := rowF a b
  let s := acc5 c r
  let t := red5 s.1 (qrowF (qF s.1.v0))
  ⟨t.v0, t.v1, t.v2, t.v3, U.add 64 t.v4 s.2⟩

set_option maxRecDepth 100000 in
theorem fiatScalarMul_eq (o x y : W4) : Fiat.fiatScalarMul o x y =
    csub (mulStep x.w3 y (mulStep x.w2 y (mulStep x.w1 y (mulStep0 x.w0 y)))) := by
  kernel_rfl

/-- `T'·2^64 = a·B + q·l` with `a, q < 2^64` gives `T' < l + B` -/
theorem step_bound (T' T AB QL a q B l : Nat) (ha : a < 2^64) (hq : q < 2^64)
    (hab : AB = a * B) (hql : QL = q * l) (hT : T < l + B)
    (h : T' * 2^64 = T + AB + QL) : T' < l + B := by
  have h1 : AB ≤ (2^64 - 1) * B := by rw [hab]; exact Nat.mul_le_mul_right _ (by omega)
  have h2 : QL ≤ (2^64 - 1) * l := by rw [hql]; exact Nat.mul_le_mul_right _ (by omega)
  clear hab hql ha hq
  omega

theorem mulStep0_spec (a : Nat) (b : W4) (ha : a < 2^64) (hb : Scalar.Words b) :
    Scalar.Words5 (mulStep0 a b) ∧ Scalar.eval5 (mulStep0 a b) < L + eval b ∧
      ∃ q, Scalar.eval5 (mulStep0 a b) * 2^64 = a * eval b + q * L := by
  have hdef : mulStep0 a b = red5 (rowF a b) (qrowF (qF (rowF a b).v0)) := rfl
  rw [hdef]
  obtain ⟨rw_, re⟩ := rowF_spec a b ha hb
  have hq := qF_lt (rowF a b).v0
  obtain ⟨mw, _, me⟩ := qrowF_spec _ hq
  obtain ⟨t0, t1, t2, t3, t4, te⟩ := red5_spec _ _ rw_ mw (qcancel _)
  rw [re, me] at te
  refine ⟨⟨t0, t1, t2, t3, Nat.lt_of_le_of_lt t4 (by norm_num)⟩, ?_, _, te⟩
  have hLpos : 0 < L := by decide
  exact step_bound _ 0 _ _ a _ (eval b) L ha hq rfl rfl
    (Nat.lt_of_lt_of_le hLpos (Nat.le_add_right _ _)) (by rw [te, Nat.zero_add])

theorem mulStep_key (rd s1 : Scalar.W5) (sc C AB QL : Nat) (t4 : rd.v4 ≤ 1) (hsc : sc ≤ 1)
    (se : Scalar.eval5 s1 + sc * 2^320 = C + AB) (te : Scalar.eval5 rd * 2^64 = Scalar.eval5 s1 + QL) :
    Scalar.eval5 ⟨rd.v0, rd.v1, rd.v2, rd.v3, U.add 64 rd.v4 sc⟩ * 2^64 = C + AB + QL ∧
      U.add 64 rd.v4 sc < 2^64 := by
  obtain ⟨r0, r1, r2, r3, r4⟩ := rd
  simp only [Scalar.eval5, U.add] at *
  have e : (r4 + sc) % 2^64 = r4 + sc := by omega
  rw [e]
  generalize Scalar.eval5 s1 = S at *
  omega

theorem mulStep_spec (a : Nat) (b : W4) (c : Scalar.W5) (ha : a < 2^64) (hb : Scalar.Words b) (hc : Scalar.Words5 c)
    (hT : Scalar.eval5 c < L + eval b) :
    Scalar.Words5 (mulStep a b c) ∧ Scalar.eval5 (mulStep a b c) < L + eval b ∧
      ∃ q, Scalar.eval5 (mulStep a b c) * 2^64 = Scalar.eval5 c + a * eval b + q * L := by
  obtain ⟨rw_, re⟩ := rowF_spec a b ha hb
  obtain ⟨sw, sc, se⟩ := acc5_spec c _ hc rw_
  have hq := qF_lt (acc5 c (rowF a b)).1.v0
  obtain ⟨mw, _, me⟩ := qrowF_spec _ hq
  obtain ⟨t0, t1, t2, t3, t4, te⟩ := red5_spec _ _ sw mw (qcancel _)
  rw [me] at te
  rw [re] at se
  obtain ⟨key, k4⟩ := mulStep_key _ _ _ _ _ _ t4 sc se te
  refine ⟨?_, ?_, _, key⟩
  · exact ⟨t0, t1, t2, t3, k4⟩
  · exact step_bound _ _ _ _ a _ (eval b) L ha hq rfl rfl hT key


/-- four word-iterations telescope -/
theorem mont_combine (T1 T2 T3 T4 a0 a1 a2 a3 B q0 q1 q2 q3 l : Nat)
    (h1 : T1 * 2^64 = a0 * B + q0 * l) (h2 : T2 * 2^64 = T1 + a1 * B + q1 * l)
    (h3 : T3 * 2^64 = T2 + a2 * B + q2 * l) (h4 : T4 * 2^64 = T3 + a3 * B + q3 * l) :
    T4 * 2^256 = (a0 + a1 * 2^64 + a2 * 2^128 + a3 * 2^192) * B +
      (q0 + q1 * 2^64 + q2 * 2^128 + q3 * 2^192) * l := by
  zify at h1 h2 h3 h4 ⊢
  linear_combination h1 + 2^64 * h2 + 2^128 * h3 + 2^192 * h4

/-- general form: only the word bounds of `x` are needed -/
theorem fiatMul_spec' (o x y : W4) (hx : Scalar.Words x) (hy : Inv y) :
    Inv (Fiat.fiatScalarMul o x y) ∧
      (eval (Fiat.fiatScalarMul o x y) * 2^256) % L = (eval x * eval y) % L := by
  rw [fiatScalarMul_eq]
  have hb := Scalar.inv_words hy
  obtain ⟨w1, b1, q0, e1⟩ := mulStep0_spec x.w0 y hx.1 hb
  obtain ⟨w2, b2, q1, e2⟩ := mulStep_spec x.w1 y _ hx.2.1 hb w1 b1
  obtain ⟨w3, b3, q2, e3⟩ := mulStep_spec x.w2 y _ hx.2.2.1 hb w2 b2
  obtain ⟨w4, b4, q3, e4⟩ := mulStep_spec x.w3 y _ hx.2.2.2 hb w3 b3
  have comb := mont_combine _ _ _ _ _ _ _ _ _ _ _ _ _ _ e1 e2 e3 e4
  have hyl := Scalar.inv_lt hy
  obtain ⟨ci, ce⟩ := csub_spec _ w4 (by omega)
  refine ⟨ci, ?_⟩
  rw [ce, Nat.mod_mul_mod, comb]
  show (eval x * eval y + _ * L) % L = _
  rw [Nat.add_mul_mod_self_right]

theorem fiatMul_spec (o x y : W4) (hx : Inv x) (hy : Inv y) :
    Inv (Fiat.fiatScalarMul o x y) ∧
      (eval (Fiat.fiatScalarMul o x y) * 2^256) % L = (eval x * eval y) % L :=
  fiatMul_spec' o x y (Scalar.inv_words hx) hy

theorem fiatMul_receiver (o o' x y : W4) : Fiat.fiatScalarMul o x y = Fiat.fiatScalarMul o' x y := by
  rw [fiatScalarMul_eq, fiatScalarMul_eq]


/-! ### `fiatScalarToMontgomery` (multiplication by `R² mod l`) -/

/-- `2^512 mod l`, as words -/
def toMontB : W4 := ⟨11819153939886771969, 14991950615390032711, 14910419812499177061, 259310039853996605⟩

def tmStep0 (a : Nat) : W4 :=
  let r := rowF a toMontB
  let m := qrowF (qF r.v0)
  let t := red4 ⟨r.v0, r.v1, r.v2, r.v3⟩ m
  ⟨t.w0, t.w1, t.w2, U.add 64 (U.add 64 t.w3 r.v4) m.v4⟩

def tmStep (a : Nat) (c : W4) : W4 :=
  let r := rowF a toMontB
  let s := acc4 c r
  let m := qrowF (qF s.1.w0)
  let t := red4 s.1 m
  ⟨t.w0, t.w1, t.w2, U.add 64 (U.add 64 t.w3 (U.add 64 s.2 r.v4)) m.v4⟩

def w4to5 (t : W4) : Scalar.W5 := ⟨t.w0, t.w1, t.w2, t.w3, 0⟩

set_option maxRecDepth 100000 in
theorem fiatScalarToMontgomery_eq (o x : W4) : Fiat.fiatScalarToMontgomery o x =
    csub (w4to5 (tmStep x.w3 (tmStep x.w2 (tmStep x.w1 (tmStep0 x.w0))))) := by
  kernel_rfl

theorem toMontB_words : Scalar.Words toMontB := by
  refine ⟨?_, ?_, ?_, ?_⟩ <;> decide
theorem toMontB_lt : eval toMontB < L := by decide
set_option exponentiation.threshold 600 in
theorem toMontB_mod : eval toMontB = 2^512 % L := by decide

theorem v4_bound (r0 r1 r2 r3 r4 AB : Nat)
    (re : r0 + r1 * 2^64 + r2 * 2^128 + r3 * 2^192 + r4 * 2^256 = AB)
    (h1 : AB ≤ (2^64 - 1) * 1627715501170711445284395025044413883736156588369414752970002579683115011841) :
    r4 ≤ 259310039853996605 := by
  omega

/-- the top word of the `a × toMontB` row is small -/
theorem rowF_toMontB_v4 (a : Nat) (ha : a < 2^64) : (rowF a toMontB).v4 ≤ 259310039853996605 := by
  obtain ⟨_, re⟩ := rowF_spec a toMontB ha toMontB_words
  have hB : eval toMontB = 1627715501170711445284395025044413883736156588369414752970002579683115011841 := by
    decide
  have h1 : a * eval toMontB ≤ (2^64 - 1) * eval toMontB := Nat.mul_le_mul_right _ (by omega)
  rw [hB] at h1
  exact v4_bound _ _ _ _ _ _ re h1

theorem tmStep_key (t : W4) (r4 m4 sc C S R0123 M0123 : Nat)
    (t3 : t.w3 ≤ 1) (hsc : sc ≤ 1) (hr4 : r4 ≤ 259310039853996605) (hm4 : m4 < 2^60)
    (se : S + sc * 2^256 = C + R0123) (te : eval t * 2^64 = S + M0123) :
    eval ⟨t.w0, t.w1, t.w2, U.add 64 (U.add 64 t.w3 (U.add 64 sc r4)) m4⟩ * 2^64 =
        C + (R0123 + r4 * 2^256) + (M0123 + m4 * 2^256) ∧
      U.add 64 (U.add 64 t.w3 (U.add 64 sc r4)) m4 < 2^64 := by
  obtain ⟨t0, t1, t2, t3'⟩ := t
  simp only [Scalar.eval, U.add] at *
  have e1 : (sc + r4) % 2^64 = sc + r4 := by omega
  have e2 : (t3' + (sc + r4)) % 2^64 = t3' + (sc + r4) := by omega
  have e3 : (t3' + (sc + r4) + m4) % 2^64 = t3' + (sc + r4) + m4 := by omega
  rw [e1, e2, e3]
  omega

theorem tmStep0_key (t : W4) (r4 m4 S M0123 : Nat)
    (t3 : t.w3 ≤ 1) (hr4 : r4 ≤ 259310039853996605) (hm4 : m4 < 2^60)
    (te : eval t * 2^64 = S + M0123) :
    eval ⟨t.w0, t.w1, t.w2, U.add 64 (U.add 64 t.w3 r4) m4⟩ * 2^64 =
        (S + r4 * 2^256) + (M0123 + m4 * 2^256) ∧
      U.add 64 (U.add 64 t.w3 r4) m4 < 2^64 := by
  obtain ⟨t0, t1, t2, t3'⟩ := t
  simp only [Scalar.eval, U.add] at *
  have e2 : (t3' + r4) % 2^64 = t3' + r4 := by omega
  have e3 : (t3' + r4 + m4) % 2^64 = t3' + r4 + m4 := by omega
  rw [e2, e3]
  omega

theorem tmStep0_spec (a : Nat) (ha : a < 2^64) :
    Scalar.Words (tmStep0 a) ∧ eval (tmStep0 a) < L + eval toMontB ∧
      ∃ q, eval (tmStep0 a) * 2^64 = a * eval toMontB + q * L := by
  obtain ⟨rw_, re⟩ := rowF_spec a toMontB ha toMontB_words
  have r4 := rowF_toMontB_v4 a ha
  have hq := qF_lt (rowF a toMontB).v0
  obtain ⟨mw, m4, me⟩ := qrowF_spec _ hq
  obtain ⟨t0, t1, t2, t3, te⟩ := red4_spec ⟨(rowF a toMontB).v0, (rowF a toMontB).v1, (rowF a toMontB).v2,
    (rowF a toMontB).v3⟩ _ ⟨rw_.1, rw_.2.1, rw_.2.2.1, rw_.2.2.2.1⟩ mw (qcancel _)
  obtain ⟨key, k4⟩ := tmStep0_key _ _ _ _ _ t3 r4 m4 te
  have key' : eval (tmStep0 a) * 2^64 = a * eval toMontB + qF (rowF a toMontB).v0 * L := by
    rw [← re, ← me]
    exact key
  refine ⟨⟨t0, t1, t2, k4⟩, ?_, _, key'⟩
  have hLpos : 0 < L := by decide
  exact step_bound _ 0 _ _ a _ (eval toMontB) L ha hq rfl rfl
    (Nat.lt_of_lt_of_le hLpos (Nat.le_add_right _ _)) (by rw [key', Nat.zero_add])

theorem tmStep_spec (a : Nat) (c : W4) (ha : a < 2^64) (hc : Scalar.Words c) (hT : eval c < L + eval toMontB) :
    Scalar.Words (tmStep a c) ∧ eval (tmStep a c) < L + eval toMontB ∧
      ∃ q, eval (tmStep a c) * 2^64 = eval c + a * eval toMontB + q * L := by
  obtain ⟨rw_, re⟩ := rowF_spec a toMontB ha toMontB_words
  have r4 := rowF_toMontB_v4 a ha
  obtain ⟨sw, sc, se⟩ := acc4_spec c _ hc rw_
  have hq := qF_lt (acc4 c (rowF a toMontB)).1.w0
  obtain ⟨mw, m4, me⟩ := qrowF_spec _ hq
  obtain ⟨t0, t1, t2, t3, te⟩ := red4_spec _ _ sw mw (qcancel _)
  obtain ⟨key, k4⟩ := tmStep_key _ _ _ _ _ _ _ _ t3 sc r4 m4 se te
  have key' : eval (tmStep a c) * 2^64 =
      eval c + a * eval toMontB + qF (acc4 c (rowF a toMontB)).1.w0 * L := by
    rw [← re, ← me]
    exact key
  refine ⟨⟨t0, t1, t2, k4⟩, ?_, _, key'⟩
  exact step_bound _ _ _ _ a _ (eval toMontB) L ha hq rfl rfl hT key'

theorem Scalar.coprime_L_R : Nat.Coprime L (2^256) := by
  apply Nat.Coprime.pow_right
  apply Nat.Coprime.symm
  rw [Nat.Prime.coprime_iff_not_dvd Nat.prime_two]
  decide

/-- general form: only the word bounds of `x` are needed -/
theorem toMontgomery_spec' (o x : W4) (hx : Scalar.Words x) :
    Inv (Fiat.fiatScalarToMontgomery o x) ∧
      eval (Fiat.fiatScalarToMontgomery o x) % L = (eval x * 2^256) % L := by
  rw [fiatScalarToMontgomery_eq]
  obtain ⟨w1, b1, q0, e1⟩ := tmStep0_spec x.w0 hx.1
  obtain ⟨w2, b2, q1, e2⟩ := tmStep_spec x.w1 _ hx.2.1 w1 b1
  obtain ⟨w3, b3, q2, e3⟩ := tmStep_spec x.w2 _ hx.2.2.1 w2 b2
  obtain ⟨w4, b4, q3, e4⟩ := tmStep_spec x.w3 _ hx.2.2.2 w3 b3
  have comb := mont_combine _ _ _ _ _ _ _ _ _ _ _ _ _ _ e1 e2 e3 e4
  have hBl := toMontB_lt
  generalize tmStep x.w3 (tmStep x.w2 (tmStep x.w1 (tmStep0 x.w0))) = T at *
  have h5 : Scalar.eval5 (w4to5 T) = eval T := by
    simp only [w4to5, Scalar.eval5, Scalar.eval]; omega
  obtain ⟨ci, ce⟩ := csub_spec (w4to5 T) ⟨w4.1, w4.2.1, w4.2.2.1, w4.2.2.2, (by decide : (0:Nat) < 2^64)⟩ (by rw [h5]; omega)
  refine ⟨ci, ?_⟩
  rw [ce, h5, Nat.mod_mod]
  -- cancel `2^256`
  have hmod : eval T * 2^256 ≡ (eval x * 2^256) * 2^256 [MOD L] := by
    unfold Nat.ModEq
    rw [comb]
    show (eval x * eval toMontB + _ * L) % L = _
    rw [Nat.add_mul_mod_self_right, toMontB_mod, Nat.mul_mod_mod, Nat.mul_assoc, ← pow_add]
  exact Nat.ModEq.cancel_right_of_coprime Scalar.coprime_L_R hmod

theorem toMontgomery_spec (o x : W4) (hx : Inv x) :
    Inv (Fiat.fiatScalarToMontgomery o x) ∧
      eval (Fiat.fiatScalarToMontgomery o x) % L = (eval x * 2^256) % L :=
  toMontgomery_spec' o x (Scalar.inv_words hx)

theorem toMontgomery_receiver (o o' x : W4) :
    Fiat.fiatScalarToMontgomery o x = Fiat.fiatScalarToMontgomery o' x := by
  rw [fiatScalarToMontgomery_eq, fiatScalarToMontgomery_eq]


/-! ### `fiatScalarFromMontgomery` (multiplication by `1`) -/

def fmStep0 (a : Nat) : W4 :=
  let m := qrowF (qF a)
  let c0 := (Bits.Add64 a m.v0 0).2
  let a1 := Bits.Add64 0 m.v1 c0
  ⟨a1.1, U.add 64 a1.2 m.v2, m.v3, m.v4⟩

/-- add the `q·l` row to the prepared words `s` and shift -/
def fmFinish (s : W4) : W4 :=
  let m := qrowF (qF s.w0)
  let t := red4 s m
  ⟨t.w0, t.w1, t.w2, U.add 64 t.w3 m.v4⟩

def fmStep1 (a : Nat) (c : W4) : W4 :=
  let a0 := Bits.Add64 c.w0 a 0
  fmFinish ⟨a0.1, U.add 64 a0.2 c.w1, c.w2, c.w3⟩

def fmStep (a : Nat) (c : W4) : W4 :=
  let a0 := Bits.Add64 c.w0 a 0
  let a1 := Bits.Add64 c.w1 0 a0.2
  let a2 := Bits.Add64 c.w2 0 a1.2
  fmFinish ⟨a0.1, a1.1, a2.1, U.add 64 a2.2 c.w3⟩

set_option maxRecDepth 100000 in
theorem fiatScalarFromMontgomery_eq (o x : W4) : Fiat.fiatScalarFromMontgomery o x =
    csub (w4to5 (fmStep x.w3 (fmStep x.w2 (fmStep1 x.w1 (fmStep0 x.w0))))) := by
  kernel_rfl

theorem fmStep0_core (a m0 m1 m2 m3 m4 c0 x14 x15 : Nat) (ha : a < 2^64)
    (d0 : m0 < 2^64) (d1 : m1 < 2^64) (d2 : m2 ≤ 1503914060200516822)
    (hz : (a + m0) % 2^64 = 0)
    (h0 : c0 = (a + m0 + 0) / 2^64) (h14 : x14 = (0 + m1 + c0) % 2^64) (h15 : x15 = (0 + m1 + c0) / 2^64) :
    (x14 + (x15 + m2) % 2^64 * 2^64 + m3 * 2^128 + m4 * 2^192) * 2^64 =
        a + (m0 + m1 * 2^64 + m2 * 2^128 + m3 * 2^192 + m4 * 2^256) ∧
      x14 < 2^64 ∧ (x15 + m2) % 2^64 ≤ 1503914060200516823 := by
  have e : (x15 + m2) % 2^64 = x15 + m2 := by omega
  rw [e]
  refine ⟨by omega, by omega, by omega⟩

theorem fmStep0_spec (a : Nat) (ha : a < 2^64) :
    Scalar.Words (fmStep0 a) ∧ (fmStep0 a).w1 ≤ 1503914060200516823 ∧ eval (fmStep0 a) < L + 1 ∧
      ∃ q, eval (fmStep0 a) * 2^64 = a * 1 + q * L := by
  have hq := qF_lt a
  obtain ⟨mw, m4, me⟩ := qrowF_spec _ hq
  have m2 := qrowF_v2 _ hq
  obtain ⟨key, k0, k1⟩ := fmStep0_core a _ _ _ _ _ _ _ _ ha mw.1 mw.2.1 m2 (qcancel a) rfl rfl rfl
  have key' : eval (fmStep0 a) * 2^64 = a * 1 + qF a * L := by
    rw [← me, Nat.mul_one]
    exact key
  refine ⟨⟨k0, Nat.lt_of_le_of_lt k1 (by norm_num), mw.2.2.2.1, Nat.lt_trans m4 (by norm_num)⟩, k1, ?_, _, key'⟩
  have hLpos : 0 < L := by decide
  exact step_bound _ 0 _ _ a _ 1 L ha hq rfl rfl
    (Nat.lt_of_lt_of_le hLpos (Nat.le_add_right _ _)) (by rw [key', Nat.zero_add])

theorem fmFinish_key (t : W4) (m4 S M0123 : Nat) (t3 : t.w3 ≤ 1) (hm4 : m4 < 2^60)
    (te : eval t * 2^64 = S + M0123) :
    eval ⟨t.w0, t.w1, t.w2, U.add 64 t.w3 m4⟩ * 2^64 = S + (M0123 + m4 * 2^256) ∧
      U.add 64 t.w3 m4 < 2^64 := by
  obtain ⟨t0, t1, t2, t3'⟩ := t
  simp only [Scalar.eval, U.add] at *
  have e2 : (t3' + m4) % 2^64 = t3' + m4 := by omega
  rw [e2]
  omega

theorem fmFinish_spec (s : W4) (hs : Scalar.Words s) :
    Scalar.Words (fmFinish s) ∧ eval (fmFinish s) * 2^64 = eval s + qF s.w0 * L := by
  have hq := qF_lt s.w0
  obtain ⟨mw, m4, me⟩ := qrowF_spec _ hq
  obtain ⟨t0, t1, t2, t3, te⟩ := red4_spec s _ hs mw (qcancel _)
  obtain ⟨key, k4⟩ := fmFinish_key _ _ _ _ t3 m4 te
  refine ⟨⟨t0, t1, t2, k4⟩, ?_⟩
  rw [← me]
  exact key

theorem fmStep1_core (c0 c1 c2 c3 a x16 x17 : Nat) (ha : a < 2^64) (h0 : c0 < 2^64)
    (h1 : c1 ≤ 1503914060200516823)
    (h16 : x16 = (c0 + a + 0) % 2^64) (h17 : x17 = (c0 + a + 0) / 2^64) :
    x16 + (x17 + c1) % 2^64 * 2^64 + c2 * 2^128 + c3 * 2^192 =
        (c0 + c1 * 2^64 + c2 * 2^128 + c3 * 2^192) + a ∧
      x16 < 2^64 ∧ (x17 + c1) % 2^64 < 2^64 := by
  have e : (x17 + c1) % 2^64 = x17 + c1 := by omega
  rw [e]
  refine ⟨by omega, by omega, by omega⟩

theorem fmStep1_spec (a : Nat) (c : W4) (ha : a < 2^64) (hc : Scalar.Words c) (hc1 : c.w1 ≤ 1503914060200516823)
    (hT : eval c < L + 1) :
    Scalar.Words (fmStep1 a c) ∧ eval (fmStep1 a c) < L + 1 ∧
      ∃ q, eval (fmStep1 a c) * 2^64 = eval c + a * 1 + q * L := by
  obtain ⟨c0, c1, c2, c3⟩ := c
  obtain ⟨h0, h1, h2, h3⟩ := hc
  simp only at h0 h1 h2 h3 hc1
  obtain ⟨se, s0, s1⟩ := fmStep1_core c0 c1 c2 c3 a _ _ ha h0 hc1 rfl rfl
  obtain ⟨fw, fe⟩ := fmFinish_spec ⟨(Bits.Add64 c0 a 0).1, U.add 64 (Bits.Add64 c0 a 0).2 c1, c2, c3⟩
    ⟨s0, s1, h2, h3⟩
  have key : eval (fmStep1 a ⟨c0, c1, c2, c3⟩) * 2^64 =
      eval ⟨c0, c1, c2, c3⟩ + a * 1 + qF (Bits.Add64 c0 a 0).1 * L := by
    rw [Nat.mul_one]
    show _ = (c0 + c1 * 2^64 + c2 * 2^128 + c3 * 2^192) + a + _
    rw [← se]
    exact fe
  exact ⟨fw, step_bound _ _ _ _ a _ 1 L ha (qF_lt _) rfl rfl hT key, _, key⟩

theorem fmStep_core (c0 c1 c2 c3 a x36 x37 x38 x39 x40 x41 : Nat) (ha : a < 2^64) (h0 : c0 < 2^64)
    (h1 : c1 < 2^64) (h2 : c2 < 2^64) (h3 : c3 ≤ 1152921504606846976)
    (h36 : x36 = (c0 + a + 0) % 2^64) (h37 : x37 = (c0 + a + 0) / 2^64)
    (h38 : x38 = (c1 + 0 + x37) % 2^64) (h39 : x39 = (c1 + 0 + x37) / 2^64)
    (h40 : x40 = (c2 + 0 + x39) % 2^64) (h41 : x41 = (c2 + 0 + x39) / 2^64) :
    x36 + x38 * 2^64 + x40 * 2^128 + (x41 + c3) % 2^64 * 2^192 =
        (c0 + c1 * 2^64 + c2 * 2^128 + c3 * 2^192) + a ∧
      x36 < 2^64 ∧ x38 < 2^64 ∧ x40 < 2^64 ∧ (x41 + c3) % 2^64 < 2^64 := by
  have e : (x41 + c3) % 2^64 = x41 + c3 := by omega
  rw [e]
  refine ⟨by omega, by omega, by omega, by omega, by omega⟩

theorem top_le (c0 c1 c2 c3 : Nat)
    (h : c0 + c1 * 2^64 + c2 * 2^128 + c3 * 2^192 <
      7237005577332262213973186563042994240857116359379907606001950938285454250989 + 1) :
    c3 ≤ 1152921504606846976 := by
  omega

theorem fmStep_spec (a : Nat) (c : W4) (ha : a < 2^64) (hc : Scalar.Words c) (hT : eval c < L + 1) :
    Scalar.Words (fmStep a c) ∧ eval (fmStep a c) < L + 1 ∧
      ∃ q, eval (fmStep a c) * 2^64 = eval c + a * 1 + q * L := by
  obtain ⟨c0, c1, c2, c3⟩ := c
  obtain ⟨h0, h1, h2, h3⟩ := hc
  simp only at h0 h1 h2 h3
  have h3' : c3 ≤ 1152921504606846976 := by
    have := hT; rw [Scalar.L_lit] at this
    exact top_le c0 c1 c2 c3 this
  obtain ⟨se, s0, s1, s2, s3⟩ := fmStep_core c0 c1 c2 c3 a _ _ _ _ _ _ ha h0 h1 h2 h3' rfl rfl rfl rfl rfl rfl
  obtain ⟨fw, fe⟩ := fmFinish_spec ⟨(Bits.Add64 c0 a 0).1, (Bits.Add64 c1 0 (Bits.Add64 c0 a 0).2).1,
    (Bits.Add64 c2 0 (Bits.Add64 c1 0 (Bits.Add64 c0 a 0).2).2).1,
    U.add 64 (Bits.Add64 c2 0 (Bits.Add64 c1 0 (Bits.Add64 c0 a 0).2).2).2 c3⟩ ⟨s0, s1, s2, s3⟩
  have key : eval (fmStep a ⟨c0, c1, c2, c3⟩) * 2^64 =
      eval ⟨c0, c1, c2, c3⟩ + a * 1 + qF (Bits.Add64 c0 a 0).1 * L := by
    rw [Nat.mul_one]
    show _ = (c0 + c1 * 2^64 + c2 * 2^128 + c3 * 2^192) + a + _
    rw [← se]
    exact fe
  exact ⟨fw, step_bound _ _ _ _ a _ 1 L ha (qF_lt _) rfl rfl hT key, _, key⟩

/-- general form: only the word bounds of `x` are needed -/
theorem fromMontgomery_spec' (o x : W4) (hx : Scalar.Words x) :
    Inv (Fiat.fiatScalarFromMontgomery o x) ∧
      (eval (Fiat.fiatScalarFromMontgomery o x) * 2^256) % L = eval x % L := by
  rw [fiatScalarFromMontgomery_eq]
  obtain ⟨w1, c1, b1, q0, e1⟩ := fmStep0_spec x.w0 hx.1
  obtain ⟨w2, b2, q1, e2⟩ := fmStep1_spec x.w1 _ hx.2.1 w1 c1 b1
  obtain ⟨w3, b3, q2, e3⟩ := fmStep_spec x.w2 _ hx.2.2.1 w2 b2
  obtain ⟨w4, b4, q3, e4⟩ := fmStep_spec x.w3 _ hx.2.2.2 w3 b3
  have comb := mont_combine _ _ _ _ _ _ _ _ _ _ _ _ _ _ e1 e2 e3 e4
  generalize fmStep x.w3 (fmStep x.w2 (fmStep1 x.w1 (fmStep0 x.w0))) = T at *
  have h5 : Scalar.eval5 (w4to5 T) = eval T := by
    simp only [w4to5, Scalar.eval5, Scalar.eval]; omega
  have hL1 : 1 ≤ L := by decide
  obtain ⟨ci, ce⟩ := csub_spec (w4to5 T) ⟨w4.1, w4.2.1, w4.2.2.1, w4.2.2.2, (by decide : (0:Nat) < 2^64)⟩
    (by rw [h5]; omega)
  refine ⟨ci, ?_⟩
  rw [ce, h5, Nat.mod_mul_mod, comb, Nat.mul_one]
  show (eval x + _ * L) % L = _
  rw [Nat.add_mul_mod_self_right]

theorem fromMontgomery_spec (o x : W4) (hx : Inv x) :
    Inv (Fiat.fiatScalarFromMontgomery o x) ∧
      (eval (Fiat.fiatScalarFromMontgomery o x) * 2^256) % L = eval x % L :=
  fromMontgomery_spec' o x (Scalar.inv_words hx)

theorem fromMontgomery_receiver (o o' x : W4) :
    Fiat.fiatScalarFromMontgomery o x = Fiat.fiatScalarFromMontgomery o' x := by
  rw [fiatScalarFromMontgomery_eq, fiatScalarFromMontgomery_eq]

end EdVerif.Proofs
