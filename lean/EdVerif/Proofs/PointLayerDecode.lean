import EdVerif.Proofs.PointLayerBytes
/-!
Point layer, decoding: C04 (`Point.SetBytes` accepts exactly the documented set and yields the right
point), the round-trip parts of C05, and the package-level points `identity` and `generator`.
-/
namespace EdVerif.Proofs
open EdVerif.Impl EdVerif.Prims EdVerif.Spec

/-- the `y` read by the decoder: low 255 bits, little-endian, reduced mod `p` -/
def yOf (x : Bytes) : F := ((LE x % 2 ^ 255 : ℕ) : F)

theorem bit7 {b : Nat} (hb : b < 256) : b >>> 7 = b / 128 ∧ (b / 128 = 0 ∨ b / 128 = 1) := by
  rw [Nat.shiftRight_eq_div_pow]
  constructor
  · norm_num
  · omega

/-- the shape of `Point.setBytes` after the field-level decoding of `y` succeeded -/
theorem setBytes_unfold {x : Bytes} {e : Fe} (he : Fe.setBytes x = some e) :
    Point.setBytes x =
      (let rw := Fe.sqrtRatio (Fe.sub (Fe.square e) Fe.one)
          (Fe.add (Fe.mul (Fe.square e) Point.d) Fe.one)
       if rw.2 == 0 then none else
        some ⟨Fe.select (Fe.neg rw.1) rw.1 (x[31]! >>> 7), e, Fe.one,
          Fe.mul (Fe.select (Fe.neg rw.1) rw.1 (x[31]! >>> 7)) e⟩) := by
  unfold Point.setBytes
  rw [he]
  rfl

/-! ### constants: the encodings of the identity and of the base point -/

theorem identityBytes_isBytes : IsBytes Point.identityBytes := by unfold IsBytes; decide
theorem generatorBytes_isBytes : IsBytes Point.generatorBytes := by unfold IsBytes; decide

theorem yOf_identityBytes : yOf Point.identityBytes = 1 := by
  have h : LE Point.identityBytes % 2 ^ 255 = 1 := by decide +kernel
  unfold yOf; rw [h]; simp

/-- `x`-coordinate of the base point -/
def Bx : Nat := 15112221349535400772501151409588531511454012693041857206046113283949847762202
/-- `y`-coordinate of the base point (`4/5`) -/
def By : Nat := 46316835694926478169428394003475163141307993866256225615783033603165251855960

theorem yOf_generatorBytes : yOf Point.generatorBytes = (By : F) := by
  have h : LE Point.generatorBytes % 2 ^ 255 = By := by decide +kernel
  unfold yOf; rw [h]

theorem basepoint_onCurve : onCurve (Bx : F) (By : F) := by
  have h : ((By ^ 2 : ℕ) : F) = ((Bx ^ 2 + 1 + EdVerif.D * Bx ^ 2 * By ^ 2 : ℕ) : F) := by
    rw [ZMod.natCast_eq_natCast_iff]; decide +kernel
  push_cast at h
  unfold onCurve Spec.d
  linear_combination h

theorem By_eq : (By : F) * 5 = 4 := by
  have h : ((By * 5 : ℕ) : F) = ((4 : ℕ) : F) := by
    rw [ZMod.natCast_eq_natCast_iff]; decide +kernel
  push_cast at h
  exact h

/-- the Ed25519 base point `B = (Bx, 4/5)` -/
def basepoint : Ed25519 := Ed25519.mk (Bx : F) (By : F) basepoint_onCurve

theorem Bx_val : ((Bx : F)).val = Bx := by
  rw [ZMod.val_natCast]; exact Nat.mod_eq_of_lt (by decide +kernel)

theorem Bx_ne_zero : (Bx : F) ≠ 0 := by
  intro h
  have := congrArg ZMod.val h
  rw [Bx_val, ZMod.val_zero] at this
  exact absurd this (by decide +kernel)

theorem By_val : ((By : F)).val = By := by
  rw [ZMod.val_natCast]; exact Nat.mod_eq_of_lt (by decide +kernel)

/-- known answer: the encoding of the neutral element -/
theorem encode_zero : Spec.encode 0 = Point.identityBytes := by
  unfold Spec.encode
  rw [Ed25519.zero_x, Ed25519.zero_y, ZMod.val_zero, ZMod.val_one_eq_one_mod,
    Nat.mod_eq_of_lt (by decide +kernel : 1 < EdVerif.P)]
  decide +kernel

/-- known answer: the encoding of the base point -/
theorem encode_basepoint : Spec.encode basepoint = Point.generatorBytes := by
  unfold Spec.encode basepoint
  rw [Ed25519.mk_x, Ed25519.mk_y, Bx_val, By_val]
  decide +kernel

section
variable (ff : FieldFacts) (sf : SqrtRatioDecodeFacts)
include ff

theorem setBytes_len {x : Bytes} (hs : x.size ≠ 32) : Point.setBytes x = none := by
  unfold Point.setBytes
  rw [ff.setBytes_len x hs]

include sf

/-- rejection: `y` is not the `y`-coordinate of a curve point -/
theorem setBytes_none {x : Bytes} (hs : x.size = 32) (hb : IsBytes x)
    (hc : ¬ ∃ xx : F, onCurve xx (yOf x)) : Point.setBytes x = none := by
  obtain ⟨e, he, einv, ev⟩ := ff.setBytes x hs hb
  have gy : Good e (yOf x) := ⟨einv, ev⟩
  have y2 := Good.square ff gy
  have u := Good.sub ff y2 (Good.one ff)
  have v := Good.add ff (Good.mul ff y2 (d_good ff)) (Good.one ff)
  obtain ⟨_, _, rbit, rflag, _⟩ := sf _ _ u.inv v.inv
  rw [u.val, v.val] at rflag
  rw [setBytes_unfold he]
  simp only []
  have h0 : (Fe.sqrtRatio (Fe.sub (Fe.square e) Fe.one)
      (Fe.add (Fe.mul (Fe.square e) Point.d) Fe.one)).2 = 0 := by
    rcases rbit with h | h
    · exact h
    · exfalso
      obtain ⟨xx, hxx⟩ := rflag.mp h
      exact hc ⟨xx, (onCurve_iff_decode _ _).mpr (by linear_combination hxx)⟩
  rw [h0]; rfl

/-- acceptance, with the decoded point -/
theorem setBytes_some {x : Bytes} (hs : x.size = 32) (hb : IsBytes x)
    (hc : ∃ xx : F, onCurve xx (yOf x)) :
    ∃ (P : P3) (X : F) (h : onCurve X (yOf x)), Point.setBytes x = some P ∧
      P.Rep (Ed25519.mk X (yOf x) h) ∧ (X = 0 ∨ X.val % 2 = x[31]! / 128) := by
  obtain ⟨e, he, einv, ev⟩ := ff.setBytes x hs hb
  have gy : Good e (yOf x) := ⟨einv, ev⟩
  have y2 := Good.square ff gy
  have u := Good.sub ff y2 (Good.one ff)
  have v := Good.add ff (Good.mul ff y2 (d_good ff)) (Good.one ff)
  obtain ⟨rinv, reven, _, rflag, rroot⟩ := sf _ _ u.inv v.inv
  rw [u.val, v.val] at rflag rroot
  rw [setBytes_unfold he]
  simp only []
  generalize Fe.sqrtRatio (Fe.sub (Fe.square e) Fe.one)
      (Fe.add (Fe.mul (Fe.square e) Point.d) Fe.one) = res at *
  obtain ⟨xx, hxx⟩ := hc
  have h1 : res.2 = 1 :=
    rflag.mpr ⟨xx, by linear_combination (onCurve_iff_decode _ _).mp hxx⟩
  have hon : onCurve (toZ res.1) (yOf x) :=
    (onCurve_iff_decode _ _).mpr (by linear_combination rroot h1)
  rw [h1]
  have gr := Good.of_inv rinv
  have gn := Good.neg ff gr
  obtain ⟨hshift, hbit⟩ := bit7 (hb 31 (by omega))
  rw [hshift]
  rcases hbit with h0 | h1'
  · -- sign bit clear: the non-negative root
    rw [h0]
    have sel := Good.select_zero ff gn gr
    have T := Good.mul ff sel gy
    refine ⟨_, toZ res.1, hon, rfl, ⟨sel.inv, einv, ff.one.1, T.inv, ?_⟩, Or.inr reven⟩
    exact (extRep_affine hon).congr sel.val ev ff.one.2 T.val
  · -- sign bit set: the negated root
    rw [h1']
    have sel := Good.select_one ff gn gr
    have T := Good.mul ff sel gy
    have hon' : onCurve (-toZ res.1) (yOf x) := onCurve_neg hon
    refine ⟨_, -toZ res.1, hon', rfl, ⟨sel.inv, einv, ff.one.1, T.inv, ?_⟩, ?_⟩
    · exact (extRep_affine hon').congr sel.val ev ff.one.2 T.val
    · by_cases hz : toZ res.1 = 0
      · left; rw [hz, neg_zero]
      · right
        have hp := neg_parity hz
        rw [reven] at hp
        omega

/-- C04: `SetBytes` accepts `x` iff it has length 32 and its low 255 bits (reduced mod `p`) are the
`y`-coordinate of a curve point -/
theorem C04 {x : Bytes} (hb : IsBytes x) :
    (∃ P, Point.setBytes x = some P) ↔ x.size = 32 ∧ ∃ xx : F, onCurve xx (yOf x) := by
  constructor
  · rintro ⟨P, hP⟩
    by_cases hs : x.size = 32
    · refine ⟨hs, ?_⟩
      by_contra hc
      rw [setBytes_none ff sf hs hb hc] at hP
      exact absurd hP (by simp)
    · rw [setBytes_len ff hs] at hP
      exact absurd hP (by simp)
  · rintro ⟨hs, hc⟩
    obtain ⟨P, _, _, hP, _⟩ := setBytes_some ff sf hs hb hc
    exact ⟨P, hP⟩

/-- C04, value: the decoded point is valid, has the `y` read from the input, and its `x` has the
parity given by bit 255 (or is `0`) -/
theorem C04_value {x : Bytes} (hb : IsBytes x) {P : P3} (h : Point.setBytes x = some P) :
    P.Valid ∧ P.toEd.y = yOf x ∧ (P.toEd.x = 0 ∨ P.toEd.x.val % 2 = x[31]! / 128) := by
  obtain ⟨hs, hc⟩ := (C04 ff sf hb).mp ⟨P, h⟩
  obtain ⟨P', X, hon, hP', hrep, hpar⟩ := setBytes_some ff sf hs hb hc
  rw [h] at hP'
  have e : P = P' := Option.some.inj hP'
  subst e
  obtain ⟨hv, hE⟩ := P3.rep_iff.mp hrep
  rw [hE]
  exact ⟨hv, rfl, hpar⟩

/-! ### C05 : round trips -/

/-- decoding the encoding of a valid point gives a valid point representing the same point -/
theorem C05_roundtrip {P : P3} (hP : P.Valid) :
    ∃ P', Point.setBytes (Point.bytes P) = some P' ∧ P'.Valid ∧ P'.toEd = P.toEd := by
  rw [C05_bytes ff hP]
  generalize P.toEd = q
  have hb := encode_isBytes q
  have hy : yOf (Spec.encode q) = q.y := by
    unfold yOf; rw [encode_low]; exact ZMod.natCast_zmod_val q.y
  have hc : ∃ xx : F, onCurve xx (yOf (Spec.encode q)) := ⟨q.x, by rw [hy]; exact q.on⟩
  obtain ⟨P', hP'⟩ := (C04 ff sf hb).mpr ⟨encode_size q, hc⟩
  obtain ⟨hv, hy', hx'⟩ := C04_value ff sf hb hP'
  refine ⟨P', hP', hv, ?_⟩
  rw [hy] at hy'
  rw [encode_getElem!_31] at hx'
  have hon : onCurve P'.toEd.x q.y := by rw [← hy']; exact P'.toEd.on
  rcases onCurve_x_unique q.on hon with hx | hx
  · exact Ed25519.ext' hx hy'
  · by_cases h0 : q.x = 0
    · rw [h0, neg_zero] at hx
      exact Ed25519.ext' (by rw [hx, h0]) hy'
    · exfalso
      rcases hx' with hz | hpar
      · rw [hz] at hx
        exact h0 (neg_eq_zero.mp hx.symm)
      · apply neg_parity h0
        rw [← hx, hpar]

/-- re-encoding any accepted (possibly non-canonical) input gives the canonical encoding of the
decoded point -/
theorem C05_canonical {x : Bytes} (hb : IsBytes x) {P : P3} (h : Point.setBytes x = some P) :
    Point.bytes P = Spec.encode P.toEd :=
  C05_bytes ff (C04_value ff sf hb h).1

/-! ### the package-level points -/

/-- `var identity` is a valid point representing the neutral element -/
theorem identity_rep : Point.identity.Rep 0 := by
  have hb := identityBytes_isBytes
  have hc : ∃ xx : F, onCurve xx (yOf Point.identityBytes) :=
    ⟨0, by rw [yOf_identityBytes]; exact (0 : Ed25519).on⟩
  obtain ⟨P, hP⟩ := (C04 ff sf hb).mpr ⟨rfl, hc⟩
  obtain ⟨hv, hy, _⟩ := C04_value ff sf hb hP
  have e : Point.identity = P := by unfold Point.identity; rw [hP]; rfl
  rw [e]
  refine P3.rep_iff.mpr ⟨hv, ?_⟩
  rw [yOf_identityBytes] at hy
  have hon : onCurve P.toEd.x 1 := by rw [← hy]; exact P.toEd.on
  have h0 : onCurve (0 : F) 1 := (0 : Ed25519).on
  have hx : P.toEd.x = 0 := by
    rcases onCurve_x_unique h0 hon with hx | hx
    · exact hx
    · rw [hx, neg_zero]
  exact Ed25519.ext' hx hy

theorem identity_valid : Point.identity.Valid ∧ Point.identity.toEd = 0 :=
  P3.rep_iff.mp (identity_rep ff sf)

/-- `var generator` is a valid point representing the base point -/
theorem generator_rep : Point.generator.Rep basepoint := by
  have hb := generatorBytes_isBytes
  have hc : ∃ xx : F, onCurve xx (yOf Point.generatorBytes) :=
    ⟨(Bx : F), by rw [yOf_generatorBytes]; exact basepoint_onCurve⟩
  obtain ⟨P, hP⟩ := (C04 ff sf hb).mpr ⟨rfl, hc⟩
  obtain ⟨hv, hy, hpar⟩ := C04_value ff sf hb hP
  have e : Point.generator = P := by unfold Point.generator; rw [hP]; rfl
  rw [e]
  refine P3.rep_iff.mpr ⟨hv, ?_⟩
  rw [yOf_generatorBytes] at hy
  have hon : onCurve P.toEd.x (By : F) := by rw [← hy]; exact P.toEd.on
  have h31 : Point.generatorBytes[31]! / 128 = 0 := by decide
  rw [h31] at hpar
  have hx : P.toEd.x = (Bx : F) := by
    rcases onCurve_x_unique basepoint_onCurve hon with hx | hx
    · exact hx
    · exfalso
      rcases hpar with hz | hp
      · rw [hz] at hx
        exact Bx_ne_zero (neg_eq_zero.mp hx.symm)
      · apply neg_parity Bx_ne_zero
        rw [← hx, hp, Bx_val]
        decide +kernel
  exact Ed25519.ext' hx hy

theorem generator_valid : Point.generator.Valid ∧ Point.generator.toEd = basepoint :=
  P3.rep_iff.mp (generator_rep ff sf)

theorem bytes_identity : Point.bytes Point.identity = Point.identityBytes := by
  rw [C05_bytes ff (identity_valid ff sf).1, (identity_valid ff sf).2, encode_zero]

theorem bytes_generator : Point.bytes Point.generator = Point.generatorBytes := by
  rw [C05_bytes ff (generator_valid ff sf).1, (generator_valid ff sf).2, encode_basepoint]

end

end EdVerif.Proofs
