import EdVerif.Proofs.FieldFacts
import EdVerif.Proofs.FeKernels5
/-!
The kernel layer closes the interface `KernelFacts` of `Proofs/FieldFacts.lean`:
`kernelFacts : KernelFacts`, no hypotheses.
-/
namespace EdVerif.Proofs
open EdVerif EdVerif.Prims EdVerif.Gen EdVerif.Impl

theorem u64_iff (e : Prims.Fe) : Fe.U64 e ↔ U64 e := Iff.rfl

/-- the `foldr` form of the little-endian value (interface) is the index sum (kernel proofs) -/
theorem LEl_eq : ∀ l : List Nat, LEpre l.toArray l.length = l.foldr (fun x acc => x + 256 * acc) 0 := by
  intro l
  induction l with
  | nil => rfl
  | cons b t ih =>
    have h := LEpre_add (b :: t).toArray t.toArray 1 t.length (fun i hi => by
      have h1 : i < t.toArray.size := by simpa using hi
      have h2 : 1 + i < (b :: t).toArray.size := by simp; omega
      rw [getElem!_pos t.toArray i h1, getElem!_pos (b :: t).toArray (1 + i) h2]
      simp [Nat.add_comm 1 i])
    rw [List.length_cons, Nat.add_comm t.length 1, h, ih, List.foldr_cons]
    have h0 : LEpre (b :: t).toArray 1 = b := by
      simp [LEpre]
    rw [h0]
    norm_num

theorem LE_eq_LEsum (x : Bytes) : LE x = LEsum x := by
  have h := LEl_eq x.toList
  rw [LE, LEsum, ← Array.foldr_toList]
  simpa using h.symm

theorem LEbytes_of_get (x : Bytes) (n k : Nat) (hs : x.size = k)
    (hg : ∀ i, i < k → x[i]! = n / 256^i % 256) : x = LEbytes n k := by
  unfold LEbytes
  apply Array.ext
  · rw [hs, Array.size_ofFn]
  · intro i h1 h2
    have := hg i (by omega)
    rw [getElem!_pos x i h1] at this
    rw [this, Array.getElem_ofFn]

theorem kernelFacts : KernelFacts where
  tight_inv := fun _ h => tight_inv h
  carry := fun v h => carry_spec v h
  add := fun _ _ ha hb => add_spec ha hb
  sub := fun _ _ ha hb => sub_spec ha hb
  neg := fun _ ha => neg_spec ha
  mul := fun _ _ ha hb => mul_spec ha hb
  square := fun _ ha => square_spec ha
  mult32 := fun _ _ ha hy => mult32_spec ha hy
  reduce := fun a ha => by
    obtain ⟨⟨h0, h1, h2, h3, h4⟩, hv⟩ := reduce_spec ha
    exact ⟨h0, h1, h2, h3, h4, hv⟩
  select := fun _ _ ha hb => select_spec ha hb
  swap := fun _ _ ha hb => swap_spec ha hb
  zero := rfl
  one := rfl
  setBytes := fun x hx hb => by
    obtain ⟨e, he, ⟨h0, h1, h2, h3, h4⟩, hv⟩ := setBytes_spec x hx (fun i hi => hb i (by omega))
    exact ⟨e, he, h0, h1, h2, h3, h4, by rw [LE_eq_LEsum]; exact hv⟩
  setBytes_len := fun x hx => fe_setBytes_none x hx
  setWideBytes := fun x hx hb => by
    obtain ⟨e, he, ht, hv⟩ := setWideBytes_spec x hx (fun i hi => hb i (by omega))
    exact ⟨e, he, ht, by rw [LE_eq_LEsum]; exact hv⟩
  setWideBytes_len := fun x hx => fe_setWideBytes_none x hx
  bytes := fun a ha => by
    obtain ⟨hs, hg⟩ := bytes_spec ha
    exact LEbytes_of_get _ _ 32 hs hg

end EdVerif.Proofs
