import Mathlib.Tactic.LinearCombination
import EdVerif.Proofs.Digits
/-!
C01, digit layer (part 2): the width-`w` non-adjacent form `nonAdjacentForm` of `scalar.go`.

`nafOfBytes b w` is *exactly* the computation `Impl.Scalar.nonAdjacentForm` performs after
`b := bytes s` and the guards (`nonAdjacentForm_eq`, by unfolding).

Main theorem `naf_spec`: for `2 ≤ w ≤ 8` and a byte string with `b[31] ≤ 127` (`LE32 b < 2^255`;
this is the weakest bound under which the Go code does not panic, and it suffices: the final
carry is `0`), the result has 256 digits, each `0` or odd with `|d| < 2^(w-1)`, and
`∑ i ∈ Finset.range 256, d[i]! * 2 ^ i = LE32 b` (in `ℤ`).
-/
namespace EdVerif.Proofs
open EdVerif.Prims EdVerif.Impl EdVerif.Impl.Scalar
open Finset

/-! ### Definitions factored out of the model -/

/-- `digits[0..4]`: four little-endian `uint64` words and a zero word -/
def nafDigits (b : Bytes) : Array Nat := #[le64at b 0, le64at b 1, le64at b 2, le64at b 3, 0]

def nafInit : NafState := { naf := Array.replicate 256 0, pos := 0, carry := 0 }

/-- the computation of `nonAdjacentForm` on the byte string -/
def nafOfBytes (b : Bytes) (w : Nat) : Array Int := (nafLoop w (nafDigits b) 256 nafInit).naf

theorem nonAdjacentForm_eq (s : W4) (w : Nat) (h : (bytes s)[31]! ≤ 127) (hw : 2 ≤ w ∧ w ≤ 8) :
    nonAdjacentForm s w = .ok (nafOfBytes (bytes s) w) := by
  unfold nonAdjacentForm
  simp only [if_neg (Nat.not_lt.mpr h), if_neg (Nat.not_lt.mpr hw.1), if_neg (Nat.not_lt.mpr hw.2)]
  rfl

theorem nonAdjacentForm_panic_highbit (s : W4) (w : Nat) (h : 127 < (bytes s)[31]!) :
    nonAdjacentForm s w = .panic "highbit" := by
  unfold nonAdjacentForm
  simp only [if_pos h]

/-- the `bitBuf` of one iteration -/
def nafBitBuf (w : Nat) (digits : Array Nat) (pos : Nat) : Nat :=
  if pos % 64 < 64 - w then digits[pos / 64]! >>> (pos % 64)
  else (digits[pos / 64]! >>> (pos % 64)) ||| (U.shl 64 digits[1 + pos / 64]! (64 - pos % 64))

/-- the part of an iteration after the window has been computed -/
def nafStepWin (w : Nat) (st : NafState) (window : Nat) : NafState :=
  let width := U.shl 64 1 w
  if window &&& 1 == 0 then { st with pos := st.pos + 1 }
  else if window < width / 2 then
    { naf := st.naf.set! st.pos (wrap8 window), pos := st.pos + w, carry := 0 }
  else
    { naf := st.naf.set! st.pos (wrap8 (wrap8 window - wrap8 width)), pos := st.pos + w, carry := 1 }

theorem nafStep_eq_win (w : Nat) (digits : Array Nat) (st : NafState) :
    nafStep w digits st
      = nafStepWin w st
          (U.add 64 st.carry (nafBitBuf w digits st.pos &&& U.sub 64 (U.shl 64 1 w) 1)) := rfl

/-! ### Window extraction (bit level) -/

theorem window_lo (x T r w : ℕ) (hrw : r + w ≤ 64) :
    ((x + 2 ^ 64 * T) / 2 ^ r) % 2 ^ w = (x / 2 ^ r) % 2 ^ w := by
  rw [← Nat.mod_mul_right_div_self, ← Nat.mod_mul_right_div_self x]
  congr 1
  have h : 2 ^ 64 = 2 ^ r * 2 ^ w * 2 ^ (64 - r - w) := by
    rw [← pow_add, ← pow_add]; congr 1; omega
  rw [h, mul_assoc, Nat.add_mul_mod_self_left]

theorem window_hi_arith (q S A yd z a c e M y : ℕ) (hM1 : M = a * S) (hM2 : M = c * e)
    (hy : y = a * yd + A) :
    q + S * (y + M * z) = (A * S + q) + c * (e * (yd + S * z)) := by
  have h : c * (e * (yd + S * z)) = M * (yd + S * z) := by rw [hM2]; ring
  rw [h, hy, hM1]; ring

theorem window_hi (x y z r w : ℕ) (hx : x < 2 ^ 64) (hr : r < 64) (hw : w ≤ 64) :
    ((x >>> r) ||| ((y <<< (64 - r)) % 2 ^ 64)) % 2 ^ w
      = ((x + 2 ^ 64 * (y + 2 ^ 64 * z)) / 2 ^ r) % 2 ^ w := by
  have h64 : 2 ^ 64 = 2 ^ r * 2 ^ (64 - r) := by rw [← pow_add]; congr 1; omega
  have h64w : 2 ^ 64 = 2 ^ w * 2 ^ (64 - w) := by rw [← pow_add]; congr 1; omega
  have hxr : x / 2 ^ r < 2 ^ (64 - r) := by
    apply Nat.div_lt_of_lt_mul; rw [← h64]; exact hx
  have hy : (y <<< (64 - r)) % 2 ^ 64 = (y % 2 ^ r) <<< (64 - r) := by
    rw [Nat.shiftLeft_eq, Nat.shiftLeft_eq]
    conv_lhs => rw [h64]
    exact Nat.mul_mod_mul_right _ _ _
  rw [hy, Nat.shiftRight_eq_div_pow, Nat.or_comm, ← Nat.shiftLeft_add_eq_or_of_lt hxr,
    Nat.shiftLeft_eq]
  have hdiv : ∀ K, (x + 2 ^ 64 * K) / 2 ^ r = x / 2 ^ r + 2 ^ (64 - r) * K := by
    intro K
    have : 2 ^ 64 * K = 2 ^ r * (2 ^ (64 - r) * K) := by rw [h64, mul_assoc]
    rw [this, Nat.add_mul_div_left _ _ (Nat.two_pow_pos r)]
  rw [hdiv]
  have hyd : y = 2 ^ r * (y / 2 ^ r) + y % 2 ^ r := (Nat.div_add_mod y (2 ^ r)).symm
  rw [window_hi_arith (x / 2 ^ r) (2 ^ (64 - r)) (y % 2 ^ r) (y / 2 ^ r) z (2 ^ r) (2 ^ w)
    (2 ^ (64 - w)) (2 ^ 64) y h64 h64w hyd]
  rw [Nat.add_mul_mod_self_left]

/-- both branches of `bitBuf`, for one pair of adjacent words -/
theorem window_core (x y z r w : ℕ) (hx : x < 2 ^ 64) (hr : r < 64) (hw : w ≤ 64) :
    (if r < 64 - w then x >>> r else (x >>> r) ||| (U.shl 64 y (64 - r))) % 2 ^ w
      = ((x + 2 ^ 64 * (y + 2 ^ 64 * z)) / 2 ^ r) % 2 ^ w := by
  by_cases h : r < 64 - w
  · rw [if_pos h, Nat.shiftRight_eq_div_pow]
    exact (window_lo x (y + 2 ^ 64 * z) r w (by omega)).symm
  · rw [if_neg h]
    exact window_hi x y z r w hx hr hw

/-- value of the five-word digit array -/
def wordsVal (D0 D1 D2 D3 : ℕ) : ℕ := D0 + 2 ^ 64 * D1 + 2 ^ 128 * D2 + 2 ^ 192 * D3

theorem wordsVal_div (D0 D1 D2 D3 : ℕ) (h0 : D0 < 2 ^ 64) (h1 : D1 < 2 ^ 64) (h2 : D2 < 2 ^ 64) :
    wordsVal D0 D1 D2 D3 / 2 ^ (64 * 0) = D0 + 2 ^ 64 * (D1 + 2 ^ 64 * (D2 + 2 ^ 64 * D3)) ∧
    wordsVal D0 D1 D2 D3 / 2 ^ (64 * 1) = D1 + 2 ^ 64 * (D2 + 2 ^ 64 * D3) ∧
    wordsVal D0 D1 D2 D3 / 2 ^ (64 * 2) = D2 + 2 ^ 64 * (D3 + 2 ^ 64 * 0) ∧
    wordsVal D0 D1 D2 D3 / 2 ^ (64 * 3) = D3 + 2 ^ 64 * (0 + 2 ^ 64 * 0) := by
  unfold wordsVal
  norm_num
  omega

theorem nafBitBuf_spec (D0 D1 D2 D3 pos w : ℕ) (h0 : D0 < 2 ^ 64) (h1 : D1 < 2 ^ 64)
    (h2 : D2 < 2 ^ 64) (h3 : D3 < 2 ^ 64) (hpos : pos < 256) (hw : w ≤ 64) :
    nafBitBuf w #[D0, D1, D2, D3, 0] pos % 2 ^ w = (wordsVal D0 D1 D2 D3 / 2 ^ pos) % 2 ^ w := by
  obtain ⟨e0, e1, e2, e3⟩ := wordsVal_div D0 D1 D2 D3 h0 h1 h2
  have hr : pos % 64 < 64 := Nat.mod_lt _ (by norm_num)
  have hsplit : wordsVal D0 D1 D2 D3 / 2 ^ pos
      = wordsVal D0 D1 D2 D3 / 2 ^ (64 * (pos / 64)) / 2 ^ (pos % 64) := by
    rw [Nat.div_div_eq_div_mul, ← pow_add, Nat.div_add_mod]
  rw [hsplit]
  unfold nafBitBuf
  have hk : pos / 64 = 0 ∨ pos / 64 = 1 ∨ pos / 64 = 2 ∨ pos / 64 = 3 := by omega
  rcases hk with hk | hk | hk | hk <;> rw [hk]
  · rw [e0]; exact window_core D0 D1 (D2 + 2 ^ 64 * D3) _ w h0 hr hw
  · rw [e1]
    have := window_core D1 D2 D3 (pos % 64) w h1 hr hw
    simpa using this
  · rw [e2]
    have := window_core D2 D3 0 (pos % 64) w h2 hr hw
    simpa using this
  · rw [e3]
    have := window_core D3 0 0 (pos % 64) w h3 hr hw
    simpa using this

/-! ### The iteration in normal form -/

theorem pow_facts (w : ℕ) (hw : 2 ≤ w ∧ w ≤ 8) :
    2 ^ w = 2 * 2 ^ (w - 1) ∧ 2 ^ (w - 1) = 2 * 2 ^ (w - 2) ∧ 1 ≤ 2 ^ (w - 2) ∧ 2 ^ (w - 1) ≤ 128 := by
  refine ⟨?_, ?_, Nat.one_le_two_pow, ?_⟩
  · rw [← pow_succ']; congr 1; omega
  · rw [← pow_succ']; congr 1; omega
  · calc 2 ^ (w - 1) ≤ 2 ^ 7 := Nat.pow_le_pow_right (by norm_num) (by omega)
      _ = 128 := by norm_num

theorem shl_one (w : ℕ) (hw : w ≤ 8) : U.shl 64 1 w = 2 ^ w := by
  unfold U.shl
  rw [Nat.shiftLeft_eq, one_mul]
  apply Nat.mod_eq_of_lt
  exact Nat.pow_lt_pow_right (by norm_num) (by omega)

theorem window_mask (w : ℕ) (hw : 2 ≤ w ∧ w ≤ 8) : U.sub 64 (U.shl 64 1 w) 1 = 2 ^ w - 1 := by
  rw [shl_one w hw.2]
  obtain ⟨f1, _, _, f4⟩ := pow_facts w hw
  have hW : 2 ^ w ≤ 256 := by omega
  have hW1 : 1 ≤ 2 ^ w := Nat.one_le_two_pow
  unfold U.sub
  generalize 2 ^ w = W at *
  have e : (2 : ℕ) ^ 64 = 18446744073709551616 := by norm_num
  rw [e]
  clear f1 f4 e
  omega

theorem wrap8_small (win H : ℕ) (hH : H ≤ 128) (h : win < H) : wrap8 (win : ℤ) = (win : ℤ) := by
  apply wrap8_id; omega

theorem wrap8_large (win W H : ℕ) (hW : W = 2 * H) (hH : H ≤ 128) (h1 : H ≤ win) (h2 : win < W) :
    wrap8 (wrap8 (win : ℤ) - wrap8 (W : ℤ)) = (win : ℤ) - (W : ℤ) := by
  rw [wrap8_sub]
  apply wrap8_id; omega

/-- normal form of the tail of an iteration -/
theorem nafStepWin_cases (w : ℕ) (hw : 2 ≤ w ∧ w ≤ 8) (st : NafState) (win : ℕ)
    (hwin : win ≤ 2 ^ w) :
    nafStepWin w st win =
      if win % 2 = 0 then { st with pos := st.pos + 1 }
      else if win < 2 ^ (w - 1) then
        { naf := st.naf.set! st.pos (win : ℤ), pos := st.pos + w, carry := 0 }
      else
        { naf := st.naf.set! st.pos ((win : ℤ) - ((2 ^ w : ℕ) : ℤ)), pos := st.pos + w, carry := 1 } := by
  obtain ⟨f1, f2, f3, f4⟩ := pow_facts w hw
  unfold nafStepWin
  simp only [shl_one w hw.2, Nat.and_one_is_mod]
  have hhalf : 2 ^ w / 2 = 2 ^ (w - 1) := by omega
  rw [hhalf]
  by_cases h0 : win % 2 = 0
  · simp only [h0, beq_self_eq_true, if_true]
  · have h0' : (win % 2 == 0) = false := by simp [h0]
    simp only [h0', if_neg h0, Bool.false_eq_true, if_false]
    by_cases h1 : win < 2 ^ (w - 1)
    · simp only [if_pos h1, wrap8_small win _ f4 h1]
    · have hlt : win < 2 ^ w := by omega
      simp only [if_neg h1, wrap8_large win (2 ^ w) (2 ^ (w - 1)) f1 f4 (by omega) hlt]

/-! ### Loop invariant -/

/-- the property of a single NAF digit -/
def NafDigit (w : ℕ) (d : ℤ) : Prop :=
  d = 0 ∨ (d % 2 = 1 ∧ -((2 : ℤ) ^ (w - 1)) < d ∧ d < (2 : ℤ) ^ (w - 1))

structure NafInv (N w : ℕ) (st : NafState) : Prop where
  size : st.naf.size = 256
  carry_le : st.carry ≤ 1
  carry_end : 256 ≤ st.pos → st.carry = 0
  zero_hi : ∀ i, st.pos ≤ i → i < 256 → st.naf[i]! = 0
  digit : ∀ i < 256, NafDigit w st.naf[i]!
  sum : ∑ i ∈ range 256, st.naf[i]! * 2 ^ i + (st.carry : ℤ) * 2 ^ st.pos
          = ((N % 2 ^ st.pos : ℕ) : ℤ)

theorem nafInv_init (N w : ℕ) : NafInv N w nafInit where
  size := by simp [nafInit]
  carry_le := by simp [nafInit]
  carry_end := by simp [nafInit]
  zero_hi := by
    intro i _ hi
    simp [nafInit, hi]
  digit := by
    intro i hi
    left
    simp [nafInit, hi]
  sum := by
    have h : ∀ i ∈ range 256, (nafInit.naf)[i]! * (2 : ℤ) ^ i = 0 := by
      intro i hi
      have hi' := mem_range.mp hi
      simp [nafInit, hi']
    rw [sum_congr rfl h]
    simp [nafInit, Nat.mod_one]

/-- the window value is small at the top end -/
theorem chunk_top (N pos w : ℕ) (hN : N < 2 ^ 255) (hpos : pos < 256) (hpw : 256 ≤ pos + w)
    (hw : 1 ≤ w) : (N / 2 ^ pos) % 2 ^ w < 2 ^ (w - 1) := by
  have h1 : N / 2 ^ pos < 2 ^ (255 - pos) := by
    apply Nat.div_lt_of_lt_mul
    rw [← pow_add]
    have : pos + (255 - pos) = 255 := by omega
    rw [this]; exact hN
  have h2 : 2 ^ (255 - pos) ≤ 2 ^ (w - 1) := Nat.pow_le_pow_right (by norm_num) (by omega)
  have h3 : (N / 2 ^ pos) % 2 ^ w ≤ N / 2 ^ pos := Nat.mod_le _ _
  omega

/-- case "window even" -/
theorem nafInv_even (N w : ℕ) (hw : 2 ≤ w ∧ w ≤ 8) (hN : N < 2 ^ 255) (st : NafState)
    (hinv : NafInv N w st) (hpos : st.pos < 256)
    (heven : (st.carry + (N / 2 ^ st.pos) % 2 ^ w) % 2 = 0) :
    NafInv N w { st with pos := st.pos + 1 } := by
  obtain ⟨hsize, hcle, hcend, hzero, hdigit, hsum⟩ := hinv
  have hbit : ((N / 2 ^ st.pos) % 2 ^ w) % 2 = (N / 2 ^ st.pos) % 2 :=
    Nat.mod_mod_of_dvd _ (dvd_pow_self 2 (by omega))
  have hcb : st.carry = (N / 2 ^ st.pos) % 2 := by omega
  refine ⟨hsize, hcle, ?_, ?_, hdigit, ?_⟩
  · intro h
    have hp : st.pos = 255 := by simp only at h; omega
    have : N / 2 ^ st.pos = 0 := by rw [hp]; exact Nat.div_eq_of_lt hN
    show st.carry = 0
    rw [hcb, this]
  · intro i h1 h2
    exact hzero i (by simp only at h1; omega) h2
  · show ∑ i ∈ range 256, st.naf[i]! * 2 ^ i + (st.carry : ℤ) * 2 ^ (st.pos + 1)
      = ((N % 2 ^ (st.pos + 1) : ℕ) : ℤ)
    rw [Nat.mod_pow_succ, ← hcb]
    generalize N % 2 ^ st.pos = M at hsum ⊢
    rw [Nat.cast_add, Nat.cast_mul, Nat.cast_pow, Nat.cast_ofNat, pow_succ]
    linear_combination hsum

/-- case "window odd and small" -/
theorem nafInv_small (N w : ℕ) (hw : 2 ≤ w ∧ w ≤ 8) (st : NafState)
    (hinv : NafInv N w st) (hpos : st.pos < 256) (win : ℕ)
    (hwin : win = st.carry + (N / 2 ^ st.pos) % 2 ^ w)
    (hodd : ¬ win % 2 = 0) (hsmall : win < 2 ^ (w - 1)) :
    NafInv N w { naf := st.naf.set! st.pos (win : ℤ), pos := st.pos + w, carry := 0 } := by
  obtain ⟨hsize, hcle, hcend, hzero, hdigit, hsum⟩ := hinv
  have hps : st.pos < st.naf.size := by omega
  refine ⟨?_, ?_, ?_, ?_, ?_, ?_⟩
  · show (st.naf.set! st.pos (win : ℤ)).size = 256
    rw [size_set!]; exact hsize
  · show 0 ≤ 1
    omega
  · intro _; rfl
  · intro i h1 h2
    show (st.naf.set! st.pos (win : ℤ))[i]! = 0
    rw [get_set! _ _ _ _ hps, if_neg (by simp only at h1; omega)]
    exact hzero i (by simp only at h1; omega) h2
  · intro i hi
    show NafDigit w (st.naf.set! st.pos (win : ℤ))[i]!
    rw [get_set! _ _ _ _ hps]
    by_cases h : i = st.pos
    · rw [if_pos h]
      right
      have hc : ((2 ^ (w - 1) : ℕ) : ℤ) = (2 : ℤ) ^ (w - 1) := by push_cast; rfl
      rw [← hc]
      omega
    · rw [if_neg h]; exact hdigit i hi
  · show ∑ i ∈ range 256, (st.naf.set! st.pos (win : ℤ))[i]! * 2 ^ i + ((0 : ℕ) : ℤ) * 2 ^ (st.pos + w)
      = ((N % 2 ^ (st.pos + w) : ℕ) : ℤ)
    have hmod : N % 2 ^ (st.pos + w) = N % 2 ^ st.pos + 2 ^ st.pos * ((N / 2 ^ st.pos) % 2 ^ w) := by
      rw [Nat.pow_add, Nat.mod_mul]
    rw [sum_set! _ _ 256 _ _ hpos hps, hzero st.pos (le_refl _) hpos, hmod, hwin]
    generalize N % 2 ^ st.pos = M at hsum ⊢
    generalize (N / 2 ^ st.pos) % 2 ^ w = C
    push_cast
    linear_combination hsum

/-- case "window odd and large" -/
theorem nafInv_large (N w : ℕ) (hw : 2 ≤ w ∧ w ≤ 8) (hN : N < 2 ^ 255) (st : NafState)
    (hinv : NafInv N w st) (hpos : st.pos < 256) (win : ℕ)
    (hwin : win = st.carry + (N / 2 ^ st.pos) % 2 ^ w)
    (hodd : ¬ win % 2 = 0) (hlarge : ¬ win < 2 ^ (w - 1)) :
    NafInv N w { naf := st.naf.set! st.pos ((win : ℤ) - ((2 ^ w : ℕ) : ℤ)), pos := st.pos + w,
                 carry := 1 } := by
  obtain ⟨hsize, hcle, hcend, hzero, hdigit, hsum⟩ := hinv
  obtain ⟨f1, f2, f3, f4⟩ := pow_facts w hw
  have hps : st.pos < st.naf.size := by omega
  have hchunk : (N / 2 ^ st.pos) % 2 ^ w < 2 ^ w := Nat.mod_lt _ (Nat.two_pow_pos w)
  refine ⟨?_, ?_, ?_, ?_, ?_, ?_⟩
  · show (st.naf.set! st.pos _).size = 256
    rw [size_set!]; exact hsize
  · show 1 ≤ 1
    omega
  · intro h
    exfalso
    have h' : 256 ≤ st.pos + w := h
    have := chunk_top N st.pos w hN hpos h' (by omega)
    omega
  · intro i h1 h2
    show (st.naf.set! st.pos _)[i]! = 0
    rw [get_set! _ _ _ _ hps, if_neg (by simp only at h1; omega)]
    exact hzero i (by simp only at h1; omega) h2
  · intro i hi
    show NafDigit w (st.naf.set! st.pos _)[i]!
    rw [get_set! _ _ _ _ hps]
    by_cases h : i = st.pos
    · rw [if_pos h]
      right
      have hc : ((2 ^ (w - 1) : ℕ) : ℤ) = (2 : ℤ) ^ (w - 1) := by push_cast; rfl
      rw [← hc]
      omega
    · rw [if_neg h]; exact hdigit i hi
  · show ∑ i ∈ range 256, (st.naf.set! st.pos ((win : ℤ) - ((2 ^ w : ℕ) : ℤ)))[i]! * 2 ^ i
        + ((1 : ℕ) : ℤ) * 2 ^ (st.pos + w) = ((N % 2 ^ (st.pos + w) : ℕ) : ℤ)
    have hmod : N % 2 ^ (st.pos + w) = N % 2 ^ st.pos + 2 ^ st.pos * ((N / 2 ^ st.pos) % 2 ^ w) := by
      rw [Nat.pow_add, Nat.mod_mul]
    rw [sum_set! _ _ 256 _ _ hpos hps, hzero st.pos (le_refl _) hpos, hmod, hwin]
    generalize N % 2 ^ st.pos = M at hsum ⊢
    generalize (N / 2 ^ st.pos) % 2 ^ w = C
    push_cast
    rw [pow_add]
    linear_combination hsum

/-- one iteration preserves the invariant and advances `pos` -/
theorem nafInv_step (N w : ℕ) (hw : 2 ≤ w ∧ w ≤ 8) (hN : N < 2 ^ 255) (D : Array Nat)
    (hD : ∀ pos < 256, nafBitBuf w D pos % 2 ^ w = (N / 2 ^ pos) % 2 ^ w)
    (st : NafState) (hinv : NafInv N w st) (hpos : st.pos < 256) :
    NafInv N w (nafStep w D st) ∧ st.pos < (nafStep w D st).pos := by
  have hchunk : (N / 2 ^ st.pos) % 2 ^ w < 2 ^ w := Nat.mod_lt _ (Nat.two_pow_pos w)
  have hc := hinv.carry_le
  have hW : 2 ^ w ≤ 256 := by
    calc 2 ^ w ≤ 2 ^ 8 := Nat.pow_le_pow_right (by norm_num) hw.2
      _ = 256 := by norm_num
  have hwindow : U.add 64 st.carry (nafBitBuf w D st.pos &&& U.sub 64 (U.shl 64 1 w) 1)
      = st.carry + (N / 2 ^ st.pos) % 2 ^ w := by
    rw [window_mask w hw, Nat.and_two_pow_sub_one_eq_mod, hD st.pos hpos]
    unfold U.add
    apply Nat.mod_eq_of_lt
    omega
  rw [nafStep_eq_win, hwindow, nafStepWin_cases w hw st _ (by omega)]
  by_cases h0 : (st.carry + (N / 2 ^ st.pos) % 2 ^ w) % 2 = 0
  · rw [if_pos h0]
    exact ⟨nafInv_even N w hw hN st hinv hpos h0, Nat.lt_succ_self _⟩
  · rw [if_neg h0]
    by_cases h1 : st.carry + (N / 2 ^ st.pos) % 2 ^ w < 2 ^ (w - 1)
    · rw [if_pos h1]
      exact ⟨nafInv_small N w hw st hinv hpos _ rfl h0 h1, by show st.pos < st.pos + w; omega⟩
    · rw [if_neg h1]
      exact ⟨nafInv_large N w hw hN st hinv hpos _ rfl h0 h1, by show st.pos < st.pos + w; omega⟩

theorem nafInv_loop (N w : ℕ) (hw : 2 ≤ w ∧ w ≤ 8) (hN : N < 2 ^ 255) (D : Array Nat)
    (hD : ∀ pos < 256, nafBitBuf w D pos % 2 ^ w = (N / 2 ^ pos) % 2 ^ w)
    (fuel : ℕ) (st : NafState) (hinv : NafInv N w st) (hfuel : 256 ≤ fuel + st.pos) :
    NafInv N w (nafLoop w D fuel st) ∧ 256 ≤ (nafLoop w D fuel st).pos := by
  induction fuel generalizing st with
  | zero =>
    unfold nafLoop
    exact ⟨hinv, by omega⟩
  | succ fuel ih =>
    unfold nafLoop
    by_cases hpos : st.pos < 256
    · rw [if_pos hpos]
      obtain ⟨h1, h2⟩ := nafInv_step N w hw hN D hD st hinv hpos
      exact ih _ h1 (by omega)
    · rw [if_neg hpos]
      exact ⟨hinv, by omega⟩

/-! ### Connecting the words with `LE32` -/

theorem le64at_lt (b : Bytes) (hb : ∀ i < 32, b[i]! < 256) (k : ℕ) (hk : k < 4) :
    le64at b k < 2 ^ 64 := by
  unfold le64at Bin.le64
  have h0 := hb (k * 8) (by omega)
  have h1 := hb (k * 8 + 1) (by omega)
  have h2 := hb (k * 8 + 2) (by omega)
  have h3 := hb (k * 8 + 3) (by omega)
  have h4 := hb (k * 8 + 4) (by omega)
  have h5 := hb (k * 8 + 5) (by omega)
  have h6 := hb (k * 8 + 6) (by omega)
  have h7 := hb (k * 8 + 7) (by omega)
  omega

theorem LE32_words (b : Bytes) :
    LE32 b = wordsVal (le64at b 0) (le64at b 1) (le64at b 2) (le64at b 3) := by
  unfold LE32 wordsVal le64at Bin.le64
  simp only [sum_range_succ, sum_range_zero]
  norm_num
  ring

/-- **nonAdjacentForm is correct.** Hypotheses: `2 ≤ w ≤ 8` and `b[31] ≤ 127` (exactly the
non-panicking domain of the Go function). Digit `i` is `0` or odd with `|d| < 2^(w-1)`
(`d % 2 = 1` with Lean's Euclidean `%`, which covers negative odd digits as well). -/
theorem naf_spec (b : Bytes) (w : ℕ) (hb : ∀ i < 32, b[i]! < 256) (h31 : b[31]! ≤ 127)
    (hw : 2 ≤ w ∧ w ≤ 8) :
    (nafOfBytes b w).size = 256 ∧
    (∀ i < 256, (nafOfBytes b w)[i]! = 0 ∨
      ((nafOfBytes b w)[i]! % 2 = 1 ∧ -((2 : ℤ) ^ (w - 1)) < (nafOfBytes b w)[i]! ∧
        (nafOfBytes b w)[i]! < (2 : ℤ) ^ (w - 1))) ∧
    ∑ i ∈ range 256, (nafOfBytes b w)[i]! * 2 ^ i = (LE32 b : ℤ) := by
  have hN := LE32_lt b hb h31
  have hD : ∀ pos < 256, nafBitBuf w (nafDigits b) pos % 2 ^ w = (LE32 b / 2 ^ pos) % 2 ^ w := by
    intro pos hpos
    rw [LE32_words]
    exact nafBitBuf_spec _ _ _ _ pos w (le64at_lt b hb 0 (by omega)) (le64at_lt b hb 1 (by omega))
      (le64at_lt b hb 2 (by omega)) (le64at_lt b hb 3 (by omega)) hpos (by omega)
  obtain ⟨hinv, hend⟩ := nafInv_loop (LE32 b) w hw hN (nafDigits b) hD 256 nafInit
    (nafInv_init (LE32 b) w) (by omega)
  refine ⟨hinv.size, hinv.digit, ?_⟩
  have hs := hinv.sum
  rw [hinv.carry_end hend] at hs
  have hmod : LE32 b % 2 ^ (nafLoop w (nafDigits b) 256 nafInit).pos = LE32 b := by
    apply Nat.mod_eq_of_lt
    calc LE32 b < 2 ^ 255 := hN
      _ ≤ _ := Nat.pow_le_pow_right (by norm_num) (by omega)
  rw [hmod] at hs
  unfold nafOfBytes
  rw [← hs]
  simp

/-- every NAF digit fits `int8` strictly: `-128 < d < 128` (used by table selection) -/
theorem naf_digit_int8 (b : Bytes) (w : ℕ) (hb : ∀ i < 32, b[i]! < 256) (h31 : b[31]! ≤ 127)
    (hw : 2 ≤ w ∧ w ≤ 8) (i : ℕ) (hi : i < 256) :
    -128 < (nafOfBytes b w)[i]! ∧ (nafOfBytes b w)[i]! < 128 := by
  obtain ⟨_, h, _⟩ := naf_spec b w hb h31 hw
  obtain ⟨_, _, _, f4⟩ := pow_facts w hw
  have hc : ((2 ^ (w - 1) : ℕ) : ℤ) = (2 : ℤ) ^ (w - 1) := by push_cast; rfl
  rcases h i hi with h | ⟨_, h1, h2⟩
  · rw [h]; omega
  · rw [← hc] at h1 h2
    omega

end EdVerif.Proofs
