import EdVerif.Proofs.ScalarMultProofs
import EdVerif.Proofs.Naf
import EdVerif.Proofs.DigitsLE
/-!
C01, scalar level: the five scalar multiplications of the executable model on scalars. A scalar
`s : W4` (Montgomery form) enters the point layer only through `Scalar.bytes s`; all theorems are
stated under `Scalar.bytes s = LEbytes k 32` with `k < 2^255` (every valid scalar satisfies this
with `k = (toZ s).val < l`, proved in the scalar layer).
-/
namespace EdVerif.Proofs
open EdVerif.Impl EdVerif.Impl.Point EdVerif.Prims EdVerif.Spec
open Finset

/-! ### what the hypothesis on `Scalar.bytes` gives -/

theorem LEbytes_top (k : ℕ) (hk : k < 2 ^ 255) : (LEbytes k 32)[31]! ≤ 127 := by
  rw [LEbytes_getElem! k (by omega : 31 < 32)]
  have h : k / 256 ^ 31 < 128 := by
    apply Nat.div_lt_of_lt_mul
    calc k < 2 ^ 255 := hk
      _ = 256 ^ 31 * 128 := by norm_num
  have := Nat.mod_le (k / 256 ^ 31) 256
  omega

theorem LEbytes_LE32 (k : ℕ) (hk : k < 2 ^ 255) : LE32 (LEbytes k 32) = k := by
  rw [← LE_eq_LE32 _ (LEbytes_size k 32), LE_LEbytes]
  apply Nat.mod_eq_of_lt
  calc k < 2 ^ 255 := hk
    _ ≤ 256 ^ 32 := by norm_num

theorem LEbytes_lt32 (k : ℕ) : ∀ i < 32, (LEbytes k 32)[i]! < 256 :=
  (LEbytes_isBytes k 32).lt32 (LEbytes_size k 32)

/-- `signedRadix16` on a scalar with `bytes s = LEbytes k 32`, `k < 2^255` -/
theorem radix16_facts {s : W4} {k : ℕ} (hk : Scalar.bytes s = LEbytes k 32) (hk255 : k < 2 ^ 255) :
    Scalar.signedRadix16 s = .ok (radix16OfBytes (Scalar.bytes s)) ∧
    (∀ i < 64, (-8 : ℤ) ≤ (radix16OfBytes (Scalar.bytes s))[i]! ∧
      (radix16OfBytes (Scalar.bytes s))[i]! ≤ 8) ∧
    ∑ i ∈ range 64, (radix16OfBytes (Scalar.bytes s))[i]! * 16 ^ i = (k : ℤ) := by
  have h31 : (Scalar.bytes s)[31]! ≤ 127 := by rw [hk]; exact LEbytes_top k hk255
  have hb : ∀ i < 32, (Scalar.bytes s)[i]! < 256 := by rw [hk]; exact LEbytes_lt32 k
  refine ⟨signedRadix16_eq s h31, radix16_digit_range _ hb h31, ?_⟩
  rw [(radix16_spec _ hb h31).2.2.2, hk, LEbytes_LE32 k hk255]

/-- `nonAdjacentForm s 5` -/
theorem naf5_facts {s : W4} {k : ℕ} (hk : Scalar.bytes s = LEbytes k 32) (hk255 : k < 2 ^ 255) :
    Scalar.nonAdjacentForm s 5 = .ok (nafOfBytes (Scalar.bytes s) 5) ∧
    (∀ i < 256, (nafOfBytes (Scalar.bytes s) 5)[i]! = 0 ∨
      ((nafOfBytes (Scalar.bytes s) 5)[i]! % 2 = 1 ∧ (-16 : ℤ) < (nafOfBytes (Scalar.bytes s) 5)[i]! ∧
        (nafOfBytes (Scalar.bytes s) 5)[i]! < 16)) ∧
    ∑ i ∈ range 256, (nafOfBytes (Scalar.bytes s) 5)[i]! * 2 ^ i = (k : ℤ) := by
  have h31 : (Scalar.bytes s)[31]! ≤ 127 := by rw [hk]; exact LEbytes_top k hk255
  have hb : ∀ i < 32, (Scalar.bytes s)[i]! < 256 := by rw [hk]; exact LEbytes_lt32 k
  obtain ⟨_, hd, hsum⟩ := naf_spec (Scalar.bytes s) 5 hb h31 (by omega)
  refine ⟨nonAdjacentForm_eq s 5 h31 (by omega), ?_, ?_⟩
  · intro i hi
    have h := hd i hi
    norm_num at h
    exact h
  · rw [hsum, hk, LEbytes_LE32 k hk255]

/-- `nonAdjacentForm s 8` -/
theorem naf8_facts {s : W4} {k : ℕ} (hk : Scalar.bytes s = LEbytes k 32) (hk255 : k < 2 ^ 255) :
    Scalar.nonAdjacentForm s 8 = .ok (nafOfBytes (Scalar.bytes s) 8) ∧
    (∀ i < 256, (nafOfBytes (Scalar.bytes s) 8)[i]! = 0 ∨
      ((nafOfBytes (Scalar.bytes s) 8)[i]! % 2 = 1 ∧ (-128 : ℤ) < (nafOfBytes (Scalar.bytes s) 8)[i]! ∧
        (nafOfBytes (Scalar.bytes s) 8)[i]! < 128)) ∧
    ∑ i ∈ range 256, (nafOfBytes (Scalar.bytes s) 8)[i]! * 2 ^ i = (k : ℤ) := by
  have h31 : (Scalar.bytes s)[31]! ≤ 127 := by rw [hk]; exact LEbytes_top k hk255
  have hb : ∀ i < 32, (Scalar.bytes s)[i]! < 256 := by rw [hk]; exact LEbytes_lt32 k
  obtain ⟨_, hd, hsum⟩ := naf_spec (Scalar.bytes s) 8 hb h31 (by omega)
  refine ⟨nonAdjacentForm_eq s 8 h31 (by omega), ?_, ?_⟩
  · intro i hi
    have h := hd i hi
    norm_num at h
    exact h
  · rw [hsum, hk, LEbytes_LE32 k hk255]

/-! ### `collect` -/

theorem foldl_ok_aux {α β} (step : Res (Array β) → Res β → Res (Array β))
    (hstep : ∀ a x, step (.ok a) (.ok x) = .ok (a.push x)) (f : α → β) (l : List α)
    (a : Array β) :
    (l.map (fun x => Res.ok (f x))).foldl step (Res.ok a) = .ok (a ++ (l.map f).toArray) := by
  induction l generalizing a with
  | nil => simp
  | cons x xs ih =>
    simp only [List.map_cons, List.foldl_cons]
    rw [hstep, ih]
    simp

/-- if every element succeeds, `collect` returns the array of results -/
theorem collect_ok {α β} [Inhabited α] (g : α → Res β) (f : α → β) (a : Array α)
    (h : ∀ i < a.size, g a[i]! = .ok (f a[i]!)) :
    Point.collect (a.toList.map g) = .ok (a.map f) := by
  have e : a.toList.map g = a.toList.map (fun x => Res.ok (f x)) := by
    apply List.map_congr_left
    intro x hx
    obtain ⟨i, hi, rfl⟩ := List.mem_iff_getElem.mp hx
    have hi' : i < a.size := by simpa using hi
    have := h i hi'
    rw [getElem!_pos a i hi'] at this
    simpa using this
  unfold Point.collect
  rw [e, foldl_ok_aux _ (fun _ _ => rfl)]
  simp only [Array.empty_append]
  rw [← Array.toList_map, Array.toArray_toList]

/-! ### unfolding the top-level functions

The kernel must never compare `Point.scalarMult s q` with its unfolded `match` on
`Scalar.signedRadix16 s` (it would try to evaluate the discriminant on the symbolic `s`, through the
fiat kernels); the definitions are therefore unfolded at the level of the unapplied constant. -/

theorem scalarMult_ok {s : W4} {q : P3} {d : Array Int} (he : Scalar.signedRadix16 s = .ok d) :
    Point.scalarMult s q = .ok (Point.scalarMultDigits d q) := by
  obtain ⟨F, hF, h⟩ : ∃ F : W4 → P3 → Res P3, @Point.scalarMult = F ∧
      ∀ s q d, Scalar.signedRadix16 s = .ok d → F s q = .ok (Point.scalarMultDigits d q) := by
    refine ⟨_, by delta Point.scalarMult; exact rfl, ?_⟩
    intro s q d he
    rw [he]
  rw [hF]; exact h s q d he

theorem scalarBaseMult_ok {s : W4} {d : Array Int} (he : Scalar.signedRadix16 s = .ok d) :
    Point.scalarBaseMult s = .ok (Point.scalarBaseMultDigits d) := by
  obtain ⟨F, hF, h⟩ : ∃ F : W4 → Res P3, @Point.scalarBaseMult = F ∧
      ∀ s d, Scalar.signedRadix16 s = .ok d → F s = .ok (Point.scalarBaseMultDigits d) := by
    refine ⟨_, by delta Point.scalarBaseMult; exact rfl, ?_⟩
    intro s d he
    rw [he]
  rw [hF]; exact h s d he

theorem varTimeDouble_ok {a b : W4} {A : P3} {da db : Array Int}
    (hea : Scalar.nonAdjacentForm a 5 = .ok da) (heb : Scalar.nonAdjacentForm b 8 = .ok db) :
    Point.varTimeDoubleScalarBaseMult a A b = .ok (Point.varTimeDoubleDigits da db A) := by
  obtain ⟨F, hF, h⟩ : ∃ F : W4 → P3 → W4 → Res P3, @Point.varTimeDoubleScalarBaseMult = F ∧
      ∀ a A b da db, Scalar.nonAdjacentForm a 5 = .ok da → Scalar.nonAdjacentForm b 8 = .ok db →
        F a A b = .ok (Point.varTimeDoubleDigits da db A) := by
    refine ⟨_, by delta Point.varTimeDoubleScalarBaseMult; exact rfl, ?_⟩
    intro a A b da db hea heb
    rw [hea, heb]
  rw [hF]; exact h a A b da db hea heb

theorem multiScalarMult_ok {ss : Array W4} {ps : Array P3} {d : Array (Array Int)}
    (he : Point.collect (ss.toList.map Scalar.signedRadix16) = .ok d) :
    Point.multiScalarMult ss ps = .ok (Point.multiScalarMultDigits d ps) := by
  obtain ⟨F, hF, h⟩ : ∃ F : Array W4 → Array P3 → Res P3, @Point.multiScalarMult = F ∧
      ∀ ss ps d, Point.collect (ss.toList.map Scalar.signedRadix16) = .ok d →
        F ss ps = .ok (Point.multiScalarMultDigits d ps) := by
    refine ⟨_, by delta Point.multiScalarMult; exact rfl, ?_⟩
    intro ss ps d he
    rw [he]
  rw [hF]; exact h ss ps d he

theorem varTimeMultiScalarMult_ok {ss : Array W4} {ps : Array P3} {d : Array (Array Int)}
    (he : Point.collect (ss.toList.map (Scalar.nonAdjacentForm · 5)) = .ok d) :
    Point.varTimeMultiScalarMult ss ps = .ok (Point.varTimeMultiDigits d ps) := by
  obtain ⟨F, hF, h⟩ : ∃ F : Array W4 → Array P3 → Res P3, @Point.varTimeMultiScalarMult = F ∧
      ∀ ss ps d, Point.collect (ss.toList.map (Scalar.nonAdjacentForm · 5)) = .ok d →
        F ss ps = .ok (Point.varTimeMultiDigits d ps) := by
    refine ⟨_, by delta Point.varTimeMultiScalarMult; exact rfl, ?_⟩
    intro ss ps d he
    rw [he]
  rw [hF]; exact h ss ps d he

section
variable (ff : FieldFacts) (sf : SqrtRatioDecodeFacts)
include ff sf

/-! ### the five functions -/

theorem scalarMult_spec {s : W4} {k : ℕ} {q : P3}
    (hk : Scalar.bytes s = LEbytes k 32) (hk255 : k < 2 ^ 255) (hq : q.Valid) :
    ∃ r, Point.scalarMult s q = .ok r ∧ r.Valid ∧ r.toEd = k • q.toEd := by
  obtain ⟨he, hr, hsum⟩ := radix16_facts hk hk255
  have h := scalarMultDigits_rep ff sf hr hq.rep
  rw [hsum, natCast_zsmul] at h
  exact ⟨_, scalarMult_ok he, P3.rep_iff.mp h⟩

theorem scalarBaseMult_spec {s : W4} {k : ℕ}
    (hk : Scalar.bytes s = LEbytes k 32) (hk255 : k < 2 ^ 255) :
    ∃ r, Point.scalarBaseMult s = .ok r ∧ r.Valid ∧ r.toEd = k • basepoint := by
  obtain ⟨he, hr, hsum⟩ := radix16_facts hk hk255
  have h := scalarBaseMultDigits_rep ff sf hr
  rw [hsum, natCast_zsmul] at h
  exact ⟨_, scalarBaseMult_ok he, P3.rep_iff.mp h⟩

theorem varTimeDouble_spec {a b : W4} {ka kb : ℕ} {A : P3}
    (ha : Scalar.bytes a = LEbytes ka 32) (ha255 : ka < 2 ^ 255)
    (hb : Scalar.bytes b = LEbytes kb 32) (hb255 : kb < 2 ^ 255) (hA : A.Valid) :
    ∃ r, Point.varTimeDoubleScalarBaseMult a A b = .ok r ∧ r.Valid ∧
      r.toEd = ka • A.toEd + kb • basepoint := by
  obtain ⟨hea, hra, hsa⟩ := naf5_facts ha ha255
  obtain ⟨heb, hrb, hsb⟩ := naf8_facts hb hb255
  have h := varTimeDoubleDigits_rep ff sf hra hrb hA.rep
  rw [hsa, hsb, natCast_zsmul, natCast_zsmul] at h
  exact ⟨_, varTimeDouble_ok hea heb, P3.rep_iff.mp h⟩

theorem multiScalarMult_spec (ss : Array W4) (ps : Array P3) (ks : Array ℕ)
    (hs : ss.size = ps.size)
    (hk : ∀ i < ps.size, Scalar.bytes ss[i]! = LEbytes ks[i]! 32 ∧ ks[i]! < 2 ^ 255)
    (hp : ∀ i < ps.size, (ps[i]!).Valid) :
    ∃ r, Point.multiScalarMult ss ps = .ok r ∧ r.Valid ∧
      r.toEd = ∑ i ∈ range ps.size, ks[i]! • (ps[i]!).toEd := by
  have hc : Point.collect (ss.toList.map Scalar.signedRadix16)
      = .ok (ss.map (fun s => radix16OfBytes (Scalar.bytes s))) :=
    collect_ok Scalar.signedRadix16 (fun s => radix16OfBytes (Scalar.bytes s)) ss
      (fun i hi => (radix16_facts (hk i (by omega)).1 (hk i (by omega)).2).1)
  have h := multiScalarMultDigits_rep ff sf
    (digits := ss.map (fun s => radix16OfBytes (Scalar.bytes s))) (points := ps)
    (Q := fun j => (ps[j]!).toEd)
    (fun j hj => by
      rw [getElem!_map _ _ _ (by omega)]
      exact (radix16_facts (hk j hj).1 (hk j hj).2).2.1)
    (fun j hj => (hp j hj).rep)
  have e : ∑ j ∈ range ps.size,
      (∑ i ∈ range 64, ((ss.map (fun s => radix16OfBytes (Scalar.bytes s)))[j]!)[i]! * 16 ^ i) •
        (ps[j]!).toEd = ∑ i ∈ range ps.size, ks[i]! • (ps[i]!).toEd := by
    apply sum_congr rfl
    intro j hj
    have hj' : j < ps.size := mem_range.mp hj
    rw [getElem!_map _ _ _ (by omega), (radix16_facts (hk j hj').1 (hk j hj').2).2.2,
      natCast_zsmul]
  rw [e] at h
  exact ⟨_, multiScalarMult_ok hc, P3.rep_iff.mp h⟩

omit sf in
theorem varTimeMultiScalarMult_spec (ss : Array W4) (ps : Array P3) (ks : Array ℕ)
    (hs : ss.size = ps.size)
    (hk : ∀ i < ps.size, Scalar.bytes ss[i]! = LEbytes ks[i]! 32 ∧ ks[i]! < 2 ^ 255)
    (hp : ∀ i < ps.size, (ps[i]!).Valid) :
    ∃ r, Point.varTimeMultiScalarMult ss ps = .ok r ∧ r.Valid ∧
      r.toEd = ∑ i ∈ range ps.size, ks[i]! • (ps[i]!).toEd := by
  have hc : Point.collect (ss.toList.map (Scalar.nonAdjacentForm · 5))
      = .ok (ss.map (fun s => nafOfBytes (Scalar.bytes s) 5)) :=
    collect_ok (Scalar.nonAdjacentForm · 5) (fun s => nafOfBytes (Scalar.bytes s) 5) ss
      (fun i hi => (naf5_facts (hk i (by omega)).1 (hk i (by omega)).2).1)
  have h := varTimeMultiDigits_rep ff
    (nafs := ss.map (fun s => nafOfBytes (Scalar.bytes s) 5)) (points := ps)
    (Q := fun j => (ps[j]!).toEd) (by rw [Array.size_map, hs])
    (fun j hj => by
      rw [getElem!_map _ _ _ (by omega)]
      exact (naf5_facts (hk j hj).1 (hk j hj).2).2.1)
    (fun j hj => (hp j hj).rep)
  have e : ∑ j ∈ range ps.size,
      (∑ i ∈ range 256, ((ss.map (fun s => nafOfBytes (Scalar.bytes s) 5))[j]!)[i]! * 2 ^ i) •
        (ps[j]!).toEd = ∑ i ∈ range ps.size, ks[i]! • (ps[i]!).toEd := by
    apply sum_congr rfl
    intro j hj
    have hj' : j < ps.size := mem_range.mp hj
    rw [getElem!_map _ _ _ (by omega), (naf5_facts (hk j hj').1 (hk j hj').2).2.2,
      natCast_zsmul]
  rw [e] at h
  exact ⟨_, varTimeMultiScalarMult_ok hc, P3.rep_iff.mp h⟩

end

end EdVerif.Proofs
