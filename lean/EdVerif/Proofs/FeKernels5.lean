import EdVerif.Proofs.FeKernels4
import Mathlib.Tactic.IntervalCases
/-!
C09/C10 kernel layer, part 5: `Element.bytes` (the `|=` loop joining the five 51-bit limbs at bit
offsets `51 i` into 32 little-endian bytes) returns the bytes of the canonical representative.
-/
namespace EdVerif.Proofs
open EdVerif EdVerif.Prims EdVerif.Gen EdVerif.Impl

theorem bytes_get_set! (x : Bytes) (k v i : Nat) :
    (x.set! k v)[i]! = if k = i ∧ k < x.size then v else x[i]! := by
  simp only [Array.set!_eq_setIfInBounds, Array.getElem!_eq_getD, Array.getD_eq_getD_getElem?,
    Array.getElem?_setIfInBounds]
  by_cases h : k = i
  · subst h
    by_cases h2 : k < x.size
    · simp [h2]
    · simp [h2]
  · simp [h]

/-- `orBytesAt` with the running index of `zipIdx` exposed -/
def orFrom (base : Nat) (out : Bytes) (buf : List Nat) (n : Nat) : Bytes :=
  (buf.zipIdx n).foldl (fun out (bb, j) =>
    let off := base + j
    if off ≥ out.size then out else out.set! off (out[off]! ||| bb)) out

theorem orBytesAt_eq (out : Bytes) (base : Nat) (buf : List Nat) :
    Fe.orBytesAt out base buf = orFrom base out buf 0 := rfl

theorem orFrom_nil (base : Nat) (out : Bytes) (n : Nat) : orFrom base out [] n = out := rfl

theorem orFrom_cons (base : Nat) (out : Bytes) (b : Nat) (bs : List Nat) (n : Nat) :
    orFrom base out (b :: bs) n =
      orFrom base (if base + n ≥ out.size then out else out.set! (base + n) (out[base + n]! ||| b)) bs (n + 1) := by
  simp only [orFrom, List.zipIdx_cons, List.foldl_cons]

theorem orFrom_spec (base : Nat) : ∀ (buf : List Nat) (n : Nat) (out : Bytes),
    (orFrom base out buf n).size = out.size ∧
    ∀ i, (orFrom base out buf n)[i]! =
      if base + n ≤ i ∧ i < base + n + buf.length ∧ i < out.size
      then out[i]! ||| buf[i - (base + n)]! else out[i]! := by
  intro buf
  induction buf with
  | nil =>
    intro n out
    refine ⟨rfl, fun i => ?_⟩
    rw [orFrom_nil]
    have : ¬ (base + n ≤ i ∧ i < base + n + ([] : List Nat).length ∧ i < out.size) := by
      simp only [List.length_nil]; omega
    rw [if_neg this]
  | cons b bs ih =>
    intro n out
    rw [orFrom_cons]
    obtain ⟨hs, hg⟩ := ih (n + 1)
      (if base + n ≥ out.size then out else out.set! (base + n) (out[base + n]! ||| b))
    have hsz : (if base + n ≥ out.size then out else out.set! (base + n) (out[base + n]! ||| b)).size
        = out.size := by
      split
      · rfl
      · rw [Array.size_set!]
    refine ⟨hs.trans hsz, fun i => ?_⟩
    rw [hg i, hsz]
    by_cases hoff : base + n ≥ out.size
    · rw [if_pos hoff]
      have h1 : ¬ (base + (n + 1) ≤ i ∧ i < base + (n + 1) + bs.length ∧ i < out.size) := by omega
      have h2 : ¬ (base + n ≤ i ∧ i < base + n + (b :: bs).length ∧ i < out.size) := by omega
      rw [if_neg h1, if_neg h2]
    · rw [if_neg hoff, bytes_get_set!]
      simp only [List.length_cons]
      by_cases hi : base + n = i
      · subst hi
        have h1 : ¬ (base + (n + 1) ≤ base + n ∧ base + n < base + (n + 1) + bs.length ∧ base + n < out.size) := by omega
        have h2 : (base + n ≤ base + n ∧ base + n < base + n + (bs.length + 1) ∧ base + n < out.size) := by omega
        rw [if_neg h1, if_pos h2, if_pos ⟨rfl, by omega⟩, Nat.sub_self]
        rfl
      · have h0 : ¬ (base + n = i ∧ base + n < out.size) := fun h => hi h.1
        rw [if_neg h0]
        by_cases hw : base + (n + 1) ≤ i ∧ i < base + (n + 1) + bs.length ∧ i < out.size
        · have h2 : (base + n ≤ i ∧ i < base + n + (bs.length + 1) ∧ i < out.size) := by omega
          rw [if_pos hw, if_pos h2]
          have e : i - (base + n) = (i - (base + (n + 1))) + 1 := by omega
          rw [e]
          rfl
        · have h2 : ¬ (base + n ≤ i ∧ i < base + n + (bs.length + 1) ∧ i < out.size) := by omega
          rw [if_neg hw, if_neg h2]


theorem putLE64_len (w : Nat) : (Fe.putLE64 w).length = 8 := by
  simp [Fe.putLE64]

theorem putLE64_get (w j : Nat) (hj : j < 8) : (Fe.putLE64 w)[j]! = w / 256^j % 256 := by
  have e : (256 : Nat)^j = 2^(8*j) := by
    rw [show (256 : Nat) = 2^8 by norm_num, ← pow_mul]
  rw [e, ← Nat.shiftRight_eq_div_pow]
  interval_cases j <;> rfl

/-- bits `u` below `sh`, `t` shifted up by `sh`: bytewise the OR is the byte of the sum -/
theorem or_byte (u t sh j : Nat) (hu : u < 2^sh) :
    (u / 256^j % 256) ||| ((t * 2^sh) / 256^j % 256) = (u + t * 2^sh) / 256^j % 256 := by
  have e : (256 : Nat)^j = 2^(8*j) := by
    rw [show (256 : Nat) = 2^8 by norm_num, ← pow_mul]
  have e2 : (256 : Nat) = 2^8 := by norm_num
  have h : u + t * 2^sh = t * 2^sh ||| u := by
    rw [Nat.add_comm, ← Nat.shiftLeft_eq, Nat.shiftLeft_add_eq_or_of_lt hu]
  rw [h, e, e2, Nat.or_div_two_pow, Nat.or_mod_two_pow, Nat.or_comm]


theorem pow256 (j : Nat) : (256 : Nat)^j = 2^(8*j) := by
  rw [show (256 : Nat) = 2^8 by norm_num, ← pow_mul]

/-- bytes below the window are unchanged by adding a multiple of `256^base` -/
theorem byte_low (V M base i : Nat) (hi : i < base) :
    (V + 256^base * M) / 256^i % 256 = V / 256^i % 256 := by
  obtain ⟨d, rfl⟩ : ∃ d, base = i + 1 + d := ⟨base - i - 1, by omega⟩
  have e : 256^(i + 1 + d) * M = 256^i * (256 * (256^d * M)) := by
    rw [pow_add, pow_add, pow_one]; ring
  rw [e, Nat.add_mul_div_left _ _ (Nat.pow_pos (by norm_num)), Nat.add_mul_mod_self_left]

/-- bytes above the window are zero -/
theorem byte_high (V t base sh i : Nat) (hV : V < 2^(8*base + sh)) (ht : t < 2^51) (hsh : sh < 8)
    (hi : base + 8 ≤ i) : (V + t * 2^(8*base+sh)) / 256^i % 256 = 0 ∧ V / 256^i % 256 = 0 := by
  have h1 : V + t * 2^(8*base+sh) < 2^51 * 2^(8*base+sh) := by
    have : t * 2^(8*base+sh) ≤ (2^51 - 1) * 2^(8*base+sh) := Nat.mul_le_mul_right _ (by omega)
    generalize 2^(8*base+sh) = X at *
    omega
  have h2 : 2^51 * 2^(8*base+sh) ≤ 256^i := by
    rw [pow256, ← pow_add]
    exact Nat.pow_le_pow_right (by norm_num) (by omega)
  have h3 : V < 256^i := by
    have : V ≤ V + t * 2^(8*base+sh) := Nat.le_add_right _ _
    omega
  rw [Nat.div_eq_of_lt (by omega), Nat.div_eq_of_lt h3]
  exact ⟨rfl, rfl⟩

/-- bytes inside the window -/
theorem byte_win (V t base sh j : Nat) (hV : V < 2^(8*base + sh)) :
    (V / 256^(base + j) % 256) ||| ((t * 2^sh) / 256^j % 256) =
      (V + t * 2^(8*base+sh)) / 256^(base + j) % 256 := by
  have hu : V / 256^base < 2^sh := by
    apply Nat.div_lt_of_lt_mul
    rw [pow256, ← pow_add]; exact hV
  have e1 : V / 256^(base + j) = V / 256^base / 256^j := by
    rw [pow_add, Nat.div_div_eq_div_mul]
  have e2 : (V + t * 2^(8*base+sh)) / 256^(base + j) = (V / 256^base + t * 2^sh) / 256^j := by
    rw [pow_add 256, ← Nat.div_div_eq_div_mul, pow_add 2, ← pow256]
    have : t * (256^base * 2^sh) = 256^base * (t * 2^sh) := by ring
    rw [this, Nat.add_mul_div_left _ _ (Nat.pow_pos (by norm_num))]
  rw [e1, e2, or_byte _ _ _ _ hu]

theorem step_bytes (out : Bytes) (V t base sh : Nat) (hsz : out.size = 32)
    (hout : ∀ i, i < 32 → out[i]! = V / 256^i % 256) (hV : V < 2^(8*base + sh))
    (ht : t < 2^51) (hsh : sh < 8) :
    (Fe.orBytesAt out base (Fe.putLE64 (U.shl 64 t sh))).size = 32 ∧
    ∀ i, i < 32 → (Fe.orBytesAt out base (Fe.putLE64 (U.shl 64 t sh)))[i]! =
      (V + t * 2^(8*base+sh)) / 256^i % 256 := by
  have hw : U.shl 64 t sh = t * 2^sh := by
    simp only [U.shl, Nat.shiftLeft_eq]
    apply Nat.mod_eq_of_lt
    have h1 : 2^sh ≤ 2^7 := Nat.pow_le_pow_right (by norm_num) (by omega)
    have h2 : t * 2^sh ≤ t * 2^7 := Nat.mul_le_mul_left _ h1
    omega
  rw [hw, orBytesAt_eq]
  obtain ⟨hs, hg⟩ := orFrom_spec base (Fe.putLE64 (t * 2^sh)) 0 out
  refine ⟨hs.trans hsz, fun i hi => ?_⟩
  rw [hg i, putLE64_len, hsz, Nat.add_zero]
  by_cases hwin : base ≤ i ∧ i < base + 8 ∧ i < 32
  · rw [if_pos hwin]
    obtain ⟨j, rfl⟩ : ∃ j, i = base + j := ⟨i - base, by omega⟩
    rw [hout _ hi, Nat.add_sub_cancel_left, putLE64_get _ j (by omega)]
    exact byte_win V t base sh j hV
  · rw [if_neg hwin, hout i hi]
    by_cases hlo : i < base
    · have e : t * 2^(8*base+sh) = 256^base * (t * 2^sh) := by
        rw [pow_add, ← pow256]; ring
      rw [e, byte_low _ _ _ _ hlo]
    · obtain ⟨h1, h2⟩ := byte_high V t base sh i hV ht hsh (by omega)
      rw [h1, h2]


theorem zeros_get (i : Nat) (hi : i < 32) : (Bin.zeros 32)[i]! = 0 := by
  have h : i < (Array.replicate 32 0 : Array Nat).size := by rw [Array.size_replicate]; exact hi
  show (Array.replicate 32 0 : Array Nat)[i]! = 0
  rw [getElem!_pos (Array.replicate 32 0 : Array Nat) i h, Array.getElem_replicate]

theorem bytes_spec' {a : Prims.Fe} (ha : U64 a) :
    (Fe.bytes a).size = 32 ∧ ∀ i, i < 32 → (Fe.bytes a)[i]! = (val a % P) / 256^i % 256 := by
  obtain ⟨hl, hv⟩ := reduce_spec' ha
  rw [← hv]
  simp only [Fe.bytes, List.zipIdx_cons, List.zipIdx_nil, List.foldl_cons, List.foldl_nil]
  generalize Fe.reduce a = t at *
  obtain ⟨t0, t1, t2, t3, t4⟩ := t
  obtain ⟨h0, h1, h2, h3, h4⟩ := hl
  simp only at h0 h1 h2 h3 h4
  simp only [Nat.reduceAdd, Nat.reduceMul, Nat.reduceDiv, Nat.reduceMod]
  have z : ∀ i, i < 32 → (Bin.zeros 32)[i]! = 0 / 256^i % 256 := fun i hi => by
    rw [zeros_get i hi, Nat.zero_div]
  have zs : (Bin.zeros 32).size = 32 := Array.size_replicate
  obtain ⟨s0, g0⟩ := step_bytes (Bin.zeros 32) 0 t0 0 0 zs z (by norm_num) h0 (by norm_num)
  have e0 : 0 + t0 * 2^(8*0+0) = t0 := by norm_num
  rw [e0] at g0
  obtain ⟨s1, g1⟩ := step_bytes _ t0 t1 6 3 s0 g0 (by norm_num; exact h0) h1 (by norm_num)
  obtain ⟨s2, g2⟩ := step_bytes _ _ t2 12 6 s1 g1 (by norm_num; omega) h2 (by norm_num)
  obtain ⟨s3, g3⟩ := step_bytes _ _ t3 19 1 s2 g2 (by norm_num; omega) h3 (by norm_num)
  obtain ⟨s4, g4⟩ := step_bytes _ _ t4 25 4 s3 g3 (by norm_num; omega) h4 (by norm_num)
  refine ⟨s4, fun i hi => ?_⟩
  rw [g4 i hi]
  simp only [Fe.val]

theorem bytes_spec {a : Prims.Fe} (ha : Inv a) :
    (Fe.bytes a).size = 32 ∧ ∀ i, i < 32 → (Fe.bytes a)[i]! = (val a % P) / 256^i % 256 :=
  bytes_spec' (inv_U64 ha)


/-! ### consequences: round trip, dependence on the residue only -/

theorem LEpre_digits (x : Bytes) (N : Nat) :
    ∀ n, (∀ i, i < n → x[i]! = N / 256^i % 256) → LEpre x n = N % 256^n := by
  intro n
  induction n with
  | zero => intro _; simp [LEpre, Nat.mod_one]
  | succ n ih =>
    intro h
    simp only [LEpre]
    rw [ih (fun i hi => h i (Nat.lt_succ_of_lt hi)), h n (Nat.lt_succ_self n), Nat.mod_pow_succ]
    ring

/-- the little-endian value of `bytes a` is the canonical representative -/
theorem LEsum_bytes {a : Prims.Fe} (ha : U64 a) : LEsum (Fe.bytes a) = val a % P := by
  obtain ⟨hs, hg⟩ := bytes_spec' ha
  rw [LEsum, hs, LEpre_digits _ _ 32 hg]
  apply Nat.mod_eq_of_lt
  have h : val a % P < P := Nat.mod_lt _ P_pos
  simp only [P, EdVerif.P] at *
  omega

theorem bytes_lt256 {a : Prims.Fe} (ha : U64 a) (i : Nat) (hi : i < 32) : (Fe.bytes a)[i]! < 256 := by
  rw [(bytes_spec' ha).2 i hi]
  exact Nat.mod_lt _ (by norm_num)

/-- `bytes` factors through `reduce` -/
theorem bytes_congr {a b : Prims.Fe} (ha : U64 a) (hb : U64 b) (h : val a ≡ val b [MOD P]) :
    Fe.bytes a = Fe.bytes b := by
  have e : Fe.reduce a = Fe.reduce b := reduce_congr ha hb h
  simp only [Fe.bytes, e]

/-- decoding the encoding gives the reduced element -/
theorem setBytes_bytes {a : Prims.Fe} (ha : U64 a) : Fe.setBytes (Fe.bytes a) = some (Fe.reduce a) := by
  obtain ⟨hs, _⟩ := bytes_spec' ha
  obtain ⟨e, he, hl, hv⟩ := setBytes_spec (Fe.bytes a) hs (bytes_lt256 ha)
  obtain ⟨rl, rv⟩ := reduce_spec' ha
  rw [he]
  refine congrArg some (val_inj_lt51 hl rl ?_)
  rw [hv, rv, LEsum_bytes ha]
  apply Nat.mod_eq_of_lt
  have h : val a % P < P := Nat.mod_lt _ P_pos
  simp only [P, EdVerif.P] at *
  omega

/-- `IsNegative` is the parity of the canonical representative -/
theorem isNegative_spec {a : Prims.Fe} (ha : U64 a) : Fe.isNegative a = val a % P % 2 := by
  simp only [Fe.isNegative]
  rw [(bytes_spec' ha).2 0 (by norm_num), pow_zero, Nat.div_one]
  have e : (1 : Nat) = 2^1 - 1 := by norm_num
  rw [e, Nat.and_two_pow_sub_one_eq_mod]
  omega

end EdVerif.Proofs
