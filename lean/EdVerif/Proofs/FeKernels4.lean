import EdVerif.Proofs.FeKernels3
/-!
C09/C10 kernel layer, part 4: `SetBytes` / `SetWideBytes` against the little-endian value of the
input bytes.

`LEsum x = Σ_{i < x.size} x[i]! * 256^i`, defined through the prefix sums `LEpre x n = Σ_{i<n} x[i]! * 256^i`.
-/
namespace EdVerif.Proofs
open EdVerif EdVerif.Prims EdVerif.Gen EdVerif.Impl

/-- `Σ_{i < n} x[i]! * 256^i` -/
def LEpre (x : Bytes) : Nat → Nat
  | 0 => 0
  | n+1 => LEpre x n + x[n]! * 256^n

/-- little-endian value of a byte string: `Σ_{i < x.size} x[i]! * 256^i` -/
def LEsum (x : Bytes) : Nat := LEpre x x.size

theorem LEpre_lt (x : Bytes) (n : Nat) (hb : ∀ i, i < n → x[i]! < 256) : LEpre x n < 256^n := by
  induction n with
  | zero => simp [LEpre]
  | succ n ih =>
    have h1 := ih (fun i hi => hb i (Nat.lt_succ_of_lt hi))
    have h2 := hb n (Nat.lt_succ_self n)
    simp only [LEpre, pow_succ]
    have h3 : x[n]! * 256^n ≤ 255 * 256^n := Nat.mul_le_mul_right _ (by omega)
    generalize x[n]! * 256^n = q at *
    generalize 256^n = p at *
    omega

/-- the prefix sums only depend on the bytes read -/
theorem LEpre_congr (x y : Bytes) (n : Nat) (h : ∀ i, i < n → x[i]! = y[i]!) :
    LEpre x n = LEpre y n := by
  induction n with
  | zero => rfl
  | succ n ih =>
    simp only [LEpre]
    rw [ih (fun i hi => h i (Nat.lt_succ_of_lt hi)), h n (Nat.lt_succ_self n)]

/-- splitting at `m`: the tail is the prefix sum of the shifted string -/
theorem LEpre_add (x y : Bytes) (m n : Nat) (h : ∀ i, i < n → y[i]! = x[m + i]!) :
    LEpre x (m + n) = LEpre x m + 256^m * LEpre y n := by
  induction n with
  | zero => simp [LEpre]
  | succ n ih =>
    rw [← Nat.add_assoc]
    simp only [LEpre]
    rw [ih (fun i hi => h i (Nat.lt_succ_of_lt hi)), h n (Nat.lt_succ_self n), pow_add]
    ring

theorem LEpre_split (x : Bytes) (m k : Nat) :
    ∃ Hi, LEpre x (m + k) = LEpre x m + 256^m * Hi := by
  induction k with
  | zero => exact ⟨0, by simp⟩
  | succ k ih =>
    obtain ⟨Hi, e⟩ := ih
    refine ⟨Hi + x[m + k]! * 256^k, ?_⟩
    rw [← Nat.add_assoc]
    simp only [LEpre]
    rw [e, pow_add]
    ring

theorem LEpre_le64 (x : Bytes) (a : Nat) : LEpre x (a + 8) = LEpre x a + 256^a * Bin.le64 x a := by
  simp only [LEpre, Bin.le64, pow_succ, Nat.add_assoc]
  norm_num
  ring

/-- the 64-bit window read at byte `a` sits at bit `8a` of the prefix sum -/
theorem window_div (x : Bytes) (a n : Nat) (hn : a + 8 ≤ n) (hb : ∀ i, i < a → x[i]! < 256) :
    ∃ Hi, LEpre x n / 256^a = Bin.le64 x a + 2^64 * Hi := by
  obtain ⟨k, rfl⟩ := Nat.exists_eq_add_of_le hn
  obtain ⟨Hi, e⟩ := LEpre_split x (a + 8) k
  refine ⟨Hi, ?_⟩
  have hlt := LEpre_lt x a hb
  rw [e, LEpre_le64, pow_add]
  have e2 : LEpre x a + 256^a * Bin.le64 x a + 256^a * 256^8 * Hi =
      LEpre x a + 256^a * (Bin.le64 x a + 2^64 * Hi) := by ring
  rw [e2, Nat.add_mul_div_left _ _ (Nat.pow_pos (by norm_num)), Nat.div_eq_of_lt hlt, Nat.zero_add]


/-! ### SetBytes -/

/- Unfolding `U.and` by its (rfl) equation lemma on the non-atomic argument `Bin.le64 x a` makes the
kernel diverge (it ends up unfolding `Nat.land`); these propositional forms avoid that. -/
theorem uand_mask51 (a : Nat) : U.and 64 a 2251799813685247 = a % 2^51 := and_mask51 a
theorem ushr_div (w a k : Nat) : U.shr w a k = a / 2^k := Nat.shiftRight_eq_div_pow a k

theorem limb_ex0 (N W Hi : Nat) (h : N / 256^0 = W + 2^64 * Hi) : W % 2^51 = N % 2^51 := by
  omega
theorem limb_ex1 (N W Hi : Nat) (h : N / 256^6 = W + 2^64 * Hi) :
    W / 2^3 % 2^51 = N / 2^51 % 2^51 := by
  omega
theorem limb_ex2 (N W Hi : Nat) (h : N / 256^12 = W + 2^64 * Hi) :
    W / 2^6 % 2^51 = N / 2^102 % 2^51 := by
  omega
theorem limb_ex3 (N W Hi : Nat) (h : N / 256^19 = W + 2^64 * Hi) :
    W / 2^1 % 2^51 = N / 2^153 % 2^51 := by
  omega
theorem limb_ex4 (N W Hi : Nat) (h : N / 256^24 = W + 2^64 * Hi) :
    W / 2^12 % 2^51 = N / 2^204 % 2^51 := by
  omega

theorem digits51 (N : Nat) :
    N % 2^51 + N / 2^51 % 2^51 * 2^51 + N / 2^102 % 2^51 * 2^102 + N / 2^153 % 2^51 * 2^153 +
      N / 2^204 % 2^51 * 2^204 = N % 2^255 := by
  omega

/-- the kernel `SetBytes` reads bits `51k .. 51k+50` of the 32-byte little-endian value -/
theorem SetBytes_eq (v : Prims.Fe) (x : Bytes) (hb : ∀ i, i < 32 → x[i]! < 256) :
    Field.SetBytes v x = ⟨LEpre x 32 % 2^51, LEpre x 32 / 2^51 % 2^51, LEpre x 32 / 2^102 % 2^51,
      LEpre x 32 / 2^153 % 2^51, LEpre x 32 / 2^204 % 2^51⟩ := by
  obtain ⟨H0, e0⟩ := window_div x 0 32 (by omega) (fun i hi => hb i (by omega))
  obtain ⟨H1, e1⟩ := window_div x 6 32 (by omega) (fun i hi => hb i (by omega))
  obtain ⟨H2, e2⟩ := window_div x 12 32 (by omega) (fun i hi => hb i (by omega))
  obtain ⟨H3, e3⟩ := window_div x 19 32 (by omega) (fun i hi => hb i (by omega))
  obtain ⟨H4, e4⟩ := window_div x 24 32 (by omega) (fun i hi => hb i (by omega))
  simp only [Field.SetBytes, uand_mask51, ushr_div]
  rw [limb_ex0 _ _ _ e0, limb_ex1 _ _ _ e1, limb_ex2 _ _ _ e2, limb_ex3 _ _ _ e3, limb_ex4 _ _ _ e4]

theorem SetBytes_spec (v : Prims.Fe) (x : Bytes) (hb : ∀ i, i < 32 → x[i]! < 256) :
    Lt51 (Field.SetBytes v x) ∧ val (Field.SetBytes v x) = LEpre x 32 % 2^255 := by
  rw [SetBytes_eq v x hb]
  refine ⟨⟨Nat.mod_lt _ (by norm_num), Nat.mod_lt _ (by norm_num), Nat.mod_lt _ (by norm_num),
    Nat.mod_lt _ (by norm_num), Nat.mod_lt _ (by norm_num)⟩, ?_⟩
  simp only [Fe.val]
  exact digits51 _

theorem setBytes_spec (x : Bytes) (hx : x.size = 32) (hb : ∀ i, i < 32 → x[i]! < 256) :
    ∃ e, Fe.setBytes x = some e ∧ Lt51 e ∧ val e = LEsum x % 2^255 := by
  refine ⟨Field.SetBytes Fe.rz x, ?_, ?_⟩
  · simp [Fe.setBytes, hx, Field.SetBytes_reqLen]
  · have h := SetBytes_spec Fe.rz x hb
    rw [LEsum, hx]
    exact h

theorem fe_setBytes_none (x : Bytes) (hx : x.size ≠ 32) : Fe.setBytes x = none := by
  simp [Fe.setBytes, hx, Field.SetBytes_reqLen]


/-! ### SetWideBytes -/

theorem extract_get (x : Bytes) (s e i : Nat) (h : s + i < min e x.size) :
    (x.extract s e)[i]! = x[s + i]! := by
  have h1 : i < (x.extract s e).size := by rw [Array.size_extract]; omega
  have h2 : s + i < x.size := by omega
  rw [getElem!_pos (x.extract s e) i h1, getElem!_pos x (s + i) h2, Array.getElem_extract]

/-- the top bit of a 32-byte string -/
theorem msb_eq (y : Bytes) (hb : ∀ i, i < 32 → y[i]! < 256) :
    y[31]! / 2^7 = LEpre y 32 / 2^255 ∧ LEpre y 32 < 2^256 := by
  have h1 := LEpre_lt y 31 (fun i hi => hb i (by omega))
  have h2 := hb 31 (by omega)
  have e : LEpre y 32 = LEpre y 31 + y[31]! * 256^31 := rfl
  rw [e]
  generalize LEpre y 31 = A at *
  generalize y[31]! = t at *
  omega

theorem wide_nowrap (L0 L1 L2 L3 L4 H0 H1 H2 H3 H4 ml mh : Nat)
    (l0 : L0 < 2^51) (l1 : L1 < 2^51) (l2 : L2 < 2^51) (l3 : L3 < 2^51) (l4 : L4 < 2^51)
    (h0 : H0 < 2^51) (h1 : H1 < 2^51) (h2 : H2 < 2^51) (h3 : H3 < 2^51) (h4 : H4 < 2^51)
    (hml : ml ≤ 1) (hmh : mh ≤ 1) :
    (((L0 + ml * 19 % 2^64) % 2^64 + H0 * 2 % 2^64 * 19 % 2^64) % 2^64 +
        mh * 2 % 2^64 * 19 % 2^64 * 19 % 2^64) % 2^64 = L0 + ml * 19 + H0 * 38 + mh * 722 ∧
    (L1 + H1 * 2 % 2^64 * 19 % 2^64) % 2^64 = L1 + H1 * 38 ∧
    (L2 + H2 * 2 % 2^64 * 19 % 2^64) % 2^64 = L2 + H2 * 38 ∧
    (L3 + H3 * 2 % 2^64 * 19 % 2^64) % 2^64 = L3 + H3 * 38 ∧
    (L4 + H4 * 2 % 2^64 * 19 % 2^64) % 2^64 = L4 + H4 * 38 := by
  refine ⟨?_, ?_, ?_, ?_, ?_⟩ <;> omega

theorem wide_sum (Nlo Nhi : Nat) (_hlo : Nlo < 2^256) (_hhi : Nhi < 2^256) :
    (Nlo % 2^51 + Nlo / 2^255 * 19 + Nhi % 2^51 * 38 + Nhi / 2^255 * 722) +
      (Nlo / 2^51 % 2^51 + Nhi / 2^51 % 2^51 * 38) * 2^51 +
      (Nlo / 2^102 % 2^51 + Nhi / 2^102 % 2^51 * 38) * 2^102 +
      (Nlo / 2^153 % 2^51 + Nhi / 2^153 % 2^51 * 38) * 2^153 +
      (Nlo / 2^204 % 2^51 + Nhi / 2^204 % 2^51 * 38) * 2^204 +
      (Nlo / 2^255 + 2 * Nhi + 38 * (Nhi / 2^255)) * (2^255 - 19) = Nlo + 256^32 * Nhi := by
  have d1 := digits51 Nlo
  have d2 := digits51 Nhi
  omega

theorem SetWideBytes_spec (v : Prims.Fe) (x : Bytes) (hx : x.size = 64)
    (hb : ∀ i, i < 64 → x[i]! < 256) :
    Tight (Field.SetWideBytes v x) ∧ val (Field.SetWideBytes v x) ≡ LEsum x [MOD P] := by
  have glo : ∀ i, i < 32 → (Bin.slice x 0 32)[i]! = x[i]! := by
    intro i hi
    have h := extract_get x 0 32 i (by omega)
    rw [Nat.zero_add] at h
    exact h
  have ghi : ∀ i, i < 32 → (Bin.slice x 32 x.size)[i]! = x[32 + i]! := by
    intro i hi
    exact extract_get x 32 x.size i (by omega)
  have blo : ∀ i, i < 32 → (Bin.slice x 0 32)[i]! < 256 := fun i hi => by
    rw [glo i hi]; exact hb i (by omega)
  have bhi : ∀ i, i < 32 → (Bin.slice x 32 x.size)[i]! < 256 := fun i hi => by
    rw [ghi i hi]; exact hb _ (by omega)
  have hlo := SetBytes_eq ⟨0, 0, 0, 0, 0⟩ (Bin.slice x 0 32) blo
  have hhi := SetBytes_eq ⟨0, 0, 0, 0, 0⟩ (Bin.slice x 32 x.size) bhi
  obtain ⟨mlo, nlo⟩ := msb_eq _ blo
  obtain ⟨mhi, nhi⟩ := msb_eq _ bhi
  rw [glo 31 (by omega)] at mlo
  rw [ghi 31 (by omega)] at mhi
  have hN : LEsum x = LEpre (Bin.slice x 0 32) 32 + 256^32 * LEpre (Bin.slice x 32 x.size) 32 := by
    have e1 : LEsum x = LEpre x (32 + 32) := by rw [LEsum, hx]
    rw [e1, LEpre_add x _ 32 32 ghi, LEpre_congr _ x 32 glo]
  simp only [Field.SetWideBytes, hlo, hhi, U.add, U.mul, ushr_div]
  rw [mlo, mhi, hN]
  clear hlo hhi mlo mhi hN glo ghi blo bhi
  generalize LEpre (Bin.slice x 0 32) 32 = Nlo at *
  generalize LEpre (Bin.slice x 32 x.size) 32 = Nhi at *
  have m51 : ∀ n : Nat, n % 2^51 < 2^51 := fun n => Nat.mod_lt _ (by norm_num)
  have ml : Nlo / 2^255 ≤ 1 := by omega
  have mh : Nhi / 2^255 ≤ 1 := by omega
  obtain ⟨w0, w1, w2, w3, w4⟩ := wide_nowrap _ _ _ _ _ _ _ _ _ _ _ _ (m51 Nlo) (m51 (Nlo / 2^51))
    (m51 (Nlo / 2^102)) (m51 (Nlo / 2^153)) (m51 (Nlo / 2^204)) (m51 Nhi) (m51 (Nhi / 2^51))
    (m51 (Nhi / 2^102)) (m51 (Nhi / 2^153)) (m51 (Nhi / 2^204)) ml mh
  rw [w0, w1, w2, w3, w4]
  have hs := wide_sum Nlo Nhi nlo nhi
  have b0 := m51 Nlo; have b1 := m51 (Nlo / 2^51); have b2 := m51 (Nlo / 2^102)
  have b3 := m51 (Nlo / 2^153); have b4 := m51 (Nlo / 2^204)
  have c0 := m51 Nhi; have c1 := m51 (Nhi / 2^51); have c2 := m51 (Nhi / 2^102)
  have c3 := m51 (Nhi / 2^153); have c4 := m51 (Nhi / 2^204)
  obtain ⟨ht, hc⟩ := carryGeneric_spec ⟨Nlo % 2^51 + Nlo / 2^255 * 19 + Nhi % 2^51 * 38 + Nhi / 2^255 * 722,
    Nlo / 2^51 % 2^51 + Nhi / 2^51 % 2^51 * 38, Nlo / 2^102 % 2^51 + Nhi / 2^102 % 2^51 * 38,
    Nlo / 2^153 % 2^51 + Nhi / 2^153 % 2^51 * 38, Nlo / 2^204 % 2^51 + Nhi / 2^204 % 2^51 * 38⟩
    (by simp only [U64]; clear hs w0 w1 w2 w3 w4; refine ⟨?_, ?_, ?_, ?_, ?_⟩ <;> omega)
  refine ⟨ht, hc.trans ?_⟩
  simp only [Fe.val]
  rw [← hs]
  unfold Nat.ModEq
  simp only [P, EdVerif.P]
  rw [Nat.add_mul_mod_self_right]

theorem setWideBytes_spec (x : Bytes) (hx : x.size = 64) (hb : ∀ i, i < 64 → x[i]! < 256) :
    ∃ e, Fe.setWideBytes x = some e ∧ Tight e ∧ val e ≡ LEsum x [MOD P] := by
  refine ⟨Field.SetWideBytes Fe.rz x, ?_, SetWideBytes_spec Fe.rz x hx hb⟩
  simp [Fe.setWideBytes, hx, Field.SetWideBytes_reqLen]

theorem fe_setWideBytes_none (x : Bytes) (hx : x.size ≠ 64) : Fe.setWideBytes x = none := by
  simp [Fe.setWideBytes, hx, Field.SetWideBytes_reqLen]

end EdVerif.Proofs
