import EdVerif.Proofs.FeKernels2
/-!
C09/C10 kernel layer, part 3: the final reduction `reduce` (canonical representative) and `Mult32`.
-/
namespace EdVerif.Proofs
open EdVerif EdVerif.Prims EdVerif.Gen EdVerif.Impl

/-- all limbs `< 2^51` -/
def Lt51 (e : Prims.Fe) : Prop :=
  e.l0 < 2^51 ∧ e.l1 < 2^51 ∧ e.l2 < 2^51 ∧ e.l3 < 2^51 ∧ e.l4 < 2^51

theorem lt51_tight {e : Prims.Fe} (h : Lt51 e) : Tight e := by
  obtain ⟨l0, l1, l2, l3, l4⟩ := e
  simp only [Lt51, Tight, Fe.Tight] at *
  omega

theorem lt51_val_lt {e : Prims.Fe} (h : Lt51 e) : val e < 2^255 := by
  obtain ⟨l0, l1, l2, l3, l4⟩ := e
  simp only [Lt51, Fe.val] at *
  omega

/-! ### nested carry chains -/

theorem carry_step (a S M N : Nat) (hM : 0 < M) : (a + S / M) / N = (S + a * M) / (M * N) := by
  rw [← Nat.div_div_eq_div_mul, Nat.add_mul_div_right _ _ hM, Nat.add_comm]

theorem chain5 (t0 t1 t2 t3 t4 k : Nat) :
    (t4 + (t3 + (t2 + (t1 + (t0 + k) / 2^51) / 2^51) / 2^51) / 2^51) / 2^51 =
      (t0 + t1 * 2^51 + t2 * 2^102 + t3 * 2^153 + t4 * 2^204 + k) / 2^255 := by
  have s1 : (t1 + (t0 + k) / 2^51) / 2^51 = (t0 + k + t1 * 2^51) / 2^102 := by
    rw [carry_step _ _ _ _ (by norm_num), ← pow_add]
  have s2 : (t2 + (t0 + k + t1 * 2^51) / 2^102) / 2^51 = (t0 + k + t1 * 2^51 + t2 * 2^102) / 2^153 := by
    rw [carry_step _ _ _ _ (by norm_num), ← pow_add]
  have s3 : (t3 + (t0 + k + t1 * 2^51 + t2 * 2^102) / 2^153) / 2^51 =
      (t0 + k + t1 * 2^51 + t2 * 2^102 + t3 * 2^153) / 2^204 := by
    rw [carry_step _ _ _ _ (by norm_num), ← pow_add]
  have s4 : (t4 + (t0 + k + t1 * 2^51 + t2 * 2^102 + t3 * 2^153) / 2^204) / 2^51 =
      (t0 + k + t1 * 2^51 + t2 * 2^102 + t3 * 2^153 + t4 * 2^204) / 2^255 := by
    rw [carry_step _ _ _ _ (by norm_num), ← pow_add]
  rw [s1, s2, s3, s4]
  congr 1
  ring

theorem step_nowrap (t c : Nat) (ht : t < 2^52) (hc : c ≤ 19) :
    (t + c) % 2^64 = t + c ∧ (t + c) / 2^51 ≤ 2 := by
  omega

theorem reduce_sum (t0 t1 t2 t3 t4 c m0 m1 m2 m3 m4 : Nat)
    (e0 : m0 = t0 + 19 * c) (e1 : m1 = t1 + m0 / 2^51) (e2 : m2 = t2 + m1 / 2^51)
    (e3 : m3 = t3 + m2 / 2^51) (e4 : m4 = t4 + m3 / 2^51) :
    m0 % 2^51 + m1 % 2^51 * 2^51 + m2 % 2^51 * 2^102 + m3 % 2^51 * 2^153 + m4 % 2^51 * 2^204 +
      m4 / 2^51 * 2^255 = t0 + t1 * 2^51 + t2 * 2^102 + t3 * 2^153 + t4 * 2^204 + 19 * c := by
  omega

theorem reduce_mod (T c D O : Nat) (hT : T < 2^255 + 2^218)
    (hc : c = (T + 19) / 2^255) (hd : D = (T + 19 * c) / 2^255) (hO : O + D * 2^255 = T + 19 * c) :
    O = T % (2^255 - 19) := by
  have hc1 : c = 0 ∨ c = 1 := by omega
  rcases hc1 with h | h
  · subst h; omega
  · subst h; omega

/-- the arithmetic heart of `reduce`, on five limbs that came out of a carry chain -/
theorem reduce_final (t0 t1 t2 t3 t4 c m0 m1 m2 m3 m4 : Nat)
    (h0 : t0 < 2^51 + 2^18) (h1 : t1 < 2^51 + 2^13) (h2 : t2 < 2^51 + 2^13)
    (h3 : t3 < 2^51 + 2^13) (h4 : t4 < 2^51 + 2^13)
    (hc : c = (t0 + t1 * 2^51 + t2 * 2^102 + t3 * 2^153 + t4 * 2^204 + 19) / 2^255)
    (e0 : m0 = t0 + 19 * c) (e1 : m1 = t1 + m0 / 2^51) (e2 : m2 = t2 + m1 / 2^51)
    (e3 : m3 = t3 + m2 / 2^51) (e4 : m4 = t4 + m3 / 2^51)
    (hd : m4 / 2^51 = (t0 + t1 * 2^51 + t2 * 2^102 + t3 * 2^153 + t4 * 2^204 + 19 * c) / 2^255) :
    m0 % 2^51 + m1 % 2^51 * 2^51 + m2 % 2^51 * 2^102 + m3 % 2^51 * 2^153 + m4 % 2^51 * 2^204 =
      (t0 + t1 * 2^51 + t2 * 2^102 + t3 * 2^153 + t4 * 2^204) % (2^255 - 19) := by
  have hs := reduce_sum t0 t1 t2 t3 t4 c m0 m1 m2 m3 m4 e0 e1 e2 e3 e4
  have hT : t0 + t1 * 2^51 + t2 * 2^102 + t3 * 2^153 + t4 * 2^204 < 2^255 + 2^218 := by omega
  exact reduce_mod _ c _ _ hT hc hd hs

theorem reduce_arith (t0 t1 t2 t3 t4 : Nat)
    (h0 : t0 < 2^51 + 2^18) (h1 : t1 < 2^51 + 2^13) (h2 : t2 < 2^51 + 2^13)
    (h3 : t3 < 2^51 + 2^13) (h4 : t4 < 2^51 + 2^13)
    (c0 c1 c2 c3 c4 m0 m1 m2 m3 m4 : Nat)
    (hc0 : c0 = (t0 + 19) % 2^64 / 2^51) (hc1 : c1 = (t1 + c0) % 2^64 / 2^51)
    (hc2 : c2 = (t2 + c1) % 2^64 / 2^51) (hc3 : c3 = (t3 + c2) % 2^64 / 2^51)
    (hc4 : c4 = (t4 + c3) % 2^64 / 2^51)
    (e0 : m0 = (t0 + 19 * c4 % 2^64) % 2^64) (e1 : m1 = (t1 + m0 / 2^51) % 2^64)
    (e2 : m2 = (t2 + m1 / 2^51) % 2^64) (e3 : m3 = (t3 + m2 / 2^51) % 2^64)
    (e4 : m4 = (t4 + m3 / 2^51) % 2^64) :
    m0 % 2^51 + m1 % 2^51 * 2^51 + m2 % 2^51 * 2^102 + m3 % 2^51 * 2^153 + m4 % 2^51 * 2^204 =
      (t0 + t1 * 2^51 + t2 * 2^102 + t3 * 2^153 + t4 * 2^204) % (2^255 - 19) := by
  have b0 : t0 < 2^52 := by omega
  have b1 : t1 < 2^52 := by omega
  have b2 : t2 < 2^52 := by omega
  have b3 : t3 < 2^52 := by omega
  have b4 : t4 < 2^52 := by omega
  -- first chain
  obtain ⟨w0, k0⟩ := step_nowrap t0 19 b0 (by omega)
  rw [w0] at hc0
  obtain ⟨w1, k1⟩ := step_nowrap t1 c0 b1 (by omega)
  rw [w1] at hc1
  obtain ⟨w2, k2⟩ := step_nowrap t2 c1 b2 (by omega)
  rw [w2] at hc2
  obtain ⟨w3, k3⟩ := step_nowrap t3 c2 b3 (by omega)
  rw [w3] at hc3
  obtain ⟨w4, k4⟩ := step_nowrap t4 c3 b4 (by omega)
  rw [w4] at hc4
  have hc : c4 = (t0 + t1 * 2^51 + t2 * 2^102 + t3 * 2^153 + t4 * 2^204 + 19) / 2^255 := by
    rw [hc4, hc3, hc2, hc1, hc0, chain5]
  have c4le : c4 ≤ 1 := by
    clear hc0 hc1 hc2 hc3 hc4 e0 e1 e2 e3 e4 w0 w1 w2 w3 w4 k0 k1 k2 k3 k4
    omega
  clear hc0 hc1 hc2 hc3 hc4 w0 w1 w2 w3 w4 k0 k1 k2 k3 k4
  -- second chain
  have x0 : 19 * c4 % 2^64 = 19 * c4 := by omega
  rw [x0] at e0
  obtain ⟨y0, j0⟩ := step_nowrap t0 (19 * c4) b0 (by omega)
  rw [y0] at e0
  obtain ⟨y1, j1⟩ := step_nowrap t1 (m0 / 2^51) b1 (by omega)
  rw [y1] at e1
  obtain ⟨y2, j2⟩ := step_nowrap t2 (m1 / 2^51) b2 (by omega)
  rw [y2] at e2
  obtain ⟨y3, j3⟩ := step_nowrap t3 (m2 / 2^51) b3 (by omega)
  rw [y3] at e3
  obtain ⟨y4, j4⟩ := step_nowrap t4 (m3 / 2^51) b4 (by omega)
  rw [y4] at e4
  have hd : m4 / 2^51 =
      (t0 + t1 * 2^51 + t2 * 2^102 + t3 * 2^153 + t4 * 2^204 + 19 * c4) / 2^255 := by
    rw [e4, e3, e2, e1, e0, chain5]
  exact reduce_final t0 t1 t2 t3 t4 c4 m0 m1 m2 m3 m4 h0 h1 h2 h3 h4 hc e0 e1 e2 e3 e4 hd


/-! ### reduce -/

/-- `reduce` returns the canonical representative; `uint64` limbs suffice (it carries first) -/
theorem reduce_spec' {a : Prims.Fe} (ha : U64 a) :
    Lt51 (Fe.reduce a) ∧ val (Fe.reduce a) = val a % P := by
  obtain ⟨ht, hv⟩ := carryGeneric_spec a ha
  rw [← carryPropagate_eq_generic] at ht hv
  unfold Nat.ModEq at hv
  rw [← hv]
  simp only [Fe.reduce, Field.reduce, U.shr, U.add, U.and, U.mul, and_mask51,
    Nat.shiftRight_eq_div_pow]
  generalize Field.carryPropagate a = t at *
  obtain ⟨t0, t1, t2, t3, t4⟩ := t
  obtain ⟨h0, h1, h2, h3, h4⟩ := ht
  simp only at h0 h1 h2 h3 h4
  refine ⟨⟨Nat.mod_lt _ (by norm_num), Nat.mod_lt _ (by norm_num), Nat.mod_lt _ (by norm_num),
    Nat.mod_lt _ (by norm_num), Nat.mod_lt _ (by norm_num)⟩, ?_⟩
  simp only [Fe.val, P, EdVerif.P]
  exact reduce_arith t0 t1 t2 t3 t4 h0 h1 h2 h3 h4 _ _ _ _ _ _ _ _ _ _ rfl rfl rfl rfl rfl
    rfl rfl rfl rfl rfl

theorem reduce_spec {a : Prims.Fe} (ha : Inv a) :
    Lt51 (Fe.reduce a) ∧ val (Fe.reduce a) = val a % P :=
  reduce_spec' (inv_U64 ha)

theorem P_pos : 0 < P := by simp only [P, EdVerif.P]; omega

theorem reduce_canonical {a : Prims.Fe} (ha : U64 a) : val (Fe.reduce a) < P := by
  rw [(reduce_spec' ha).2]
  exact Nat.mod_lt _ P_pos

/-- limbs `< 2^51` determine the element: `val` is injective on `Lt51` -/
theorem val_inj_lt51 {a b : Prims.Fe} (ha : Lt51 a) (hb : Lt51 b) (h : val a = val b) : a = b := by
  obtain ⟨a0, a1, a2, a3, a4⟩ := a
  obtain ⟨b0, b1, b2, b3, b4⟩ := b
  simp only [Lt51, Fe.val] at *
  have e0 : a0 = b0 := by omega
  have e1 : a1 = b1 := by omega
  have e2 : a2 = b2 := by omega
  have e3 : a3 = b3 := by omega
  have e4 : a4 = b4 := by omega
  rw [e0, e1, e2, e3, e4]

/-- congruent inputs reduce to the same limbs -/
theorem reduce_congr {a b : Prims.Fe} (ha : U64 a) (hb : U64 b) (h : val a ≡ val b [MOD P]) :
    Fe.reduce a = Fe.reduce b := by
  obtain ⟨la, va⟩ := reduce_spec' ha
  obtain ⟨lb, vb⟩ := reduce_spec' hb
  exact val_inj_lt51 la lb (by rw [va, vb]; exact h)


/-! ### Mult32 -/

theorem mul51_spec (a y : Nat) (ha : a < 2^52) (hy : y < 2^32) :
    Field.mul51 a y = ((a * y) % 2^51, (a * y) / 2^51) := by
  have h : a * y < 2^52 * 2^32 := Nat.mul_lt_mul'' ha hy
  simp only [Field.mul51, Bits.Mul64, U.and, U.or, U.shl, U.shr, and_mask51,
    Nat.shiftRight_eq_div_pow, Nat.shiftLeft_eq]
  generalize a * y = p at *
  have h1 : p / 2^64 * 2^13 % 2^64 = p / 2^64 * 2^13 := by omega
  have h2 : p % 2^64 / 2^51 < 2^13 := by omega
  rw [h1, or_eq_add_of_shift _ _ h2]
  congr 1 <;> omega

theorem prod84 {a y : Nat} (ha : a < 2^52) (hy : y < 2^32) : a * y < 2^84 := by
  have h : a * y < 2^52 * 2^32 := Nat.mul_lt_mul'' ha hy
  omega

theorem mult32_nowrap (p0 p1 p2 p3 p4 : Nat) (h0 : p0 < 2^84) (h1 : p1 < 2^84) (h2 : p2 < 2^84)
    (h3 : p3 < 2^84) (h4 : p4 < 2^84) :
    (p0 % 2^51 + 19 * (p4 / 2^51) % 2^64) % 2^64 = p0 % 2^51 + p4 / 2^51 * 19 ∧
    (p1 % 2^51 + p0 / 2^51) % 2^64 = p1 % 2^51 + p0 / 2^51 ∧
    (p2 % 2^51 + p1 / 2^51) % 2^64 = p2 % 2^51 + p1 / 2^51 ∧
    (p3 % 2^51 + p2 / 2^51) % 2^64 = p3 % 2^51 + p2 / 2^51 ∧
    (p4 % 2^51 + p3 / 2^51) % 2^64 = p4 % 2^51 + p3 / 2^51 := by
  refine ⟨?_, ?_, ?_, ?_, ?_⟩ <;> omega

/-- `Mult32` has no final carry: limb 0 `< 2^51 + 2^38`, the others `< 2^51 + 2^33` -/
theorem mult32_eq {a : Prims.Fe} {y : Nat} (ha : Lt52 a) (hy : y < 2^32) :
    Fe.mult32 a y = ⟨a.l0 * y % 2^51 + a.l4 * y / 2^51 * 19, a.l1 * y % 2^51 + a.l0 * y / 2^51,
      a.l2 * y % 2^51 + a.l1 * y / 2^51, a.l3 * y % 2^51 + a.l2 * y / 2^51,
      a.l4 * y % 2^51 + a.l3 * y / 2^51⟩ := by
  obtain ⟨a0, a1, a2, a3, a4⟩ := a
  obtain ⟨h0, h1, h2, h3, h4⟩ := ha
  simp only at h0 h1 h2 h3 h4
  have q0 : a0 * y < 2^84 := prod84 h0 hy
  have q1 : a1 * y < 2^84 := prod84 h1 hy
  have q2 : a2 * y < 2^84 := prod84 h2 hy
  have q3 : a3 * y < 2^84 := prod84 h3 hy
  have q4 : a4 * y < 2^84 := prod84 h4 hy
  obtain ⟨n0, n1, n2, n3, n4⟩ := mult32_nowrap _ _ _ _ _ q0 q1 q2 q3 q4
  simp only [Fe.mult32, Field.Mult32, mul51_spec _ _ h0 hy, mul51_spec _ _ h1 hy,
    mul51_spec _ _ h2 hy, mul51_spec _ _ h3 hy, mul51_spec _ _ h4 hy, U.add, U.mul,
    n0, n1, n2, n3, n4]

theorem mult32_spec' {a : Prims.Fe} {y : Nat} (ha : Lt52 a) (hy : y < 2^32) :
    ((Fe.mult32 a y).l0 < 2^51 + 2^38 ∧ (Fe.mult32 a y).l1 < 2^51 + 2^33 ∧
      (Fe.mult32 a y).l2 < 2^51 + 2^33 ∧ (Fe.mult32 a y).l3 < 2^51 + 2^33 ∧
      (Fe.mult32 a y).l4 < 2^51 + 2^33) ∧
    val (Fe.mult32 a y) ≡ val a * y [MOD P] := by
  rw [mult32_eq ha hy]
  obtain ⟨a0, a1, a2, a3, a4⟩ := a
  obtain ⟨h0, h1, h2, h3, h4⟩ := ha
  simp only at h0 h1 h2 h3 h4
  have q0 : a0 * y < 2^84 := prod84 h0 hy
  have q1 : a1 * y < 2^84 := prod84 h1 hy
  have q2 : a2 * y < 2^84 := prod84 h2 hy
  have q3 : a3 * y < 2^84 := prod84 h3 hy
  have q4 : a4 * y < 2^84 := prod84 h4 hy
  have hv := cols_val (a0 * y) (a1 * y) (a2 * y) (a3 * y) (a4 * y)
  refine ⟨?_, ?_⟩
  · clear hv
    simp only
    generalize a0 * y = p0 at *
    generalize a1 * y = p1 at *
    generalize a2 * y = p2 at *
    generalize a3 * y = p3 at *
    generalize a4 * y = p4 at *
    refine ⟨?_, ?_, ?_, ?_, ?_⟩ <;> omega
  · simp only [Fe.val]
    have e : (a0 + a1 * 2^51 + a2 * 2^102 + a3 * 2^153 + a4 * 2^204) * y =
        a0 * y + a1 * y * 2^51 + a2 * y * 2^102 + a3 * y * 2^153 + a4 * y * 2^204 := by ring
    rw [e, ← hv]
    unfold Nat.ModEq
    simp only [P, EdVerif.P]
    rw [Nat.add_mul_mod_self_right]

theorem mult32_spec {a : Prims.Fe} {y : Nat} (ha : Inv a) (hy : y < 2^32) :
    Inv (Fe.mult32 a y) ∧ val (Fe.mult32 a y) ≡ val a * y [MOD P] := by
  obtain ⟨hb, hv⟩ := mult32_spec' (inv_lt52 ha) hy
  refine ⟨?_, hv⟩
  generalize Fe.mult32 a y = r at *
  obtain ⟨r0, r1, r2, r3, r4⟩ := r
  simp only [Inv, Fe.Inv] at *
  omega

end EdVerif.Proofs
