import Mathlib.Algebra.BigOperators.Group.Finset.Basic
import Mathlib.Algebra.BigOperators.Group.Finset.Piecewise
import Mathlib.Algebra.BigOperators.Ring.Finset
import Mathlib.Tactic.Ring
import Mathlib.Tactic.Linarith
import Mathlib.Tactic.NormNum
import EdVerif.Impl.Scalar
/-!
C01, digit layer (part 1): little-endian value of a byte string, array helpers, and the
signed radix-16 recoding `signedRadix16` of `scalar.go`.

`radix16OfBytes b` is *exactly* the computation `Impl.Scalar.signedRadix16` performs after
`b := bytes s` and the high-bit guard (`signedRadix16_eq`, by unfolding).

Sums are `Finset.sum` over `Finset.range`, in `ℤ`:
`∑ i ∈ Finset.range 64, d[i]! * 16 ^ i = (LE32 b : ℤ)`, `LE32 b = ∑ i ∈ Finset.range 32, b[i]! * 256 ^ i`.
-/
namespace EdVerif.Proofs
open EdVerif.Prims EdVerif.Impl EdVerif.Impl.Scalar
open Finset

/-- little-endian value of (the first 32 entries of) a byte string -/
def LE32 (b : Bytes) : Nat := ∑ i ∈ range 32, b[i]! * 256 ^ i

/-! ### Array helpers -/

theorem get_set! (a : Array Int) (i j : Nat) (v : Int) (hi : i < a.size) :
    (a.set! i v)[j]! = if j = i then v else a[j]! := by
  by_cases h : j = i
  · subst h; simp [hi]
  · have h' : ¬ i = j := fun e => h e.symm
    simp [h, h', Array.getElem!_eq_getD]

theorem size_set! (a : Array Int) (i : Nat) (v : Int) : (a.set! i v).size = a.size := by simp

theorem get_map_range (f : Nat → Int) (n k : Nat) (h : k < n) :
    ((List.range n).toArray.map f)[k]! = f k := by
  simp [h]

/-- changing one entry of a weighted sum -/
theorem sum_update (f w : ℕ → ℤ) (n i : ℕ) (v : ℤ) (hi : i < n) :
    ∑ j ∈ range n, (if j = i then v else f j) * w j
      = ∑ j ∈ range n, f j * w j + (v - f i) * w i := by
  have h : ∀ j, (if j = i then v else f j) * w j
      = f j * w j + (if j = i then (v - f i) * w i else 0) := by
    intro j
    by_cases hj : j = i
    · subst hj; simp only [if_true]; ring
    · simp only [if_neg hj]; ring
  simp only [h]
  rw [sum_add_distrib, sum_ite_eq' (range n) i (fun _ => (v - f i) * w i)]
  simp [hi]

/-- weighted digit sum of an array after `set!` -/
theorem sum_set! (a : Array Int) (w : ℕ → ℤ) (n i : ℕ) (v : ℤ) (hi : i < n) (hs : i < a.size) :
    ∑ j ∈ range n, (a.set! i v)[j]! * w j
      = ∑ j ∈ range n, a[j]! * w j + (v - a[i]!) * w i := by
  simp only [get_set! a i _ v hs]
  exact sum_update (fun j => a[j]!) w n i v hi

/-- splitting a sum over `range (2n)` into even and odd indices -/
theorem sum_range_even_odd {M : Type*} [AddCommMonoid M] (f : ℕ → M) (n : ℕ) :
    ∑ i ∈ range (2 * n), f i = ∑ k ∈ range n, (f (2 * k) + f (2 * k + 1)) := by
  induction n with
  | zero => simp
  | succ n ih =>
    have : 2 * (n + 1) = 2 * n + 1 + 1 := by ring
    rw [this, sum_range_succ, sum_range_succ, ih, sum_range_succ]
    rw [add_assoc]

/-! ### int8 wrap -/

theorem wrap8_id (x : Int) (h : -128 ≤ x ∧ x < 128) : wrap8 x = x := by
  unfold wrap8; omega

theorem wrap8_sub (a b : Int) : wrap8 (wrap8 a - wrap8 b) = wrap8 (a - b) := by
  unfold wrap8; omega

/-! ### signedRadix16 -/

/-- unsigned radix-16 digits -/
def radix16Init (b : Bytes) : Array Int :=
  (List.range 64).toArray.map fun k =>
    if k % 2 == 0 then ((b[k / 2]! &&& 15 : Nat) : Int) else (((b[k / 2]! >>> 4) &&& 15 : Nat) : Int)

/-- one recentring step -/
def radix16Step (d : Array Int) (i : Nat) : Array Int :=
  let carry := wrap8 ((wrap8 (d[i]! + 8)) / 16)
  let d := d.set! i (wrap8 (d[i]! - wrap8 (carry * 16)))
  d.set! (i+1) (wrap8 (d[i+1]! + carry))

/-- the computation of `signedRadix16` on the byte string -/
def radix16OfBytes (b : Bytes) : Array Int :=
  (List.range 63).foldl radix16Step (radix16Init b)

theorem signedRadix16_eq (s : W4) (h : (bytes s)[31]! ≤ 127) :
    signedRadix16 s = .ok (radix16OfBytes (bytes s)) := by
  unfold signedRadix16
  simp only [if_neg (Nat.not_lt.mpr h)]
  rfl

theorem signedRadix16_panic (s : W4) (h : 127 < (bytes s)[31]!) :
    signedRadix16 s = .panic "highbit" := by
  unfold signedRadix16
  simp only [if_pos h]

/-- nibble `k` of the byte string -/
def nib (b : Bytes) (k : Nat) : Int :=
  if k % 2 = 0 then ((b[k / 2]! % 16 : Nat) : Int) else ((b[k / 2]! / 16 : Nat) : Int)

theorem radix16Init_get (b : Bytes) (hb : ∀ i < 32, b[i]! < 256) (k : Nat) (hk : k < 64) :
    (radix16Init b)[k]! = nib b k := by
  unfold radix16Init
  rw [get_map_range _ _ _ hk]
  unfold nib
  have h15 : ∀ x : Nat, x &&& 15 = x % 16 := fun x => Nat.and_two_pow_sub_one_eq_mod x 4
  have hlt : b[k / 2]! < 256 := hb _ (by omega)
  by_cases h : k % 2 = 0
  · simp only [h, beq_self_eq_true, if_true, h15]
  · have h' : (k % 2 == 0) = false := by simp [h]
    simp only [h', if_neg h, h15, Nat.shiftRight_eq_div_pow]
    norm_num
    omega

theorem radix16Init_size (b : Bytes) : (radix16Init b).size = 64 := by
  simp [radix16Init]

theorem nib_bounds (b : Bytes) (hb : ∀ i < 32, b[i]! < 256) (k : Nat) (hk : k < 64) :
    0 ≤ nib b k ∧ nib b k ≤ 15 := by
  unfold nib
  have hlt : b[k / 2]! < 256 := hb _ (by omega)
  split <;> omega

theorem nib_top (b : Bytes) (h31 : b[31]! ≤ 127) : nib b 63 ≤ 7 := by
  unfold nib
  simp only [show (63 % 2 = 0) = False by simp, if_false, show 63 / 2 = 31 by rfl]
  omega

theorem nib_sum (b : Bytes) :
    ∑ k ∈ range 64, nib b k * 16 ^ k = (LE32 b : ℤ) := by
  unfold LE32
  rw [show (64 : ℕ) = 2 * 32 by rfl, sum_range_even_odd, Nat.cast_sum]
  apply sum_congr rfl
  intro i _
  have h1 : nib b (2 * i) = ((b[i]! % 16 : Nat) : Int) := by
    unfold nib
    rw [if_pos (by omega), show 2 * i / 2 = i by omega]
  have h2 : nib b (2 * i + 1) = ((b[i]! / 16 : Nat) : Int) := by
    unfold nib
    rw [if_neg (by omega), show (2 * i + 1) / 2 = i by omega]
  have h3 : (b[i]! : ℤ) = ((b[i]! % 16 : Nat) : ℤ) + 16 * ((b[i]! / 16 : Nat) : ℤ) := by
    omega
  rw [h1, h2, pow_succ, pow_mul, Nat.cast_mul, Nat.cast_pow, h3]
  generalize ((b[i]! % 16 : Nat) : ℤ) = u
  generalize ((b[i]! / 16 : Nat) : ℤ) = v
  have h4 : (16 : ℤ) ^ 2 = 256 := by norm_num
  rw [h4]
  simp only [Nat.cast_ofNat]
  ring

/-- loop invariant of the recentring loop, before iteration `i` -/
structure Radix16Inv (b : Bytes) (i : Nat) (d : Array Int) : Prop where
  size : d.size = 64
  lo : ∀ j < i, -8 ≤ d[j]! ∧ d[j]! < 8
  cur : 0 ≤ d[i]! ∧ d[i]! ≤ nib b i + 1
  hi : ∀ j, i < j → j < 64 → d[j]! = nib b j
  sum : ∑ j ∈ range 64, d[j]! * 16 ^ j = (LE32 b : ℤ)

theorem radix16Inv_init (b : Bytes) (hb : ∀ i < 32, b[i]! < 256) :
    Radix16Inv b 0 (radix16Init b) where
  size := radix16Init_size b
  lo := fun j hj => absurd hj (Nat.not_lt_zero j)
  cur := by
    rw [radix16Init_get b hb 0 (by omega)]
    have := nib_bounds b hb 0 (by omega)
    omega
  hi := fun j _ hj => radix16Init_get b hb j hj
  sum := by
    rw [← nib_sum b]
    apply sum_congr rfl
    intro j hj
    rw [radix16Init_get b hb j (mem_range.mp hj)]

/-- arithmetic of one step on the two affected digits -/
theorem radix16_step_arith (x y : Int) (hx : 0 ≤ x ∧ x ≤ 16) (hy : 0 ≤ y ∧ y ≤ 15) :
    let carry := wrap8 ((wrap8 (x + 8)) / 16)
    (carry = 0 ∨ carry = 1) ∧
    wrap8 (x - wrap8 (carry * 16)) = x - 16 * carry ∧
    (-8 ≤ x - 16 * carry ∧ x - 16 * carry < 8) ∧
    wrap8 (y + carry) = y + carry := by
  unfold wrap8
  omega

theorem radix16Inv_step (b : Bytes) (hb : ∀ i < 32, b[i]! < 256) (i : Nat) (hi : i < 63)
    (d : Array Int) (h : Radix16Inv b i d) : Radix16Inv b (i + 1) (radix16Step d i) := by
  obtain ⟨hsize, hlo, hcur, hhi, hsum⟩ := h
  have hn1 := nib_bounds b hb i (by omega)
  have hn2 := nib_bounds b hb (i + 1) (by omega)
  have hy : d[i + 1]! = nib b (i + 1) := hhi (i + 1) (by omega) (by omega)
  obtain ⟨hc, hx', hxr, hy'⟩ := radix16_step_arith d[i]! d[i + 1]! (by omega) (by omega)
  -- name the carry
  generalize hcdef : wrap8 ((wrap8 (d[i]! + 8)) / 16) = c at hc hx' hxr hy'
  have hstep : radix16Step d i = (d.set! i (d[i]! - 16 * c)).set! (i + 1) (d[i + 1]! + c) := by
    unfold radix16Step
    simp only [hcdef]
    rw [hx']
    have hne : ((d.set! i (d[i]! - 16 * c))[i + 1]!) = d[i + 1]! := by
      rw [get_set! d i (i + 1) _ (by omega)]
      simp
    rw [hne, hy']
  have hs1 : (d.set! i (d[i]! - 16 * c)).size = 64 := by rw [size_set!]; exact hsize
  have hget : ∀ j, (radix16Step d i)[j]!
      = if j = i + 1 then d[i + 1]! + c else if j = i then d[i]! - 16 * c else d[j]! := by
    intro j
    rw [hstep, get_set! _ (i + 1) j _ (by omega), get_set! d i j _ (by omega)]
  refine ⟨?_, ?_, ?_, ?_, ?_⟩
  · rw [hstep, size_set!, hs1]
  · intro j hj
    rw [hget j]
    by_cases h1 : j = i
    · subst h1
      rw [if_neg (by omega), if_pos rfl]
      exact hxr
    · rw [if_neg (by omega), if_neg h1]
      exact hlo j (by omega)
  · rw [hget (i + 1), if_pos rfl, hy]
    omega
  · intro j h1 h2
    rw [hget j, if_neg (by omega), if_neg (by omega)]
    exact hhi j (by omega) h2
  · rw [hstep, sum_set! _ _ 64 (i + 1) _ (by omega) (by omega),
      sum_set! d _ 64 i _ (by omega) (by omega), hsum]
    have hne : ((d.set! i (d[i]! - 16 * c))[i + 1]!) = d[i + 1]! := by
      rw [get_set! d i (i + 1) _ (by omega)]
      simp
    rw [hne, pow_succ]
    ring

theorem radix16Inv_fold (b : Bytes) (hb : ∀ i < 32, b[i]! < 256) (n : Nat) (hn : n ≤ 63) :
    Radix16Inv b n ((List.range n).foldl radix16Step (radix16Init b)) := by
  induction n with
  | zero => exact radix16Inv_init b hb
  | succ n ih =>
    rw [List.range_succ, List.foldl_append]
    exact radix16Inv_step b hb n (by omega) _ (ih (by omega))

/-- **signedRadix16 is correct**: 64 digits, `d[i] ∈ [-8, 8)` for `i < 63`, `d[63] ∈ [0, 8]`,
and `∑ d[i] 16^i = LE32 b`, for every byte string with `b[31] ≤ 127` (i.e. `LE32 b < 2^255`).
In particular the `int8` wrap never fires. -/
theorem radix16_spec (b : Bytes) (hb : ∀ i < 32, b[i]! < 256) (h31 : b[31]! ≤ 127) :
    (radix16OfBytes b).size = 64 ∧
    (∀ i < 63, (-8 : ℤ) ≤ (radix16OfBytes b)[i]! ∧ (radix16OfBytes b)[i]! < 8) ∧
    ((0 : ℤ) ≤ (radix16OfBytes b)[63]! ∧ (radix16OfBytes b)[63]! ≤ 8) ∧
    ∑ i ∈ range 64, (radix16OfBytes b)[i]! * 16 ^ i = (LE32 b : ℤ) := by
  have h := radix16Inv_fold b hb 63 (le_refl _)
  have ht := nib_top b h31
  refine ⟨h.size, h.lo, ⟨h.cur.1, ?_⟩, h.sum⟩
  have := h.cur.2
  unfold radix16OfBytes
  omega

/-- all digits are in `[-8, 8]` (the form used by table selection) -/
theorem radix16_digit_range (b : Bytes) (hb : ∀ i < 32, b[i]! < 256) (h31 : b[31]! ≤ 127)
    (i : Nat) (hi : i < 64) :
    (-8 : ℤ) ≤ (radix16OfBytes b)[i]! ∧ (radix16OfBytes b)[i]! ≤ 8 := by
  obtain ⟨_, h1, h2, _⟩ := radix16_spec b hb h31
  by_cases h : i < 63
  · have := h1 i h; omega
  · have : i = 63 := by omega
    subst this; omega

theorem LE32_lt (b : Bytes) (hb : ∀ i < 32, b[i]! < 256) (h31 : b[31]! ≤ 127) : LE32 b < 2 ^ 255 := by
  have h : ∀ n, n ≤ 32 → ∑ i ∈ range n, b[i]! * 256 ^ i < 256 ^ n := by
    intro n
    induction n with
    | zero => simp
    | succ n ih =>
      intro hn
      rw [sum_range_succ, pow_succ]
      have h1 := ih (by omega)
      have h2 := hb n (by omega)
      have h3 : b[n]! * 256 ^ n ≤ 255 * 256 ^ n := Nat.mul_le_mul_right _ (by omega)
      linarith
  unfold LE32
  rw [sum_range_succ]
  have h1 := h 31 (by omega)
  have : (2 : ℕ) ^ 255 = 256 ^ 31 * 128 := by norm_num
  rw [this]
  have h3 : b[31]! * 256 ^ 31 ≤ 127 * 256 ^ 31 := Nat.mul_le_mul_right _ h31
  linarith

end EdVerif.Proofs
