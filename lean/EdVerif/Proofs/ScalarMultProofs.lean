import EdVerif.Proofs.TableProofs
/-!
C01, loop layer: the five scalar multiplications of the executable model, on digit arrays
satisfying the digit specifications (`radix16_spec`, `naf_spec`), compute a representative of
`Σ (Σ_i d_i r^i) • P`. Each model loop is related to the abstract loop of `Loops.lean` by
`Loops.foldl_rel` with the relation "the model accumulator represents the abstract accumulator".

None of the model functions takes the prior receiver as an argument; every accumulator starts from
`identity` / `P2.zero`.
-/
namespace EdVerif.Proofs
open EdVerif.Impl EdVerif.Impl.Point EdVerif.Prims EdVerif.Spec
open Finset

section
variable (ff : FieldFacts)
include ff

/-- `tmp2.FromP3(v)` / `tmp1.Double(tmp2)` … four times, from a `Point` -/
theorem mul16_fromP3_rep {v : P3} {X : Ed25519} (h : v.Rep X) :
    (Point.P1xP1.double (Point.P2.fromP1xP1 (Point.P1xP1.double (Point.P2.fromP1xP1
      (Point.P1xP1.double (Point.P2.fromP1xP1 (Point.P1xP1.double (Point.P2.fromP3 v)))))))).Rep
      ((16 : ℤ) • X) := by
  have h1 := P1xP1_double_rep ff (P2_fromP3_rep h)
  have h2 := double_rep ff h1
  have h3 := double_rep ff h2
  have h4 := double_rep ff h3
  have e : (2 : ℕ) • (2 : ℕ) • (2 : ℕ) • (2 : ℕ) • X = (16 : ℤ) • X := by
    rw [smul_smul, smul_smul, smul_smul, ← natCast_zsmul]; norm_num
  rw [← e]; exact h4

/-- the same starting from a `projP2` -/
theorem mul16_fromP2_rep {v : P2} {X : Ed25519} (h : v.Rep X) :
    (Point.P1xP1.double (Point.P2.fromP1xP1 (Point.P1xP1.double (Point.P2.fromP1xP1
      (Point.P1xP1.double (Point.P2.fromP1xP1 (Point.P1xP1.double v))))))).Rep
      ((16 : ℤ) • X) := by
  have h1 := P1xP1_double_rep ff h
  have h2 := double_rep ff h1
  have h3 := double_rep ff h2
  have h4 := double_rep ff h3
  have e : (2 : ℕ) • (2 : ℕ) • (2 : ℕ) • (2 : ℕ) • X = (16 : ℤ) • X := by
    rw [smul_smul, smul_smul, smul_smul, ← natCast_zsmul]; norm_num
  rw [← e]; exact h4

theorem mul16_rep' {p : P1xP1} {X : Ed25519} (h : p.Rep X) :
    (Point.mul16 p).Rep ((16 : ℤ) • X) := by
  rw [← nsmul_16_eq]; exact mul16_rep ff h

variable (sf : SqrtRatioDecodeFacts)
include sf

/-! ### `ScalarMult` -/

/-- `ScalarMult` on signed radix-16 digits -/
theorem scalarMultDigits_rep {d : Array Int} {q : P3} {Q : Ed25519}
    (hr : ∀ i < 64, (-8 : ℤ) ≤ d[i]! ∧ d[i]! ≤ 8) (hq : q.Rep Q) :
    (Point.scalarMultDigits d q).Rep ((∑ i ∈ range 64, d[i]! * 16 ^ i) • Q) := by
  unfold Point.scalarMultDigits
  simp only []
  apply fromP1xP1_rep ff
  rw [← Loops.horner16_fold63 (fun i => d[i]!) Q]
  apply Loops.foldl_rel (fun (a : P1xP1) (g : Ed25519) => a.Rep g)
  · exact P1xP1_add_rep ff (identity_rep ff sf) (projSelect_rep ff hq (hr 63 (by omega)))
  · intro a b k hk hab
    have hk' : k < 63 := List.mem_range.mp hk
    exact P1xP1_add_rep ff (fromP1xP1_rep ff (mul16_rep' ff hab))
      (projSelect_rep ff hq (hr (62 - k) (by omega)))

/-! ### `ScalarBaseMult` -/

/-- one `v.fromP1xP1(tmp1.AddAffine(v, multiple))` step with `multiple` from table `i/2` -/
theorem baseStep_rep {d : Array Int} (hr : ∀ i < 64, (-8 : ℤ) ≤ d[i]! ∧ d[i]! ≤ 8)
    {v : P3} {X : Ed25519} (h : v.Rep X) (i : ℕ) (hi : i < 64) :
    (Point.fromP1xP1 (Point.P1xP1.addAffine v
      (Point.affineSelect Point.basepointTable[i / 2]! d[i]!))).Rep
      (X + d[i]! • ((256 : ℤ) ^ (i / 2) • basepoint)) :=
  fromP1xP1_rep ff (P1xP1_addAffine_rep ff h
    (affineSelect_rep_of ff (basepointTable_rep' ff sf (i / 2) (by omega)) (hr i hi)))

/-- `ScalarBaseMult` on signed radix-16 digits -/
theorem scalarBaseMultDigits_rep {d : Array Int}
    (hr : ∀ i < 64, (-8 : ℤ) ≤ d[i]! ∧ d[i]! ≤ 8) :
    (Point.scalarBaseMultDigits d).Rep ((∑ i ∈ range 64, d[i]! * 16 ^ i) • basepoint) := by
  unfold Point.scalarBaseMultDigits
  simp only []
  rw [← Loops.comb16_fold32 (fun i => d[i]!) basepoint (fun k => (256 : ℤ) ^ k • basepoint)
    (fun _ _ => rfl)]
  apply Loops.foldl_rel (fun (a : P3) (g : Ed25519) => a.Rep g)
  · apply fromP1xP1_rep ff
    apply mul16_fromP3_rep ff
    apply Loops.foldl_rel (fun (a : P3) (g : Ed25519) => a.Rep g)
    · exact identity_rep ff sf
    · intro a b k hk hab
      have hk' : k < 32 := List.mem_range.mp hk
      exact baseStep_rep ff sf hr hab (2 * k + 1) (by omega)
  · intro a b k hk hab
    have hk' : k < 32 := List.mem_range.mp hk
    exact baseStep_rep ff sf hr hab (2 * k) (by omega)

/-! ### `MultiScalarMult` -/

omit sf in
/-- the inner loop `for j := range tables { v.Add(v, select(tables[j], digits[j][i])) }` -/
theorem addAll_rep {digits : Array (Array Int)} {points : Array P3} {Q : ℕ → Ed25519}
    (hr : ∀ j < points.size, ∀ i < 64, (-8 : ℤ) ≤ (digits[j]!)[i]! ∧ (digits[j]!)[i]! ≤ 8)
    (hq : ∀ j < points.size, (points[j]!).Rep (Q j))
    {v : P3} {X : Ed25519} (h : v.Rep X) (i : ℕ) (hi : i < 64) :
    ((List.range (points.map Point.projTable).size).foldl (fun v j =>
        Point.fromP1xP1 (Point.P1xP1.add v
          (Point.projSelect (points.map Point.projTable)[j]! (digits[j]!)[i]!))) v).Rep
      (Loops.addAll points.size (fun j i => (digits[j]!)[i]!) Q X i) := by
  unfold Loops.addAll
  rw [Array.size_map]
  apply Loops.foldl_rel (fun (a : P3) (g : Ed25519) => a.Rep g)
  · exact h
  · intro a b j hj hab
    have hj' : j < points.size := List.mem_range.mp hj
    rw [getElem!_map _ _ _ hj']
    exact fromP1xP1_rep ff (P1xP1_add_rep ff hab (projSelect_rep ff (hq j hj') (hr j hj' i hi)))

/-- `MultiScalarMult` on arrays of signed radix-16 digits: `Σ_j (Σ_i d_j[i] 16^i) • Q_j`; for
`points = #[]` this is `0` (the identity), whatever `digits` is -/
theorem multiScalarMultDigits_rep {digits : Array (Array Int)} {points : Array P3}
    {Q : ℕ → Ed25519}
    (hr : ∀ j < points.size, ∀ i < 64, (-8 : ℤ) ≤ (digits[j]!)[i]! ∧ (digits[j]!)[i]! ≤ 8)
    (hq : ∀ j < points.size, (points[j]!).Rep (Q j)) :
    (Point.multiScalarMultDigits digits points).Rep
      (∑ j ∈ range points.size, (∑ i ∈ range 64, (digits[j]!)[i]! * 16 ^ i) • Q j) := by
  unfold Point.multiScalarMultDigits
  simp only []
  rw [← Loops.multiHorner16_fold63 points.size (fun j i => (digits[j]!)[i]!) Q]
  refine (Loops.foldl_rel (fun (st : P3 × P2) (g : Ed25519) => st.1.Rep g ∧ st.2.Rep g)
    _ _ _ _ _ ?_ ?_).1
  · have h := addAll_rep ff hr hq (identity_rep ff sf) 63 (by omega)
    exact ⟨h, P2_fromP3_rep h⟩
  · intro a b k hk hab
    have hk' : k < 63 := List.mem_range.mp hk
    have h := addAll_rep ff hr hq (fromP1xP1_rep ff (mul16_fromP2_rep ff hab.2)) (62 - k)
      (by omega)
    exact ⟨h, P2_fromP3_rep h⟩

/-- zero terms: the identity -/
theorem multiScalarMultDigits_empty (digits : Array (Array Int)) :
    (Point.multiScalarMultDigits digits #[]).Rep 0 := by
  have h := multiScalarMultDigits_rep ff sf (digits := digits) (points := #[]) (Q := fun _ => 0)
    (fun j hj => absurd hj (by simp)) (fun j hj => absurd hj (by simp))
  simpa using h

/-! ### `VarTimeDoubleScalarBaseMult` -/

/-- `VarTimeDoubleScalarBaseMult` on NAF digit arrays: width-5 digits for `A` (`0` or odd with
`|d| < 16`), width-8 digits for `B` (`0` or odd with `|d| < 128`) -/
theorem varTimeDoubleDigits_rep {aNaf bNaf : Array Int} {A : P3} {QA : Ed25519}
    (ha : ∀ i < 256, aNaf[i]! = 0 ∨ (aNaf[i]! % 2 = 1 ∧ (-16 : ℤ) < aNaf[i]! ∧ aNaf[i]! < 16))
    (hb : ∀ i < 256, bNaf[i]! = 0 ∨ (bNaf[i]! % 2 = 1 ∧ (-128 : ℤ) < bNaf[i]! ∧ bNaf[i]! < 128))
    (hA : A.Rep QA) :
    (Point.varTimeDoubleDigits aNaf bNaf A).Rep
      ((∑ i ∈ range 256, aNaf[i]! * 2 ^ i) • QA + (∑ i ∈ range 256, bNaf[i]! * 2 ^ i) • basepoint) := by
  unfold Point.varTimeDoubleDigits
  simp only []
  apply fromP2_rep ff
  rw [← Loops.nafDouble_fold256 (fun i => aNaf[i]!) (fun i => bNaf[i]!) QA basepoint]
  apply Loops.foldl_rel (fun (a : P2) (g : Ed25519) => a.Rep g)
  · exact P2_zero_rep ff
  · intro a b k hk hab
    have hk' : k < 256 := List.mem_range.mp hk
    apply P2_fromP1xP1_rep ff
    have h1 := P1xP1_double_rep ff hab
    rw [nsmul_two_eq] at h1
    have h2 := nafStep_rep ff (n := 8) (by omega) (naf5Table_rep ff hA)
      (x := aNaf[255 - k]!) (by simpa using ha (255 - k) (by omega)) h1
    exact nafStepAffine_rep ff (n := 64) (by omega) (basepointNafTable_rep ff sf)
      (x := bNaf[255 - k]!) (by simpa using hb (255 - k) (by omega)) h2

/-! ### `VarTimeMultiScalarMult` -/

omit sf in
/-- `VarTimeMultiScalarMult` on arrays of width-5 NAF digits: `Σ_j (Σ_i d_j[i] 2^i) • Q_j`; for
`nafs = points = #[]` this is `0` -/
theorem varTimeMultiDigits_rep {nafs : Array (Array Int)} {points : Array P3} {Q : ℕ → Ed25519}
    (hs : nafs.size = points.size)
    (hr : ∀ j < points.size, ∀ i < 256, (nafs[j]!)[i]! = 0 ∨
      ((nafs[j]!)[i]! % 2 = 1 ∧ (-16 : ℤ) < (nafs[j]!)[i]! ∧ (nafs[j]!)[i]! < 16))
    (hq : ∀ j < points.size, (points[j]!).Rep (Q j)) :
    (Point.varTimeMultiDigits nafs points).Rep
      (∑ j ∈ range points.size, (∑ i ∈ range 256, (nafs[j]!)[i]! * 2 ^ i) • Q j) := by
  unfold Point.varTimeMultiDigits
  simp only []
  apply fromP2_rep ff
  rw [← Loops.nafMulti_fold256 points.size (fun j i => (nafs[j]!)[i]!) Q, hs]
  apply Loops.foldl_rel (fun (a : P2) (g : Ed25519) => a.Rep g)
  · exact P2_zero_rep ff
  · intro a b k hk hab
    have hk' : k < 256 := List.mem_range.mp hk
    apply P2_fromP1xP1_rep ff
    apply Loops.foldl_rel (fun (a : P1xP1) (g : Ed25519) => a.Rep g)
    · have h1 := P1xP1_double_rep ff hab
      rw [nsmul_two_eq] at h1
      exact h1
    · intro a' b' j hj hab'
      have hj' : j < points.size := List.mem_range.mp hj
      rw [getElem!_map _ _ _ hj']
      exact nafStep_rep ff (n := 8) (by omega) (naf5Table_rep ff (hq j hj'))
        (x := (nafs[j]!)[255 - k]!) (by simpa using hr j hj' (255 - k) (by omega)) hab'

omit sf in
/-- zero terms: the identity -/
theorem varTimeMultiDigits_empty : (Point.varTimeMultiDigits #[] #[]).Rep 0 := by
  have h := varTimeMultiDigits_rep ff (nafs := #[]) (points := #[]) (Q := fun _ => 0) rfl
    (fun j hj => absurd hj (by simp)) (fun j hj => absurd hj (by simp))
  simpa using h

end

end EdVerif.Proofs
