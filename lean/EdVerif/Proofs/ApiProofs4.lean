import EdVerif.Proofs.ApiProofs3
import EdVerif.Proofs.ScalarZ
import EdVerif.Proofs.ScalarMultTop
import EdVerif.Proofs.Closing
/-!
API state machine, part 4: the interfaces `ScalarFacts` and `ScalarMultFacts` assumed by parts 1–3
are discharged from the scalar layer (`Proofs/ScalarZ.lean`) and the scalar-multiplication
refinement (`Proofs/ScalarMultTop.lean`), and `FieldFacts` from `Proofs/Closing.lean`; this gives
hypothesis-free forms of the reachability theorems.
-/
namespace EdVerif.Proofs
open EdVerif.Impl EdVerif.Prims EdVerif.Spec

/-- the scalar layer provides the interface -/
theorem scalarFacts : ScalarFacts where
  rz := ScalarFacts_rz
  add := ScalarFacts_add
  sub := ScalarFacts_sub
  neg := ScalarFacts_neg
  mul := ScalarFacts_mul
  multiplyAdd := ScalarFacts_multiplyAdd
  invert := ScalarFacts_invert
  bytes := fun x h => ScalarFacts_bytes x h
  setUniformBytes_err := ScalarFacts_setUniformBytes_err
  setUniformBytes_ok := ScalarFacts_setUniformBytes_ok
  setCanonicalBytes := ScalarFacts_setCanonicalBytes
  setBytesWithClamping := ScalarFacts_setBytesWithClamping

theorem L_lt_255 : EdVerif.L < 2 ^ 255 := by decide +kernel

/-- a reduced scalar has a canonical encoding `< l < 2^255` -/
theorem scalar_bytes_canon {s : W4} (hs : Scalar.Inv s) :
    Scalar.bytes s = LEbytes (Scalar.toZ s).val 32 ∧ (Scalar.toZ s).val < 2 ^ 255 :=
  ⟨C08_bytes s hs, lt_trans (ZMod.val_lt _) L_lt_255⟩

theorem array_getElem!_mem {α} [Inhabited α] (a : Array α) {i : Nat} (h : i < a.size) :
    a[i]! ∈ a := by
  rw [getElem!_pos a i h]; exact Array.getElem_mem h

/-- the scalar-multiplication refinement provides the interface -/
theorem scalarMultFacts_of (ff : FieldFacts) (sf : SqrtRatioDecodeFacts) : ScalarMultFacts where
  scalarMult := fun k q hk hq => by
    obtain ⟨hb, hlt⟩ := scalar_bytes_canon hk
    obtain ⟨r, hr, hv, _⟩ := scalarMult_spec ff sf hb hlt hq
    exact ⟨r, hr, hv⟩
  scalarBaseMult := fun k hk => by
    obtain ⟨hb, hlt⟩ := scalar_bytes_canon hk
    obtain ⟨r, hr, hv, _⟩ := scalarBaseMult_spec ff sf hb hlt
    exact ⟨r, hr, hv⟩
  varTimeDoubleScalarBaseMult := fun a A b ha hA hb => by
    obtain ⟨hba, hlta⟩ := scalar_bytes_canon ha
    obtain ⟨hbb, hltb⟩ := scalar_bytes_canon hb
    obtain ⟨r, hr, hv, _⟩ := varTimeDouble_spec ff sf hba hlta hbb hltb hA
    exact ⟨r, hr, hv⟩
  multiScalarMult := fun ks qs hs hk hq => by
    obtain ⟨r, hr, hv, _⟩ := multiScalarMult_spec ff sf ks qs
      (ks.map fun s => (Scalar.toZ s).val) hs
      (fun i hi => by
        have hi' : i < ks.size := by omega
        rw [getElem!_pos (ks.map _) i (by rw [Array.size_map]; exact hi'), Array.getElem_map,
          ← getElem!_pos ks i hi']
        exact scalar_bytes_canon (hk _ (array_getElem!_mem ks hi')))
      (fun i hi => hq _ (array_getElem!_mem qs hi))
    exact ⟨r, hr, hv⟩
  varTimeMultiScalarMult := fun ks qs hs hk hq => by
    obtain ⟨r, hr, hv, _⟩ := varTimeMultiScalarMult_spec ff ks qs
      (ks.map fun s => (Scalar.toZ s).val) hs
      (fun i hi => by
        have hi' : i < ks.size := by omega
        rw [getElem!_pos (ks.map _) i (by rw [Array.size_map]; exact hi'), Array.getElem_map,
          ← getElem!_pos ks i hi']
        exact scalar_bytes_canon (hk _ (array_getElem!_mem ks hi')))
      (fun i hi => hq _ (array_getElem!_mem qs hi))
    exact ⟨r, hr, hv⟩

theorem scalarMultFacts : ScalarMultFacts := scalarMultFacts_of fieldFacts sqrtFacts

/-! ### hypothesis-free forms -/

theorem step_inv_closed {σ : Store} (h : StoreInv σ) {op : Op} (hw : op.WellFormed) :
    StoreInv (Api.step σ op).1 := step_inv fieldFacts scalarFacts scalarMultFacts h hw

theorem run_inv_closed {ops : List Op} (hw : ∀ o ∈ ops, o.WellFormed) : StoreInv (Api.run ops) :=
  run_inv fieldFacts scalarFacts scalarMultFacts hw

theorem C12_closed {ops : List Op} (hw : ∀ o ∈ ops, o.WellFormed) (n : String) (P : P3)
    (hP : (Api.run ops).p[n]? = some P) : P = Point.zeroValue ∨ P.Valid :=
  C12 fieldFacts scalarFacts scalarMultFacts hw n P hP

theorem C09_reachable_closed {ops : List Op} (hw : ∀ o ∈ ops, o.WellFormed) (n : String) (e : Fe)
    (he : (Api.run ops).e[n]? = some e) : Fe.Inv e :=
  C09_reachable fieldFacts scalarFacts scalarMultFacts hw n e he

theorem C15_panic_only_misuse_closed {σ : Store} (h : StoreInv σ) {op : Op} {c : String}
    (hp : (Api.step σ op).2.kind = .panic c) :
    (c = "length" ∧ op.LengthMismatch) ∨ (c = "uninit" ∧ UninitInput σ op) :=
  C15_panic_only_misuse scalarFacts scalarMultFacts h hp

end EdVerif.Proofs
