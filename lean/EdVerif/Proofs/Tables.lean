import EdVerif.Impl.Point
import Mathlib.Algebra.Group.Basic
/-!
Small lemmas about the lookup-table selection helpers of the model
(`xmaskOf`, `xabsOf`, `ctByteEq`, `projSelect`, `affineSelect`, `nafSelect`, `Scalar.wrap8`),
plus the abstract group-level statements used to connect table selection with `x • Q`.
-/
namespace EdVerif.Proofs
open EdVerif.Impl EdVerif.Impl.Point

/-! ## 1. `xabsOf` -/

theorem xabsOf_fin : ∀ n : Fin 255, xabsOf ((n.val : Int) - 127) = ((n.val : Int) - 127).natAbs := by
  decide +kernel

theorem xabsOf_eq (x : Int) (h : -128 < x ∧ x < 128) : xabsOf x = x.natAbs := by
  have hlt : (x + 127).toNat < 255 := by omega
  have hx : x = (((⟨(x + 127).toNat, hlt⟩ : Fin 255).val : Int)) - 127 := by
    show x = (((x + 127).toNat : Nat) : Int) - 127
    omega
  have := xabsOf_fin ⟨(x + 127).toNat, hlt⟩
  rw [← hx] at this
  exact this

/-! ## 2. `xmaskOf` -/

theorem xmaskOf_and_one (x : Int) : xmaskOf x &&& 1 = if x < 0 then 1 else 0 := by
  unfold xmaskOf
  split <;> rfl

/-! ## 3. `ctByteEq` -/

theorem ctByteEq_eq (a b : Nat) : ctByteEq a b = if a = b then 1 else 0 := by
  unfold ctByteEq
  by_cases h : a = b <;> simp [h]

/-! ## 4. Generic select-fold -/

theorem select_fold_range {α : Type _} (sel : α → α → Nat → α)
    (hsel1 : ∀ a b, sel a b 1 = a) (hsel0 : ∀ a b, sel a b 0 = b)
    (t : Nat → α) (zero : α) (xabs : Nat) (n : Nat) :
    (List.range n).foldl (fun dest j => sel (t j) dest (ctByteEq xabs (j + 1))) zero
      = if 1 ≤ xabs ∧ xabs ≤ n then t (xabs - 1) else zero := by
  induction n with
  | zero =>
    have : ¬ (1 ≤ xabs ∧ xabs ≤ 0) := by omega
    rw [if_neg this]
    rfl
  | succ n ih =>
    rw [List.range_succ, List.foldl_append, ih]
    simp only [List.foldl_cons, List.foldl_nil]
    rw [ctByteEq_eq]
    by_cases he : xabs = n + 1
    · have h1 : 1 ≤ xabs ∧ xabs ≤ n + 1 := by omega
      rw [if_pos he, hsel1, if_pos h1]
      have : xabs - 1 = n := by omega
      rw [this]
    · rw [if_neg he, hsel0]
      by_cases h2 : 1 ≤ xabs ∧ xabs ≤ n
      · have h3 : 1 ≤ xabs ∧ xabs ≤ n + 1 := by omega
        rw [if_pos h2, if_pos h3]
      · have h3 : ¬ (1 ≤ xabs ∧ xabs ≤ n + 1) := by omega
        rw [if_neg h2, if_neg h3]

theorem select_fold_8 {α : Type _} (sel : α → α → Nat → α)
    (hsel1 : ∀ a b, sel a b 1 = a) (hsel0 : ∀ a b, sel a b 0 = b)
    (t : Nat → α) (zero : α) (xabs : Nat) :
    (List.range 8).foldl (fun dest j => sel (t j) dest (ctByteEq xabs (j + 1))) zero
      = if 1 ≤ xabs ∧ xabs ≤ 8 then t (xabs - 1) else zero :=
  select_fold_range sel hsel1 hsel0 t zero xabs 8

/-! ## 5. `projSelect` / `affineSelect` -/

theorem projSelect_eq
    (hsel1 : ∀ a b : Cached, Cached.select a b 1 = a)
    (hsel0 : ∀ a b : Cached, Cached.select a b 0 = b)
    (t : Array Cached) (x : Int) (h : -128 < x ∧ x < 128) :
    projSelect t x =
      Cached.condNeg
        (if 1 ≤ x.natAbs ∧ x.natAbs ≤ 8 then t[x.natAbs - 1]! else Cached.zero)
        (if x < 0 then 1 else 0) := by
  unfold projSelect
  simp only []
  rw [xmaskOf_and_one, xabsOf_eq x h]
  rw [select_fold_8 Cached.select hsel1 hsel0 (fun j => t[j]!) Cached.zero x.natAbs]

theorem affineSelect_eq
    (hsel1 : ∀ a b : AffineCached, AffineCached.select a b 1 = a)
    (hsel0 : ∀ a b : AffineCached, AffineCached.select a b 0 = b)
    (t : Array AffineCached) (x : Int) (h : -128 < x ∧ x < 128) :
    affineSelect t x =
      AffineCached.condNeg
        (if 1 ≤ x.natAbs ∧ x.natAbs ≤ 8 then t[x.natAbs - 1]! else AffineCached.zero)
        (if x < 0 then 1 else 0) := by
  unfold affineSelect
  simp only []
  rw [xmaskOf_and_one, xabsOf_eq x h]
  rw [select_fold_8 AffineCached.select hsel1 hsel0 (fun j => t[j]!) AffineCached.zero x.natAbs]

/-! ## 6. `nafSelect`, `wrap8` -/

theorem tdiv_two_odd (k : Nat) : (Int.tdiv (2 * (k : Int) + 1) 2).toNat = k := by
  have h0 : (0 : Int) ≤ 2 * (k : Int) + 1 := by omega
  rw [Int.tdiv_eq_ediv_of_nonneg h0]
  omega

theorem nafSelect_odd_pos {α} [Inhabited α] (t : Array α) (x : Int) (k : Nat)
    (h : x = 2 * k + 1) : nafSelect t x = t[k]! := by
  unfold nafSelect
  rw [h, tdiv_two_odd]

theorem wrap8_of_range (x : Int) (h : -128 ≤ x ∧ x < 128) : Scalar.wrap8 x = x := by
  unfold Scalar.wrap8
  omega

theorem wrap8_neg (x : Int) (h : -128 < x ∧ x < 0) : Scalar.wrap8 (-x) = -x := by
  unfold Scalar.wrap8
  omega

theorem nafSelect_odd_neg {α} [Inhabited α] (t : Array α) (x : Int) (k : Nat)
    (h : x = -(2 * (k : Int) + 1)) (hr : -128 < x) :
    nafSelect t (Scalar.wrap8 (-x)) = t[k]! := by
  have hx0 : x < 0 := by omega
  rw [wrap8_neg x ⟨hr, hx0⟩]
  apply nafSelect_odd_pos
  omega

/-! ## 7. Abstract group-level statements -/

theorem signed_select_smul {G : Type _} [AddCommGroup G] (Q : G) (T : Nat → G)
    (hT : ∀ j < 8, T j = ((j : ℤ) + 1) • Q) (x : ℤ) (hx : -8 ≤ x ∧ x ≤ 8) :
    (if x < 0 then -(if 1 ≤ x.natAbs ∧ x.natAbs ≤ 8 then T (x.natAbs - 1) else 0)
      else (if 1 ≤ x.natAbs ∧ x.natAbs ≤ 8 then T (x.natAbs - 1) else 0)) = x • Q := by
  by_cases hneg : x < 0
  · have h1 : 1 ≤ x.natAbs ∧ x.natAbs ≤ 8 := by omega
    have hj : x.natAbs - 1 < 8 := by omega
    rw [if_pos hneg, if_pos h1, hT _ hj, ← neg_zsmul]
    congr 1
    omega
  · rw [if_neg hneg]
    by_cases hz : x = 0
    · have h1 : ¬ (1 ≤ x.natAbs ∧ x.natAbs ≤ 8) := by omega
      rw [if_neg h1, hz, zero_zsmul]
    · have h1 : 1 ≤ x.natAbs ∧ x.natAbs ≤ 8 := by omega
      have hj : x.natAbs - 1 < 8 := by omega
      rw [if_pos h1, hT _ hj]
      congr 1
      omega

theorem naf_select_pos_smul {G : Type _} [AddCommGroup G] (Q : G) (T : Nat → G) (n : Nat)
    (hT : ∀ k < n, T k = (2 * (k : ℤ) + 1) • Q) (x : ℤ)
    (hodd : x % 2 = 1) (hlt : x.natAbs < 2 * n) (hpos : 0 < x) :
    T (x.toNat / 2) = x • Q := by
  have hk : x.toNat / 2 < n := by omega
  rw [hT _ hk]
  congr 1
  omega

theorem naf_select_neg_smul {G : Type _} [AddCommGroup G] (Q : G) (T : Nat → G) (n : Nat)
    (hT : ∀ k < n, T k = (2 * (k : ℤ) + 1) • Q) (x : ℤ)
    (hodd : x % 2 = 1) (hlt : x.natAbs < 2 * n) (hneg : x < 0) :
    -(T ((-x).toNat / 2)) = x • Q := by
  have hk : (-x).toNat / 2 < n := by omega
  rw [hT _ hk, ← neg_zsmul]
  congr 1
  omega

end EdVerif.Proofs
