import EdVerif.Proofs.FeKernels1
/-!
C09/C10 kernel layer, part 2: `feMulGeneric` / `feSquareGeneric` (hence `Multiply`, `Square`) on the
faithful wrap-around model: 128-bit accumulators `(lo, hi)`, `bits.Mul64`/`bits.Add64`, the
`shiftRightBy51` bit-join, and the final carry chain.
-/
namespace EdVerif.Proofs
open EdVerif EdVerif.Prims EdVerif.Gen EdVerif.Impl

/-- all limbs `< 2^52` (what the multiplication actually needs; `Inv` is stronger) -/
def Lt52 (e : Prims.Fe) : Prop :=
  e.l0 < 2^52 ∧ e.l1 < 2^52 ∧ e.l2 < 2^52 ∧ e.l3 < 2^52 ∧ e.l4 < 2^52

theorem inv_lt52 {e : Prims.Fe} (h : Inv e) : Lt52 e := by
  obtain ⟨l0, l1, l2, l3, l4⟩ := e
  simp only [Lt52, Inv, Fe.Inv] at *
  omega

def uval (v : U128) : Nat := v.lo + v.hi * 2^64
def uwf (v : U128) : Prop := v.lo < 2^64 ∧ v.hi < 2^64

theorem mul64_val (a b : Nat) (ha : a < 2^64) (hb : b < 2^64) :
    uval (Field.mul64 a b) = a * b ∧ uwf (Field.mul64 a b) := by
  have h : a * b < 2^64 * 2^64 := Nat.mul_lt_mul'' ha hb
  simp only [Field.mul64, Bits.Mul64, uval, uwf] at *
  generalize a * b = p at *
  omega

theorem addMul64_val (v : U128) (a b : Nat) (hv : uwf v) (ha : a < 2^64) (hb : b < 2^64)
    (hsum : uval v + a * b < 2^64 * 2^64) :
    uval (Field.addMul64 v a b) = uval v + a * b ∧ uwf (Field.addMul64 v a b) := by
  have h : a * b < 2^64 * 2^64 := Nat.mul_lt_mul'' ha hb
  obtain ⟨lo, hi⟩ := v
  simp only [Field.addMul64, Bits.Mul64, Bits.Add64, uval, uwf] at *
  generalize a * b = p at *
  omega

theorem or_eq_add_of_shift (hi y : Nat) (h2 : y < 2^13) : (hi * 2^13) ||| y = hi * 2^13 + y := by
  rw [← Nat.shiftLeft_eq, Nat.shiftLeft_add_eq_or_of_lt h2]

theorem shift_val (v : U128) (hv : uwf v) (h : uval v < 2^115) :
    Field.shiftRightBy51 v = uval v / 2^51 ∧ v.lo % 2^51 = uval v % 2^51 := by
  obtain ⟨lo, hi⟩ := v
  simp only [Field.shiftRightBy51, U.or, U.shl, U.shr, uval, uwf, Nat.shiftRight_eq_div_pow,
    Nat.shiftLeft_eq] at *
  have hhi : hi < 2^51 := by omega
  have h1 : (hi * 2^13) % 2^64 = hi * 2^13 := by omega
  have h2 : lo / 2^51 < 2^13 := by omega
  rw [h1, or_eq_add_of_shift _ _ h2]
  omega

theorem prod_lt {x y : Nat} (hx : x < 2^58) (hy : y < 2^52) : x * y < 2^58 * 2^52 :=
  Nat.mul_lt_mul'' hx hy

/-- a column of five products accumulated in a `uint128`, then split at bit 51 -/
theorem fe_acc5 (x0 y0 x1 y1 x2 y2 x3 y3 x4 y4 : Nat)
    (hx0 : x0 < 2^58) (hx1 : x1 < 2^58) (hx2 : x2 < 2^58) (hx3 : x3 < 2^58) (hx4 : x4 < 2^58)
    (hy0 : y0 < 2^52) (hy1 : y1 < 2^52) (hy2 : y2 < 2^52) (hy3 : y3 < 2^52) (hy4 : y4 < 2^52) :
    let r := Field.addMul64 (Field.addMul64 (Field.addMul64 (Field.addMul64 (Field.mul64 x0 y0)
      x1 y1) x2 y2) x3 y3) x4 y4
    let S := x0 * y0 + x1 * y1 + x2 * y2 + x3 * y3 + x4 * y4
    Field.shiftRightBy51 r = S / 2^51 ∧ r.lo % 2^51 = S % 2^51 := by
  intro r S
  have p0 := prod_lt hx0 hy0; have p1 := prod_lt hx1 hy1; have p2 := prod_lt hx2 hy2
  have p3 := prod_lt hx3 hy3; have p4 := prod_lt hx4 hy4
  have w : ∀ x, x < 2^58 → x < 2^64 := by intro x h; omega
  have w' : ∀ x, x < 2^52 → x < 2^64 := by intro x h; omega
  obtain ⟨v0, w0⟩ := mul64_val x0 y0 (w _ hx0) (w' _ hy0)
  obtain ⟨v1, w1⟩ := addMul64_val _ x1 y1 w0 (w _ hx1) (w' _ hy1) (by rw [v0]; omega)
  obtain ⟨v2, w2⟩ := addMul64_val _ x2 y2 w1 (w _ hx2) (w' _ hy2) (by rw [v1, v0]; omega)
  obtain ⟨v3, w3⟩ := addMul64_val _ x3 y3 w2 (w _ hx3) (w' _ hy3) (by rw [v2, v1, v0]; omega)
  obtain ⟨v4, w4⟩ := addMul64_val _ x4 y4 w3 (w _ hx4) (w' _ hy4) (by rw [v3, v2, v1, v0]; omega)
  rw [v3, v2, v1, v0] at v4
  have h := shift_val r w4 (by rw [v4]; omega)
  rw [v4] at h
  exact h

/-- a column of three products (squaring) -/
theorem fe_acc3 (x0 y0 x1 y1 x2 y2 : Nat)
    (hx0 : x0 < 2^58) (hx1 : x1 < 2^58) (hx2 : x2 < 2^58)
    (hy0 : y0 < 2^52) (hy1 : y1 < 2^52) (hy2 : y2 < 2^52) :
    let r := Field.addMul64 (Field.addMul64 (Field.mul64 x0 y0) x1 y1) x2 y2
    let S := x0 * y0 + x1 * y1 + x2 * y2
    Field.shiftRightBy51 r = S / 2^51 ∧ r.lo % 2^51 = S % 2^51 := by
  intro r S
  have p0 := prod_lt hx0 hy0; have p1 := prod_lt hx1 hy1; have p2 := prod_lt hx2 hy2
  have w : ∀ x, x < 2^58 → x < 2^64 := by intro x h; omega
  have w' : ∀ x, x < 2^52 → x < 2^64 := by intro x h; omega
  obtain ⟨v0, w0⟩ := mul64_val x0 y0 (w _ hx0) (w' _ hy0)
  obtain ⟨v1, w1⟩ := addMul64_val _ x1 y1 w0 (w _ hx1) (w' _ hy1) (by rw [v0]; omega)
  obtain ⟨v2, w2⟩ := addMul64_val _ x2 y2 w1 (w _ hx2) (w' _ hy2) (by rw [v1, v0]; omega)
  rw [v1, v0] at v2
  have h := shift_val r w2 (by rw [v2]; omega)
  rw [v2] at h
  exact h

/-! ### the schoolbook columns with the `19`-fold -/

def col0 (a b : Prims.Fe) : Nat := a.l0*b.l0 + 19*(a.l1*b.l4 + a.l2*b.l3 + a.l3*b.l2 + a.l4*b.l1)
def col1 (a b : Prims.Fe) : Nat := a.l0*b.l1 + a.l1*b.l0 + 19*(a.l2*b.l4 + a.l3*b.l3 + a.l4*b.l2)
def col2 (a b : Prims.Fe) : Nat := a.l0*b.l2 + a.l1*b.l1 + a.l2*b.l0 + 19*(a.l3*b.l4 + a.l4*b.l3)
def col3 (a b : Prims.Fe) : Nat := a.l0*b.l3 + a.l1*b.l2 + a.l2*b.l1 + a.l3*b.l0 + 19*(a.l4*b.l4)
def col4 (a b : Prims.Fe) : Nat := a.l0*b.l4 + a.l1*b.l3 + a.l2*b.l2 + a.l3*b.l1 + a.l4*b.l0

/-- the element handed to the final `carryPropagate` by `feMulGeneric`/`feSquareGeneric` -/
def cols (a b : Prims.Fe) : Prims.Fe :=
  ⟨col0 a b % 2^51 + col4 a b / 2^51 * 19, col1 a b % 2^51 + col0 a b / 2^51,
   col2 a b % 2^51 + col1 a b / 2^51, col3 a b % 2^51 + col2 a b / 2^51,
   col4 a b % 2^51 + col3 a b / 2^51⟩

theorem mul_bnd {a b A B : Nat} (ha : a < A) (hb : b < B) : a * b < A * B := Nat.mul_lt_mul'' ha hb

theorem col_bounds {a b : Prims.Fe} (ha : Lt52 a) (hb : Lt52 b) :
    col0 a b < 2^111 ∧ col1 a b < 2^111 ∧ col2 a b < 2^111 ∧ col3 a b < 2^111 ∧ col4 a b < 2^107 := by
  obtain ⟨a0, a1, a2, a3, a4⟩ := a
  obtain ⟨b0, b1, b2, b3, b4⟩ := b
  obtain ⟨ha0, ha1, ha2, ha3, ha4⟩ := ha
  obtain ⟨hb0, hb1, hb2, hb3, hb4⟩ := hb
  simp only [col0, col1, col2, col3, col4] at *
  have p00 := mul_bnd ha0 hb0; have p01 := mul_bnd ha0 hb1; have p02 := mul_bnd ha0 hb2
  have p03 := mul_bnd ha0 hb3; have p04 := mul_bnd ha0 hb4
  have p10 := mul_bnd ha1 hb0; have p11 := mul_bnd ha1 hb1; have p12 := mul_bnd ha1 hb2
  have p13 := mul_bnd ha1 hb3; have p14 := mul_bnd ha1 hb4
  have p20 := mul_bnd ha2 hb0; have p21 := mul_bnd ha2 hb1; have p22 := mul_bnd ha2 hb2
  have p23 := mul_bnd ha2 hb3; have p24 := mul_bnd ha2 hb4
  have p30 := mul_bnd ha3 hb0; have p31 := mul_bnd ha3 hb1; have p32 := mul_bnd ha3 hb2
  have p33 := mul_bnd ha3 hb3; have p34 := mul_bnd ha3 hb4
  have p40 := mul_bnd ha4 hb0; have p41 := mul_bnd ha4 hb1; have p42 := mul_bnd ha4 hb2
  have p43 := mul_bnd ha4 hb3; have p44 := mul_bnd ha4 hb4
  clear ha0 ha1 ha2 ha3 ha4 hb0 hb1 hb2 hb3 hb4
  refine ⟨?_, ?_, ?_, ?_, ?_⟩ <;> omega

/-- the wrap-around additions that assemble `rr0..rr4` do not wrap -/
theorem rr_nowrap (r0 r1 r2 r3 r4 : Nat)
    (h0 : r0 < 2^111) (h1 : r1 < 2^111) (h2 : r2 < 2^111) (h3 : r3 < 2^111) (h4 : r4 < 2^107) :
    (r0 % 2^51 + r4 / 2^51 * 19 % 2^64) % 2^64 = r0 % 2^51 + r4 / 2^51 * 19 ∧
    (r1 % 2^51 + r0 / 2^51) % 2^64 = r1 % 2^51 + r0 / 2^51 ∧
    (r2 % 2^51 + r1 / 2^51) % 2^64 = r2 % 2^51 + r1 / 2^51 ∧
    (r3 % 2^51 + r2 / 2^51) % 2^64 = r3 % 2^51 + r2 / 2^51 ∧
    (r4 % 2^51 + r3 / 2^51) % 2^64 = r4 % 2^51 + r3 / 2^51 := by
  refine ⟨?_, ?_, ?_, ?_, ?_⟩ <;> omega

set_option maxRecDepth 4000 in
theorem mul_columns (v a b : Prims.Fe) (ha : Lt52 a) (hb : Lt52 b) :
    Field.feMulGeneric v a b = Field.carryPropagate (cols a b) := by
  have hcb := col_bounds ha hb
  obtain ⟨a0, a1, a2, a3, a4⟩ := a
  obtain ⟨b0, b1, b2, b3, b4⟩ := b
  obtain ⟨ha0, ha1, ha2, ha3, ha4⟩ := ha
  obtain ⟨hb0, hb1, hb2, hb3, hb4⟩ := hb
  simp only at ha0 ha1 ha2 ha3 ha4 hb0 hb1 hb2 hb3 hb4
  simp only [Field.feMulGeneric, U.mul, U.add, U.and, and_mask51]
  have e1 : a1 * 19 % 2^64 = a1 * 19 := by omega
  have e2 : a2 * 19 % 2^64 = a2 * 19 := by omega
  have e3 : a3 * 19 % 2^64 = a3 * 19 := by omega
  have e4 : a4 * 19 % 2^64 = a4 * 19 := by omega
  rw [e1, e2, e3, e4]
  have w : ∀ x, x < 2^52 → x < 2^58 := by intro x h; omega
  have w19 : ∀ x, x < 2^52 → x * 19 < 2^58 := by intro x h; omega
  obtain ⟨s0, l0⟩ := fe_acc5 a0 b0 (a1*19) b4 (a2*19) b3 (a3*19) b2 (a4*19) b1
    (w _ ha0) (w19 _ ha1) (w19 _ ha2) (w19 _ ha3) (w19 _ ha4) hb0 hb4 hb3 hb2 hb1
  obtain ⟨s1, l1⟩ := fe_acc5 a0 b1 a1 b0 (a2*19) b4 (a3*19) b3 (a4*19) b2
    (w _ ha0) (w _ ha1) (w19 _ ha2) (w19 _ ha3) (w19 _ ha4) hb1 hb0 hb4 hb3 hb2
  obtain ⟨s2, l2⟩ := fe_acc5 a0 b2 a1 b1 a2 b0 (a3*19) b4 (a4*19) b3
    (w _ ha0) (w _ ha1) (w _ ha2) (w19 _ ha3) (w19 _ ha4) hb2 hb1 hb0 hb4 hb3
  obtain ⟨s3, l3⟩ := fe_acc5 a0 b3 a1 b2 a2 b1 a3 b0 (a4*19) b4
    (w _ ha0) (w _ ha1) (w _ ha2) (w _ ha3) (w19 _ ha4) hb3 hb2 hb1 hb0 hb4
  obtain ⟨s4, l4⟩ := fe_acc5 a0 b4 a1 b3 a2 b2 a3 b1 a4 b0
    (w _ ha0) (w _ ha1) (w _ ha2) (w _ ha3) (w _ ha4) hb4 hb3 hb2 hb1 hb0
  rw [s0, s1, s2, s3, s4, l0, l1, l2, l3, l4]
  have c0 : a0 * b0 + a1 * 19 * b4 + a2 * 19 * b3 + a3 * 19 * b2 + a4 * 19 * b1 =
      col0 ⟨a0, a1, a2, a3, a4⟩ ⟨b0, b1, b2, b3, b4⟩ := by simp only [col0]; ring
  have c1 : a0 * b1 + a1 * b0 + a2 * 19 * b4 + a3 * 19 * b3 + a4 * 19 * b2 =
      col1 ⟨a0, a1, a2, a3, a4⟩ ⟨b0, b1, b2, b3, b4⟩ := by simp only [col1]; ring
  have c2 : a0 * b2 + a1 * b1 + a2 * b0 + a3 * 19 * b4 + a4 * 19 * b3 =
      col2 ⟨a0, a1, a2, a3, a4⟩ ⟨b0, b1, b2, b3, b4⟩ := by simp only [col2]; ring
  have c3 : a0 * b3 + a1 * b2 + a2 * b1 + a3 * b0 + a4 * 19 * b4 =
      col3 ⟨a0, a1, a2, a3, a4⟩ ⟨b0, b1, b2, b3, b4⟩ := by simp only [col3]; ring
  have c4 : a0 * b4 + a1 * b3 + a2 * b2 + a3 * b1 + a4 * b0 =
      col4 ⟨a0, a1, a2, a3, a4⟩ ⟨b0, b1, b2, b3, b4⟩ := by simp only [col4]
  rw [c0, c1, c2, c3, c4]
  obtain ⟨n0, n1, n2, n3, n4⟩ := rr_nowrap _ _ _ _ _ hcb.1 hcb.2.1 hcb.2.2.1 hcb.2.2.2.1 hcb.2.2.2.2
  rw [n0, n1, n2, n3, n4]
  rfl


set_option maxRecDepth 4000 in
theorem square_columns (v a : Prims.Fe) (ha : Lt52 a) :
    Field.feSquareGeneric v a = Field.carryPropagate (cols a a) := by
  have hcb := col_bounds ha ha
  obtain ⟨a0, a1, a2, a3, a4⟩ := a
  obtain ⟨ha0, ha1, ha2, ha3, ha4⟩ := ha
  simp only at ha0 ha1 ha2 ha3 ha4
  simp only [Field.feSquareGeneric, U.mul, U.add, U.and, and_mask51]
  have e02 : a0 * 2 % 2^64 = a0 * 2 := by omega
  have e12 : a1 * 2 % 2^64 = a1 * 2 := by omega
  have e138 : a1 * 38 % 2^64 = a1 * 38 := by omega
  have e238 : a2 * 38 % 2^64 = a2 * 38 := by omega
  have e338 : a3 * 38 % 2^64 = a3 * 38 := by omega
  have e319 : a3 * 19 % 2^64 = a3 * 19 := by omega
  have e419 : a4 * 19 % 2^64 = a4 * 19 := by omega
  rw [e02, e12, e138, e238, e338, e319, e419]
  have w : ∀ x, x < 2^52 → x < 2^58 := by intro x h; omega
  have w2 : ∀ x, x < 2^52 → x * 2 < 2^58 := by intro x h; omega
  have w19 : ∀ x, x < 2^52 → x * 19 < 2^58 := by intro x h; omega
  have w38 : ∀ x, x < 2^52 → x * 38 < 2^58 := by intro x h; omega
  obtain ⟨s0, l0⟩ := fe_acc3 a0 a0 (a1*38) a4 (a2*38) a3 (w _ ha0) (w38 _ ha1) (w38 _ ha2) ha0 ha4 ha3
  obtain ⟨s1, l1⟩ := fe_acc3 (a0*2) a1 (a2*38) a4 (a3*19) a3 (w2 _ ha0) (w38 _ ha2) (w19 _ ha3) ha1 ha4 ha3
  obtain ⟨s2, l2⟩ := fe_acc3 (a0*2) a2 a1 a1 (a3*38) a4 (w2 _ ha0) (w _ ha1) (w38 _ ha3) ha2 ha1 ha4
  obtain ⟨s3, l3⟩ := fe_acc3 (a0*2) a3 (a1*2) a2 (a4*19) a4 (w2 _ ha0) (w2 _ ha1) (w19 _ ha4) ha3 ha2 ha4
  obtain ⟨s4, l4⟩ := fe_acc3 (a0*2) a4 (a1*2) a3 a2 a2 (w2 _ ha0) (w2 _ ha1) (w _ ha2) ha4 ha3 ha2
  rw [s0, s1, s2, s3, s4, l0, l1, l2, l3, l4]
  have c0 : a0 * a0 + a1 * 38 * a4 + a2 * 38 * a3 =
      col0 ⟨a0, a1, a2, a3, a4⟩ ⟨a0, a1, a2, a3, a4⟩ := by simp only [col0]; ring
  have c1 : a0 * 2 * a1 + a2 * 38 * a4 + a3 * 19 * a3 =
      col1 ⟨a0, a1, a2, a3, a4⟩ ⟨a0, a1, a2, a3, a4⟩ := by simp only [col1]; ring
  have c2 : a0 * 2 * a2 + a1 * a1 + a3 * 38 * a4 =
      col2 ⟨a0, a1, a2, a3, a4⟩ ⟨a0, a1, a2, a3, a4⟩ := by simp only [col2]; ring
  have c3 : a0 * 2 * a3 + a1 * 2 * a2 + a4 * 19 * a4 =
      col3 ⟨a0, a1, a2, a3, a4⟩ ⟨a0, a1, a2, a3, a4⟩ := by simp only [col3]; ring
  have c4 : a0 * 2 * a4 + a1 * 2 * a3 + a2 * a2 =
      col4 ⟨a0, a1, a2, a3, a4⟩ ⟨a0, a1, a2, a3, a4⟩ := by simp only [col4]; ring
  rw [c0, c1, c2, c3, c4]
  obtain ⟨n0, n1, n2, n3, n4⟩ := rr_nowrap _ _ _ _ _ hcb.1 hcb.2.1 hcb.2.2.1 hcb.2.2.2.1 hcb.2.2.2.2
  rw [n0, n1, n2, n3, n4]
  rfl

/-- the columns sum to the product, up to a multiple of `P` (this is the `19`-fold) -/
theorem columns_eq (a b : Prims.Fe) :
    val a * val b = (col0 a b + col1 a b * 2^51 + col2 a b * 2^102 + col3 a b * 2^153 +
      col4 a b * 2^204) +
     P * ((a.l1*b.l4 + a.l2*b.l3 + a.l3*b.l2 + a.l4*b.l1) + (a.l2*b.l4 + a.l3*b.l3 + a.l4*b.l2) * 2^51 +
          (a.l3*b.l4 + a.l4*b.l3) * 2^102 + (a.l4*b.l4) * 2^153) := by
  obtain ⟨a0, a1, a2, a3, a4⟩ := a
  obtain ⟨b0, b1, b2, b3, b4⟩ := b
  simp only [col0, col1, col2, col3, col4, Fe.val, P, EdVerif.P]
  norm_num
  ring

theorem cols_val (r0 r1 r2 r3 r4 : Nat) :
    (r0 % 2^51 + r4 / 2^51 * 19) + (r1 % 2^51 + r0 / 2^51) * 2^51 + (r2 % 2^51 + r1 / 2^51) * 2^102 +
      (r3 % 2^51 + r2 / 2^51) * 2^153 + (r4 % 2^51 + r3 / 2^51) * 2^204 + (r4 / 2^51) * (2^255 - 19) =
    r0 + r1 * 2^51 + r2 * 2^102 + r3 * 2^153 + r4 * 2^204 := by
  omega

theorem cols_spec {a b : Prims.Fe} (ha : Lt52 a) (hb : Lt52 b) :
    U64 (cols a b) ∧ val (cols a b) ≡ val a * val b [MOD P] := by
  obtain ⟨h0, h1, h2, h3, h4⟩ := col_bounds ha hb
  have hv := cols_val (col0 a b) (col1 a b) (col2 a b) (col3 a b) (col4 a b)
  have hc := columns_eq a b
  refine ⟨?_, ?_⟩
  · simp only [U64, cols]
    refine ⟨?_, ?_, ?_, ?_, ?_⟩ <;> omega
  · have e : val (cols a b) + (col4 a b / 2^51) * P = col0 a b + col1 a b * 2^51 +
        col2 a b * 2^102 + col3 a b * 2^153 + col4 a b * 2^204 := by
      simp only [Fe.val, cols, P, EdVerif.P]
      exact hv
    rw [← e] at hc
    unfold Nat.ModEq
    rw [hc, Nat.add_mul_mod_self_left, Nat.add_mul_mod_self_right]

/-! ### Multiply / Square -/

theorem mul_spec' {a b : Prims.Fe} (ha : Lt52 a) (hb : Lt52 b) :
    Tight (Fe.mul a b) ∧ val (Fe.mul a b) ≡ val a * val b [MOD P] := by
  have e : Fe.mul a b = Field.carryPropagate (cols a b) := mul_columns Fe.rz a b ha hb
  obtain ⟨hu, hv⟩ := cols_spec ha hb
  obtain ⟨ht, hc⟩ := carryGeneric_spec _ hu
  rw [e]
  exact ⟨ht, hc.trans hv⟩

theorem mul_spec {a b : Prims.Fe} (ha : Inv a) (hb : Inv b) :
    Tight (Fe.mul a b) ∧ val (Fe.mul a b) ≡ val a * val b [MOD P] :=
  mul_spec' (inv_lt52 ha) (inv_lt52 hb)

theorem square_spec' {a : Prims.Fe} (ha : Lt52 a) :
    Tight (Fe.square a) ∧ val (Fe.square a) ≡ val a * val a [MOD P] := by
  have e : Fe.square a = Field.carryPropagate (cols a a) := square_columns Fe.rz a ha
  obtain ⟨hu, hv⟩ := cols_spec ha ha
  obtain ⟨ht, hc⟩ := carryGeneric_spec _ hu
  rw [e]
  exact ⟨ht, hc.trans hv⟩

theorem square_spec {a : Prims.Fe} (ha : Inv a) :
    Tight (Fe.square a) ∧ val (Fe.square a) ≡ val a * val a [MOD P] :=
  square_spec' (inv_lt52 ha)

/-- `feMulGeneric`/`feSquareGeneric` themselves (any receiver) -/
theorem feMulGeneric_spec (v : Prims.Fe) {a b : Prims.Fe} (ha : Inv a) (hb : Inv b) :
    Tight (Field.feMulGeneric v a b) ∧ val (Field.feMulGeneric v a b) ≡ val a * val b [MOD P] :=
  mul_spec ha hb

theorem feSquareGeneric_spec (v : Prims.Fe) {a : Prims.Fe} (ha : Inv a) :
    Tight (Field.feSquareGeneric v a) ∧ val (Field.feSquareGeneric v a) ≡ val a * val a [MOD P] :=
  square_spec ha

theorem square_eq_mul {a : Prims.Fe} (ha : Inv a) : Fe.square a = Fe.mul a a := by
  have e1 : Fe.square a = Field.carryPropagate (cols a a) := square_columns Fe.rz a (inv_lt52 ha)
  have e2 : Fe.mul a a = Field.carryPropagate (cols a a) := mul_columns Fe.rz a a (inv_lt52 ha) (inv_lt52 ha)
  rw [e1, e2]

end EdVerif.Proofs
