import EdVerif.Proofs.FeKernels5
import Batteries.Data.Nat.Bitwise.Lemmas
/-!
C09/C10 kernel layer, part 6 (extras on the hand-written model): `Equal` (constant-time compare of
the canonical encodings) decides congruence mod `P`; `Absolute`.
-/
namespace EdVerif.Proofs
open EdVerif EdVerif.Prims EdVerif.Gen EdVerif.Impl

theorem ctFold_zero_iff (a b : Bytes) : ∀ n,
    (List.range n).foldl (fun acc i => acc ||| (a[i]! ^^^ b[i]!)) 0 = 0 ↔
      ∀ i, i < n → a[i]! = b[i]! := by
  intro n
  induction n with
  | zero => simp
  | succ n ih =>
    rw [List.range_succ, List.foldl_append, List.foldl_cons, List.foldl_nil, Nat.or_eq_zero_iff, ih,
      Nat.xor_eq_zero_iff]
    constructor
    · rintro ⟨h1, h2⟩ i hi
      by_cases h : i = n
      · subst h; exact h2
      · exact h1 i (by omega)
    · intro h
      exact ⟨fun i hi => h i (by omega), h n (by omega)⟩

/-- `subtle.ConstantTimeCompare` on two strings of the same length -/
theorem ctCompare_spec (a b : Bytes) (h : a.size = b.size) :
    Fe.ctCompare a b = if (∀ i, i < a.size → a[i]! = b[i]!) then 1 else 0 := by
  have hne : (a.size != b.size) = false := by simp [h]
  simp only [Fe.ctCompare, hne, Bool.false_eq_true, if_false]
  by_cases hall : ∀ i, i < a.size → a[i]! = b[i]!
  · rw [if_pos hall, (ctFold_zero_iff a b a.size).2 hall]
    rfl
  · rw [if_neg hall]
    have hnz : (List.range a.size).foldl (fun acc i => acc ||| (a[i]! ^^^ b[i]!)) 0 ≠ 0 :=
      fun h0 => hall ((ctFold_zero_iff a b a.size).1 h0)
    have : ((List.range a.size).foldl (fun acc i => acc ||| (a[i]! ^^^ b[i]!)) 0 == 0) = false := by
      simpa using hnz
    rw [this]
    rfl

/-- `Equal` decides equality of residues -/
theorem fe_equal_spec {a b : Prims.Fe} (ha : U64 a) (hb : U64 b) :
    Fe.equal a b = if val a ≡ val b [MOD P] then 1 else 0 := by
  obtain ⟨sa, ga⟩ := bytes_spec' ha
  obtain ⟨sb, gb⟩ := bytes_spec' hb
  rw [Fe.equal, ctCompare_spec _ _ (sb.trans sa.symm), sb]
  by_cases h : val a ≡ val b [MOD P]
  · have e : Fe.bytes a = Fe.bytes b := bytes_congr ha hb h
    rw [if_pos h, e, if_pos (fun _ _ => rfl)]
  · rw [if_neg h, if_neg]
    intro hall
    apply h
    have e1 := LEsum_bytes ha
    have e2 := LEsum_bytes hb
    rw [LEsum, sa] at e1
    rw [LEsum, sb] at e2
    unfold Nat.ModEq
    rw [← e1, ← e2]
    exact (LEpre_congr _ _ 32 hall).symm

theorem fe_equal_one_iff {a b : Prims.Fe} (ha : U64 a) (hb : U64 b) :
    Fe.equal a b = 1 ↔ val a ≡ val b [MOD P] := by
  rw [fe_equal_spec ha hb]
  by_cases h : val a ≡ val b [MOD P]
  · simp [h]
  · simp [h]

theorem fe_equal_01 {a b : Prims.Fe} (ha : U64 a) (hb : U64 b) : Fe.equal a b = 0 ∨ Fe.equal a b = 1 := by
  rw [fe_equal_spec ha hb]
  by_cases h : val a ≡ val b [MOD P]
  · simp [h]
  · simp [h]

theorem isNegative_01 {a : Prims.Fe} (ha : U64 a) : Fe.isNegative a = 0 ∨ Fe.isNegative a = 1 := by
  rw [isNegative_spec ha]; omega

/-- `Absolute`: the representative of `±u` whose canonical form is even -/
theorem fe_absolute_spec {u : Prims.Fe} (hu : Inv u) :
    Inv (Fe.absolute u) ∧
    (val u % P % 2 = 0 → Fe.absolute u = u) ∧
    (val u % P % 2 = 1 → Fe.absolute u = Fe.neg u) := by
  have hn := neg_spec hu
  have un : U64 (Fe.neg u) := tight_u64 hn.1
  have uu : U64 u := inv_U64 hu
  have hs := isNegative_spec uu
  unfold Fe.absolute
  rcases isNegative_01 uu with h | h
  · rw [h, select_zero _ uu]
    exact ⟨hu, fun _ => rfl, fun h1 => by omega⟩
  · rw [h, select_one _ un]
    exact ⟨tight_inv hn.1, fun h0 => by omega, fun _ => rfl⟩

end EdVerif.Proofs
