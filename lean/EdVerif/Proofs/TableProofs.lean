import EdVerif.Proofs.PointLayerDecode
import EdVerif.Proofs.Tables
import EdVerif.Proofs.Loops
/-!
C01, table layer: the lookup tables of `tables.go` / `scalarmult.go` in the executable model
(`projTable`, `affineTable`, `naf5Table`, `naf8Table`, `basepointTable`, `basepointNafTable`) contain
representatives of the documented multiples, and the selection functions (`projSelect`,
`affineSelect`, `nafSelect`) return a representative of `x • Q` for every digit `x` in range.

Hypotheses: `ff : FieldFacts` (field layer) and, for the base-point tables, which start from the
decoded `generator`, `sf : SqrtRatioDecodeFacts`.
-/
namespace EdVerif.Proofs
open EdVerif.Impl EdVerif.Impl.Point EdVerif.Prims EdVerif.Spec

/-! ### generic facts about tables built by `push` -/

theorem getElem!_push_lt {α} [Inhabited α] (t : Array α) (x : α) (j : Nat) (h : j < t.size) :
    (t.push x)[j]! = t[j]! := by
  rw [getElem!_pos (t.push x) j (by simp; omega), getElem!_pos t j h, Array.getElem_push_lt]

theorem getElem!_push_eq {α} [Inhabited α] (t : Array α) (x : α) :
    (t.push x)[t.size]! = x := by
  rw [getElem!_pos (t.push x) t.size (by simp), Array.getElem_push_eq]

/-- `t := #[a0]; for i < n: t := t.push (g t[i])` has `n+1` entries, entry `j` is `g^[j] a0` -/
theorem pushTable_spec {α} [Inhabited α] (g : α → α) (a0 : α) (n : ℕ) :
    ((List.range n).foldl (fun (t : Array α) i => t.push (g t[i]!)) #[a0]).size = n + 1 ∧
    ∀ j ≤ n, ((List.range n).foldl (fun (t : Array α) i => t.push (g t[i]!)) #[a0])[j]!
      = g^[j] a0 := by
  induction n with
  | zero =>
    refine ⟨rfl, ?_⟩
    intro j hj
    have : j = 0 := by omega
    subst this; rfl
  | succ n ih =>
    obtain ⟨hs, hg⟩ := ih
    rw [List.range_succ, List.foldl_append]
    simp only [List.foldl_cons, List.foldl_nil]
    generalize (List.range n).foldl (fun (t : Array α) i => t.push (g t[i]!)) #[a0] = t at hs hg
    refine ⟨by simp [hs], ?_⟩
    intro j hj
    by_cases h : j ≤ n
    · rw [getElem!_push_lt _ _ _ (by omega)]
      exact hg j h
    · have : j = t.size := by omega
      subst this
      rw [getElem!_push_eq, hs, hg n (le_refl _), Function.iterate_succ_apply']

theorem getElem!_map {α β} [Inhabited α] [Inhabited β] (f : α → β) (a : Array α) (j : Nat)
    (h : j < a.size) : (a.map f)[j]! = f a[j]! := by
  rw [getElem!_pos (a.map f) j (by simpa using h), getElem!_pos a j h, Array.getElem_map]

/-! ### selection fold with an invariant on the entries -/

/-- as `select_fold_range`, but the select laws are only required for entries satisfying `Pr`
(`Fe.select` is only specified on limbs satisfying the invariant) -/
theorem select_fold_range_inv {α : Type _} (Pr : α → Prop) (sel : α → α → Nat → α)
    (hsel1 : ∀ a b, Pr a → Pr b → sel a b 1 = a) (hsel0 : ∀ a b, Pr a → Pr b → sel a b 0 = b)
    (t : Nat → α) (zero : α) (xabs : Nat) (n : Nat) (hz : Pr zero) (ht : ∀ j < n, Pr (t j)) :
    (List.range n).foldl (fun dest j => sel (t j) dest (ctByteEq xabs (j + 1))) zero
      = if 1 ≤ xabs ∧ xabs ≤ n then t (xabs - 1) else zero := by
  induction n with
  | zero =>
    have : ¬ (1 ≤ xabs ∧ xabs ≤ 0) := by omega
    rw [if_neg this]
    rfl
  | succ n ih =>
    have ih := ih (fun j hj => ht j (by omega))
    rw [List.range_succ, List.foldl_append, ih]
    simp only [List.foldl_cons, List.foldl_nil]
    rw [ctByteEq_eq]
    have hprev : Pr (if 1 ≤ xabs ∧ xabs ≤ n then t (xabs - 1) else zero) := by
      split
      · exact ht _ (by omega)
      · exact hz
    by_cases he : xabs = n + 1
    · have h1 : 1 ≤ xabs ∧ xabs ≤ n + 1 := by omega
      rw [if_pos he, hsel1 _ _ (ht n (by omega)) hprev, if_pos h1]
      have : xabs - 1 = n := by omega
      rw [this]
    · rw [if_neg he, hsel0 _ _ (ht n (by omega)) hprev]
      by_cases h2 : 1 ≤ xabs ∧ xabs ≤ n
      · have h3 : 1 ≤ xabs ∧ xabs ≤ n + 1 := by omega
        rw [if_pos h2, if_pos h3]
      · have h3 : ¬ (1 ≤ xabs ∧ xabs ≤ n + 1) := by omega
        rw [if_neg h2, if_neg h3]

/-! ### small group facts -/

section group
variable {G : Type*} [AddCommGroup G]

theorem succ_smul_aux (Q : G) (j : ℕ) : Q + ((j : ℤ) + 1) • Q = (((j + 1 : ℕ) : ℤ) + 1) • Q := by
  push_cast; module

theorem odd_succ_smul_aux (Q : G) (j : ℕ) :
    (Q + Q) + (2 * (j : ℤ) + 1) • Q = (2 * ((j + 1 : ℕ) : ℤ) + 1) • Q := by
  push_cast; module

theorem nsmul_two_eq (X : G) : (2 : ℕ) • X = (2 : ℤ) • X := by
  rw [← natCast_zsmul]; rfl

theorem nsmul_16_eq (X : G) : (16 : ℕ) • X = (16 : ℤ) • X := by
  rw [← natCast_zsmul]; rfl

end group

section
variable (ff : FieldFacts)
include ff

/-! ### the four table constructors -/

theorem projTable_iter {q : P3} {Q : Ed25519} (hq : q.Rep Q) (j : ℕ) :
    ((fun c => Point.Cached.fromP3 (Point.fromP1xP1 (Point.P1xP1.add q c)))^[j]
      (Point.Cached.fromP3 q)).Rep (((j : ℤ) + 1) • Q) := by
  induction j with
  | zero =>
    have : ((0 : ℕ) : ℤ) + 1 = 1 := by norm_num
    rw [this, one_smul]
    exact Cached_fromP3_rep ff hq
  | succ j ih =>
    rw [Function.iterate_succ_apply', ← succ_smul_aux]
    exact Cached_fromP3_rep ff (fromP1xP1_rep ff (P1xP1_add_rep ff hq ih))

omit ff in
theorem projTable_size (q : P3) : (Point.projTable q).size = 8 :=
  (pushTable_spec (fun c => Point.Cached.fromP3 (Point.fromP1xP1 (Point.P1xP1.add q c)))
    (Point.Cached.fromP3 q) 7).1

/-- `projLookupTable.FromP3`: entry `j` represents `(j+1) Q` -/
theorem projTable_rep {q : P3} {Q : Ed25519} (hq : q.Rep Q) :
    ∀ j < 8, ((Point.projTable q)[j]!).Rep (((j : ℤ) + 1) • Q) := by
  intro j hj
  unfold Point.projTable
  rw [(pushTable_spec (fun c => Point.Cached.fromP3 (Point.fromP1xP1 (Point.P1xP1.add q c)))
    (Point.Cached.fromP3 q) 7).2 j (by omega)]
  exact projTable_iter ff hq j

theorem affineTable_iter {q : P3} {Q : Ed25519} (hq : q.Rep Q) (j : ℕ) :
    ((fun c => Point.AffineCached.fromP3 (Point.fromP1xP1 (Point.P1xP1.addAffine q c)))^[j]
      (Point.AffineCached.fromP3 q)).Rep (((j : ℤ) + 1) • Q) := by
  induction j with
  | zero =>
    have : ((0 : ℕ) : ℤ) + 1 = 1 := by norm_num
    rw [this, one_smul]
    exact AffineCached_fromP3_rep ff hq
  | succ j ih =>
    rw [Function.iterate_succ_apply', ← succ_smul_aux]
    exact AffineCached_fromP3_rep ff (fromP1xP1_rep ff (P1xP1_addAffine_rep ff hq ih))

omit ff in
theorem affineTable_size (q : P3) : (Point.affineTable q).size = 8 :=
  (pushTable_spec (fun c => Point.AffineCached.fromP3 (Point.fromP1xP1 (Point.P1xP1.addAffine q c)))
    (Point.AffineCached.fromP3 q) 7).1

/-- `affineLookupTable.FromP3`: entry `j` represents `(j+1) Q` -/
theorem affineTable_rep {q : P3} {Q : Ed25519} (hq : q.Rep Q) :
    ∀ j < 8, ((Point.affineTable q)[j]!).Rep (((j : ℤ) + 1) • Q) := by
  intro j hj
  unfold Point.affineTable
  rw [(pushTable_spec (fun c => Point.AffineCached.fromP3 (Point.fromP1xP1 (Point.P1xP1.addAffine q c)))
    (Point.AffineCached.fromP3 q) 7).2 j (by omega)]
  exact affineTable_iter ff hq j

theorem naf5Table_iter {q : P3} {Q : Ed25519} (hq : q.Rep Q) (j : ℕ) :
    ((fun c => Point.Cached.fromP3 (Point.fromP1xP1 (Point.P1xP1.add (Point.add q q) c)))^[j]
      (Point.Cached.fromP3 q)).Rep ((2 * (j : ℤ) + 1) • Q) := by
  induction j with
  | zero =>
    have : 2 * ((0 : ℕ) : ℤ) + 1 = 1 := by norm_num
    rw [this, one_smul]
    exact Cached_fromP3_rep ff hq
  | succ j ih =>
    rw [Function.iterate_succ_apply', ← odd_succ_smul_aux]
    exact Cached_fromP3_rep ff (fromP1xP1_rep ff (P1xP1_add_rep ff (add_rep ff hq hq) ih))

omit ff in
theorem naf5Table_size (q : P3) : (Point.naf5Table q).size = 8 :=
  (pushTable_spec (fun c => Point.Cached.fromP3 (Point.fromP1xP1 (Point.P1xP1.add (Point.add q q) c)))
    (Point.Cached.fromP3 q) 7).1

/-- `nafLookupTable5.FromP3`: entry `j` represents `(2j+1) Q` -/
theorem naf5Table_rep {q : P3} {Q : Ed25519} (hq : q.Rep Q) :
    ∀ j < 8, ((Point.naf5Table q)[j]!).Rep ((2 * (j : ℤ) + 1) • Q) := by
  intro j hj
  unfold Point.naf5Table
  simp only []
  rw [(pushTable_spec (fun c => Point.Cached.fromP3 (Point.fromP1xP1 (Point.P1xP1.add (Point.add q q) c)))
    (Point.Cached.fromP3 q) 7).2 j (by omega)]
  exact naf5Table_iter ff hq j

theorem naf8Table_iter {q : P3} {Q : Ed25519} (hq : q.Rep Q) (j : ℕ) :
    ((fun c => Point.AffineCached.fromP3
        (Point.fromP1xP1 (Point.P1xP1.addAffine (Point.add q q) c)))^[j]
      (Point.AffineCached.fromP3 q)).Rep ((2 * (j : ℤ) + 1) • Q) := by
  induction j with
  | zero =>
    have : 2 * ((0 : ℕ) : ℤ) + 1 = 1 := by norm_num
    rw [this, one_smul]
    exact AffineCached_fromP3_rep ff hq
  | succ j ih =>
    rw [Function.iterate_succ_apply', ← odd_succ_smul_aux]
    exact AffineCached_fromP3_rep ff
      (fromP1xP1_rep ff (P1xP1_addAffine_rep ff (add_rep ff hq hq) ih))

omit ff in
theorem naf8Table_size (q : P3) : (Point.naf8Table q).size = 64 :=
  (pushTable_spec (fun c => Point.AffineCached.fromP3 (Point.fromP1xP1 (Point.P1xP1.addAffine (Point.add q q) c)))
    (Point.AffineCached.fromP3 q) 63).1

/-- `nafLookupTable8.FromP3`: entry `j` represents `(2j+1) Q` -/
theorem naf8Table_rep {q : P3} {Q : Ed25519} (hq : q.Rep Q) :
    ∀ j < 64, ((Point.naf8Table q)[j]!).Rep ((2 * (j : ℤ) + 1) • Q) := by
  intro j hj
  unfold Point.naf8Table
  simp only []
  rw [(pushTable_spec (fun c => Point.AffineCached.fromP3 (Point.fromP1xP1 (Point.P1xP1.addAffine (Point.add q q) c)))
    (Point.AffineCached.fromP3 q) 63).2 j (by omega)]
  exact naf8Table_iter ff hq j

/-! ### constant-time selection (`projLookupTable.SelectInto`, `affineLookupTable.SelectInto`) -/

/-- `projSelect` on any table whose entries represent `1 Q, …, 8 Q` -/
theorem projSelect_rep_of {t : Array Cached} {Q : Ed25519}
    (ht : ∀ j < 8, (t[j]!).Rep (((j : ℤ) + 1) • Q)) {x : ℤ} (hx : -8 ≤ x ∧ x ≤ 8) :
    (Point.projSelect t x).Rep (x • Q) := by
  unfold Point.projSelect
  simp only []
  rw [xmaskOf_and_one, xabsOf_eq x (by omega)]
  rw [select_fold_range_inv (fun c : Cached => ∃ R, c.Rep R) Point.Cached.select
    (fun a b ⟨_, ha⟩ ⟨_, hb⟩ => Cached_select_one ff ha hb)
    (fun a b ⟨_, ha⟩ ⟨_, hb⟩ => Cached_select_zero ff ha hb)
    (fun j => t[j]!) Point.Cached.zero x.natAbs 8 ⟨0, Cached_zero_rep ff⟩
    (fun j hj => ⟨_, ht j hj⟩)]
  by_cases hneg : x < 0
  · have h1 : 1 ≤ x.natAbs ∧ x.natAbs ≤ 8 := by omega
    rw [if_pos hneg, if_pos h1]
    have h := Cached_condNeg_one ff (ht (x.natAbs - 1) (by omega))
    have e : -((((x.natAbs - 1 : ℕ) : ℤ) + 1) • Q) = x • Q := by
      rw [← neg_zsmul]; congr 1; omega
    rw [← e]; exact h
  · rw [if_neg hneg]
    by_cases hz : x = 0
    · have h1 : ¬ (1 ≤ x.natAbs ∧ x.natAbs ≤ 8) := by omega
      rw [if_neg h1, Cached_condNeg_zero ff (Cached_zero_rep ff), hz, zero_zsmul]
      exact Cached_zero_rep ff
    · have h1 : 1 ≤ x.natAbs ∧ x.natAbs ≤ 8 := by omega
      rw [if_pos h1]
      have h := ht (x.natAbs - 1) (by omega)
      rw [Cached_condNeg_zero ff h]
      have e : (((x.natAbs - 1 : ℕ) : ℤ) + 1) • Q = x • Q := by congr 1; omega
      rw [← e]; exact h

/-- `projLookupTable.SelectInto` on the table of `q` -/
theorem projSelect_rep {q : P3} {Q : Ed25519} (hq : q.Rep Q) {x : ℤ} (hx : -8 ≤ x ∧ x ≤ 8) :
    (Point.projSelect (Point.projTable q) x).Rep (x • Q) :=
  projSelect_rep_of ff (projTable_rep ff hq) hx

/-- `affineSelect` on any table whose entries represent `1 Q, …, 8 Q` -/
theorem affineSelect_rep_of {t : Array AffineCached} {Q : Ed25519}
    (ht : ∀ j < 8, (t[j]!).Rep (((j : ℤ) + 1) • Q)) {x : ℤ} (hx : -8 ≤ x ∧ x ≤ 8) :
    (Point.affineSelect t x).Rep (x • Q) := by
  unfold Point.affineSelect
  simp only []
  rw [xmaskOf_and_one, xabsOf_eq x (by omega)]
  rw [select_fold_range_inv (fun c : AffineCached => ∃ R, c.Rep R) Point.AffineCached.select
    (fun a b ⟨_, ha⟩ ⟨_, hb⟩ => AffineCached_select_one ff ha hb)
    (fun a b ⟨_, ha⟩ ⟨_, hb⟩ => AffineCached_select_zero ff ha hb)
    (fun j => t[j]!) Point.AffineCached.zero x.natAbs 8 ⟨0, AffineCached_zero_rep ff⟩
    (fun j hj => ⟨_, ht j hj⟩)]
  by_cases hneg : x < 0
  · have h1 : 1 ≤ x.natAbs ∧ x.natAbs ≤ 8 := by omega
    rw [if_pos hneg, if_pos h1]
    have h := AffineCached_condNeg_one ff (ht (x.natAbs - 1) (by omega))
    have e : -((((x.natAbs - 1 : ℕ) : ℤ) + 1) • Q) = x • Q := by
      rw [← neg_zsmul]; congr 1; omega
    rw [← e]; exact h
  · rw [if_neg hneg]
    by_cases hz : x = 0
    · have h1 : ¬ (1 ≤ x.natAbs ∧ x.natAbs ≤ 8) := by omega
      rw [if_neg h1, AffineCached_condNeg_zero ff (AffineCached_zero_rep ff), hz, zero_zsmul]
      exact AffineCached_zero_rep ff
    · have h1 : 1 ≤ x.natAbs ∧ x.natAbs ≤ 8 := by omega
      rw [if_pos h1]
      have h := ht (x.natAbs - 1) (by omega)
      rw [AffineCached_condNeg_zero ff h]
      have e : (((x.natAbs - 1 : ℕ) : ℤ) + 1) • Q = x • Q := by congr 1; omega
      rw [← e]; exact h

/-- `affineLookupTable.SelectInto` on the table of `q` -/
theorem affineSelect_rep {q : P3} {Q : Ed25519} (hq : q.Rep Q) {x : ℤ} (hx : -8 ≤ x ∧ x ≤ 8) :
    (Point.affineSelect (Point.affineTable q) x).Rep (x • Q) :=
  affineSelect_rep_of ff (affineTable_rep ff hq) hx

end

/-! ### variable-time selection (`nafLookupTable5/8.SelectInto`) -/

/-- an odd digit `0 < x < 2n` selects the entry representing `x Q` from a table of odd
multiples (`R` is any of the `Rep` relations) -/
theorem nafSelect_pos_rep {α} [Inhabited α] {R : α → Ed25519 → Prop} {t : Array α} {Q : Ed25519}
    {n : ℕ} (ht : ∀ k < n, R t[k]! ((2 * (k : ℤ) + 1) • Q)) {x : ℤ}
    (hodd : x % 2 = 1) (hpos : 0 < x) (hlt : x < 2 * n) : R (Point.nafSelect t x) (x • Q) := by
  have e : x = 2 * ((x.toNat / 2 : ℕ) : ℤ) + 1 := by omega
  rw [nafSelect_odd_pos t x (x.toNat / 2) e]
  have h := ht (x.toNat / 2) (by omega)
  rw [← e] at h
  exact h

/-- an odd digit `-2n < x < 0` (and `-128 < x`): `nafSelect t (int8(-x))` represents `(-x) Q` -/
theorem nafSelect_neg_rep {α} [Inhabited α] {R : α → Ed25519 → Prop} {t : Array α} {Q : Ed25519}
    {n : ℕ} (ht : ∀ k < n, R t[k]! ((2 * (k : ℤ) + 1) • Q)) {x : ℤ}
    (hodd : x % 2 = 1) (hneg : x < 0) (hlt : -(2 * (n : ℤ)) < x) (h8 : -128 < x) :
    R (Point.nafSelect t (Scalar.wrap8 (-x))) ((-x) • Q) := by
  rw [wrap8_neg x ⟨h8, hneg⟩]
  exact nafSelect_pos_rep ht (by omega) (by omega) (by omega)

/-- one iteration of the `basepointTable()` loop -/
def bpStep (acc : Array (Array AffineCached) × P3) (_ : ℕ) : Array (Array AffineCached) × P3 :=
  (acc.1.push (Point.affineTable acc.2), (List.range 8).foldl (fun p _ => Point.add p p) acc.2)

theorem basepointTable_eq :
    Point.basepointTable = ((List.range 32).foldl bpStep (#[], Point.generator)).1 := rfl

section
variable (ff : FieldFacts)
include ff

/-- `nafLookupTable5.SelectInto`, positive digit -/
theorem naf5Select_pos_rep {q : P3} {Q : Ed25519} (hq : q.Rep Q) {x : ℤ}
    (hodd : x % 2 = 1) (hpos : 0 < x) (hlt : x < 16) :
    (Point.nafSelect (Point.naf5Table q) x).Rep (x • Q) :=
  nafSelect_pos_rep (R := Cached.Rep) (n := 8) (naf5Table_rep ff hq) hodd hpos (by omega)

/-- `nafLookupTable5.SelectInto`, negative digit (the Go code passes `-x`) -/
theorem naf5Select_neg_rep {q : P3} {Q : Ed25519} (hq : q.Rep Q) {x : ℤ}
    (hodd : x % 2 = 1) (hneg : x < 0) (hlt : -16 < x) :
    (Point.nafSelect (Point.naf5Table q) (Scalar.wrap8 (-x))).Rep ((-x) • Q) :=
  nafSelect_neg_rep (R := Cached.Rep) (n := 8) (naf5Table_rep ff hq) hodd hneg (by omega) (by omega)

/-- `nafLookupTable8.SelectInto`, positive digit -/
theorem naf8Select_pos_rep {q : P3} {Q : Ed25519} (hq : q.Rep Q) {x : ℤ}
    (hodd : x % 2 = 1) (hpos : 0 < x) (hlt : x < 128) :
    (Point.nafSelect (Point.naf8Table q) x).Rep (x • Q) :=
  nafSelect_pos_rep (R := AffineCached.Rep) (n := 64) (naf8Table_rep ff hq) hodd hpos (by omega)

/-- `nafLookupTable8.SelectInto`, negative digit -/
theorem naf8Select_neg_rep {q : P3} {Q : Ed25519} (hq : q.Rep Q) {x : ℤ}
    (hodd : x % 2 = 1) (hneg : x < 0) (hlt : -128 < x) :
    (Point.nafSelect (Point.naf8Table q) (Scalar.wrap8 (-x))).Rep ((-x) • Q) :=
  nafSelect_neg_rep (R := AffineCached.Rep) (n := 64) (naf8Table_rep ff hq) hodd hneg (by omega)
    (by omega)

/-- one variable-time NAF step on a `projCached` table of odd multiples of `Q` (window `2n`) -/
theorem nafStep_rep {t : Array Cached} {Q : Ed25519} {n : ℕ} (hn : 2 * n ≤ 128)
    (ht : ∀ k < n, (t[k]!).Rep ((2 * (k : ℤ) + 1) • Q)) {x : ℤ}
    (hx : x = 0 ∨ (x % 2 = 1 ∧ -(2 * (n : ℤ)) < x ∧ x < 2 * n))
    {tmp1 : P1xP1} {X : Ed25519} (h : tmp1.Rep X) :
    (if x > 0 then Point.P1xP1.add (Point.fromP1xP1 tmp1) (Point.nafSelect t x)
      else if x < 0 then
        Point.P1xP1.sub (Point.fromP1xP1 tmp1) (Point.nafSelect t (Scalar.wrap8 (-x)))
      else tmp1).Rep (X + x • Q) := by
  rcases lt_trichotomy x 0 with h0 | h0 | h0
  · have h1 : ¬ x > 0 := by omega
    rw [if_neg h1, if_pos h0]
    rcases hx with hx | ⟨hodd, hlo, _⟩
    · omega
    · have hs := nafSelect_neg_rep (R := Cached.Rep) ht hodd h0 hlo (by omega)
      have e : X + x • Q = X - (-x) • Q := by rw [neg_zsmul, sub_neg_eq_add]
      rw [e]
      exact P1xP1_sub_rep ff (fromP1xP1_rep ff h) hs
  · subst h0
    simp only [gt_iff_lt, lt_self_iff_false, if_false, zero_zsmul, add_zero]
    exact h
  · have h1 : x > 0 := h0
    rw [if_pos h1]
    rcases hx with hx | ⟨hodd, _, hhi⟩
    · omega
    · exact P1xP1_add_rep ff (fromP1xP1_rep ff h)
        (nafSelect_pos_rep (R := Cached.Rep) ht hodd h0 hhi)

/-- one variable-time NAF step on an `affineCached` table of odd multiples of `Q` -/
theorem nafStepAffine_rep {t : Array AffineCached} {Q : Ed25519} {n : ℕ} (hn : 2 * n ≤ 128)
    (ht : ∀ k < n, (t[k]!).Rep ((2 * (k : ℤ) + 1) • Q)) {x : ℤ}
    (hx : x = 0 ∨ (x % 2 = 1 ∧ -(2 * (n : ℤ)) < x ∧ x < 2 * n))
    {tmp1 : P1xP1} {X : Ed25519} (h : tmp1.Rep X) :
    (if x > 0 then Point.P1xP1.addAffine (Point.fromP1xP1 tmp1) (Point.nafSelect t x)
      else if x < 0 then
        Point.P1xP1.subAffine (Point.fromP1xP1 tmp1) (Point.nafSelect t (Scalar.wrap8 (-x)))
      else tmp1).Rep (X + x • Q) := by
  rcases lt_trichotomy x 0 with h0 | h0 | h0
  · have h1 : ¬ x > 0 := by omega
    rw [if_neg h1, if_pos h0]
    rcases hx with hx | ⟨hodd, hlo, _⟩
    · omega
    · have hs := nafSelect_neg_rep (R := AffineCached.Rep) ht hodd h0 hlo (by omega)
      have e : X + x • Q = X - (-x) • Q := by rw [neg_zsmul, sub_neg_eq_add]
      rw [e]
      exact P1xP1_subAffine_rep ff (fromP1xP1_rep ff h) hs
  · subst h0
    simp only [gt_iff_lt, lt_self_iff_false, if_false, zero_zsmul, add_zero]
    exact h
  · have h1 : x > 0 := h0
    rw [if_pos h1]
    rcases hx with hx | ⟨hodd, _, hhi⟩
    · omega
    · exact P1xP1_addAffine_rep ff (fromP1xP1_rep ff h)
        (nafSelect_pos_rep (R := AffineCached.Rep) ht hodd h0 hhi)

/-! ### the base-point tables -/

/-- eight doublings of a `Point` -/
theorem double8_rep {p : P3} {P : Ed25519} (hp : p.Rep P) :
    ((List.range 8).foldl (fun p _ => Point.add p p) p).Rep ((256 : ℤ) • P) := by
  rw [← Loops.double8 P]
  exact Loops.foldl_rel (fun (v : P3) (g : Ed25519) => v.Rep g) _ _ _ _ _ hp
    (fun a b _ _ hab => add_rep ff hab hab)

variable (sf : SqrtRatioDecodeFacts)
include sf

/-- invariant of the `basepointTable()` loop after `n` iterations -/
theorem basepointTable_loop (n : ℕ) :
    ((List.range n).foldl bpStep (#[], Point.generator)).1.size = n ∧
    ((List.range n).foldl bpStep (#[], Point.generator)).2.Rep (((256 : ℤ) ^ n) • basepoint) ∧
      ∀ i < n, ∀ j < 8, ((((List.range n).foldl bpStep (#[], Point.generator)).1[i]!)[j]!).Rep
        ((((j : ℤ) + 1) * 256 ^ i) • basepoint) := by
  induction n with
  | zero =>
    refine ⟨rfl, ?_, ?_⟩
    · simp only [List.range_zero, List.foldl_nil, pow_zero, one_smul]
      exact generator_rep ff sf
    · intro i hi; omega
  | succ n ih =>
    rw [List.range_succ, List.foldl_append]
    simp only [List.foldl_cons, List.foldl_nil]
    generalize (List.range n).foldl bpStep (#[], Point.generator) = st at ih ⊢
    obtain ⟨hs, hp, ht⟩ := ih
    refine ⟨by simp [bpStep, hs], ?_, ?_⟩
    · have h := double8_rep ff hp
      rw [smul_smul, ← pow_succ'] at h
      exact h
    · intro i hi j hj
      by_cases h : i < n
      · show ((st.1.push (Point.affineTable st.2))[i]!)[j]!.Rep _
        rw [getElem!_push_lt _ _ _ (by omega)]
        exact ht i h j hj
      · have hi' : i = st.1.size := by omega
        subst hi'
        show ((st.1.push (Point.affineTable st.2))[st.1.size]!)[j]!.Rep _
        rw [getElem!_push_eq, mul_smul, hs]
        exact affineTable_rep ff hp j hj

theorem basepointTable_size : Point.basepointTable.size = 32 := by
  rw [basepointTable_eq]; exact (basepointTable_loop ff sf 32).1

/-- `basepointTable()`: table `i`, entry `j` represents `(j+1) 256^i B` -/
theorem basepointTable_rep : ∀ i < 32, ∀ j < 8,
    ((Point.basepointTable[i]!)[j]!).Rep ((((j : ℤ) + 1) * 256 ^ i) • basepoint) := by
  rw [basepointTable_eq]; exact (basepointTable_loop ff sf 32).2.2

/-- table `i` of `basepointTable()` is a table of `1 … 8` times `256^i B` -/
theorem basepointTable_rep' : ∀ i < 32, ∀ j < 8,
    ((Point.basepointTable[i]!)[j]!).Rep (((j : ℤ) + 1) • ((256 : ℤ) ^ i • basepoint)) := by
  intro i hi j hj
  rw [smul_smul]
  exact basepointTable_rep ff sf i hi j hj

omit ff sf in
theorem basepointNafTable_size : Point.basepointNafTable.size = 64 := naf8Table_size _

/-- `basepointNafTable()`: entry `j` represents `(2j+1) B` -/
theorem basepointNafTable_rep : ∀ j < 64,
    (Point.basepointNafTable[j]!).Rep ((2 * (j : ℤ) + 1) • basepoint) :=
  naf8Table_rep ff (generator_rep ff sf)

end

end EdVerif.Proofs
