import Mathlib.Data.ZMod.Basic
import Mathlib.FieldTheory.Finite.Basic
import Mathlib.Tactic.NormNum
import Mathlib.Tactic.Ring
import Mathlib.Tactic.LinearCombination
import EdVerif.Proofs.FieldFacts
/-!
Field high layer: the `ZMod p` view (`FieldFacts`) of every `field.Element` operation of the
executable model, derived from the kernel-level `Nat` facts (`KernelFacts`).

Main result: `fieldFacts_of_kernelFacts : KernelFacts → FieldFacts`.
-/
namespace EdVerif.Proofs
open EdVerif.Impl EdVerif.Prims EdVerif.Spec

/-! ### invariants -/

theorem inv_u64 {e : Fe} (h : Fe.Inv e) : Fe.U64 e := by
  obtain ⟨h0, h1, h2, h3, h4⟩ := h
  refine ⟨?_, ?_, ?_, ?_, ?_⟩ <;> omega

theorem inv_of_lt {e : Fe} (h0 : e.l0 < 2^51) (h1 : e.l1 < 2^51) (h2 : e.l2 < 2^51)
    (h3 : e.l3 < 2^51) (h4 : e.l4 < 2^51) : Fe.Inv e := by
  refine ⟨?_, ?_, ?_, ?_, ?_⟩ <;> omega

/-! ### `Nat.ModEq` to `ZMod` -/

theorem toZ_of_modEq {a : Fe} {n : ℕ} (h : Fe.val a ≡ n [MOD P]) : toZ a = (n : F) :=
  (ZMod.natCast_eq_natCast_iff _ _ _).mpr h

theorem toZ_val (a : Fe) : (toZ a).val = Fe.val a % P := ZMod.val_natCast _ _

theorem zero_z (kf : KernelFacts) : Fe.Inv Fe.zero ∧ toZ Fe.zero = 0 := by
  rw [kf.zero]
  refine ⟨by decide, ?_⟩
  unfold toZ Fe.val
  simp

theorem one_z (kf : KernelFacts) : Fe.Inv Fe.one ∧ toZ Fe.one = 1 := by
  rw [kf.one]
  refine ⟨by decide, ?_⟩
  unfold toZ Fe.val
  simp

theorem rz_z : Fe.Inv Fe.rz ∧ toZ Fe.rz = 0 := by
  refine ⟨by decide, ?_⟩
  unfold toZ Fe.val Fe.rz
  simp

theorem val_sqrtM1 : Fe.val Fe.sqrtM1 = EdVerif.SQRTM1 := by decide +kernel

theorem sqrtM1_z : Fe.Inv Fe.sqrtM1 ∧ toZ Fe.sqrtM1 = Spec.sqrtM1 := by
  refine ⟨by decide +kernel, ?_⟩
  unfold toZ Spec.sqrtM1
  rw [val_sqrtM1]

theorem add_z (kf : KernelFacts) (a b : Fe) (ha : Fe.Inv a) (hb : Fe.Inv b) :
    Fe.Inv (Fe.add a b) ∧ toZ (Fe.add a b) = toZ a + toZ b := by
  obtain ⟨ht, hm⟩ := kf.add a b ha hb
  refine ⟨kf.tight_inv _ ht, ?_⟩
  rw [toZ_of_modEq hm]; unfold toZ; push_cast; rfl

theorem sub_z (kf : KernelFacts) (a b : Fe) (ha : Fe.Inv a) (hb : Fe.Inv b) :
    Fe.Inv (Fe.sub a b) ∧ toZ (Fe.sub a b) = toZ a - toZ b := by
  obtain ⟨ht, hm⟩ := kf.sub a b ha hb
  refine ⟨kf.tight_inv _ ht, ?_⟩
  have h : ((Fe.val (Fe.sub a b) + Fe.val b : ℕ) : F) = ((Fe.val a : ℕ) : F) :=
    (ZMod.natCast_eq_natCast_iff _ _ _).mpr hm
  rw [Nat.cast_add] at h
  unfold toZ
  exact eq_sub_of_add_eq h

theorem neg_z (kf : KernelFacts) (a : Fe) (ha : Fe.Inv a) :
    Fe.Inv (Fe.neg a) ∧ toZ (Fe.neg a) = - toZ a := by
  obtain ⟨ht, hm⟩ := kf.neg a ha
  refine ⟨kf.tight_inv _ ht, ?_⟩
  have h : ((Fe.val (Fe.neg a) + Fe.val a : ℕ) : F) = ((0 : ℕ) : F) :=
    (ZMod.natCast_eq_natCast_iff _ _ _).mpr hm
  rw [Nat.cast_add, Nat.cast_zero] at h
  unfold toZ
  exact eq_neg_of_add_eq_zero_left h

theorem mul_z (kf : KernelFacts) (a b : Fe) (ha : Fe.Inv a) (hb : Fe.Inv b) :
    Fe.Inv (Fe.mul a b) ∧ toZ (Fe.mul a b) = toZ a * toZ b := by
  obtain ⟨ht, hm⟩ := kf.mul a b ha hb
  refine ⟨kf.tight_inv _ ht, ?_⟩
  rw [toZ_of_modEq hm]; unfold toZ; push_cast; rfl

theorem square_z (kf : KernelFacts) (a : Fe) (ha : Fe.Inv a) :
    Fe.Inv (Fe.square a) ∧ toZ (Fe.square a) = toZ a ^ 2 := by
  obtain ⟨ht, hm⟩ := kf.square a ha
  refine ⟨kf.tight_inv _ ht, ?_⟩
  rw [toZ_of_modEq hm, sq]; unfold toZ; push_cast; rfl

theorem mult32_z (kf : KernelFacts) (a : Fe) (y : ℕ) (ha : Fe.Inv a) (hy : y < 2^32) :
    Fe.Inv (Fe.mult32 a y) ∧ toZ (Fe.mult32 a y) = toZ a * (y : F) := by
  obtain ⟨ht, hm⟩ := kf.mult32 a y ha hy
  refine ⟨ht, ?_⟩
  rw [toZ_of_modEq hm]; unfold toZ; push_cast; rfl

/-! ### powers: `sqn` and the addition chains -/

/-- `e` satisfies the invariant and represents `z ^ k` -/
def Pw (z e : Fe) (k : ℕ) : Prop := Fe.Inv e ∧ toZ e = toZ z ^ k

theorem Pw.base {z : Fe} (h : Fe.Inv z) : Pw z z 1 := ⟨h, (pow_one _).symm⟩

theorem Pw.cast {z e : Fe} {j k : ℕ} (h : Pw z e j) (hjk : j = k) : Pw z e k := hjk ▸ h

theorem Pw.mul (kf : KernelFacts) {z a b : Fe} {j k : ℕ} (ha : Pw z a j) (hb : Pw z b k) :
    Pw z (Fe.mul a b) (j + k) := by
  obtain ⟨hi, hz⟩ := mul_z kf a b ha.1 hb.1
  exact ⟨hi, by rw [hz, ha.2, hb.2, pow_add]⟩

theorem Pw.sq (kf : KernelFacts) {z a : Fe} {j : ℕ} (ha : Pw z a j) :
    Pw z (Fe.square a) (2 * j) := by
  obtain ⟨hi, hz⟩ := square_z kf a ha.1
  exact ⟨hi, by rw [hz, ha.2, ← pow_mul, Nat.mul_comm]⟩

theorem sqn_z (kf : KernelFacts) (n : ℕ) (t : Fe) (ht : Fe.Inv t) :
    Fe.Inv (Fe.sqn n t) ∧ toZ (Fe.sqn n t) = toZ t ^ (2 ^ n) := by
  induction n generalizing t with
  | zero => exact ⟨ht, by simp [Fe.sqn]⟩
  | succ n ih =>
    obtain ⟨hi, hz⟩ := square_z kf t ht
    obtain ⟨hi', hz'⟩ := ih (Fe.square t) hi
    refine ⟨hi', ?_⟩
    show toZ (Fe.sqn n (Fe.square t)) = _
    rw [hz', hz, ← pow_mul, pow_succ, Nat.mul_comm]

theorem Pw.sqn (kf : KernelFacts) (n : ℕ) {z a : Fe} {j : ℕ} (ha : Pw z a j) :
    Pw z (Fe.sqn n a) (2 ^ n * j) := by
  obtain ⟨hi, hz⟩ := sqn_z kf n a ha.1
  exact ⟨hi, by rw [hz, ha.2, ← pow_mul, Nat.mul_comm]⟩

/-- the `Invert` addition chain computes `z ^ (p - 2)` -/
theorem invert_pw (kf : KernelFacts) (z : Fe) (hz : Fe.Inv z) :
    Pw z (Fe.invert z) (2 ^ 255 - 21) := by
  have h1 : Pw z z 1 := Pw.base hz
  have z2 := Pw.sq kf h1
  have t := Pw.sq kf z2
  have t := Pw.sq kf t
  have z9 := Pw.mul kf t h1
  have z11 := Pw.mul kf z9 z2
  have t := Pw.sq kf z11
  have z2_5_0 := Pw.mul kf t z9
  have t := Pw.sq kf z2_5_0
  have t := Pw.sqn kf 4 t
  have z2_10_0 := Pw.mul kf t z2_5_0
  have t := Pw.sq kf z2_10_0
  have t := Pw.sqn kf 9 t
  have z2_20_0 := Pw.mul kf t z2_10_0
  have t := Pw.sq kf z2_20_0
  have t := Pw.sqn kf 19 t
  have t := Pw.mul kf t z2_20_0
  have t := Pw.sq kf t
  have t := Pw.sqn kf 9 t
  have z2_50_0 := Pw.mul kf t z2_10_0
  have t := Pw.sq kf z2_50_0
  have t := Pw.sqn kf 49 t
  have z2_100_0 := Pw.mul kf t z2_50_0
  have t := Pw.sq kf z2_100_0
  have t := Pw.sqn kf 99 t
  have t := Pw.mul kf t z2_100_0
  have t := Pw.sq kf t
  have t := Pw.sqn kf 49 t
  have t := Pw.mul kf t z2_50_0
  have t := Pw.sq kf t
  have t := Pw.sq kf t
  have t := Pw.sq kf t
  have t := Pw.sq kf t
  have t := Pw.sq kf t
  have r := Pw.mul kf t z11
  exact Pw.cast r (by norm_num)

/-- the `Pow22523` addition chain computes `x ^ (2^252 - 3)` -/
theorem pow22523_pw (kf : KernelFacts) (x : Fe) (hx : Fe.Inv x) :
    Pw x (Fe.pow22523 x) (2 ^ 252 - 3) := by
  have h1 : Pw x x 1 := Pw.base hx
  have t0 := Pw.sq kf h1
  have t1 := Pw.sq kf t0
  have t1 := Pw.sq kf t1
  have t1 := Pw.mul kf h1 t1
  have t0 := Pw.mul kf t0 t1
  have t0 := Pw.sq kf t0
  have t0 := Pw.mul kf t1 t0
  have t1 := Pw.sq kf t0
  have t1 := Pw.sqn kf 4 t1
  have t0 := Pw.mul kf t1 t0
  have t1 := Pw.sq kf t0
  have t1 := Pw.sqn kf 9 t1
  have t1 := Pw.mul kf t1 t0
  have t2 := Pw.sq kf t1
  have t2 := Pw.sqn kf 19 t2
  have t1 := Pw.mul kf t2 t1
  have t1 := Pw.sq kf t1
  have t1 := Pw.sqn kf 9 t1
  have t0 := Pw.mul kf t1 t0
  have t1 := Pw.sq kf t0
  have t1 := Pw.sqn kf 49 t1
  have t1 := Pw.mul kf t1 t0
  have t2 := Pw.sq kf t1
  have t2 := Pw.sqn kf 99 t2
  have t1 := Pw.mul kf t2 t1
  have t1 := Pw.sq kf t1
  have t1 := Pw.sqn kf 49 t1
  have t0 := Pw.mul kf t1 t0
  have t0 := Pw.sq kf t0
  have t0 := Pw.sq kf t0
  have r := Pw.mul kf t0 h1
  exact Pw.cast r (by norm_num)

theorem P_sub_two : EdVerif.P - 2 = 2 ^ 255 - 21 := by decide +kernel

/-- Fermat inversion in `F` -/
theorem pow_P_sub_two (a : F) : a ^ (2 ^ 255 - 21) = a⁻¹ := by
  rw [← P_sub_two]
  by_cases ha : a = 0
  · subst ha
    rw [inv_zero]
    exact zero_pow (by rw [P_sub_two]; norm_num)
  · apply eq_inv_of_mul_eq_one_left
    rw [← pow_succ]
    have e : EdVerif.P - 2 + 1 = EdVerif.P - 1 := by decide +kernel
    rw [e]
    exact ZMod.pow_card_sub_one_eq_one ha

theorem invert_z (kf : KernelFacts) (a : Fe) (ha : Fe.Inv a) :
    Fe.Inv (Fe.invert a) ∧ toZ (Fe.invert a) = (toZ a)⁻¹ := by
  obtain ⟨hi, hz⟩ := invert_pw kf a ha
  exact ⟨hi, by rw [hz, pow_P_sub_two]⟩

theorem pow22523_z (kf : KernelFacts) (a : Fe) (ha : Fe.Inv a) :
    Fe.Inv (Fe.pow22523 a) ∧ toZ (Fe.pow22523 a) = toZ a ^ (2 ^ 252 - 3) :=
  pow22523_pw kf a ha

/-! ### `select`, `swap` -/

theorem select_z (kf : KernelFacts) (a b : Fe) (ha : Fe.Inv a) (hb : Fe.Inv b) :
    Fe.select a b 1 = a ∧ Fe.select a b 0 = b := kf.select a b (inv_u64 ha) (inv_u64 hb)

theorem swap_z (kf : KernelFacts) (a b : Fe) (ha : Fe.Inv a) (hb : Fe.Inv b) :
    Fe.swap a b 1 = (b, a) ∧ Fe.swap a b 0 = (a, b) := kf.swap a b (inv_u64 ha) (inv_u64 hb)

/-! ### `bytes`, `equal`, `isNegative`, `absolute` -/

theorem bytes_z (kf : KernelFacts) (a : Fe) (ha : Fe.Inv a) :
    Fe.bytes a = LEbytes (toZ a).val 32 := by
  rw [kf.bytes a ha, toZ_val]

theorem LEbytes_size (n k : ℕ) : (LEbytes n k).size = k := by simp [LEbytes]

theorem LEbytes_getElem! (n k i : ℕ) (hi : i < k) : (LEbytes n k)[i]! = n / 256 ^ i % 256 := by
  simp [LEbytes, hi]

/-- the `k` little-endian bytes determine the value modulo `256^k` -/
theorem LEbytes_inj {n m k : ℕ} (h : LEbytes n k = LEbytes m k) : n % 256 ^ k = m % 256 ^ k := by
  have hd : ∀ i, i < k → n / 256 ^ i % 256 = m / 256 ^ i % 256 := by
    intro i hi
    rw [← LEbytes_getElem! n k i hi, ← LEbytes_getElem! m k i hi, h]
  clear h
  induction k with
  | zero => simp [Nat.mod_one]
  | succ k ih =>
    rw [Nat.mod_pow_succ, Nat.mod_pow_succ, ih (fun i hi => hd i (by omega)), hd k (by omega)]

theorem nat_xor_eq_zero {a b : ℕ} (h : a ^^^ b = 0) : a = b := by
  have e : a ^^^ (a ^^^ b) = b := by rw [← Nat.xor_assoc, Nat.xor_self, Nat.zero_xor]
  rw [h, Nat.xor_zero] at e
  exact e

theorem foldl_or_eq_zero (f : ℕ → ℕ) (l : List ℕ) (init : ℕ) :
    l.foldl (fun acc i => acc ||| f i) init = 0 ↔ init = 0 ∧ ∀ i ∈ l, f i = 0 := by
  induction l generalizing init with
  | nil => simp
  | cons x xs ih => simp [ih, Nat.or_eq_zero_iff, and_assoc]

/-- `subtle.ConstantTimeCompare` decides equality of equal-length byte strings -/
theorem ctCompare_eq (a b : Bytes) (h : a.size = b.size) :
    Fe.ctCompare a b = if a = b then 1 else 0 := by
  unfold Fe.ctCompare
  rw [if_neg (by simp [h])]
  show (if (List.foldl (fun acc i => acc ||| (a[i]! ^^^ b[i]!)) 0 (List.range a.size) == 0) = true
    then 1 else 0) = _
  by_cases hab : a = b
  · subst hab
    rw [if_pos rfl, if_pos]
    rw [beq_iff_eq, foldl_or_eq_zero (fun i => a[i]! ^^^ a[i]!)]
    exact ⟨rfl, fun i _ => Nat.xor_self _⟩
  · rw [if_neg hab, if_neg]
    rw [beq_iff_eq, foldl_or_eq_zero (fun i => a[i]! ^^^ b[i]!)]
    rintro ⟨-, hall⟩
    apply hab
    apply Array.ext h
    intro i hi1 hi2
    have := hall i (List.mem_range.mpr hi1)
    have := nat_xor_eq_zero this
    rw [getElem!_pos a i hi1, getElem!_pos b i hi2] at this
    exact this

theorem F_val_lt (x : F) : x.val < 256 ^ 32 := by
  have h1 : x.val < EdVerif.P := ZMod.val_lt x
  have h2 : EdVerif.P < 256 ^ 32 := by decide +kernel
  exact lt_trans h1 h2

theorem LEbytes_val_inj {x y : F} (h : LEbytes x.val 32 = LEbytes y.val 32) : x = y := by
  have := LEbytes_inj h
  rw [Nat.mod_eq_of_lt (F_val_lt x), Nat.mod_eq_of_lt (F_val_lt y)] at this
  exact ZMod.val_injective _ this

theorem equal_z (kf : KernelFacts) (a b : Fe) (ha : Fe.Inv a) (hb : Fe.Inv b) :
    Fe.equal a b = if toZ a = toZ b then 1 else 0 := by
  unfold Fe.equal
  rw [bytes_z kf a ha, bytes_z kf b hb, ctCompare_eq _ _ (by rw [LEbytes_size, LEbytes_size])]
  by_cases h : toZ a = toZ b
  · rw [if_pos h, if_pos (by rw [h])]
  · rw [if_neg h, if_neg]
    intro h'
    exact h (LEbytes_val_inj h').symm

theorem isNegative_z (kf : KernelFacts) (a : Fe) (ha : Fe.Inv a) :
    Fe.isNegative a = (toZ a).val % 2 := by
  unfold Fe.isNegative
  rw [bytes_z kf a ha, LEbytes_getElem! _ _ _ (by norm_num), Nat.and_one_is_mod, pow_zero,
    Nat.div_one, Nat.mod_mod_of_dvd _ (by norm_num)]

theorem absolute_z (kf : KernelFacts) (a : Fe) (ha : Fe.Inv a) :
    Fe.Inv (Fe.absolute a) ∧
      toZ (Fe.absolute a) = if (toZ a).val % 2 = 1 then - toZ a else toZ a := by
  unfold Fe.absolute
  have hneg := neg_z kf a ha
  have hsel := kf.select (Fe.neg a) a (inv_u64 hneg.1) (inv_u64 ha)
  rw [isNegative_z kf a ha]
  rcases Nat.mod_two_eq_zero_or_one (toZ a).val with h | h
  · rw [h, hsel.2, if_neg (by norm_num)]; exact ⟨ha, rfl⟩
  · rw [h, hsel.1, if_pos rfl]; exact hneg

/-! ### `setBytes`, `setWideBytes` -/

theorem setBytes_z (kf : KernelFacts) (x : Bytes) (hx : x.size = 32) (hb : IsBytes x) :
    ∃ e, Fe.setBytes x = some e ∧ Fe.Inv e ∧ toZ e = ((LE x % 2 ^ 255 : ℕ) : F) := by
  obtain ⟨e, he, h0, h1, h2, h3, h4, hv⟩ := kf.setBytes x hx hb
  exact ⟨e, he, inv_of_lt h0 h1 h2 h3 h4, by unfold toZ; rw [hv]⟩

theorem setWideBytes_z (kf : KernelFacts) (x : Bytes) (hx : x.size = 64) (hb : IsBytes x) :
    ∃ e, Fe.setWideBytes x = some e ∧ Fe.Inv e ∧ toZ e = ((LE x : ℕ) : F) := by
  obtain ⟨e, he, ht, hv⟩ := kf.setWideBytes x hx hb
  exact ⟨e, he, kf.tight_inv _ ht, toZ_of_modEq hv⟩

/-! ### the interface -/

theorem fieldFacts_of_kernelFacts (kf : KernelFacts) : FieldFacts where
  zero := zero_z kf
  one := one_z kf
  rz := rz_z
  sqrtM1 := sqrtM1_z
  add := add_z kf
  sub := sub_z kf
  neg := neg_z kf
  mul := mul_z kf
  square := square_z kf
  mult32 := mult32_z kf
  invert := invert_z kf
  pow22523 := pow22523_z kf
  select := select_z kf
  swap := swap_z kf
  bytes := bytes_z kf
  equal := equal_z kf
  isNegative := isNegative_z kf
  absolute := absolute_z kf
  setBytes := setBytes_z kf
  setBytes_len := kf.setBytes_len
  setWideBytes := setWideBytes_z kf
  setWideBytes_len := kf.setWideBytes_len

end EdVerif.Proofs
