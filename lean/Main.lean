import EdVerif.Impl.Api
/-!
Line-protocol driver of the executable model (core-only, built as the `lean_exe` `edmodel`).
Reads one operation per line on stdin, applies `Api.step`, and prints the canonical outcome and the
contents of every slot the line mentions — the same text the Go harness prints for the real code.
-/
open EdVerif.Impl EdVerif.Prims

def hexDigit (n : Nat) : Char := if n < 10 then Char.ofNat (48 + n) else Char.ofNat (87 + n)
def toHex (b : Bytes) : String :=
  if b.size == 0 then "-" else String.ofList (b.toList.flatMap fun x => [hexDigit (x / 16), hexDigit (x % 16)])

def hexVal (c : Char) : Option Nat :=
  if '0' ≤ c ∧ c ≤ '9' then some (c.toNat - 48)
  else if 'a' ≤ c ∧ c ≤ 'f' then some (c.toNat - 87)
  else if 'A' ≤ c ∧ c ≤ 'F' then some (c.toNat - 55) else none

def parseHex (s : String) : Option Bytes :=
  if s == "-" then some #[] else
  let rec go : List Char → Array Nat → Option (Array Nat)
    | [], acc => some acc
    | [_], _ => none
    | a :: b :: rest, acc => do
      let x ← hexVal a
      let y ← hexVal b
      go rest (acc.push (x * 16 + y))
  go s.toList #[]

def joinNat (xs : List Nat) : String := ",".intercalate (xs.map toString)
def fmtFe (e : Fe) : String := joinNat [e.l0, e.l1, e.l2, e.l3, e.l4]
def fmtW4 (s : W4) : String := joinNat [s.w0, s.w1, s.w2, s.w3]
def fmtP3 (p : P3) : String := ",".intercalate [fmtFe p.x, fmtFe p.y, fmtFe p.z, fmtFe p.t]
def fmtCached (c : Cached) : String := ",".intercalate [fmtFe c.YplusX, fmtFe c.YminusX, fmtFe c.Z, fmtFe c.T2d]
def fmtAffine (c : AffineCached) : String := ",".intercalate [fmtFe c.YplusX, fmtFe c.YminusX, fmtFe c.T2d]
def fmtInts (xs : Array Int) : String := ",".intercalate (xs.toList.map toString)

inductive Ty | E | S | P | B

def showSlot (σ : Store) : Ty × String → String
  | (.E, n) => n ++ "=" ++ (match σ.e[n]? with | some v => "E:" ++ fmtFe v | none => "?")
  | (.S, n) => n ++ "=" ++ (match σ.s[n]? with | some v => "S:" ++ fmtW4 v | none => "?")
  | (.P, n) => n ++ "=" ++ (match σ.p[n]? with | some v => "P:" ++ fmtP3 v | none => "?")
  | (.B, n) => n ++ "=" ++ (match σ.b[n]? with | some v => "B:" ++ toHex v | none => "?")

def mentions : Op → List (Ty × String)
  | .eNew n => [(.E, n)] | .sNew n => [(.S, n)] | .pNew n => [(.P, n)] | .bSet n _ => [(.B, n)]
  | .eLimbs n _ => [(.E, n)] | .sLimbs n _ => [(.S, n)] | .pLimbs n _ => [(.P, n)]
  | .eConst _ v => [(.E, v)]
  | .e1 _ v a => [(.E, v), (.E, a)]
  | .e2 _ v a b => [(.E, v), (.E, a), (.E, b)]
  | .eMult32 v a _ => [(.E, v), (.E, a)]
  | .eSelect v a b _ => [(.E, v), (.E, a), (.E, b)]
  | .eSwap v u _ => [(.E, v), (.E, u)]
  | .eSqrtRatio r u v => [(.E, r), (.E, u), (.E, v)]
  | .eSetBytes v b => [(.E, v), (.B, b)] | .eSetWideBytes v b => [(.E, v), (.B, b)]
  | .eBytes v out => [(.E, v), (.B, out)] | .eEqual v u => [(.E, v), (.E, u)] | .eIsNegative v => [(.E, v)]
  | .s1 _ s x => [(.S, s), (.S, x)]
  | .s2 _ s x y => [(.S, s), (.S, x), (.S, y)]
  | .sMultiplyAdd s x y z => [(.S, s), (.S, x), (.S, y), (.S, z)]
  | .sSetBytes _ s b => [(.S, s), (.B, b)]
  | .sBytes s out => [(.S, s), (.B, out)] | .sEqual s t => [(.S, s), (.S, t)]
  | .pNewIdentity v => [(.P, v)] | .pNewGenerator v => [(.P, v)] | .pSet v u => [(.P, v), (.P, u)]
  | .pSetBytes v b => [(.P, v), (.B, b)] | .pBytes v out => [(.P, v), (.B, out)]
  | .pBytesMontgomery v out => [(.P, v), (.B, out)]
  | .p1 _ v p => [(.P, v), (.P, p)]
  | .p2 _ v p q => [(.P, v), (.P, p), (.P, q)]
  | .pEqual v u => [(.P, v), (.P, u)]
  | .pExtCoords v X Y Z T => [(.P, v), (.E, X), (.E, Y), (.E, Z), (.E, T)]
  | .pSetExtCoords v X Y Z T => [(.P, v), (.E, X), (.E, Y), (.E, Z), (.E, T)]
  | .pScalarBaseMult v x => [(.P, v), (.S, x)]
  | .pScalarMult v x q => [(.P, v), (.S, x), (.P, q)]
  | .pVarTimeDouble v a A b => [(.P, v), (.S, a), (.P, A), (.S, b)]
  | .pMSM _ v xs qs => (.P, v) :: (xs.map fun x => (Ty.S, x)) ++ (qs.map fun q => (Ty.P, q))

def nats? (ws : List String) : Option (List Nat) := ws.mapM String.toNat?

def fe? : List Nat → Option Fe
  | [a, b, c, d, e] => some ⟨a, b, c, d, e⟩
  | _ => none

def parseOp (ws : List String) : Option Op :=
  match ws with
  | ["E.new", n] => some (.eNew n)
  | ["S.new", n] => some (.sNew n)
  | ["P.new", n] => some (.pNew n)
  | ["B.set", n, h] => (parseHex h).map (.bSet n)
  | "E.limbs" :: n :: ls => do let l ← nats? ls; let f ← fe? l; pure (.eLimbs n f)
  | "S.limbs" :: n :: ls => do
    match ← nats? ls with
    | [a, b, c, d] => pure (.sLimbs n ⟨a, b, c, d⟩)
    | _ => none
  | "P.limbs" :: n :: ls => do
    let l ← nats? ls
    if l.length != 20 then none else
    let x ← fe? (l.take 5); let y ← fe? ((l.drop 5).take 5); let z ← fe? ((l.drop 10).take 5); let t ← fe? (l.drop 15)
    pure (.pLimbs n ⟨x, y, z, t⟩)
  | ["E.Zero", v] => some (.eConst .zero v)
  | ["E.One", v] => some (.eConst .one v)
  | ["E.Set", v, a] => some (.e1 .set v a)
  | ["E.Negate", v, a] => some (.e1 .negate v a)
  | ["E.Square", v, a] => some (.e1 .square v a)
  | ["E.Invert", v, a] => some (.e1 .invert v a)
  | ["E.Pow22523", v, a] => some (.e1 .pow22523 v a)
  | ["E.Absolute", v, a] => some (.e1 .absolute v a)
  | ["E.Add", v, a, b] => some (.e2 .add v a b)
  | ["E.Subtract", v, a, b] => some (.e2 .subtract v a b)
  | ["E.Multiply", v, a, b] => some (.e2 .multiply v a b)
  | ["E.Mult32", v, a, y] => y.toNat?.map (.eMult32 v a)
  | ["E.Select", v, a, b, c] => c.toNat?.map (.eSelect v a b)
  | ["E.Swap", v, u, c] => c.toNat?.map (.eSwap v u)
  | ["E.SqrtRatio", r, u, v] => some (.eSqrtRatio r u v)
  | ["E.SetBytes", v, b] => some (.eSetBytes v b)
  | ["E.SetWideBytes", v, b] => some (.eSetWideBytes v b)
  | ["E.Bytes", v, out] => some (.eBytes v out)
  | ["E.Equal", v, u] => some (.eEqual v u)
  | ["E.IsNegative", v] => some (.eIsNegative v)
  | ["S.Set", s, x] => some (.s1 .set s x)
  | ["S.Negate", s, x] => some (.s1 .negate s x)
  | ["S.Invert", s, x] => some (.s1 .invert s x)
  | ["S.Add", s, x, y] => some (.s2 .add s x y)
  | ["S.Subtract", s, x, y] => some (.s2 .subtract s x y)
  | ["S.Multiply", s, x, y] => some (.s2 .multiply s x y)
  | ["S.MultiplyAdd", s, x, y, z] => some (.sMultiplyAdd s x y z)
  | ["S.SetUniformBytes", s, b] => some (.sSetBytes .uniform s b)
  | ["S.SetCanonicalBytes", s, b] => some (.sSetBytes .canonical s b)
  | ["S.SetBytesWithClamping", s, b] => some (.sSetBytes .clamping s b)
  | ["S.Bytes", s, out] => some (.sBytes s out)
  | ["S.Equal", s, t] => some (.sEqual s t)
  | ["P.NewIdentity", v] => some (.pNewIdentity v)
  | ["P.NewGenerator", v] => some (.pNewGenerator v)
  | ["P.Set", v, u] => some (.pSet v u)
  | ["P.SetBytes", v, b] => some (.pSetBytes v b)
  | ["P.Bytes", v, out] => some (.pBytes v out)
  | ["P.BytesMontgomery", v, out] => some (.pBytesMontgomery v out)
  | ["P.Negate", v, p] => some (.p1 .negate v p)
  | ["P.MultByCofactor", v, p] => some (.p1 .multByCofactor v p)
  | ["P.Add", v, p, q] => some (.p2 .add v p q)
  | ["P.Subtract", v, p, q] => some (.p2 .subtract v p q)
  | ["P.Equal", v, u] => some (.pEqual v u)
  | ["P.ExtendedCoordinates", v, X, Y, Z, T] => some (.pExtCoords v X Y Z T)
  | ["P.SetExtendedCoordinates", v, X, Y, Z, T] => some (.pSetExtCoords v X Y Z T)
  | ["P.ScalarBaseMult", v, x] => some (.pScalarBaseMult v x)
  | ["P.ScalarMult", v, x, q] => some (.pScalarMult v x q)
  | ["P.VarTimeDoubleScalarBaseMult", v, a, A, b] => some (.pVarTimeDouble v a A b)
  | "P.MultiScalarMult" :: v :: ns :: ms :: rest => do
    let n ← ns.toNat?; let m ← ms.toNat?
    if rest.length != n + m then none else pure (.pMSM false v (rest.take n) (rest.drop n))
  | "P.VarTimeMultiScalarMult" :: v :: ns :: ms :: rest => do
    let n ← ns.toNat?; let m ← ms.toNat?
    if rest.length != n + m then none else pure (.pMSM true v (rest.take n) (rest.drop n))
  | _ => none

def fmtKind : Kind → String
  | .ok => "ok" | .err => "err" | .panic c => "panic:" ++ c | .bad => "bad-op"

def fmtOutcome (o : Outcome) : String :=
  fmtKind o.kind ++ (match o.ret with | some n => " ret=" ++ toString n | none => "")

def fmtResInts : Res (Array Int) → String
  | .ok d => "ok " ++ fmtInts d
  | .err => "err"
  | .panic c => "panic:" ++ c

def dedup (xs : List (Ty × String)) : List (Ty × String) :=
  xs.foldl (fun acc x =>
    if acc.any (fun y => y.2 == x.2 && (match y.1, x.1 with
      | .E, .E => true | .S, .S => true | .P, .P => true | .B, .B => true | _, _ => false)) then acc
    else acc ++ [x]) []

/-- internal (overlay-exported) functions; they never change the store except `I.feMulGeneric`/`I.feSquareGeneric` -/
def internal (σ : Store) (ws : List String) : Option (Store × String) :=
  match ws with
  | ["I.radix16", s] => (σ.s[s]?).map fun k => (σ, fmtResInts (Scalar.signedRadix16 k))
  | ["I.naf", s, w] => do
    let k ← σ.s[s]?; let w ← w.toNat?
    pure (σ, fmtResInts (Scalar.nonAdjacentForm k w))
  | ["I.projTable", q] => (σ.p[q]?).map fun Q => (σ, "ok " ++ ";".intercalate ((Point.projTable Q).toList.map fmtCached))
  | ["I.affineTable", q] => (σ.p[q]?).map fun Q => (σ, "ok " ++ ";".intercalate ((Point.affineTable Q).toList.map fmtAffine))
  | ["I.naf5Table", q] => (σ.p[q]?).map fun Q => (σ, "ok " ++ ";".intercalate ((Point.naf5Table Q).toList.map fmtCached))
  | ["I.naf8Table", q] => (σ.p[q]?).map fun Q => (σ, "ok " ++ ";".intercalate ((Point.naf8Table Q).toList.map fmtAffine))
  | ["I.projSelect", q, x] => do
    let Q ← σ.p[q]?; let x ← x.toInt?
    pure (σ, "ok " ++ fmtCached (Point.projSelect (Point.projTable Q) x))
  | ["I.affineSelect", q, x] => do
    let Q ← σ.p[q]?; let x ← x.toInt?
    pure (σ, "ok " ++ fmtAffine (Point.affineSelect (Point.affineTable Q) x))
  | ["I.basepointTable", i] => do
    let i ← i.toNat?
    if i ≥ 32 then none else
    pure (σ, "ok " ++ ";".intercalate ((Point.basepointTable[i]!).toList.map fmtAffine))
  | ["I.basepointNafTable"] => some (σ, "ok " ++ ";".intercalate (Point.basepointNafTable.toList.map fmtAffine))
  | ["I.feMulGeneric", v, a, b] => do
    let _ ← σ.e[v]?; let x ← σ.e[a]?; let y ← σ.e[b]?
    let r := EdVerif.Gen.Field.feMulGeneric Fe.rz x y
    let σ' := { σ with e := σ.e.insert v r }
    pure (σ', "ok | " ++ " ".intercalate ((dedup [(Ty.E, v), (Ty.E, a), (Ty.E, b)]).map (showSlot σ')))
  | ["I.feSquareGeneric", v, a] => do
    let _ ← σ.e[v]?; let x ← σ.e[a]?
    let r := EdVerif.Gen.Field.feSquareGeneric Fe.rz x
    let σ' := { σ with e := σ.e.insert v r }
    pure (σ', "ok | " ++ " ".intercalate ((dedup [(Ty.E, v), (Ty.E, a)]).map (showSlot σ')))
  | _ => none

def stepLine (σ : Store) (line : String) : Store × String :=
  let ws := (line.splitOn " ").filter (· ≠ "")
  match ws with
  | [] => (σ, "")
  | w :: _ =>
    if w.endsWith ".show" then
      match ws with
      | [_, n] =>
        let r : Option String := match w with
          | "E.show" => (σ.e[n]?).map fun _ => showSlot σ (.E, n)
          | "S.show" => (σ.s[n]?).map fun _ => showSlot σ (.S, n)
          | "P.show" => (σ.p[n]?).map fun _ => showSlot σ (.P, n)
          | "B.show" => (σ.b[n]?).map fun _ => showSlot σ (.B, n)
          | _ => none
        match r with
        | some t => (σ, "ok | " ++ t)
        | none => (σ, "bad-op")
      | _ => (σ, "bad-op")
    else if w == "B.mutate" then
      match ws with
      | [_, n, h] =>
        match σ.b[n]?, parseHex h with
        | some old, some x =>
          if old.size != x.size then (σ, "bad-op") else
          let σ' := { σ with b := σ.b.insert n x }
          (σ', "ok | " ++ showSlot σ' (.B, n))
        | _, _ => (σ, "bad-op")
      | _ => (σ, "bad-op")
    else if w.startsWith "I." then
      match internal σ ws with
      | some r => r
      | none => (σ, "bad-op")
    else
      match parseOp ws with
      | none => (σ, "bad-op")
      | some op =>
        let (σ', o) := Api.step σ op
        (σ', fmtOutcome o ++ " | " ++ " ".intercalate ((dedup (mentions op)).map (showSlot σ')))

partial def loop (h : IO.FS.Stream) (out : IO.FS.Stream) (σ : Store) : IO Unit := do
  let line ← h.getLine
  if line.isEmpty then return ()
  let line := line.trimAscii.toString
  if line.isEmpty || line.startsWith "#" then
    out.putStrLn line
    loop h out σ
  else if line == "reset" then
    out.putStrLn "ok"
    loop h out {}
  else
    let (σ', s) := stepLine σ line
    out.putStrLn s
    loop h out σ'

def main : IO Unit := do
  let stdin ← IO.getStdin
  let stdout ← IO.getStdout
  loop stdin stdout {}
  stdout.flush
