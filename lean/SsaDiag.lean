import EdVerif.Ssa.Policy
import EdVerif.Gen.Ssa
/-!
# `ssadiag` — diagnostic twin of the structural theorems

Evaluates (compiled) the same checkers as `EdVerif/Props/Structural/*.lean` on `EdVerif.Gen.Ssa` and
prints, per predicate, its verdict and every offending site (function, block, instruction index,
kind, file:line).  Usage: `ssadiag [all|wf|C03|C11|C14|C15|C18|C19|labels]...`.  Exit code 1 iff some
selected predicate is false.

Lines: `PREDICATE <id> <name>=<bool> …`, `SITE <id> <status> <function> | block b instr i | <kind> | <file>:<line>`,
`ISSUE <id> <kind> <name>`; `<status>` is `violation`, or for C03 also `exempt`, `discharged-guard`, `known-finding`.
-/
open EdVerif.Ssa EdVerif.Gen.Ssa

def showSites (id status : String) (sites : List Site) : IO Unit :=
  for s in sites do
    IO.println s!"SITE {id} {status} {s.render}"

def inAllow (s : Site) (as : List Allowance) : Bool := as.any fun a => a.1 == s.fn && a.2.1 == s.kind

def diagC03 : IO Bool := do
  let allowNoKF := Policy.ctExemptions ++ Policy.ctDischargedGuards
  let ok := ctCheck prog hints Policy.ct (allowNoKF ++ Policy.ctKnownFindings)
  let exact := ctCheckExact prog hints Policy.ct allowNoKF Policy.ctKnownFindings
  IO.println s!"PREDICATE C03 ctCheck={ok} ctCheckExact={exact}"
  let sites := ctSites prog hints Policy.ct
  let over := residual sites (allowNoKF ++ Policy.ctKnownFindings)
  for s in sites do
    let status :=
      if over.any (fun a => a.1 == s.fn && a.2.1 == s.kind) then "violation"
      else if inAllow s Policy.ctKnownFindings then "known-finding"
      else if inAllow s Policy.ctDischargedGuards then "discharged-guard"
      else "exempt"
    IO.println s!"SITE C03 {status} {s.render}"
  for a in over do
    IO.println s!"ISSUE C03 excess {Nm.toString a.1} kind={Nm.toString a.2.1} count-over-allowance={a.2.2}"
  for a in residual sites allowNoKF do
    unless Policy.ctKnownFindings.any (fun k => k.1 == a.1 && k.2.1 == a.2.1 && k.2.2 == a.2.2) do
      IO.println s!"ISSUE C03 not-a-known-finding {Nm.toString a.1} kind={Nm.toString a.2.1} count={a.2.2}"
  for k in Policy.ctKnownFindings do
    unless (residual sites allowNoKF).any (fun a => k.1 == a.1 && k.2.1 == a.2.1 && k.2.2 == a.2.2) do
      IO.println s!"ISSUE C03 known-finding-not-reproduced {Nm.toString k.1} kind={Nm.toString k.2.1} count={k.2.2}"
  return ok && exact

def diagWf : IO Bool := do
  let ok := wellFormed prog hints
  IO.println s!"PREDICATE wf wellFormed={ok} hints={hints.length} funcs={prog.funcs.length}"
  showSites "wf" "violation" (allSites prog hints (wfSelector prog))
  return ok

def diagLabels : IO Bool := do
  let ok := provConsistent prog hints
  IO.println s!"PREDICATE labels provConsistent={ok}"
  showSites "labels" "violation" (allSites prog hints (provSelector prog hints))
  return ok

def missing (id : String) (names : List Nm) : IO Unit :=
  for n in missingNames prog names do
    IO.println s!"ISSUE {id} missingFunction {Nm.toString n}"

def diagC11 : IO Bool := do
  let ok := writesOnly prog hints Policy.writes
  IO.println s!"PREDICATE C11b writesOnly={ok} provConsistent={provConsistent prog hints}"
  showSites "C11b" "violation" (allSites prog hints (writesSelector prog hints Policy.writes))
  return ok

def diagC19 : IO Bool := do
  let ok := returnsFresh prog hints Policy.returns
  IO.println s!"PREDICATE C19 returnsFresh={ok} provConsistent={provConsistent prog hints}"
  showSites "C19" "violation" (allSites prog hints (returnsSelector prog hints Policy.returns))
  missing "C19" Policy.returns.fresh
  return ok

def diagC18 : IO Bool := do
  let ok := globalsDiscipline prog hints Policy.globals
  IO.println s!"PREDICATE C18 globalsDiscipline={ok} provConsistent={provConsistent prog hints}"
  showSites "C18" "violation" (allSites prog hints (globalsSelector prog hints Policy.globals))
  for p in globalsProgramIssues prog Policy.globals do
    IO.println s!"ISSUE C18 {Nm.toString p.1} {Nm.toString p.2}"
  return ok

def diagC14 : IO Bool := do
  let ok := errorPathsPure prog hints Policy.errorPaths
  IO.println s!"PREDICATE C14 errorPathsPure={ok} provConsistent={provConsistent prog hints}"
  showSites "C14" "violation" (allSites prog hints (errorPathsSelector prog hints Policy.errorPaths))
  missing "C14" Policy.errorPaths.setters
  return ok

def diagC15 : IO Bool := do
  let ok := guardDominates prog hints Policy.guards
  IO.println s!"PREDICATE C15 guardDominates={ok}"
  showSites "C15" "violation" (allSites prog hints (guardSelector prog Policy.guards))
  missing "C15" (Policy.guards.guardFn :: (Policy.guards.guarded.map (·.1) ++ Policy.guards.lengthChecked.map (·.1)))
  return ok

def main (args : List String) : IO UInt32 := do
  let want (id : String) : Bool := args.isEmpty || args.contains "all" || args.contains id
  let mut good := true
  IO.println s!"PROGRAM functions={prog.funcs.length} instructions={(prog.funcs.map (·.instrs.length)).foldl (· + ·) 0} globals={prog.globals.length}"
  if want "wf" then good := (← diagWf) && good
  if want "C03" then good := (← diagC03) && good
  if want "labels" then good := (← diagLabels) && good
  if want "C11" then good := (← diagC11) && good
  if want "C14" then good := (← diagC14) && good
  if want "C15" then good := (← diagC15) && good
  if want "C18" then good := (← diagC18) && good
  if want "C19" then good := (← diagC19) && good
  IO.println (if good then "RESULT ok" else "RESULT FAILED")
  return if good then 0 else 1
